// F7 (C13/C12): primesieve_next_prime()/primesieve_prev_prime() on a fresh primesieve_iterator when the
// allocation of the iterator's internal IteratorData fails: the catch handler of
// primesieve_generate_next_primes() calls getPrimes(it), which dereferences it->memory == NULL
// (release build: SIGSEGV; -DENABLE_ASSERT: assertion `it->memory != nullptr' failed).
// The handler also allocates (primes.push_back), so a second failing allocation lets
// std::bad_alloc escape through the extern "C" boundary (std::terminate).
// Build: g++ -O1 -I/repo/include F7_c_iterator_alloc_failure.cpp <libprimesieve.a> -lpthread
#include <primesieve.h>
#include <cerrno>
#include <cstdio>
#include <cstdlib>
#include <new>
static long armed = 0;
void* operator new(std::size_t n) { if (armed > 0 && --armed == 0) throw std::bad_alloc(); void* p = std::malloc(n); if (!p) throw std::bad_alloc(); return p; }
void operator delete(void* p) noexcept { std::free(p); }
void operator delete(void* p, std::size_t) noexcept { std::free(p); }
int main(int argc, char** argv)
{
  int k = argc > 1 ? atoi(argv[1]) : 1;
  primesieve_iterator it;
  primesieve_init(&it);
  primesieve_jump_to(&it, 1000000, UINT64_MAX);
  armed = k;                       // the k-th allocation inside the next call fails
  errno = 0;
  uint64_t v = primesieve_next_prime(&it);
  armed = 0;
  std::printf("k=%d: returned %llu is_error=%d errno==EDOM:%d\n", k, (unsigned long long) v, it.is_error, errno == EDOM);
  // contract: PRIMESIEVE_ERROR, is_error = 1, errno = EDOM; keeps failing; usable after jump_to
  int ok = v == PRIMESIEVE_ERROR && it.is_error && errno == EDOM && primesieve_next_prime(&it) == PRIMESIEVE_ERROR;
  primesieve_jump_to(&it, 100, UINT64_MAX);
  ok = ok && primesieve_next_prime(&it) == 101;
  primesieve_free_iterator(&it);
  std::printf(ok ? "OK\n" : "CONTRACT VIOLATED\n");
  return ok ? 0 : 1;
}
