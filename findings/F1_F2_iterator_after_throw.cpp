#include <primesieve.hpp>
#include <iostream>
#include <cstdint>
int main(int argc, char**argv) {
  int which = argc > 1 ? atoi(argv[1]) : 1;
  if (which == 1) {
    primesieve::iterator it(18446744073709551457ull);
    uint64_t a = it.next_prime(), b = it.next_prime(), c = it.next_prime();
    std::cout << a << " " << b << " " << c << "\n";
    try { it.next_prime(); std::cout << "no throw\n"; } catch (std::exception& e) { std::cout << "throw: " << e.what() << "\n"; }
    std::cout << "prev: " << it.prev_prime() << " (expect 18446744073709551533)\n";
    std::cout << "prev: " << it.prev_prime() << " (expect 18446744073709551521)\n";
    std::cout << "next: " << it.next_prime() << " (expect 18446744073709551533)\n";
  } else {
    primesieve::iterator it(18446744073709551615ull - 10);
    try { it.next_prime(); std::cout << "no throw\n"; } catch (std::exception& e) { std::cout << "throw: " << e.what() << "\n"; }
    std::cout << "prev: " << it.prev_prime() << " (expect 18446744073709551557)\n";
  }
}
