// psv_alloc — allocation-fault and memory-ledger harness (separate binary: it replaces the global
// operator new/delete, which the main correspondence harness must not do).
//
//   psv_alloc fiter  <ops>    C++ iterator histories with armed allocation failures
//   psv_alloc fiterc <ops>    the same for the C iterator
//   psv_alloc wl     <ops>    `wl <workload> <k>`: run a workload, fail its k-th allocation (0 = none)
//   psv_alloc mem    <ops>    `mem <workload> <start> <len> <kib> <threads>`: peak heap bytes
//
// Every `operator new` of the process goes through the ledger below (count, live bytes, peak);
// when armed, the k-th allocation from now throws std::bad_alloc once.

#include <primesieve.hpp>
#include <primesieve.h>
#include <primesieve/IteratorHelper.hpp>
#include <primesieve/PrimeGenerator.hpp>
#include <primesieve/primesieve_error.hpp>

#include <algorithm>
#include <atomic>
#include <cerrno>
#include <cstdint>
#include <cstdio>
#include <cstdlib>
#include <cstring>
#include <fstream>
#include <iostream>
#include <new>
#include <sstream>
#include <string>
#include <vector>

bool isPrimeOracle(uint64_t n);
void oracleRange(uint64_t lo, uint64_t hi, std::vector<char>& out);

namespace ledger {
std::atomic<long long> count{0}, live{0}, peak{0}, armed{0}, fired{0};
std::atomic<bool> window{false};   // failures are only injected while a library call is running
inline void* alloc(std::size_t n)
{
  long long c = ++count;
  (void) c;
  long long a = armed.load();
  if (a > 0 && window.load() && armed.fetch_sub(1) == 1) { fired++; throw std::bad_alloc(); }
  void* p = std::malloc(n + 16);
  if (!p) throw std::bad_alloc();
  *(std::size_t*) p = n;
  long long l = (live += (long long) n);
  long long pk = peak.load();
  while (l > pk && !peak.compare_exchange_weak(pk, l)) { }
  return (char*) p + 16;
}
inline void release(void* p) noexcept
{
  if (!p) return;
  char* b = (char*) p - 16;
  live -= (long long) *(std::size_t*) b;
  std::free(b);
}
void arm(long long k) { armed = k; fired = 0; }
struct Window { Window() { window = true; } ~Window() { window = false; } };
void disarm() { armed = 0; }
void resetPeak() { peak = live.load(); }
}

void* operator new(std::size_t n) { return ledger::alloc(n); }
void* operator new[](std::size_t n) { return ledger::alloc(n); }
void* operator new(std::size_t n, const std::nothrow_t&) noexcept { try { return ledger::alloc(n); } catch (...) { return nullptr; } }
void* operator new[](std::size_t n, const std::nothrow_t&) noexcept { try { return ledger::alloc(n); } catch (...) { return nullptr; } }
void operator delete(void* p) noexcept { ledger::release(p); }
void operator delete[](void* p) noexcept { ledger::release(p); }
void operator delete(void* p, std::size_t) noexcept { ledger::release(p); }
void operator delete[](void* p, std::size_t) noexcept { ledger::release(p); }

struct primesieve_verif_probe { };

namespace {

typedef unsigned long long ull;
using primesieve::IteratorData;

std::vector<std::string> split(const std::string& s)
{
  std::vector<std::string> v; std::istringstream is(s); std::string t;
  while (is >> t) v.push_back(t);
  return v;
}
uint64_t u64(const std::string& s) { return strtoull(s.c_str(), nullptr, 10); }

std::string errClass(const std::exception& e)
{
  if (dynamic_cast<const std::bad_alloc*>(&e)) return "badAlloc";
  std::string w = e.what();
  if (w.find("> 2^64") != std::string::npos) return "overflow";
  return "invalid";
}

std::string iterState(const primesieve::iterator& it)
{
  std::ostringstream o;
  ull stop = it.start_, dist = 0; int incl = 1, gen = 0;
  if (it.memory_)
  {
    auto& d = *(IteratorData*) it.memory_;
    stop = d.stop; dist = d.dist; incl = d.include_start_number; gen = d.primeGenerator != nullptr;
  }
  o << "i=" << it.i_ << " size=" << it.size_ << " start=" << it.start_ << " stop=" << stop << " dist=" << dist
    << " incl=" << incl << " gen=" << gen;
  if (it.size_ > 0) o << " b0=" << it.primes_[0] << " bl=" << it.primes_[it.size_ - 1];
  else o << " b0=- bl=-";
  return o.str();
}

// cursor oracle (same as in psv_harness.cpp)
struct CursorOracle
{
  bool fresh = true, incl = true; uint64_t pos = 0, last = 0;
  void jump(uint64_t s, bool inclusive) { fresh = true; incl = inclusive; pos = s; }
  std::string next(uint64_t v)
  {
    uint64_t lower = fresh ? (incl ? pos : pos + 1) : last + 1;
    if (v < lower || !isPrimeOracle(v) || v - lower > 5000) return "next-returned-" + std::to_string(v) + "-expected-prime>=" + std::to_string(lower);
    for (uint64_t x = lower; x < v; x++) if (isPrimeOracle(x)) return "next-skipped-prime-" + std::to_string(x);
    fresh = false; last = v; return "";
  }
  std::string prev(uint64_t v)
  {
    bool none = false; uint64_t upper = 0;
    if (fresh) { upper = pos; if (!incl) { if (pos == 0) none = true; else upper = pos - 1; } }
    else { if (last == 0) none = true; else upper = last - 1; }
    if (none) { fresh = false; last = 0; return v == 0 ? "" : "prev-expected-0"; }
    if (v == 0) { for (uint64_t x = 0; x <= upper && x < 5000; x++) if (isPrimeOracle(x)) return "prev-returned-0"; if (upper >= 5000) return "prev-returned-0"; fresh = false; last = 0; return ""; }
    if (v > upper || !isPrimeOracle(v) || upper - v > 5000) return "prev-returned-" + std::to_string(v) + "-expected-prime<=" + std::to_string(upper);
    for (uint64_t x = v + 1; x <= upper; x++) if (isPrimeOracle(x)) return "prev-skipped-prime-" + std::to_string(x);
    fresh = false; last = v; return "";
  }
};

// ---------------------------------------------------------------------------
// fiter: C++ iterator histories with allocation faults
//   new <s> <h> | next [n] | prev [n] | jump <s> <h> | clear | arm <k> | disarm
// each next/prev line reports f=<1 if an allocation failed during this call>
// ---------------------------------------------------------------------------
int streamFIter(std::istream& in)
{
  std::unique_ptr<primesieve::iterator> it(new primesieve::iterator());
  CursorOracle orc;
  std::string line;
  while (std::getline(in, line))
  {
    auto t = split(line);
    if (t.empty() || t[0][0] == '#') continue;
    if (t[0] == "arm") { ledger::arm(atoll(t[1].c_str())); std::cout << line << " => armed\n"; }
    else if (t[0] == "disarm") { ledger::disarm(); std::cout << line << " => disarmed\n"; }
    else if (t[0] == "new")
    {
      ledger::disarm();
      it.reset(new primesieve::iterator(u64(t[1]), u64(t[2])));
      orc = CursorOracle(); orc.jump(u64(t[1]), true);
      std::cout << "new " << t[1] << " " << t[2] << " => " << iterState(*it) << "\n";
    }
    else if (t[0] == "next" || t[0] == "prev")
    {
      long n = t.size() > 1 ? atol(t[1].c_str()) : 1;
      for (long j = 0; j < n; j++)
      {
        long long f0 = ledger::fired;
        std::string res, bad;
        try
        {
          uint64_t v;
          { ledger::Window w; v = (t[0] == "next") ? it->next_prime() : it->prev_prime(); }
          res = "v=" + std::to_string(v);
          bad = (t[0] == "next") ? orc.next(v) : orc.prev(v);
        }
        catch (const std::exception& e)
        {
          res = "v=ERR:" + errClass(e);
          // a failed call must leave the cursor where it was: the oracle is not advanced
          if (errClass(e) != "badAlloc") bad = "";
        }
        int f = ledger::fired > f0;
        std::cout << t[0] << " f=" << f << " k=" << it->size_ << " => " << res << " " << iterState(*it)
                  << (bad.empty() ? "" : " ORACLE-MISMATCH " + bad) << "\n";
      }
    }
    else if (t[0] == "jump")
    {
      it->jump_to(u64(t[1]), u64(t[2])); orc.jump(u64(t[1]), true);
      std::cout << "jump " << t[1] << " " << t[2] << " => " << iterState(*it) << "\n";
    }
    else if (t[0] == "clear")
    {
      it->clear(); orc.jump(0, true);
      std::cout << "clear => " << iterState(*it) << "\n";
    }
    else { std::cerr << "bad op: " << line << "\n"; return 2; }
  }
  ledger::disarm();
  it.reset();
  return 0;
}

// ---------------------------------------------------------------------------
// wl: one workload with the k-th allocation failing.  Prints
//   allocs=<number of allocations of the undisturbed workload or up to the failure>
//   outcome=<ok|bad_alloc|ps_error|c_error> value-ok=<0|1> retry-ok=<0|1> leak=<bytes>
// value-ok: the result (when one was returned) equals the independent expectation;
// retry-ok: the same objects used again after the failure give correct results.
// ---------------------------------------------------------------------------
uint64_t naiveCount(uint64_t a, uint64_t b)
{
  std::vector<char> isP; oracleRange(a, b, isP);
  uint64_t c = 0; for (char x : isP) c += x;
  return c;
}

struct WlResult { std::string outcome = "ok"; bool valueOk = true, retryOk = true; };

template <typename F> void guarded(WlResult& r, F f)
{
  ledger::Window w;
  try { f(); }
  catch (const std::bad_alloc&) { r.outcome = "bad_alloc"; }
  catch (const primesieve::primesieve_error&) { r.outcome = "ps_error"; }
  catch (const std::exception&) { r.outcome = "other_exception"; }
}

WlResult runWorkload(const std::string& name, long long k)
{
  WlResult r;
  const uint64_t A = 1000000000ull, B = A + 3000000;
  static uint64_t expCount = 0;
  if (!expCount) expCount = naiveCount(A, B);
  if (name == "iterfwd" || name == "iterbwd")
  {
    bool fwd = name == "iterfwd";
    primesieve::iterator it(fwd ? 1000000 : 5000000);
    CursorOracle orc; orc.jump(fwd ? 1000000 : 5000000, true);
    ledger::arm(k);
    int failures = 0;
    for (int i = 0; i < 6000 && r.valueOk; i++)
    {
      try
      {
        uint64_t v;
        { ledger::Window w; v = fwd ? it.next_prime() : it.prev_prime(); }
        if (!(fwd ? orc.next(v) : orc.prev(v)).empty()) r.valueOk = false;
      }
      catch (const std::bad_alloc&) { r.outcome = "bad_alloc"; failures++; if (failures > 3) break; }
      catch (const std::exception&) { r.outcome = "ps_error"; failures++; if (failures > 3) break; }
    }
    ledger::disarm();
    // resettable and usable after the failure
    guarded(r, [&] { it.jump_to(100); if (it.next_prime() != 101 || it.prev_prime() != 97) r.retryOk = false; it.clear(); if (it.next_prime() != 2) r.retryOk = false; });
  }
  else if (name == "citer")
  {
    primesieve_iterator it; primesieve_init(&it); primesieve_jump_to(&it, 1000000, UINT64_MAX);
    CursorOracle orc; orc.jump(1000000, true);
    ledger::arm(k);
    try
    {
      for (int i = 0; i < 4000 && r.valueOk; i++)
      {
        errno = 0;
        uint64_t v;
        { ledger::Window w; v = (i % 1500 < 1200) ? primesieve_next_prime(&it) : primesieve_prev_prime(&it); }
        if (it.is_error) { r.outcome = "c_error"; if (v != PRIMESIEVE_ERROR || errno != EDOM) r.valueOk = false; break; }
        if (!((i % 1500 < 1200) ? orc.next(v) : orc.prev(v)).empty()) r.valueOk = false;
      }
    }
    catch (...) { r.outcome = "exception-crossed-C-boundary"; r.valueOk = false; }
    ledger::disarm();
    try { primesieve_jump_to(&it, 100, UINT64_MAX); if (primesieve_next_prime(&it) != 101) r.retryOk = false; }
    catch (...) { r.retryOk = false; }
    primesieve_free_iterator(&it);
  }
  else if (name == "count1" || name == "countN" || name == "twinsN")
  {
    primesieve::set_num_threads(name == "count1" ? 1 : 4);
    primesieve::set_sieve_size(16);
    uint64_t c = 0;
    ledger::arm(k);
    guarded(r, [&] { c = name == "twinsN" ? primesieve::count_twins(A, A + 40000000ull) : primesieve::count_primes(A, name == "count1" ? B : A + 40000000ull); });
    ledger::disarm();
    static uint64_t expN = 0, expT = 0;
    if (r.outcome == "ok")
    {
      if (name == "count1") r.valueOk = c == expCount;
      else if (name == "countN") { if (!expN) expN = naiveCount(A, A + 40000000ull); r.valueOk = c == expN; }
      else { if (!expT) { std::vector<char> isP; oracleRange(A, A + 40000000ull, isP); for (size_t i = 0; i + 2 < isP.size(); i++) expT += isP[i] && isP[i + 2]; } r.valueOk = c == expT; }
    }
    guarded(r, [&] { if (primesieve::count_primes(A, B) != expCount) r.retryOk = false; });
  }
  else if (name == "ccount")
  {
    primesieve::set_num_threads(2); primesieve::set_sieve_size(16);
    ledger::arm(k);
    errno = 0;
    uint64_t c = 0;
    try { ledger::Window w; c = primesieve_count_primes(A, B); } catch (...) { r.outcome = "exception-crossed-C-boundary"; r.valueOk = false; }
    ledger::disarm();
    if (c == PRIMESIEVE_ERROR || errno == EDOM) { r.outcome = "c_error"; r.valueOk = c == PRIMESIEVE_ERROR && errno == EDOM; }
    else r.valueOk = c == expCount;
    if (primesieve_count_primes(A, B) != expCount) r.retryOk = false;
  }
  else if (name == "gp" || name == "gn")
  {
    std::vector<uint64_t> v; v.push_back(7);
    ledger::arm(k);
    guarded(r, [&] { if (name == "gp") primesieve::generate_primes(A, A + 300000, &v); else primesieve::generate_n_primes(20000, A, &v); });
    ledger::disarm();
    // whatever was appended must be an exact prefix of the requested primes
    if (v.empty() || v[0] != 7) r.valueOk = false;
    uint64_t x = A;
    for (size_t i = 1; i < v.size() && r.valueOk; i++) { while (!isPrimeOracle(x)) x++; if (v[i] != x) r.valueOk = false; x++; }
    if (r.outcome == "ok")
    {
      if (name == "gn") r.valueOk = r.valueOk && v.size() == 20001;
      else { while (x <= A + 300000) { if (isPrimeOracle(x)) { r.valueOk = false; break; } x++; } }
    }
    std::vector<uint32_t> w;
    guarded(r, [&] { primesieve::generate_primes(0, 100, &w); });
    if (w.size() != 25) r.retryOk = false;
  }
  else if (name == "cgp")
  {
    size_t size = 0;
    ledger::arm(k);
    errno = 0;
    void* p = nullptr;
    try { ledger::Window w; p = primesieve_generate_primes(A, A + 300000, &size, UINT64_PRIMES); } catch (...) { r.outcome = "exception-crossed-C-boundary"; r.valueOk = false; }
    ledger::disarm();
    if (!p) { r.outcome = "c_error"; r.valueOk = errno == EDOM && size == 0; }
    else
    {
      uint64_t* a = (uint64_t*) p; uint64_t x = A;
      for (size_t i = 0; i < size && r.valueOk; i++) { while (!isPrimeOracle(x)) x++; if (a[i] != x) r.valueOk = false; x++; }
      primesieve_free(p);
    }
  }
  else if (name == "nth")
  {
    primesieve::set_num_threads(2); primesieve::set_sieve_size(16);
    uint64_t v = 0;
    ledger::arm(k);
    guarded(r, [&] { v = primesieve::nth_prime(200000, A); });
    ledger::disarm();
    static uint64_t exp = 0;
    if (!exp) { uint64_t x = A + 1; long c = 0; while (true) { if (isPrimeOracle(x) && ++c == 200000) break; x++; } exp = x; }
    if (r.outcome == "ok") r.valueOk = v == exp;
    guarded(r, [&] { if (primesieve::nth_prime(10, 0) != 29) r.retryOk = false; });
  }
  else if (name == "print")
  {
    std::ostringstream cap; auto* old = std::cout.rdbuf(cap.rdbuf());
    ledger::arm(k);
    guarded(r, [&] { primesieve::print_primes(A, A + 200000); });
    ledger::disarm();
    std::cout.rdbuf(old);
  }
  else r.outcome = "unknown-workload";
  return r;
}

int streamWl(std::istream& in)
{
  std::string line;
  while (std::getline(in, line))
  {
    auto t = split(line);
    if (t.empty() || t[0][0] == '#') continue;
    if (t[0] != "wl" || t.size() < 3) { std::cerr << "bad op: " << line << "\n"; return 2; }
    long long k = atoll(t[2].c_str());
    long long live0 = ledger::live, c0 = ledger::count;
    ledger::fired = 0;
    WlResult r = runWorkload(t[1], k);
    long long allocs = ledger::count - c0, leak = ledger::live - live0;
    bool fired = ledger::fired > 0;
    std::cout << line << " => fired=" << (fired ? 1 : 0) << " outcome=" << r.outcome << " value-ok=" << r.valueOk << " retry-ok=" << r.retryOk
              << " leak=" << leak << " allocs=" << (k == 0 ? allocs : 0);
    // property: an injected failure is reported (exception / error return), never a wrong value,
    // never a leak, and the objects stay usable
    std::string bad;
    if (!r.valueOk) bad = "wrong-value-or-broken-error-contract";
    else if (!r.retryOk) bad = "object-unusable-or-wrong-after-failure";
    else if (leak > 0) bad = "leak";
    else if (r.outcome == "other_exception" || r.outcome == "exception-crossed-C-boundary" || r.outcome == "unknown-workload") bad = r.outcome;
    else if (fired && r.outcome == "ok" && t[1] != "iterfwd" && t[1] != "iterbwd" && t[1] != "citer" && t[1] != "print" && false) bad = "failure-swallowed";
    if (!bad.empty()) std::cout << " ORACLE-MISMATCH " << bad;
    std::cout << "\n";
  }
  return 0;
}

// ---------------------------------------------------------------------------
// mem: peak heap bytes of a workload
//   mem <workload> <start> <len> <kib> <threads>
// ---------------------------------------------------------------------------
int streamMem(std::istream& in)
{
  std::string line;
  while (std::getline(in, line))
  {
    auto t = split(line);
    if (t.empty() || t[0][0] == '#') continue;
    if (t[0] != "mem" || t.size() < 6) { std::cerr << "bad op: " << line << "\n"; return 2; }
    uint64_t start = u64(t[2]), len = u64(t[3]);
    primesieve::set_sieve_size(atoi(t[4].c_str()));
    primesieve::set_num_threads(atoi(t[5].c_str()));
    long long live0 = ledger::live;
    ledger::resetPeak();
    long long afterClear = -1, maxBuf = 0;
    uint64_t chk = 0;
    if (t[1] == "count") chk = primesieve::count_primes(start, start + len);
    else if (t[1] == "iterfwd" || t[1] == "iterbwd")
    {
      bool fwd = t[1] == "iterfwd";
      {
        primesieve::iterator it(fwd ? start : start + len);
        uint64_t v = 0;
        if (fwd) { while ((v = it.next_prime()) <= start + len) { chk++; maxBuf = std::max<long long>(maxBuf, it.size_); } }
        else { while ((v = it.prev_prime()) >= start && v != 0) chk++; }
        it.clear();
        afterClear = ledger::live - live0;
      }
    }
    else if (t[1] == "iterzig" || t[1] == "citerzig")
    {
      // zig-zag around one position: `len` cycles of (a few next_prime, a few more prev_prime): every cycle switches
      // direction twice, the consumption of primes grows with len while the position stays put
      if (t[1] == "iterzig")
      {
        primesieve::iterator it(start);
        for (uint64_t c = 0; c < len; c++)
        {
          for (int j = 0; j < 3; j++) { it.next_prime(); chk++; }
          for (int j = 0; j < 3; j++) { it.prev_prime(); chk++; }
        }
        it.clear();
        afterClear = ledger::live - live0;
      }
      else
      {
        primesieve_iterator it; primesieve_init(&it); primesieve_jump_to(&it, start, UINT64_MAX);
        for (uint64_t c = 0; c < len; c++)
        {
          for (int j = 0; j < 3; j++) { primesieve_next_prime(&it); chk++; }
          for (int j = 0; j < 3; j++) { primesieve_prev_prime(&it); chk++; }
        }
        primesieve_clear(&it);
        afterClear = ledger::live - live0;
        primesieve_free_iterator(&it);
      }
    }
    else if (t[1] == "citerfwd")
    {
      primesieve_iterator it; primesieve_init(&it); primesieve_jump_to(&it, start, UINT64_MAX);
      while (primesieve_next_prime(&it) <= start + len) chk++;
      primesieve_clear(&it);
      afterClear = ledger::live - live0;
      primesieve_free_iterator(&it);
    }
    else { std::cerr << "bad workload: " << line << "\n"; return 2; }
    long long peak = ledger::peak - live0, leak = ledger::live - live0;
    std::cout << line << " => peak=" << peak << " after-clear=" << afterClear << " max-fwd-buffer=" << maxBuf << " leak=" << leak << " chk=" << chk;
    if (leak > 0) std::cout << " ORACLE-MISMATCH leak";
    else if (afterClear > 2048) std::cout << " ORACLE-MISMATCH clear()-keeps-more-than-2KiB";
    else if (maxBuf > 1024) std::cout << " ORACLE-MISMATCH forward-buffer>1024-primes";
    std::cout << "\n";
  }
  return 0;
}

} // namespace

int main(int argc, char** argv)
{
  if (argc < 3) { std::cerr << "usage: psv_alloc <stream> <opsfile>\n"; return 2; }
  std::string stream = argv[1];
  std::ifstream in(argv[2]);
  if (!in) { std::cerr << "cannot open " << argv[2] << "\n"; return 2; }
  if (stream == "fiter") return streamFIter(in);
  if (stream == "wl") return streamWl(in);
  if (stream == "mem") return streamMem(in);
  std::cerr << "unknown stream " << stream << "\n";
  return 2;
}
