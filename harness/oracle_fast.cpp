// Independent oracle for the correspondence harness (compiled -O2 without sanitizers):
// deterministic Miller-Rabin for 64-bit numbers and a plain (wheel-free, odd-only) segmented
// sieve.  Shares no code and no algorithmic idea beyond "sieve of Eratosthenes" with primesieve.
#include <cstdint>
#include <vector>
#include <cmath>

static uint64_t mulmod(uint64_t a, uint64_t b, uint64_t m) { return (uint64_t) ((unsigned __int128) a * b % m); }
static uint64_t powmod(uint64_t a, uint64_t e, uint64_t m)
{
  uint64_t r = 1; a %= m;
  while (e) { if (e & 1) r = mulmod(r, a, m); a = mulmod(a, a, m); e >>= 1; }
  return r;
}

bool isPrimeOracle(uint64_t n)
{
  static const uint64_t sp[] = { 2, 3, 5, 7, 11, 13, 17, 19, 23, 29, 31, 37 };
  if (n < 2) return false;
  for (uint64_t p : sp) { if (n == p) return true; if (n % p == 0) return false; }
  uint64_t d = n - 1; int s = 0;
  while ((d & 1) == 0) { d >>= 1; s++; }
  for (uint64_t a : sp)
  {
    uint64_t x = powmod(a, d, n);
    if (x == 1 || x == n - 1) continue;
    bool comp = true;
    for (int i = 1; i < s; i++) { x = mulmod(x, x, n); if (x == n - 1) { comp = false; break; } }
    if (comp) return false;
  }
  return true;
}

// out[i] = 1 iff lo + i is prime, for lo <= lo + i <= hi (hi - lo < 2^31)
void oracleRange(uint64_t lo, uint64_t hi, std::vector<char>& out)
{
  out.assign(hi - lo + 1, 1);
  if (hi >= 200000000000000ull)
  {
    for (uint64_t n = lo; ; n++) { out[n - lo] = isPrimeOracle(n); if (n == hi) break; }
    return;
  }
  uint64_t r = (uint64_t) std::sqrt((double) hi) + 2;
  while (r * r > hi) r--;
  std::vector<char> base(r + 1, 1);
  for (uint64_t i = 2; i <= r; i++)
  {
    if (!base[i]) continue;
    for (uint64_t j = i * i; j <= r; j += i) base[j] = 0;
    uint64_t first = (lo + i - 1) / i * i;
    if (first < i * i) first = i * i;
    for (uint64_t m = first; m <= hi; m += i) out[m - lo] = 0;
  }
  for (uint64_t n = lo; n <= hi && n < 2; n++) out[n - lo] = 0;
}
