// psv_harness — correspondence harness for the Lean model of primesieve.
//
// Usage: psv_harness <stream> <opsfile>
// Reads one operation per line from <opsfile>, executes it against the real
// library (linked from a fresh build of /repo's working tree, built with
// -DPRIMESIEVE_VERIF -DENABLE_ASSERT and ASan/UBSan) and prints one line
//     <operation incl. observed nondeterminism> => <canonical observation>
// per executed operation.  The Lean driver (psv_model) reads exactly these
// lines, re-computes the observation from the model and prints lines of the
// same shape; the orchestrator diffs both outputs.
//
// The "observed nondeterminism" (e.g. k=<block length> of a refill) is the
// part of the behaviour the model deliberately leaves open.

#include <primesieve.hpp>
#include <primesieve.h>
#include <primesieve/IteratorHelper.hpp>
#include <primesieve/PrimeGenerator.hpp>

#include <cerrno>
#include <cstdint>
#include <cstdio>
#include <cstdlib>
#include <cstring>
#include <exception>
#include <fstream>
#include <iostream>
#include <memory>
#include <new>
#include <sstream>
#include <string>
#include <vector>

using primesieve::IteratorData;

namespace {

typedef unsigned long long ull;

std::string errClass(const std::exception& e)
{
  if (dynamic_cast<const std::bad_alloc*>(&e))
    return "badAlloc";
  std::string w = e.what();
  if (w.find("> 2^64") != std::string::npos)
    return "overflow";
  return "invalid";
}

std::vector<std::string> split(const std::string& s)
{
  std::vector<std::string> v;
  std::istringstream is(s);
  std::string t;
  while (is >> t)
    v.push_back(t);
  return v;
}

uint64_t u64(const std::string& s)
{
  return strtoull(s.c_str(), nullptr, 10);
}

// ---------------------------------------------------------------------------
// stream "iter": histories on one primesieve::iterator (C++ API)
// ---------------------------------------------------------------------------

std::string iterState(const primesieve::iterator& it)
{
  std::ostringstream o;
  ull stop = it.start_, dist = 0;
  int incl = 1, gen = 0;
  if (it.memory_)
  {
    auto& d = *(IteratorData*) it.memory_;
    stop = d.stop;
    dist = d.dist;
    incl = d.include_start_number;
    gen = d.primeGenerator != nullptr;
  }
  o << "i=" << it.i_ << " size=" << it.size_ << " start=" << it.start_
    << " stop=" << stop << " dist=" << dist << " incl=" << incl << " gen=" << gen;
  if (it.size_ > 0)
    o << " b0=" << it.primes_[0] << " bl=" << it.primes_[it.size_ - 1];
  else
    o << " b0=- bl=-";
  return o.str();
}

int streamIter(std::istream& in)
{
  std::unique_ptr<primesieve::iterator> it(new primesieve::iterator());
  std::string line;
  while (std::getline(in, line))
  {
    auto t = split(line);
    if (t.empty() || t[0][0] == '#')
      continue;
    if (t[0] == "new")
    {
      it.reset(new primesieve::iterator(u64(t[1]), u64(t[2])));
      std::cout << "new " << t[1] << " " << t[2] << " => " << iterState(*it) << "\n";
    }
    else if (t[0] == "next" || t[0] == "prev")
    {
      long n = t.size() > 1 ? atol(t[1].c_str()) : 1;
      for (long j = 0; j < n; j++)
      {
        std::string res;
        try
        {
          uint64_t v = (t[0] == "next") ? it->next_prime() : it->prev_prime();
          res = "v=" + std::to_string(v);
        }
        catch (const std::exception& e)
        {
          res = "v=ERR:" + errClass(e);
        }
        // k = block length of the buffer the iterator now holds (used by the
        // model only if this call refilled the buffer going forwards)
        std::cout << t[0] << " k=" << it->size_ << " => " << res << " " << iterState(*it) << "\n";
      }
    }
    else if (t[0] == "jump")
    {
      it->jump_to(u64(t[1]), u64(t[2]));
      std::cout << "jump " << t[1] << " " << t[2] << " => " << iterState(*it) << "\n";
    }
    else if (t[0] == "clear")
    {
      it->clear();
      std::cout << "clear => " << iterState(*it) << "\n";
    }
    else if (t[0] == "movein")
    {
      // move construction: continue with the new object
      std::unique_ptr<primesieve::iterator> b(new primesieve::iterator(std::move(*it)));
      it = std::move(b);
      std::cout << "movein => " << iterState(*it) << "\n";
    }
    else if (t[0] == "moveassign")
    {
      // move assignment into a used iterator: continue with the target
      std::unique_ptr<primesieve::iterator> b(new primesieve::iterator(1000, 2000));
      b->next_prime();
      *b = std::move(*it);
      it = std::move(b);
      std::cout << "movein => " << iterState(*it) << "\n";
    }
    else if (t[0] == "moveout")
    {
      // continue with the moved-from object
      primesieve::iterator b(std::move(*it));
      b.next_prime();
      std::cout << "moveout => " << iterState(*it) << "\n";
    }
    else if (t[0] == "selfmove")
    {
      primesieve::iterator& r = *it;
      *it = std::move(r);
      std::cout << "movein => " << iterState(*it) << "\n";
    }
    else
    {
      std::cerr << "bad op: " << line << "\n";
      return 2;
    }
  }
  return 0;
}

} // namespace

int main(int argc, char** argv)
{
  if (argc < 3)
  {
    std::cerr << "usage: psv_harness <stream> <opsfile>\n";
    return 2;
  }
  std::string stream = argv[1];
  std::ifstream in(argv[2]);
  if (!in)
  {
    std::cerr << "cannot open " << argv[2] << "\n";
    return 2;
  }
  std::ios::sync_with_stdio(false);
  if (stream == "iter")
    return streamIter(in);
  std::cerr << "unknown stream " << stream << "\n";
  return 2;
}
