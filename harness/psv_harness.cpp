// psv_harness — correspondence harness for the Lean model of primesieve.
//
// Usage: psv_harness <stream> <opsfile>
// Reads one operation per line from <opsfile>, executes it against the real
// library (linked from a fresh build of /repo's working tree, built with
// -DPRIMESIEVE_VERIF -DENABLE_ASSERT and ASan/UBSan) and prints one line
//     <operation incl. observed nondeterminism> => <canonical observation>
// per executed operation.  The Lean driver (psv_model) reads exactly these
// lines, re-computes the observation from the model and prints lines of the
// same shape; the orchestrator diffs both outputs.
//
// The "observed nondeterminism" (e.g. k=<block length> of a refill) is the
// part of the behaviour the model deliberately leaves open.

#include <primesieve.hpp>
#include <primesieve.h>
#include <primesieve/IteratorHelper.hpp>
#include <primesieve/PrimeGenerator.hpp>
#include <primesieve/Erat.hpp>
#include <primesieve/primesieve_error.hpp>
#include <primesieve/ParallelSieve.hpp>
#include <primesieve/PrimeSieve.hpp>
#include <primesieve/CpuInfo.hpp>
#include <algorithm>
#include <mutex>
#include <thread>
#include <primesieve/Vector.hpp>
#include <primesieve/calculator.hpp>
#include <primesieve/EratSmall.hpp>
#include <primesieve/EratMedium.hpp>
#include <primesieve/EratBig.hpp>
#include <primesieve/MemoryPool.hpp>
#include <primesieve/Wheel.hpp>
#include <primesieve/PreSieve.hpp>
#include <sys/wait.h>
#include <csignal>
#include <unistd.h>
#include <sanitizer/common_interface_defs.h>

#include <cerrno>
#include <cstdint>
#include <cstdio>
#include <cstdlib>
#include <cstring>
#include <exception>
#include <fstream>
#include <iostream>
#include <memory>
#include <new>
#include <sstream>
#include <string>
#include <vector>

using primesieve::IteratorData;

// Friend of the library classes when built with -DPRIMESIEVE_VERIF (hook H0).
struct primesieve_verif_probe
{
  // ---- PrimeGenerator / Erat: sieve one segment at a time --------------------------------
  static bool pgSieveNext(primesieve::PrimeGenerator& pg, primesieve::Vector<uint64_t>& primes, std::size_t* size)
  { return pg.sieveNextPrimes(primes, size); }
  static uint64_t low(const primesieve::PrimeGenerator& pg) { return pg.low_; }
  static uint64_t segLow(const primesieve::PrimeGenerator& pg) { return pg.segmentLow_; }
  static uint64_t segHigh(const primesieve::PrimeGenerator& pg) { return pg.segmentHigh_; }
  static const primesieve::Vector<uint8_t>& sieve(const primesieve::PrimeGenerator& pg) { return pg.sieve_; }
  static uint64_t pendingPrime(const primesieve::PrimeGenerator& pg) { return pg.prime_; }
  static uint64_t nextSievingPrime(primesieve::PrimeGenerator& pg) { return pg.sievingPrimes_.next(); }
  static const primesieve::Vector<bool>& tinyTable(const primesieve::PrimeGenerator& pg) { return pg.sievingPrimes_.tinySieve_; }
  static uint64_t maxSmall(const primesieve::PrimeGenerator& pg) { return pg.maxEratSmall_; }
  static uint64_t maxMedium(const primesieve::PrimeGenerator& pg) { return pg.maxEratMedium_; }
  static void setSieveIdxDone(primesieve::PrimeGenerator& pg) { pg.sieveIdx_ = pg.sieve_.size(); }
  static uint64_t l1CacheSize() { return primesieve::Erat::getL1CacheSize(); }
  static uint64_t threadDistance(const primesieve::ParallelSieve& ps, int threads) { return ps.getThreadDistance(threads); }
  // overwrite the cache description of the (const) singleton: the accessors live in another
  // translation unit, so they re-read the fields on every call
  static void pokeCpu(uint64_t l1, uint64_t l2, uint64_t s2, uint64_t s3)
  {
    auto& c = const_cast<primesieve::CpuInfo&>(primesieve::cpuInfo);
    c.cacheSizes_[1] = l1; c.cacheSizes_[2] = l2; c.cacheSharing_[2] = s2; c.cacheSharing_[3] = s3;
  }
  static void readCpu(uint64_t v[4])
  {
    auto& c = primesieve::cpuInfo;
    v[0] = c.cacheSizes_[1]; v[1] = c.cacheSizes_[2]; v[2] = c.cacheSharing_[2]; v[3] = c.cacheSharing_[3];
  }
};

extern uint64_t (*primesieve_verif_nth_approx)(uint64_t);
extern uint64_t primesieve_verif_min_thread_distance;
extern bool primesieve_verif_ignore_sqrt_threshold;
extern void (*primesieve_verif_piece_hook)(uint64_t i, uint64_t start, uint64_t stop);
bool isPrimeOracle(uint64_t n);
void oracleRange(uint64_t lo, uint64_t hi, std::vector<char>& out);

namespace {

typedef unsigned long long ull;

std::string errClass(const std::exception& e)
{
  if (dynamic_cast<const std::bad_alloc*>(&e))
    return "badAlloc";
  std::string w = e.what();
  if (w.find("> 2^64") != std::string::npos)
    return "overflow";
  return "invalid";
}

std::vector<std::string> split(const std::string& s)
{
  std::vector<std::string> v;
  std::istringstream is(s);
  std::string t;
  while (is >> t)
    v.push_back(t);
  return v;
}

uint64_t u64(const std::string& s)
{
  return strtoull(s.c_str(), nullptr, 10);
}

// ---------------------------------------------------------------------------
// stream "iter": histories on one primesieve::iterator (C++ API)
// ---------------------------------------------------------------------------

std::string iterState(const primesieve::iterator& it)
{
  std::ostringstream o;
  ull stop = it.start_, dist = 0;
  int incl = 1, gen = 0;
  if (it.memory_)
  {
    auto& d = *(IteratorData*) it.memory_;
    stop = d.stop;
    dist = d.dist;
    incl = d.include_start_number;
    gen = d.primeGenerator != nullptr;
  }
  o << "i=" << it.i_ << " size=" << it.size_ << " start=" << it.start_
    << " stop=" << stop << " dist=" << dist << " incl=" << incl << " gen=" << gen;
  if (it.size_ > 0)
    o << " b0=" << it.primes_[0] << " bl=" << it.primes_[it.size_ - 1];
  else
    o << " b0=- bl=-";
  return o.str();
}

int streamIter(std::istream& in)
{
  std::unique_ptr<primesieve::iterator> it(new primesieve::iterator());
  std::string line;
  while (std::getline(in, line))
  {
    auto t = split(line);
    if (t.empty() || t[0][0] == '#')
      continue;
    if (t[0] == "new")
    {
      it.reset(new primesieve::iterator(u64(t[1]), u64(t[2])));
      std::cout << "new " << t[1] << " " << t[2] << " => " << iterState(*it) << "\n";
    }
    else if (t[0] == "next" || t[0] == "prev")
    {
      long n = t.size() > 1 ? atol(t[1].c_str()) : 1;
      for (long j = 0; j < n; j++)
      {
        std::string res;
        try
        {
          uint64_t v = (t[0] == "next") ? it->next_prime() : it->prev_prime();
          res = "v=" + std::to_string(v);
        }
        catch (const std::exception& e)
        {
          res = "v=ERR:" + errClass(e);
        }
        // k = block length of the buffer the iterator now holds (used by the
        // model only if this call refilled the buffer going forwards)
        std::cout << t[0] << " k=" << it->size_ << " => " << res << " " << iterState(*it) << "\n";
      }
    }
    else if (t[0] == "jump")
    {
      it->jump_to(u64(t[1]), u64(t[2]));
      std::cout << "jump " << t[1] << " " << t[2] << " => " << iterState(*it) << "\n";
    }
    else if (t[0] == "ss")
    {
      // sieve size for the generators created from now on (stays in effect for the scripts that follow)
      primesieve::set_sieve_size(atoi(t[1].c_str()));
      std::cout << "ss " << t[1] << " => " << iterState(*it) << "\n";
    }
    else if (t[0] == "clear")
    {
      it->clear();
      std::cout << "clear => " << iterState(*it) << "\n";
    }
    else if (t[0] == "movein")
    {
      // move construction: continue with the new object
      std::unique_ptr<primesieve::iterator> b(new primesieve::iterator(std::move(*it)));
      it = std::move(b);
      std::cout << "movein => " << iterState(*it) << "\n";
    }
    else if (t[0] == "moveassign")
    {
      // move assignment into a used iterator: continue with the target
      std::unique_ptr<primesieve::iterator> b(new primesieve::iterator(1000, 2000));
      b->next_prime();
      *b = std::move(*it);
      it = std::move(b);
      std::cout << "movein => " << iterState(*it) << "\n";
    }
    else if (t[0] == "moveout")
    {
      // continue with the moved-from object
      primesieve::iterator b(std::move(*it));
      b.next_prime();
      std::cout << "moveout => " << iterState(*it) << "\n";
    }
    else if (t[0] == "moveassignout")
    {
      // move ASSIGNMENT into a used iterator (which has its own buffers and generator), then
      // continue with the moved-from object: it must behave like a fresh iterator
      primesieve::iterator b(30000, 60000);
      for (int j = 0; j < 3; j++) b.next_prime();
      b = std::move(*it);
      b.next_prime();
      std::cout << "moveout => " << iterState(*it) << "\n";
    }
    else if (t[0] == "selfmove")
    {
      primesieve::iterator& r = *it;
      *it = std::move(r);
      std::cout << "movein => " << iterState(*it) << "\n";
    }
    else
    {
      std::cerr << "bad op: " << line << "\n";
      return 2;
    }
  }
  return 0;
}

// ---------------------------------------------------------------------------
// stream "segment": the Erat layer under PrimeGenerator, one segment at a time
//   seg <start> <stop> <sieveKiB>
// prints per sieved segment the geometry and a digest of the 1-bits, and whether the
// decoded numbers are exactly the primes of the segment's part of [start, stop]
// (checked against an independent trial-division / Miller-Rabin oracle in the harness).
// ---------------------------------------------------------------------------

const int bitOff[8] = { 7, 11, 13, 17, 19, 23, 29, 31 };

int streamSegment(std::istream& in)
{
  std::string line;
  while (std::getline(in, line))
  {
    auto t = split(line);
    if (t.empty() || t[0][0] == '#')
      continue;
    if ((t[0] != "seg" && t[0] != "sp") || t.size() < 4) { std::cerr << "bad op: " << line << "\n"; return 2; }
    uint64_t start = u64(t[1]), stop = u64(t[2]);
    int kib = atoi(t[3].c_str());
    primesieve::set_sieve_size(kib);
    if (t[0] == "sp")
    {
      // what SievingPrimes::next() delivers (hypothesis of C01_loop_segments_correct): sieve the first segment, then drain
      // the generator's own SievingPrimes object: pending prime_, then every further value up to the sentinel ~0ull
      std::cout << "sp " << start << " " << stop << " " << kib << " l1=" << primesieve_verif_probe::l1CacheSize() << " => ";
      try
      {
        primesieve::PrimeGenerator pg(start, stop);
        primesieve::Vector<uint64_t> primes;
        std::size_t size = 0;
        bool ok = primesieve_verif_probe::pgSieveNext(pg, primes, &size);
        uint64_t pending = ok ? primesieve_verif_probe::pendingPrime(pg) : 0;
        uint64_t n = 0, sum = 0, last = pending;
        const char* order = "ok";
        if (ok && pending != 0 && pending != ~0ull)
        {
          n = 1; sum = pending;
          uint64_t prev = pending;
          while (true)
          {
            uint64_t v = primesieve_verif_probe::nextSievingPrime(pg);
            if (v == ~0ull)
            {
              if (primesieve_verif_probe::nextSievingPrime(pg) != ~0ull) order = "sentinel-not-sticky";
              break;
            }
            if (v <= prev) order = "not-increasing";
            if (!isPrimeOracle(v)) order = "composite";
            n++; sum += v; last = v; prev = v;
          }
        }
        // the table of SievingPrimes::tinySieve(): size and sum of the indices still flagged (model: Feed.tinySieve)
        auto& tt = primesieve_verif_probe::tinyTable(pg);
        uint64_t tsum = 0;
        for (std::size_t k = 0; k < tt.size(); k++)
          if (tt[k]) tsum += k;
        std::cout << "tiny=" << tt.size() << ":" << tsum << " ";
        // a difference from the model line is a broken correspondence (a hypothesis of the composed theorem no longer
        // validated), not by itself a failing input of the property: a composite delivered as a sieving prime, say, costs
        // time but leaves every result right.  No ORACLE-MISMATCH token here; the check then searches for a failing input.
        std::cout << "pending=" << pending << " n=" << n << " sum=" << sum << " last=" << last << " order=" << order << "\n";
      }
      catch (const std::exception& e)
      {
        std::cout << "ERR:" << errClass(e) << "\n";
      }
      continue;
    }
    std::cout << "seg " << start << " " << stop << " " << kib << " l1=" << primesieve_verif_probe::l1CacheSize() << " => ";
    try
    {
      primesieve::PrimeGenerator pg(start, stop);
      primesieve::Vector<uint64_t> primes;
      std::size_t size = 0;
      long nseg = 0;
      uint64_t total = 0, sum = 0;
      std::string bad;
      std::ostringstream geo;
      uint64_t prevHigh = 0;
      uint64_t feedSum = 0;  // feed loop of PrimeGenerator::sieveSegment(): prime_ after every segment
      while (true)
      {
        try
        {
          if (!primesieve_verif_probe::pgSieveNext(pg, primes, &size))
            break;
        }
        catch (const primesieve::primesieve_error&)
        {
          // stop = 2^64-1: after the last segment sieveNextPrimes() reports
          // "cannot generate primes > 2^64" instead of returning false
          if (stop == UINT64_MAX)
            break;
          throw;
        }
        feedSum += primesieve_verif_probe::pendingPrime(pg);
        // the segment just sieved starts at low_; its bytes are sieve_
        uint64_t low = primesieve_verif_probe::low(pg);
        auto& sv = primesieve_verif_probe::sieve(pg);
        uint64_t bytes = sv.size();
        if (nseg < 4)
          geo << " [low=" << low << " bytes=" << bytes << " nlow=" << primesieve_verif_probe::segLow(pg)
              << " nhigh=" << primesieve_verif_probe::segHigh(pg) << "]";
        uint64_t lo = std::max<uint64_t>(std::max<uint64_t>(start, 721), low + 7);
        uint64_t hi = low + bytes * 30 + 1;   // value of the last bit of the last byte
        if (hi < low || hi > stop) hi = stop;
        // every number of the wheel in [low+7, low+30*bytes+1]: bit must equal "prime and in [lo,hi]"
        std::vector<char> isP;
        uint64_t olo = low + 7, ohi = low + bytes * 30 + 1;
        if (ohi < olo) ohi = UINT64_MAX;
        oracleRange(olo, ohi, isP);
        for (uint64_t j = 0; j < bytes && bad.empty(); j++)
          for (int b = 0; b < 8; b++)
          {
            uint64_t n = low + 30 * j + bitOff[b];
            if (n < low) continue; // wrapped
            bool bit = (sv[j] >> b) & 1;
            bool want = n >= lo && n <= hi && isP[n - olo];
            if (bit) { total++; sum += n; }
            if (bit != want)
            {
              bad = "n=" + std::to_string(n) + (bit ? ":composite-or-out-of-range-kept" : ":prime-missing")
                    + " seg=" + std::to_string(nseg) + " low=" + std::to_string(low) + " byte=" + std::to_string(j) + " bit=" + std::to_string(b);
              break;
            }
          }
        // padding bytes up to a multiple of 8 must be zero (read by 64-bit loads)
        for (uint64_t j = bytes; j % 8 != 0 && j < sv.capacity(); j++)
          if (sv.data()[j] != 0 && bad.empty())
            bad = "nonzero-padding seg=" + std::to_string(nseg);
        primesieve_verif_probe::setSieveIdxDone(pg);
        nseg++;
        prevHigh = hi;
      }
      std::cout << "segs=" << nseg << " total=" << total << " sum=" << sum
                << " small=" << primesieve_verif_probe::maxSmall(pg) << " medium=" << primesieve_verif_probe::maxMedium(pg)
                << " feed=" << (stop <= 1000000000000ull ? std::to_string(feedSum) + ":" + std::to_string(primesieve_verif_probe::pendingPrime(pg)) : std::string("-"))
                << " content=" << (bad.empty() ? "ok" : bad) << geo.str() << "\n";
    }
    catch (const std::exception& e)
    {
      std::cout << "ERR:" << errClass(e) << "\n";
    }
  }
  primesieve::set_sieve_size(0 + 256);
  return 0;
}

// ---------------------------------------------------------------------------
// stream "count": ParallelSieve::sieve with all six counters
//   count <start> <stop> <sieveKiB> <threads> <minThreadDistance or 0>
// ---------------------------------------------------------------------------

std::mutex pieceMutex;
std::vector<std::pair<uint64_t, std::pair<uint64_t, uint64_t>>> pieceLog;
void pieceHook(uint64_t i, uint64_t start, uint64_t stop)
{
  std::lock_guard<std::mutex> g(pieceMutex);
  pieceLog.push_back({i, {start, stop}});
}

const std::vector<std::vector<int>> kPatterns[6] = {
  {}, {{0, 2}}, {{0, 2, 6}, {0, 4, 6}}, {{0, 2, 6, 8}}, {{0, 2, 6, 8, 12}, {0, 4, 6, 10, 12}}, {{0, 4, 6, 10, 12, 16}}
};

// independent expectation: counts of primes and of the constellations inside [start, stop]
bool oracleCounts(uint64_t start, uint64_t stop, uint64_t out[6])
{
  for (int i = 0; i < 6; i++) out[i] = 0;
  if (start > stop) return true;
  if (stop - start > 120000000ull) return false;
  std::vector<char> isP;
  oracleRange(start, stop, isP);
  for (uint64_t n = start; ; n++)
  {
    if (isP[n - start])
    {
      out[0]++;
      for (int k = 1; k < 6; k++)
        for (auto& pat : kPatterns[k])
        {
          bool ok = true;
          for (int d : pat)
            if (n + d < n || n + d > stop || !isP[n + d - start]) { ok = false; break; }
          if (ok) out[k]++;
        }
    }
    if (n == stop) break;
  }
  return true;
}

int streamCount(std::istream& in)
{
  std::string line;
  int cores = std::max(1u, std::thread::hardware_concurrency());
  while (std::getline(in, line))
  {
    auto t = split(line);
    if (t.empty() || t[0][0] == '#')
      continue;
    if (t[0] != "count" || t.size() < 6) { std::cerr << "bad op: " << line << "\n"; return 2; }
    uint64_t start = u64(t[1]), stop = u64(t[2]);
    int kib = atoi(t[3].c_str()), threads = atoi(t[4].c_str());
    uint64_t md = u64(t[5]);
    bool nosqrt = t.size() > 6 && t[6] == "nosqrt";     // hook H1b: the override alone decides the number of threads
    std::cout << "count " << start << " " << stop << " " << kib << " " << threads << " " << md << " cores=" << cores << (nosqrt ? " nosqrt" : "") << " => ";
    try
    {
      primesieve_verif_min_thread_distance = md;
      primesieve_verif_ignore_sqrt_threshold = nosqrt;
      primesieve_verif_piece_hook = pieceHook;
      pieceLog.clear();
      primesieve::ParallelSieve ps;
      ps.setSieveSize(kib);
      ps.setNumThreads(threads);
      ps.sieve(start, stop, 63);
      int ideal = ps.idealNumThreads();
      uint64_t td = (ideal > 1 && start <= stop) ? primesieve_verif_probe::threadDistance(ps, ideal) : 0;
      std::sort(pieceLog.begin(), pieceLog.end());
      std::cout << "c=";
      for (int i = 0; i < 6; i++) std::cout << (i ? "," : "") << ps.getCount(i);
      std::cout << " ideal=" << ideal << " td=" << td << " pieces=";
      for (size_t i = 0; i < pieceLog.size(); i++)
        std::cout << (i ? ";" : "") << pieceLog[i].second.first << "-" << pieceLog[i].second.second;
      uint64_t exp[6];
      if (oracleCounts(start, stop, exp))
      {
        bool ok = true;
        for (int i = 0; i < 6; i++) ok = ok && exp[i] == ps.getCount(i);
        if (!ok)
        {
          std::cout << " ORACLE-MISMATCH exp=";
          for (int i = 0; i < 6; i++) std::cout << (i ? "," : "") << exp[i];
        }
      }
      std::cout << "\n";
    }
    catch (const std::exception& e)
    {
      std::cout << "ERR:" << errClass(e) << "\n";
    }
    primesieve_verif_min_thread_distance = 0;
    primesieve_verif_ignore_sqrt_threshold = false;
    primesieve_verif_piece_hook = nullptr;
  }
  return 0;
}

// ---------------------------------------------------------------------------
// stream "print": the print functions of the C++ and C API, stdout captured
//   print <start> <stop> <kind 0..5> <sieveKiB> <cpp|c>
// observation: number of lines, FNV-1a hash of the text, first and last line; the text is
// compared byte for byte with the rendering of the oracle's primes / constellations.
// ---------------------------------------------------------------------------

uint64_t fnv1a(const std::string& s)
{
  uint64_t h = 1469598103934665603ull;
  for (unsigned char c : s) { h ^= c; h *= 1099511628211ull; }
  return h;
}

std::string expectedPrint(uint64_t start, uint64_t stop, int kind)
{
  std::string out;
  if (start > stop) return out;
  std::vector<char> isP;
  oracleRange(start, stop, isP);
  for (uint64_t n = start; ; n++)
  {
    if (isP[n - start])
    {
      if (kind == 0)
        out += std::to_string(n) + "\n";
      else
        for (auto& pat : kPatterns[kind])
        {
          bool ok = true;
          for (int d : pat)
            if (n + d < n || n + d > stop || !isP[n + d - start]) { ok = false; break; }
          if (ok)
          {
            out += "(";
            for (size_t i = 0; i < pat.size(); i++)
              out += (i ? ", " : "") + std::to_string(n + pat[i]);
            out += ")\n";
          }
        }
    }
    if (n == stop) break;
  }
  return out;
}

int streamPrint(std::istream& in)
{
  std::string line;
  while (std::getline(in, line))
  {
    auto t = split(line);
    if (t.empty() || t[0][0] == '#')
      continue;
    if (t[0] != "print" || t.size() < 6) { std::cerr << "bad op: " << line << "\n"; return 2; }
    uint64_t start = u64(t[1]), stop = u64(t[2]);
    int kind = atoi(t[3].c_str()), kib = atoi(t[4].c_str());
    bool capi = t[5] == "c";
    std::ostringstream cap;
    std::string res;
    auto* old = std::cout.rdbuf(cap.rdbuf());
    try
    {
      primesieve::set_sieve_size(kib);
      if (!capi)
        switch (kind)
        {
          case 0: primesieve::print_primes(start, stop); break;
          case 1: primesieve::print_twins(start, stop); break;
          case 2: primesieve::print_triplets(start, stop); break;
          case 3: primesieve::print_quadruplets(start, stop); break;
          case 4: primesieve::print_quintuplets(start, stop); break;
          default: primesieve::print_sextuplets(start, stop); break;
        }
      else
      {
        errno = 0;
        switch (kind)
        {
          case 0: primesieve_print_primes(start, stop); break;
          case 1: primesieve_print_twins(start, stop); break;
          case 2: primesieve_print_triplets(start, stop); break;
          case 3: primesieve_print_quadruplets(start, stop); break;
          case 4: primesieve_print_quintuplets(start, stop); break;
          default: primesieve_print_sextuplets(start, stop); break;
        }
        if (errno == EDOM) res = "ERR:errno";
      }
    }
    catch (const std::exception& e)
    {
      res = "ERR:" + errClass(e);
    }
    std::cout.rdbuf(old);
    std::cout << "print " << start << " " << stop << " " << kind << " " << kib << " " << t[5] << " => ";
    if (!res.empty()) { std::cout << res << "\n"; continue; }
    std::string text = cap.str();
    size_t lines = std::count(text.begin(), text.end(), '\n');
    std::string first = "-", last = "-";
    if (!text.empty())
    {
      first = text.substr(0, text.find('\n'));
      size_t e = text.size() - 1;                      // final '\n'
      size_t b = text.rfind('\n', e ? e - 1 : 0);
      last = (b == std::string::npos || e == 0) ? text.substr(0, e) : text.substr(b + 1, e - b - 1);
    }
    for (auto& c : first) if (c == ' ') c = '_';
    for (auto& c : last) if (c == ' ') c = '_';
    std::cout << "lines=" << lines << " fnv=" << fnv1a(text) << " first=" << first << " last=" << last;
    if (stop >= start && stop - start <= 120000000ull)
    {
      std::string exp = expectedPrint(start, stop, kind);
      if (exp != text)
      {
        // first differing line
        std::istringstream a(text), b(exp);
        std::string la, lb; long n = 0;
        while (true)
        {
          bool ga = (bool) std::getline(a, la), gb = (bool) std::getline(b, lb);
          n++;
          if (!ga && !gb) break;
          if (!ga) la = "<end>";
          if (!gb) lb = "<end>";
          if (la != lb) break;
        }
        for (auto& c : la) if (c == ' ') c = '_';
        for (auto& c : lb) if (c == ' ') c = '_';
        std::cout << " ORACLE-MISMATCH line=" << n << " got=" << la << " expected=" << lb;
      }
    }
    std::cout << "\n";
  }
  primesieve::set_sieve_size(256);
  return 0;
}

// ---------------------------------------------------------------------------
// stream "store": generate_primes / generate_n_primes for all element types (C++ std::vector
// and the C API arrays)
//   gp <start> <stop> <type> <cpp|c> <prefill>
//   gn <n> <start> <type> <cpp|c> <prefill>
// observation: `ok n=<count> fnv=<hash of "p1,p2,..."> first= last=` or `throw`.
// The harness oracle checks: prefilled elements untouched, appended elements = exactly the
// requested primes (ok) or an exact prefix of them (throw), a throw only when a requested prime
// does not fit the type / lies beyond 2^64 (gp: when stop exceeds the type's maximum).
// ---------------------------------------------------------------------------

struct StoreObs { bool threw = false; std::string err; std::vector<uint64_t> app; bool prefillOk = true; bool errnoEdom = false; bool nullRes = false; };

template <typename T>
StoreObs runStoreCpp(bool nprimes, uint64_t a, uint64_t b, int prefill)
{
  StoreObs o;
  std::vector<T> v;
  for (int i = 0; i < prefill; i++) v.push_back((T) (100 + i));
  try
  {
    if (nprimes) primesieve::generate_n_primes(a, b, &v);
    else primesieve::generate_primes(a, b, &v);
  }
  catch (const std::exception& e) { o.threw = true; o.err = errClass(e); }
  for (int i = 0; i < prefill; i++)
    if ((size_t) i >= v.size() || v[i] != (T) (100 + i)) o.prefillOk = false;
  for (size_t i = prefill; i < v.size(); i++)
  {
    // a truncated / negative element shows up as a value that is not the requested prime
    o.app.push_back((uint64_t) v[i]);
    if (v[i] < 0) o.app.back() = UINT64_MAX; // impossible prime
  }
  return o;
}

template <typename T>
StoreObs runStoreC(bool nprimes, uint64_t a, uint64_t b, int type)
{
  StoreObs o;
  size_t size = 12345;
  errno = 0;
  void* p = nprimes ? primesieve_generate_n_primes(a, b, type) : primesieve_generate_primes(a, b, &size, type);
  int e = errno;
  o.errnoEdom = e == EDOM;
  o.nullRes = p == nullptr;
  if (nprimes) size = p ? (size_t) a : 0;
  if (e == EDOM || (p == nullptr && nprimes && a != 0)) { o.threw = true; o.err = "cerror"; }
  if (p)
  {
    T* arr = (T*) p;
    for (size_t i = 0; i < size; i++)
    {
      o.app.push_back((uint64_t) arr[i]);
      if (arr[i] < 0) o.app.back() = UINT64_MAX;
    }
    primesieve_free(p);
  }
  else if (!nprimes && size != 0) o.prefillOk = false; // NULL must come with *size = 0
  return o;
}

struct TypeInfo { const char* name; int tmpl; uint64_t max; int ccode; };
// tmpl: 0 i8, 1 u8, 2 i16, 3 u16, 4 i32, 5 u32, 6 i64, 7 u64 (this platform is LP64)
const TypeInfo typeInfos[] = {
  { "i8", 0, 127, -1 }, { "u8", 1, 255, -1 },
  { "i16", 2, 32767, INT16_PRIMES }, { "u16", 3, 65535, UINT16_PRIMES },
  { "i32", 4, 2147483647ull, INT32_PRIMES }, { "u32", 5, 4294967295ull, UINT32_PRIMES },
  { "i64", 6, 9223372036854775807ull, INT64_PRIMES }, { "u64", 7, 18446744073709551615ull, UINT64_PRIMES },
  { "short", 2, 32767, SHORT_PRIMES }, { "ushort", 3, 65535, USHORT_PRIMES },
  { "int", 4, 2147483647ull, INT_PRIMES }, { "uint", 5, 4294967295ull, UINT_PRIMES },
  { "long", 6, 9223372036854775807ull, LONG_PRIMES }, { "ulong", 7, 18446744073709551615ull, ULONG_PRIMES },
  { "llong", 6, 9223372036854775807ull, LONGLONG_PRIMES }, { "ullong", 7, 18446744073709551615ull, ULONGLONG_PRIMES } };
static_assert(sizeof(short) == 2 && sizeof(int) == 4 && sizeof(long) == 8 && sizeof(long long) == 8, "LP64 expected");

int streamStore(std::istream& in)
{
  std::string line;
  while (std::getline(in, line))
  {
    auto t = split(line);
    if (t.empty() || t[0][0] == '#')
      continue;
    if ((t[0] != "gp" && t[0] != "gn") || t.size() < 6) { std::cerr << "bad op: " << line << "\n"; return 2; }
    bool np = t[0] == "gn";
    uint64_t a = u64(t[1]), b = u64(t[2]);
    int ti = -1;
    for (size_t i = 0; i < sizeof(typeInfos) / sizeof(typeInfos[0]); i++) if (t[3] == typeInfos[i].name) ti = (int) i;
    if (ti < 0) { std::cerr << "bad type: " << line << "\n"; return 2; }
    bool capi = t[4] == "c";
    if (capi && typeInfos[ti].ccode < 0) { std::cerr << "no C code for type: " << line << "\n"; return 2; }
    int prefill = atoi(t[5].c_str());
    StoreObs o;
    int cc = typeInfos[ti].ccode;
    switch (typeInfos[ti].tmpl)
    {
      case 0: o = capi ? runStoreC<int8_t>(np, a, b, cc) : runStoreCpp<int8_t>(np, a, b, prefill); break;
      case 1: o = capi ? runStoreC<uint8_t>(np, a, b, cc) : runStoreCpp<uint8_t>(np, a, b, prefill); break;
      case 2: o = capi ? runStoreC<int16_t>(np, a, b, cc) : runStoreCpp<int16_t>(np, a, b, prefill); break;
      case 3: o = capi ? runStoreC<uint16_t>(np, a, b, cc) : runStoreCpp<uint16_t>(np, a, b, prefill); break;
      case 4: o = capi ? runStoreC<int32_t>(np, a, b, cc) : runStoreCpp<int32_t>(np, a, b, prefill); break;
      case 5: o = capi ? runStoreC<uint32_t>(np, a, b, cc) : runStoreCpp<uint32_t>(np, a, b, prefill); break;
      case 6: o = capi ? runStoreC<int64_t>(np, a, b, cc) : runStoreCpp<int64_t>(np, a, b, prefill); break;
      default: o = capi ? runStoreC<uint64_t>(np, a, b, cc) : runStoreCpp<uint64_t>(np, a, b, prefill); break;
    }
    std::cout << line << " => ";
    // ---- expected primes
    uint64_t vmax = typeInfos[ti].max;
    std::vector<uint64_t> exp;
    bool beyond = false;       // a requested prime does not exist below 2^64
    if (!np)
    {
      if (a <= b && b - a <= 120000000ull)
      {
        std::vector<char> isP; oracleRange(a, b, isP);
        for (uint64_t n = a; ; n++) { if (isP[n - a]) exp.push_back(n); if (n == b) break; }
      }
    }
    else
    {
      uint64_t n = b;
      for (uint64_t k = 0; k < a; k++)
      {
        while (!isPrimeOracle(n)) { if (n == UINT64_MAX) { beyond = true; break; } n++; }
        if (beyond) break;
        exp.push_back(n);
        if (n == UINT64_MAX) { beyond = k + 1 < a; break; }
        n++;
      }
    }
    std::string bad;
    if (!o.prefillOk) bad = "prefilled-elements-changed-or-size-not-zeroed";
    bool isPrefix = o.app.size() <= exp.size() && std::equal(o.app.begin(), o.app.end(), exp.begin());
    if (o.threw)
    {
      bool justified = np ? (beyond || (!exp.empty() && exp.back() > vmax)) : (b > vmax);
      if (!justified) bad = "unjustified-error";
      else if (!isPrefix) bad = "appended-elements-not-an-exact-prefix";
      if (capi && (!o.errnoEdom || !o.nullRes)) bad = "c-error-contract(errno=EDOM,NULL)";
      std::cout << "throw";
    }
    else
    {
      if (capi && o.errnoEdom) bad = "errno=EDOM-on-success";
      if (o.app != exp) bad = "appended-elements-differ-from-requested-primes got=" + std::to_string(o.app.size()) + " expected=" + std::to_string(exp.size());
      if ((np ? (beyond || (!exp.empty() && exp.back() > vmax)) : (a <= b && a <= 18446744073709551557ull && b > vmax)))
        bad = "no-error-although-a-requested-prime-does-not-fit";
      std::string text;
      for (size_t i = 0; i < o.app.size(); i++) text += (i ? "," : "") + std::to_string(o.app[i]);
      std::cout << "ok n=" << o.app.size() << " fnv=" << fnv1a(text) << " first=" << (o.app.empty() ? std::string("-") : std::to_string(o.app.front()))
                << " last=" << (o.app.empty() ? std::string("-") : std::to_string(o.app.back()));
    }
    if (!bad.empty()) std::cout << " ORACLE-MISMATCH " << bad;
    std::cout << "\n";
  }
  return 0;
}

// ---------------------------------------------------------------------------
// stream "nth": nth_prime(n, start) through the C++ and the C API
//   nth <n> <start> <threads> <sieveKiB> <cpp|c>
// observation: v=<prime> or ERR:<class>; the harness oracle walks the primes itself.
// ---------------------------------------------------------------------------

// the |n|-th prime > start (n > 0), < start (n < 0), first prime >= start (n = 0); false = does not exist
bool oracleNth(long long n, uint64_t start, uint64_t& out)
{
  if (n == 0)
  {
    uint64_t x = start;
    while (true) { if (isPrimeOracle(x)) { out = x; return true; } if (x == UINT64_MAX) return false; x++; }
  }
  const uint64_t CH = 2000000;
  std::vector<char> isP;
  if (n > 0)
  {
    if (start == UINT64_MAX) return false;
    uint64_t lo = start + 1;
    long long left = n;
    while (true)
    {
      uint64_t hi = (UINT64_MAX - lo < CH) ? UINT64_MAX : lo + CH;
      oracleRange(lo, hi, isP);
      for (uint64_t x = lo; ; x++) { if (isP[x - lo] && --left == 0) { out = x; return true; } if (x == hi) break; }
      if (hi == UINT64_MAX) return false;
      lo = hi + 1;
    }
  }
  else
  {
    if (start <= 2) return false;
    uint64_t hi = start - 1;
    long long left = -n;
    while (true)
    {
      uint64_t lo = hi < CH ? 0 : hi - CH;
      oracleRange(lo, hi, isP);
      for (uint64_t x = hi; ; x--) { if (isP[x - lo] && --left == 0) { out = x; return true; } if (x == lo) break; }
      if (lo == 0) return false;
      hi = lo - 1;
    }
  }
}

// hook H4: constant replacement of nthPrimeApprox()
uint64_t nthApproxValue = 0;
uint64_t nthApproxConst(uint64_t) { return nthApproxValue; }

int streamNth(std::istream& in)
{
  std::string line;
  while (std::getline(in, line))
  {
    auto t = split(line);
    if (t.empty() || t[0][0] == '#')
      continue;
    if (t[0] != "nth" || t.size() < 6) { std::cerr << "bad op: " << line << "\n"; return 2; }
    long long n = strtoll(t[1].c_str(), nullptr, 10);
    uint64_t start = u64(t[2]);
    primesieve::set_num_threads(atoi(t[3].c_str()));
    primesieve::set_sieve_size(atoi(t[4].c_str()));
    bool capi = t[5] == "c";
    // optional 7th token abs=<v>: nthPrimeApprox() is replaced by the constant v (hook H4)
    primesieve_verif_nth_approx = nullptr;
    if (t.size() > 6 && t[6].rfind("abs=", 0) == 0) { nthApproxValue = u64(t[6].substr(4)); primesieve_verif_nth_approx = nthApproxConst; }
    std::string res;
    bool err = false;
    uint64_t v = 0;
    if (capi)
    {
      errno = 0;
      v = primesieve_nth_prime(n, start);
      int e = errno;
      if (v == PRIMESIEVE_ERROR || e == EDOM)
      {
        err = true;
        res = (v == PRIMESIEVE_ERROR && e == EDOM) ? "ERR" : "ERR-CONTRACT(v=" + std::to_string(v) + ",errno=" + std::to_string(e) + ")";
      }
    }
    else
    {
      try { v = primesieve::nth_prime(n, start); }
      catch (const primesieve::primesieve_error&) { err = true; res = "ERR"; }
      catch (const std::exception& e) { err = true; res = std::string("ERR-OTHER:") + errClass(e); }
    }
    std::cout << line << " => " << (err ? res : "v=" + std::to_string(v));
    // oracle (only when the walk is affordable)
    unsigned long long an = n < 0 ? 0ull - (unsigned long long) n : (unsigned long long) n;
    bool tooMany = an > 425656284035217743ull;
    if (tooMany) { if (!err) std::cout << " ORACLE-MISMATCH expected=error(|n|>pi(2^64))"; }
    else if (an <= (start > 100000000000000ull ? 150000ull : 3000000ull))
    {
      uint64_t exp = 0;
      bool exists = oracleNth(n, start, exp);
      if (exists && (err || v != exp)) std::cout << " ORACLE-MISMATCH expected=" << exp;
      if (!exists && !err) std::cout << " ORACLE-MISMATCH expected=error";
    }
    std::cout << "\n";
  }
  primesieve_verif_nth_approx = nullptr;
  primesieve::set_num_threads(1 << 20);
  primesieve::set_sieve_size(256);
  return 0;
}

// ---------------------------------------------------------------------------
// stream "cfg": configuration functions and cache topologies
//   gss <l1> <l2> <s2> <s3>   poke the cache description, get_sieve_size() (only valid before any `ss`),
//                             Erat's L1 size, and a small count + iterator run under that topology
//   ss <x>                    set_sieve_size(x) / PrimeSieve::setSieveSize(x)
//   nt <x>                    set_num_threads(x) / ParallelSieve::setNumThreads(x)
// ---------------------------------------------------------------------------
int streamCfg(std::istream& in)
{
  std::string line;
  uint64_t orig[4];
  primesieve_verif_probe::readCpu(orig);
  int cores = primesieve::ParallelSieve::getMaxThreads();
  bool ssUsed = false;
  // reference results under the original topology
  const uint64_t A = 1000000000ull, B = 1000300000ull;
  uint64_t expC[6];
  oracleCounts(A, B, expC);
  while (std::getline(in, line))
  {
    auto t = split(line);
    if (t.empty() || t[0][0] == '#')
      continue;
    if (t[0] == "gss" && t.size() >= 5)
    {
      if (ssUsed) { std::cerr << "gss after ss\n"; return 2; }
      primesieve_verif_probe::pokeCpu(u64(t[1]), u64(t[2]), u64(t[3]), u64(t[4]));
      int v = primesieve::get_sieve_size();
      uint64_t l1 = primesieve_verif_probe::l1CacheSize();
      std::cout << line << " => size=" << v << " l1=" << l1;
      // results must not depend on the topology
      uint64_t c = primesieve::count_primes(A, B);
      uint64_t tw = primesieve::count_twins(A, B);
      primesieve::iterator it(A + 12345);
      uint64_t p = it.next_prime(), q = it.prev_prime(), r = it.prev_prime();
      bool ok = c == expC[0] && tw == expC[1] && isPrimeOracle(p) && isPrimeOracle(q) && isPrimeOracle(r) && r < q && q < p && p >= A + 12345;
      for (uint64_t x = r + 1; x < p && ok; x++) if (x != q && isPrimeOracle(x)) ok = false;
      for (uint64_t x = A + 12345; x < p && ok; x++) if (isPrimeOracle(x)) ok = false;
      if (!ok) std::cout << " ORACLE-MISMATCH count=" << c << " twins=" << tw << " expected=" << expC[0] << "," << expC[1] << " iter=" << p << "," << q << "," << r;
      std::cout << "\n";
      primesieve_verif_probe::pokeCpu(orig[0], orig[1], orig[2], orig[3]);
    }
    else if (t[0] == "ss" && t.size() >= 2)
    {
      ssUsed = true;
      int x = atoi(t[1].c_str());
      primesieve::set_sieve_size(x);
      primesieve::PrimeSieve ps;
      ps.setSieveSize(x);
      std::cout << line << " => api=" << primesieve::get_sieve_size() << " ps=" << ps.getSieveSize() << "\n";
    }
    else if (t[0] == "nt" && t.size() >= 2)
    {
      int x = atoi(t[1].c_str());
      primesieve::set_num_threads(x);
      primesieve::ParallelSieve ps;
      ps.setNumThreads(x);
      std::cout << line << " cores=" << cores << " => api=" << primesieve::get_num_threads() << " ps=" << ps.getNumThreads() << "\n";
    }
    else { std::cerr << "bad op: " << line << "\n"; return 2; }
  }
  return 0;
}


// independent cursor oracle for iterator histories: what must the next call return?
struct CursorOracle
{
  bool fresh = true, incl = true;
  uint64_t pos = 0, last = 0;
  void jump(uint64_t s, bool inclusive) { fresh = true; incl = inclusive; pos = s; }
  // returns "" if the observation is what an exact cursor returns, otherwise a description
  std::string next(bool isErr, uint64_t v)
  {
    bool none = false;           // no admissible lower bound below 2^64
    uint64_t lower;
    if (fresh) { lower = pos; if (!incl) { if (pos == UINT64_MAX) none = true; else lower = pos + 1; } }
    else { if (last == UINT64_MAX) none = true; lower = last + 1; }
    if (isErr)
      return (none || lower > 18446744073709551557ull) ? "" : "error-although-a-prime>=" + std::to_string(lower) + "-exists";
    if (none || v < lower || !isPrimeOracle(v)) return "next-returned-" + std::to_string(v) + "-not-a-prime>=" + std::to_string(lower);
    if (v - lower > 5000) return "next-skipped-far";   // gaps below 2^64 are < 1600
    for (uint64_t x = lower; x < v; x++) if (isPrimeOracle(x)) return "next-skipped-prime-" + std::to_string(x);
    fresh = false; last = v;
    return "";
  }
  std::string prev(uint64_t v)
  {
    uint64_t upper; bool none = false;
    if (fresh) { upper = pos; if (!incl) { if (pos == 0) none = true; else upper = pos - 1; } }
    else { if (last == 0) none = true; else upper = last - 1; }
    if (none) { fresh = false; last = 0; return v == 0 ? "" : "prev-returned-" + std::to_string(v) + "-expected-0"; }
    if (v == 0)
    {
      for (uint64_t x = 0; x <= upper && x < 5000; x++) if (isPrimeOracle(x)) return "prev-returned-0-although-prime-" + std::to_string(x) + "-exists";
      if (upper >= 5000) return "prev-returned-0";
      fresh = false; last = 0; return "";
    }
    if (v > upper || !isPrimeOracle(v)) return "prev-returned-" + std::to_string(v) + "-not-a-prime<=" + std::to_string(upper);
    if (upper - v > 5000) return "prev-skipped-far";
    for (uint64_t x = v + 1; x <= upper && x != 0; x++) if (isPrimeOracle(x)) return "prev-skipped-prime-" + std::to_string(x);
    fresh = false; last = v;
    return "";
  }
};

// ---------------------------------------------------------------------------
// stream "multi": histories interleaved over several primesieve::iterator objects (C14)
//   <idx> <iter op>      idx in 0..7; same operations and output as stream "iter"
// ---------------------------------------------------------------------------
int streamMulti(std::istream& in)
{
  std::vector<std::unique_ptr<primesieve::iterator>> its;
  for (int i = 0; i < 8; i++) its.emplace_back(new primesieve::iterator());
  CursorOracle orc[8];
  std::string line;
  while (std::getline(in, line))
  {
    auto t = split(line);
    if (t.empty() || t[0][0] == '#')
      continue;
    int idx = atoi(t[0].c_str());
    if (idx < 0 || idx > 7 || t.size() < 2) { std::cerr << "bad op: " << line << "\n"; return 2; }
    auto& it = its[idx];
    if (t[1] == "new")
    {
      it.reset(new primesieve::iterator(u64(t[2]), u64(t[3])));
      orc[idx].jump(u64(t[2]), true);
      std::cout << idx << " new " << t[2] << " " << t[3] << " => " << iterState(*it) << "\n";
    }
    else if (t[1] == "next" || t[1] == "prev")
    {
      long n = t.size() > 2 ? atol(t[2].c_str()) : 1;
      for (long j = 0; j < n; j++)
      {
        std::string res, bad;
        try
        {
          uint64_t v = (t[1] == "next") ? it->next_prime() : it->prev_prime();
          res = "v=" + std::to_string(v);
          bad = (t[1] == "next") ? orc[idx].next(false, v) : orc[idx].prev(v);
        }
        catch (const std::exception& e) { res = "v=ERR:" + errClass(e); bad = orc[idx].next(true, 0); }
        std::cout << idx << " " << t[1] << " k=" << it->size_ << " => " << res << " " << iterState(*it)
                  << (bad.empty() ? "" : " ORACLE-MISMATCH " + bad) << "\n";
      }
    }
    else if (t[1] == "jump")
    {
      it->jump_to(u64(t[2]), u64(t[3]));
      orc[idx].jump(u64(t[2]), true);
      std::cout << idx << " jump " << t[2] << " " << t[3] << " => " << iterState(*it) << "\n";
    }
    else if (t[1] == "clear")
    {
      it->clear();
      orc[idx].jump(0, true);
      std::cout << idx << " clear => " << iterState(*it) << "\n";
    }
    else { std::cerr << "bad op: " << line << "\n"; return 2; }
  }
  return 0;
}

// ---------------------------------------------------------------------------
// stream "iterc": histories on one primesieve_iterator (C API)
//   new <start> <hint> | next [n] | prev [n] | jump <s> <h> | skipto <s> <h> | clear | reinit
// ---------------------------------------------------------------------------
std::string citerState(const primesieve_iterator& it)
{
  std::ostringstream o;
  ull stop = it.start, dist = 0;
  int incl = 1, gen = 0;
  if (it.memory)
  {
    auto& d = *(IteratorData*) it.memory;
    stop = d.stop; dist = d.dist; incl = d.include_start_number; gen = d.primeGenerator != nullptr;
  }
  o << "i=" << it.i << " size=" << it.size << " start=" << it.start << " stop=" << stop << " dist=" << dist
    << " incl=" << incl << " gen=" << gen;
  if (it.size > 0) o << " b0=" << it.primes[0] << " bl=" << it.primes[it.size - 1];
  else o << " b0=- bl=-";
  o << " err=" << (it.is_error ? 1 : 0);
  return o.str();
}

int streamIterC(std::istream& in)
{
  primesieve_iterator it;
  primesieve_init(&it);
  bool edom = false;
  CursorOracle orc;
  bool sticky = false;
  std::string line;
  while (std::getline(in, line))
  {
    auto t = split(line);
    if (t.empty() || t[0][0] == '#')
      continue;
    if (t[0] == "new")
    {
      sticky = false;
      primesieve_free_iterator(&it);
      primesieve_init(&it);
      edom = false;
      primesieve_jump_to(&it, u64(t[1]), u64(t[2]));
      orc = CursorOracle(); orc.jump(u64(t[1]), true);
      std::cout << "new " << t[1] << " " << t[2] << " => " << citerState(it) << " edom=0\n";
    }
    else if (t[0] == "fresh")
    {
      // primesieve_init only (memory == NULL): the next jump_to / skipto is the first operation
      sticky = false;
      primesieve_free_iterator(&it);
      primesieve_init(&it);
      edom = false;
      orc = CursorOracle(); orc.jump(0, true);
      std::cout << "fresh => " << citerState(it) << " edom=0\n";
    }
    else if (t[0] == "next" || t[0] == "prev")
    {
      long n = t.size() > 1 ? atol(t[1].c_str()) : 1;
      for (long j = 0; j < n; j++)
      {
        errno = 0;
        uint64_t v = (t[0] == "next") ? primesieve_next_prime(&it) : primesieve_prev_prime(&it);
        if (errno == EDOM) edom = true;
        std::string bad;
        bool edomNow = errno == EDOM;
        if (edomNow && !it.is_error) bad = "errno=EDOM-without-is_error";
        else if (t[0] == "next" && (sticky || v == PRIMESIEVE_ERROR || edomNow))
        {
          // error contract: PRIMESIEVE_ERROR returned, is_error = 1, errno = EDOM; the first error is
          // justified only if no further prime exists; until the next jump/skipto/clear every
          // next_prime keeps failing
          if (v != PRIMESIEVE_ERROR || !it.is_error || !edomNow) bad = "error-contract(value,is_error,errno)";
          else if (!sticky) bad = orc.next(true, 0);
          sticky = true; orc.jump(0, true);
        }
        else
        {
          bad = (t[0] == "next") ? orc.next(false, v) : orc.prev(v);
          if (t[0] == "prev") sticky = false;      // prev_prime re-generates the buffer from position 0
        }
        std::cout << t[0] << " k=" << it.size << " => v=" << v << " " << citerState(it) << " edom=" << (edom ? 1 : 0)
                  << (bad.empty() ? "" : " ORACLE-MISMATCH " + bad) << "\n";
      }
    }
    else if (t[0] == "jump" || t[0] == "skipto")
    {
      if (t[0] == "jump") primesieve_jump_to(&it, u64(t[1]), u64(t[2]));
      else primesieve_skipto(&it, u64(t[1]), u64(t[2]));
      orc.jump(u64(t[1]), t[0] == "jump"); sticky = false;
      std::cout << t[0] << " " << t[1] << " " << t[2] << " => " << citerState(it) << " edom=" << (edom ? 1 : 0) << "\n";
    }
    else if (t[0] == "clear")
    {
      primesieve_clear(&it);
      orc.jump(0, true); sticky = false;
      std::cout << "clear => " << citerState(it) << " edom=" << (edom ? 1 : 0) << "\n";
    }
    else { std::cerr << "bad op: " << line << "\n"; return 2; }
  }
  primesieve_free_iterator(&it);
  primesieve_free_iterator(&it);   // API-permitted: repeated free
  return 0;
}

// --------------------------------------------------------------------------------------------
// calc: calculator::eval<T>(expression) — the number parser of the command line
//   op: calc <u64|i32|i64> <hex of the expression bytes> exp=<v:<int>|reject|any>
// --------------------------------------------------------------------------------------------
std::string unhex(const std::string& h)
{
  std::string out;
  for (size_t i = 1; i + 1 < h.size(); i += 2)       // h[0] is the marker 'x' (keeps the empty string a token)
    out.push_back((char) std::stoi(h.substr(i, 2), nullptr, 16));
  return out;
}

std::string calcErrClass(const std::string& msg)
{
  if (msg.rfind("Syntax error", 0) == 0) return "syntax";
  if (msg.rfind("Overflow error", 0) == 0) return "overflow";
  if (msg.rfind("Parser error: division by 0", 0) == 0) return "divZero";
  return "other";
}

template <typename T>
std::string runCalc(const std::string& expr)
{
  try
  {
    T v = calculator::eval<T>(expr);
    return "v=" + std::to_string(v);
  }
  catch (const calculator::error& e)
  {
    return "err=" + calcErrClass(e.what());
  }
}

int streamCalc(std::istream& in)
{
  std::string line;
  while (std::getline(in, line))
  {
    auto t = split(line);
    if (t.empty() || t[0][0] == '#')
      continue;
    if (t[0] != "calc" || t.size() < 4) { std::cerr << "bad op: " << line << "\n"; return 2; }
    std::string expr = unhex(t[2]);
    std::string res;
    if (t[1] == "u64") res = runCalc<uint64_t>(expr);
    else if (t[1] == "i32") res = runCalc<int>(expr);
    else res = runCalc<int64_t>(expr);
    std::cout << line << " => " << res;
    const std::string& exp = t[3];
    if (exp.rfind("exp=v:", 0) == 0)
    {
      if (res != "v=" + exp.substr(6))
        std::cout << " ORACLE-MISMATCH exact value " << exp.substr(6);
    }
    else if (exp == "exp=reject" && res.rfind("v=", 0) == 0)
      std::cout << " ORACLE-MISMATCH the exact value or an intermediate result does not fit / the expression is malformed: must be rejected";
    std::cout << "\n";
  }
  return 0;
}

// --------------------------------------------------------------------------------------------
// cli: the primesieve binary (path in $PSV_CLI), argv given as hex of the 0x1f-joined arguments
//   op: cli <hex> exp=<any|reject|other|sieve:<start>:<stop>:<count mask>:<print kind or ->:<quiet>|nth:<n>:<start>:<quiet>>
//   observation: rc and the canonical stdout (status / timing / settings lines removed)
// --------------------------------------------------------------------------------------------
std::string shellQuote(const std::string& a)
{
  std::string q = "'";
  for (char c : a) { if (c == '\'') q += "'\\''"; else q.push_back(c); }
  return q + "'";
}

int streamCli(std::istream& in)
{
  const char* bin = getenv("PSV_CLI");
  if (!bin) { std::cerr << "PSV_CLI not set\n"; return 2; }
  static const char* labels[6] = { "Primes: ", "Twin primes: ", "Prime triplets: ", "Prime quadruplets: ",
                                   "Prime quintuplets: ", "Prime sextuplets: " };
  std::string line;
  while (std::getline(in, line))
  {
    auto t = split(line);
    if (t.empty() || t[0][0] == '#')
      continue;
    if (t[0] != "cli" || t.size() < 3) { std::cerr << "bad op: " << line << "\n"; return 2; }
    std::string joined = unhex(t[1]);
    std::vector<std::string> args;
    {
      std::string cur;
      for (char c : joined) { if (c == '\x1f') { args.push_back(cur); cur.clear(); } else cur.push_back(c); }
      if (!joined.empty()) args.push_back(cur);
    }
    // every generated command line finishes within seconds; 120 s = "does not terminate" (e.g. a wrapped bound)
    std::string cmd = std::string("ASAN_OPTIONS=exitcode=99:detect_leaks=1 UBSAN_OPTIONS=print_stacktrace=1:exitcode=99 timeout -s KILL 120 ") + shellQuote(bin);
    for (auto& a : args) cmd += " " + shellQuote(a);
    cmd += " 2>/dev/null";
    FILE* f = popen(cmd.c_str(), "r");
    if (!f) { std::cerr << "popen failed\n"; return 2; }
    std::string raw;
    char buf[65536];
    size_t n;
    while ((n = fread(buf, 1, sizeof buf, f)) > 0) raw.append(buf, n);
    int st = pclose(f);
    int rc = WIFEXITED(st) ? WEXITSTATUS(st) : 128 + (WIFSIGNALED(st) ? WTERMSIG(st) : 0);
    // canonical stdout
    std::string text;
    {
      std::istringstream is(raw);
      std::string l;
      while (std::getline(is, l))
      {
        size_t cr = l.rfind('\r');
        if (cr != std::string::npos) l = l.substr(cr + 1);
        if (l.empty()) continue;
        if (l.back() == '%' && l.find_first_not_of("0123456789%") == std::string::npos) continue;
        if (l.rfind("Seconds: ", 0) == 0 || l.rfind("Sieve size = ", 0) == 0 || l.rfind("Threads = ", 0) == 0) continue;
        text += l + "\n";
      }
    }
    const std::string& exp = t[2];
    std::cout << line << " => rc=" << rc;
    if (exp == "exp=other") { std::cout << " other" << (rc == 0 ? "" : " ORACLE-MISMATCH exit status 0 expected") << "\n"; continue; }
    if (exp == "exp=help1") { std::cout << " other" << (rc == 1 ? "" : " ORACLE-MISMATCH exit status 1 expected (no arguments: usage)") << "\n"; continue; }
    size_t lines = std::count(text.begin(), text.end(), '\n');
    std::string first = "-", last = "-";
    if (!text.empty())
    {
      first = text.substr(0, text.find('\n'));
      size_t e = text.size() - 1;
      size_t b = text.rfind('\n', e ? e - 1 : 0);
      last = (b == std::string::npos || e == 0) ? text.substr(0, e) : text.substr(b + 1, e - b - 1);
    }
    for (auto& c : first) if (c == ' ') c = '_';
    for (auto& c : last) if (c == ' ') c = '_';
    std::cout << " lines=" << lines << " fnv=" << fnv1a(text) << " first=" << first << " last=" << last;
    if (rc == 137 || rc == 124) std::cout << " ORACLE-MISMATCH the program did not finish within 120 s (killed): a small request was turned into a huge one";
    else if (rc > 1) std::cout << " ORACLE-MISMATCH the program died (exit status " << rc << ": signal / sanitizer report)";
    else if (exp == "exp=reject")
    {
      if (rc != 1 || !text.empty())
        std::cout << " ORACLE-MISMATCH this command line must be rejected (message, exit status 1, no result)";
    }
    else if (exp.rfind("exp=sieve:", 0) == 0 || exp.rfind("exp=nth:", 0) == 0)
    {
      // what the LIBRARY returns for the intended interval / options
      std::vector<std::string> f2;
      { std::string cur; for (char c : exp.substr(4)) { if (c == ':') { f2.push_back(cur); cur.clear(); } else cur.push_back(c); } f2.push_back(cur); }
      std::string want;
      bool wantErr = false;
      if (f2[0] == "sieve")
      {
        uint64_t a = u64(f2[1]), b = u64(f2[2]);
        int mask = atoi(f2[3].c_str());
        bool quiet = f2[5] == "1";
        if (f2[4] != "-") want += expectedPrint(a, b, atoi(f2[4].c_str()));
        int cnt = 0;
        for (int i = 0; i < 6; i++) if (mask & (1 << i)) cnt++;
        primesieve::set_num_threads(1);
        for (int i = 0; i < 6; i++)
          if (mask & (1 << i))
          {
            uint64_t c = 0;
            switch (i)
            {
              case 0: c = primesieve::count_primes(a, b); break;
              case 1: c = primesieve::count_twins(a, b); break;
              case 2: c = primesieve::count_triplets(a, b); break;
              case 3: c = primesieve::count_quadruplets(a, b); break;
              case 4: c = primesieve::count_quintuplets(a, b); break;
              default: c = primesieve::count_sextuplets(a, b); break;
            }
            want += (quiet && cnt == 1 ? std::string() : std::string(labels[i])) + std::to_string(c) + "\n";
          }
      }
      else
      {
        long long nn = atoll(f2[1].c_str());
        uint64_t a = u64(f2[2]);
        bool quiet = f2[3] == "1";
        try { uint64_t v = primesieve::nth_prime(nn, a); want = (quiet ? std::string() : std::string("Nth prime: ")) + std::to_string(v) + "\n"; }
        catch (const std::exception&) { wantErr = true; }
      }
      if (wantErr ? (rc != 1 || !text.empty()) : (rc != 0 || text != want))
        std::cout << " ORACLE-MISMATCH the library gives " << (wantErr ? std::string("an error") : "lines=" + std::to_string(std::count(want.begin(), want.end(), '\n')) + " fnv=" + std::to_string(fnv1a(want)));
    }
    std::cout << "\n";
  }
  return 0;
}

// --------------------------------------------------------------------------------------------
// wheel: Wheel<M>::addSievingPrime(prime, segmentLow) with stop_ = stop, observed through a
//        subclass that records what storeSievingPrime receives
//   op: wheel <30|210> <prime> <segmentLow> <stop>
// cross: one sieving prime crossed off over consecutive segments by the real EratSmall /
//        EratMedium / EratBig; observation = the NUMBERS whose bits were cleared
//   op: cross <small|medium|big> <prime> <segmentLow> <stop> <sieveBytes> <segments> <l1Bytes>
// --------------------------------------------------------------------------------------------
template <class W>
struct ProbeWheel : W
{
  bool stored = false;
  uint64_t p = 0, mi = 0, wi = 0;
  void setStop(uint64_t s) { this->stop_ = s; }
  void storeSievingPrime(uint64_t prime, uint64_t multipleIndex, uint64_t wheelIndex) override
  { stored = true; p = prime; mi = multipleIndex; wi = wheelIndex; }
};

int streamWheel(std::istream& in)
{
  std::string line;
  while (std::getline(in, line))
  {
    auto t = split(line);
    if (t.empty() || t[0][0] == '#')
      continue;
    if (t[0] != "wheel" || t.size() < 5) { std::cerr << "bad op: " << line << "\n"; return 2; }
    uint64_t prime = u64(t[2]), low = u64(t[3]), stop = u64(t[4]);
    bool stored; uint64_t mi, wi;
    if (t[1] == "30") { ProbeWheel<primesieve::Wheel30_t> w; w.setStop(stop); w.addSievingPrime(prime, low); stored = w.stored; mi = w.mi; wi = w.wi; }
    else { ProbeWheel<primesieve::Wheel210_t> w; w.setStop(stop); w.addSievingPrime(prime, low); stored = w.stored; mi = w.mi; wi = w.wi; }
    std::cout << line << " => ";
    if (!stored) std::cout << "none";
    else std::cout << "sp=" << prime / 30 << " idx=" << mi << " w=" << wi;
    // oracle (128-bit arithmetic): the first multiple p*q > low+6 with q >= p and q coprime to M, if <= stop
    {
      unsigned M = t[1] == "30" ? 30 : 210;
      unsigned __int128 sl = (unsigned __int128) low + 6;
      unsigned __int128 q = sl / prime + 1;
      if (q < prime) q = prime;
      while (std::__gcd((unsigned) (q % M), M) != 1) q++;
      unsigned __int128 m = q * prime;
      bool want = m <= stop;
      if (want != stored)
        std::cout << " ORACLE-MISMATCH first admissible multiple " << (want ? "exists" : "does not exist") << " below stop";
      else if (stored)
      {
        static const int off[8] = { 7, 11, 13, 17, 19, 23, 29, 31 };
        // which number does (mi, bit of wi) denote?  the bit is not observable here; check the byte
        unsigned __int128 lo = (unsigned __int128) low + 30 * (unsigned __int128) mi + 7, hi = lo + 24;
        (void) off;
        if (m < lo || m > hi) std::cout << " ORACLE-MISMATCH multipleIndex does not address the byte of the first multiple";
      }
    }
    std::cout << "\n";
  }
  return 0;
}

int streamCross(std::istream& in)
{
  static const int off[8] = { 7, 11, 13, 17, 19, 23, 29, 31 };
  std::string line;
  while (std::getline(in, line))
  {
    auto t = split(line);
    if (t.empty() || t[0][0] == '#')
      continue;
    if (t[0] != "cross" || t.size() < 8) { std::cerr << "bad op: " << line << "\n"; return 2; }
    uint64_t prime = u64(t[2]), low = u64(t[3]), stop = u64(t[4]), S = u64(t[5]), nseg = u64(t[6]), l1 = u64(t[7]);
    primesieve::MemoryPool pool;
    primesieve::EratSmall es; primesieve::EratMedium em; primesieve::EratBig eb;
    if (t[1] == "small") { es.init(stop, l1, prime); es.addSievingPrime(prime, low); }
    else if (t[1] == "medium") { em.init(stop, prime, pool); em.addSievingPrime(prime, low); }
    else { eb.init(stop, S, prime, pool); eb.addSievingPrime(prime, low); }
    std::string text;
    uint64_t count = 0, bad = 0;
    unsigned M = t[1] == "big" ? 210 : 30;
    primesieve::Vector<uint8_t> sieve;
    for (uint64_t k = 0; k < nseg; k++)
    {
      sieve.resize(S);
      std::fill(sieve.begin(), sieve.end(), (uint8_t) 0xff);
      bool has = t[1] == "small" ? es.hasSievingPrimes() : t[1] == "medium" ? em.hasSievingPrimes() : eb.hasSievingPrimes();
      if (has)
      {
        if (t[1] == "small") es.crossOff(sieve);
        else if (t[1] == "medium") em.crossOff(sieve);
        else eb.crossOff(sieve);
      }
      uint64_t segLow = low + k * S * 30;
      for (uint64_t j = 0; j < S; j++)
        if (sieve[j] != 0xff)
          for (int b = 0; b < 8; b++)
            if (!(sieve[j] & (1 << b)))
            {
              uint64_t n = segLow + 30 * j + off[b];
              text += std::to_string(n) + ",";
              count++;
              if (n % prime != 0 || n / prime < prime || std::__gcd((unsigned) ((n / prime) % M), M) != 1) bad++;
            }
    }
    // expected count: q from the first admissible quotient while p*q inside the sieved range
    uint64_t expect = 0;
    {
      unsigned __int128 sl = (unsigned __int128) low + 6, end = (unsigned __int128) low + (unsigned __int128) nseg * S * 30 + 1;
      unsigned __int128 q = sl / prime + 1;
      if (q < prime) q = prime;
      // addSievingPrime drops the prime when its first admissible multiple exceeds stop
      unsigned __int128 q1 = q; while (std::__gcd((unsigned) (q1 % M), M) != 1) q1++;
      if (q1 * prime <= stop)
        for (; q * prime <= end; q++)
          if (std::__gcd((unsigned) (q % M), M) == 1) expect++;
    }
    std::cout << line << " => n=" << count << " fnv=" << fnv1a(text);
    if (bad) std::cout << " ORACLE-MISMATCH " << bad << " cleared bits are not multiples p*q with q >= p coprime to the wheel";
    else if (count != expect) std::cout << " ORACLE-MISMATCH " << count << " bits cleared, " << expect << " admissible multiples in range";
    std::cout << "\n";
  }
  return 0;
}

// --------------------------------------------------------------------------------------------
// presieve: PreSieve::preSieve(sieve, segmentLow) on a sieve of `bytes` bytes
//   op: presieve <segmentLow> <bytes>
// --------------------------------------------------------------------------------------------
int streamPreSieve(std::istream& in)
{
  static const int off[8] = { 7, 11, 13, 17, 19, 23, 29, 31 };
  static const int ps[] = { 7, 11, 13, 17, 19, 23, 29, 31, 37, 41, 43, 47, 53, 59, 61, 67, 71, 73, 79, 83, 89, 97, 101, 103,
                            107, 109, 113, 127, 131, 137, 139, 149, 151, 157, 163 };
  std::string line;
  while (std::getline(in, line))
  {
    auto t = split(line);
    if (t.empty() || t[0][0] == '#')
      continue;
    if (t[0] != "presieve" || t.size() < 3) { std::cerr << "bad op: " << line << "\n"; return 2; }
    uint64_t low = u64(t[1]), n = u64(t[2]);
    primesieve::Vector<uint8_t> sieve;
    sieve.resize(n);
    std::fill(sieve.begin(), sieve.end(), (uint8_t) 0);
    primesieve::PreSieve::preSieve(sieve, low);
    std::string text;
    uint64_t bad = 0;
    for (uint64_t j = 0; j < n; j++)
    {
      text += std::to_string((int) sieve[j]) + ",";
      for (int b = 0; b < 8; b++)
      {
        unsigned __int128 x = (unsigned __int128) low + 30 * j + off[b];
        bool keep = true;
        for (int p : ps) if (x % p == 0 && x != (unsigned) p) { keep = false; break; }
        if (keep != (((sieve[j] >> b) & 1) != 0)) bad++;
      }
    }
    std::cout << line << " => fnv=" << fnv1a(text);
    if (bad) std::cout << " ORACLE-MISMATCH " << bad << " bits differ from 'no prime in 7..163 properly divides the number'";
    std::cout << "\n";
  }
  return 0;
}

// --------------------------------------------------------------------------------------------
// capi: corners of the C error contract that the store / nth / print streams do not reach
//   op: capi <case> <a> <b> <type>
//   cases: gp (generate_primes a b, size pointer given), gpnull (size pointer NULL), gn (generate_n_primes n=a start=b),
//          count (primesieve_count_primes a b), nth (primesieve_nth_prime n=a start=b), free0 (primesieve_free(NULL))
//   observation: NULL/non-NULL, *size, errno == EDOM, value; oracle = C++ API in the same process + contract
// --------------------------------------------------------------------------------------------
int streamCApi(std::istream& in)
{
  std::string line;
  while (std::getline(in, line))
  {
    auto t = split(line);
    if (t.empty() || t[0][0] == '#')
      continue;
    if (t[0] != "capi" || t.size() < 5) { std::cerr << "bad op: " << line << "\n"; return 2; }
    uint64_t a = u64(t[2]), b = u64(t[3]);
    int type = atoi(t[4].c_str());
    bool validType = type >= 0 && type <= UINT64_PRIMES;
    std::ostringstream o;
    std::string bad;
    errno = 0;
    if (t[1] == "gp" || t[1] == "gpnull")
    {
      size_t size = 12345;
      void* p = primesieve_generate_primes(a, b, t[1] == "gp" ? &size : nullptr, type);
      bool edom = errno == EDOM;
      o << "ptr=" << (p ? 1 : 0) << " size=" << (t[1] == "gp" ? (long long) size : -1) << " edom=" << edom;
      // the C++ counterpart with a 64-bit element type tells how many primes there are
      std::vector<uint64_t> ref;
      bool refErr = false;
      try { primesieve::generate_primes(a, b, &ref); } catch (const std::exception&) { refErr = true; }
      if (!validType) { if (p || !edom || (t[1] == "gp" && size != 0)) bad = "invalid type code must give NULL, *size = 0, errno = EDOM"; }
      else if (type == UINT64_PRIMES || type == ULONG_PRIMES || type == ULONGLONG_PRIMES)
      {
        if (refErr != edom) bad = "error status differs from the C++ API";
        else if (!edom)
        {
          if (t[1] == "gp" && size != ref.size()) bad = "*size differs from the C++ API";
          if (ref.empty() && edom) bad = "empty result must not set EDOM";
          if (p && !ref.empty() && memcmp(p, ref.data(), ref.size() * 8) != 0) bad = "array differs from the C++ API";
        }
        else if (p || (t[1] == "gp" && size != 0)) bad = "on error NULL and *size = 0 are required";
      }
      primesieve_free(p);
    }
    else if (t[1] == "gn")
    {
      void* p = primesieve_generate_n_primes(a, b, type);
      bool edom = errno == EDOM;
      o << "ptr=" << (p ? 1 : 0) << " edom=" << edom;
      if (!validType) { if (p || !edom) bad = "invalid type code must give NULL and errno = EDOM"; }
      else if (a == 0 && edom) bad = "n = 0 is an empty request, not an error";
      primesieve_free(p);
    }
    else if (t[1] == "count")
    {
      uint64_t c = primesieve_count_primes(a, b);
      bool edom = errno == EDOM;
      uint64_t ref = primesieve::count_primes(a, b);
      o << "v=" << c << " edom=" << edom;
      if (c != ref || edom) bad = "differs from the C++ API / EDOM set on success";
    }
    else if (t[1] == "nth")
    {
      uint64_t v = primesieve_nth_prime((int64_t) a, b);
      bool edom = errno == EDOM;
      o << "v=" << v << " edom=" << edom;
      bool refErr = false; uint64_t ref = 0;
      try { ref = primesieve::nth_prime((int64_t) a, b); } catch (const std::exception&) { refErr = true; }
      if (refErr ? !(v == PRIMESIEVE_ERROR && edom) : (v != ref || edom)) bad = "differs from the C++ API / error contract";
    }
    else if (t[1] == "free0")
    {
      primesieve_free(nullptr);
      o << "ok";
    }
    else { std::cerr << "bad op: " << line << "\n"; return 2; }
    std::cout << line << " => " << o.str() << (bad.empty() ? "" : " ORACLE-MISMATCH " + bad) << "\n";
  }
  return 0;
}

// --------------------------------------------------------------------------------------------
// mt: m user threads run API calls concurrently; every result must equal the result of the same
//     call made alone beforehand (C14: no hidden shared mutable state between concurrent calls)
//   op: mt <threads> <rounds> <base>
// --------------------------------------------------------------------------------------------
struct MtCall { int kind; uint64_t a, b; };

uint64_t mtRun(const MtCall& c)
{
  switch (c.kind)
  {
    case 0: return primesieve::count_primes(c.a, c.b);
    case 1: return primesieve::count_twins(c.a, c.b);
    case 2: { uint64_t v = 0; try { v = primesieve::nth_prime((int64_t) c.b, c.a); } catch (const std::exception&) { v = 1; } return v; }
    case 3: { std::vector<uint64_t> v; primesieve::generate_primes(c.a, c.b, &v); uint64_t h = 1469598103934665603ull; for (uint64_t x : v) { h ^= x; h *= 1099511628211ull; } return h + v.size(); }
    case 4: { primesieve::iterator it(c.a); uint64_t h = 0; for (int i = 0; i < 3000; i++) h = h * 31 + it.next_prime(); for (int i = 0; i < 1500; i++) h = h * 31 + it.prev_prime(); return h; }
    case 5: { primesieve_iterator it; primesieve_init(&it); primesieve_jump_to(&it, c.a, c.b); uint64_t h = 0; for (int i = 0; i < 2000; i++) h = h * 31 + primesieve_next_prime(&it); primesieve_free_iterator(&it); return h; }
    default: { uint64_t v = primesieve::count_sextuplets(c.a, c.b); return v; }
  }
}

int streamMt(std::istream& in)
{
  std::string line;
  while (std::getline(in, line))
  {
    auto t = split(line);
    if (t.empty() || t[0][0] == '#')
      continue;
    if (t[0] != "mt" || t.size() < 4) { std::cerr << "bad op: " << line << "\n"; return 2; }
    int m = atoi(t[1].c_str()), rounds = atoi(t[2].c_str());
    uint64_t base = u64(t[3]);
    primesieve::set_num_threads(2);          // the calls spawn their own workers, too
    primesieve::set_sieve_size(32);
    // the work list of thread i, round r
    auto call = [&](int i, int r) {
      uint64_t x = base + (uint64_t) i * 1000003ull + (uint64_t) r * 7919ull;
      MtCall c;
      c.kind = (i + r) % 7;
      c.a = x;
      c.b = (c.kind == 2) ? (uint64_t) (50 + (i * 13 + r * 7) % 400) : x + 30000 + (uint64_t) ((i * 31 + r * 17) % 50000);
      if (c.kind == 0 && (r % 3) == 0) c.b = x + 25000000;       // long enough for two worker threads
      return c;
    };
    std::vector<std::vector<uint64_t>> solo(m, std::vector<uint64_t>(rounds)), conc(m, std::vector<uint64_t>(rounds));
    for (int i = 0; i < m; i++)
      for (int r = 0; r < rounds; r++)
        solo[i][r] = mtRun(call(i, r));
    std::vector<std::thread> ths;
    for (int i = 0; i < m; i++)
      ths.emplace_back([&, i] { for (int r = 0; r < rounds; r++) conc[i][r] = mtRun(call(i, r)); });
    for (auto& th : ths) th.join();
    int bad = 0; std::string first;
    for (int i = 0; i < m; i++)
      for (int r = 0; r < rounds; r++)
        if (solo[i][r] != conc[i][r])
        {
          if (!bad) { MtCall c = call(i, r); first = "thread " + std::to_string(i) + " round " + std::to_string(r) + " kind " + std::to_string(c.kind) + " a=" + std::to_string(c.a) + " b=" + std::to_string(c.b); }
          bad++;
        }
    uint64_t h = 0;
    for (int i = 0; i < m; i++) for (int r = 0; r < rounds; r++) h = h * 1000003ull + solo[i][r];
    std::cout << line << " => calls=" << m * rounds << " digest=" << h;
    if (bad) std::cout << " ORACLE-MISMATCH " << bad << " concurrent calls returned something else than alone; first: " << first;
    std::cout << "\n";
  }
  primesieve::set_num_threads(1 << 20);
  primesieve::set_sieve_size(256);
  return 0;
}

// --------------------------------------------------------------------------------------------
// sysfs: start-up under a substituted /sys/devices/system/cpu tree (hook H2).  The CpuInfo singleton is
//   built at load time, so every tree needs its own process: the parent re-executes itself with
//   PRIMESIEVE_VERIF_SYSFS_ROOT set (stream `sysfs1`).  The child prints a line of the `cfg` stream's
//   `gss` shape with the cache description IT PARSED, so the Lean model checks get_sieve_size() and
//   Erat's L1 size for exactly that description; the harness checks that the library initialised at
//   all (exit status 0) and that results do not depend on the topology.
//   op: sysfs <dir>
// --------------------------------------------------------------------------------------------
std::string selfPath;

int streamSysfs1()
{
  uint64_t v[4];
  primesieve_verif_probe::readCpu(v);
  int sz = primesieve::get_sieve_size();
  uint64_t l1 = primesieve_verif_probe::l1CacheSize();
  const uint64_t A = 1000000000ull, B = 1000300000ull;
  uint64_t expC[6];
  oracleCounts(A, B, expC);
  uint64_t c = primesieve::count_primes(A, B);
  uint64_t tw = primesieve::count_twins(A, B);
  primesieve::iterator it(A + 12345);
  uint64_t p = it.next_prime(), q = it.prev_prime();
  bool ok = c == expC[0] && tw == expC[1] && isPrimeOracle(p) && isPrimeOracle(q) && q < p && sz >= 16 && sz <= 8192;
  std::cout << "gss " << v[0] << " " << v[1] << " " << v[2] << " " << v[3] << " => size=" << sz << " l1=" << l1;
  if (!ok) std::cout << " ORACLE-MISMATCH count=" << c << " twins=" << tw << " expected=" << expC[0] << "," << expC[1] << " size=" << sz;
  std::cout << "\n";
  return 0;
}

int streamSysfs(std::istream& in)
{
  std::string line;
  while (std::getline(in, line))
  {
    auto t = split(line);
    if (t.empty() || t[0][0] == '#')
      continue;
    if (t[0] != "sysfs" || t.size() < 2) { std::cerr << "bad op: " << line << "\n"; return 2; }
    std::string cmd = "PRIMESIEVE_VERIF_SYSFS_ROOT=" + shellQuote(t[1]) + " ASAN_OPTIONS=exitcode=99:detect_leaks=1 UBSAN_OPTIONS=print_stacktrace=1:exitcode=99 timeout -s KILL 120 "
                      + shellQuote(selfPath) + " sysfs1 /dev/null 2>/dev/null";
    FILE* f = popen(cmd.c_str(), "r");
    if (!f) { std::cerr << "popen failed\n"; return 2; }
    std::string raw; char buf[4096]; size_t n;
    while ((n = fread(buf, 1, sizeof buf, f)) > 0) raw.append(buf, n);
    int st = pclose(f);
    int rc = WIFEXITED(st) ? WEXITSTATUS(st) : 128 + (WIFSIGNALED(st) ? WTERMSIG(st) : 0);
    while (!raw.empty() && raw.back() == '\n') raw.pop_back();
    if (rc != 0 || raw.rfind("gss ", 0) != 0)
      std::cout << "gss 0 0 0 0 => DID-NOT-INITIALISE rc=" << rc << " ORACLE-MISMATCH the library did not start up / crashed under the cache description in " << t[1] << "\n";
    else
      std::cout << raw << "\n";
  }
  return 0;
}

} // namespace

// the trace must reach the operation that dies: flush what is buffered when a sanitizer
// reports (death callback) or when an assertion / std::terminate raises SIGABRT
static void flushTrace() { std::cout.flush(); fflush(stdout); }
static void onAbort(int) { flushTrace(); _exit(134); }

int main(int argc, char** argv)
{
  __sanitizer_set_death_callback(flushTrace);
  std::signal(SIGABRT, onAbort);
  if (argc < 3)
  {
    std::cerr << "usage: psv_harness <stream> <opsfile>\n";
    return 2;
  }
  std::string stream = argv[1];
  selfPath = argv[0];
  if (stream == "sysfs1")
    return streamSysfs1();
  std::ifstream in(argv[2]);
  if (!in)
  {
    std::cerr << "cannot open " << argv[2] << "\n";
    return 2;
  }
  std::ios::sync_with_stdio(false);
  if (stream == "iter")
    return streamIter(in);
  if (stream == "segment")
    return streamSegment(in);
  if (stream == "count")
    return streamCount(in);
  if (stream == "print")
    return streamPrint(in);
  if (stream == "store")
    return streamStore(in);
  if (stream == "nth")
    return streamNth(in);
  if (stream == "cfg")
    return streamCfg(in);
  if (stream == "multi")
    return streamMulti(in);
  if (stream == "iterc")
    return streamIterC(in);
  if (stream == "calc")
    return streamCalc(in);
  if (stream == "wheel")
    return streamWheel(in);
  if (stream == "presieve")
    return streamPreSieve(in);
  if (stream == "capi")
    return streamCApi(in);
  if (stream == "mt")
    return streamMt(in);
  if (stream == "sysfs")
    return streamSysfs(in);
  if (stream == "cross")
    return streamCross(in);
  if (stream == "cli")
    return streamCli(in);
  std::cerr << "unknown stream " << stream << "\n";
  return 2;
}
