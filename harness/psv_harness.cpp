// psv_harness — correspondence harness for the Lean model of primesieve.
//
// Usage: psv_harness <stream> <opsfile>
// Reads one operation per line from <opsfile>, executes it against the real
// library (linked from a fresh build of /repo's working tree, built with
// -DPRIMESIEVE_VERIF -DENABLE_ASSERT and ASan/UBSan) and prints one line
//     <operation incl. observed nondeterminism> => <canonical observation>
// per executed operation.  The Lean driver (psv_model) reads exactly these
// lines, re-computes the observation from the model and prints lines of the
// same shape; the orchestrator diffs both outputs.
//
// The "observed nondeterminism" (e.g. k=<block length> of a refill) is the
// part of the behaviour the model deliberately leaves open.

#include <primesieve.hpp>
#include <primesieve.h>
#include <primesieve/IteratorHelper.hpp>
#include <primesieve/PrimeGenerator.hpp>
#include <primesieve/Erat.hpp>
#include <primesieve/primesieve_error.hpp>
#include <primesieve/ParallelSieve.hpp>
#include <primesieve/PrimeSieve.hpp>
#include <algorithm>
#include <mutex>
#include <thread>
#include <primesieve/Vector.hpp>

#include <cerrno>
#include <cstdint>
#include <cstdio>
#include <cstdlib>
#include <cstring>
#include <exception>
#include <fstream>
#include <iostream>
#include <memory>
#include <new>
#include <sstream>
#include <string>
#include <vector>

using primesieve::IteratorData;

// Friend of the library classes when built with -DPRIMESIEVE_VERIF (hook H0).
struct primesieve_verif_probe
{
  // ---- PrimeGenerator / Erat: sieve one segment at a time --------------------------------
  static bool pgSieveNext(primesieve::PrimeGenerator& pg, primesieve::Vector<uint64_t>& primes, std::size_t* size)
  { return pg.sieveNextPrimes(primes, size); }
  static uint64_t low(const primesieve::PrimeGenerator& pg) { return pg.low_; }
  static uint64_t segLow(const primesieve::PrimeGenerator& pg) { return pg.segmentLow_; }
  static uint64_t segHigh(const primesieve::PrimeGenerator& pg) { return pg.segmentHigh_; }
  static const primesieve::Vector<uint8_t>& sieve(const primesieve::PrimeGenerator& pg) { return pg.sieve_; }
  static uint64_t maxSmall(const primesieve::PrimeGenerator& pg) { return pg.maxEratSmall_; }
  static uint64_t maxMedium(const primesieve::PrimeGenerator& pg) { return pg.maxEratMedium_; }
  static void setSieveIdxDone(primesieve::PrimeGenerator& pg) { pg.sieveIdx_ = pg.sieve_.size(); }
  static uint64_t l1CacheSize() { return primesieve::Erat::getL1CacheSize(); }
  static uint64_t threadDistance(const primesieve::ParallelSieve& ps, int threads) { return ps.getThreadDistance(threads); }
};

extern uint64_t primesieve_verif_min_thread_distance;
extern void (*primesieve_verif_piece_hook)(uint64_t i, uint64_t start, uint64_t stop);
bool isPrimeOracle(uint64_t n);
void oracleRange(uint64_t lo, uint64_t hi, std::vector<char>& out);

namespace {

typedef unsigned long long ull;

std::string errClass(const std::exception& e)
{
  if (dynamic_cast<const std::bad_alloc*>(&e))
    return "badAlloc";
  std::string w = e.what();
  if (w.find("> 2^64") != std::string::npos)
    return "overflow";
  return "invalid";
}

std::vector<std::string> split(const std::string& s)
{
  std::vector<std::string> v;
  std::istringstream is(s);
  std::string t;
  while (is >> t)
    v.push_back(t);
  return v;
}

uint64_t u64(const std::string& s)
{
  return strtoull(s.c_str(), nullptr, 10);
}

// ---------------------------------------------------------------------------
// stream "iter": histories on one primesieve::iterator (C++ API)
// ---------------------------------------------------------------------------

std::string iterState(const primesieve::iterator& it)
{
  std::ostringstream o;
  ull stop = it.start_, dist = 0;
  int incl = 1, gen = 0;
  if (it.memory_)
  {
    auto& d = *(IteratorData*) it.memory_;
    stop = d.stop;
    dist = d.dist;
    incl = d.include_start_number;
    gen = d.primeGenerator != nullptr;
  }
  o << "i=" << it.i_ << " size=" << it.size_ << " start=" << it.start_
    << " stop=" << stop << " dist=" << dist << " incl=" << incl << " gen=" << gen;
  if (it.size_ > 0)
    o << " b0=" << it.primes_[0] << " bl=" << it.primes_[it.size_ - 1];
  else
    o << " b0=- bl=-";
  return o.str();
}

int streamIter(std::istream& in)
{
  std::unique_ptr<primesieve::iterator> it(new primesieve::iterator());
  std::string line;
  while (std::getline(in, line))
  {
    auto t = split(line);
    if (t.empty() || t[0][0] == '#')
      continue;
    if (t[0] == "new")
    {
      it.reset(new primesieve::iterator(u64(t[1]), u64(t[2])));
      std::cout << "new " << t[1] << " " << t[2] << " => " << iterState(*it) << "\n";
    }
    else if (t[0] == "next" || t[0] == "prev")
    {
      long n = t.size() > 1 ? atol(t[1].c_str()) : 1;
      for (long j = 0; j < n; j++)
      {
        std::string res;
        try
        {
          uint64_t v = (t[0] == "next") ? it->next_prime() : it->prev_prime();
          res = "v=" + std::to_string(v);
        }
        catch (const std::exception& e)
        {
          res = "v=ERR:" + errClass(e);
        }
        // k = block length of the buffer the iterator now holds (used by the
        // model only if this call refilled the buffer going forwards)
        std::cout << t[0] << " k=" << it->size_ << " => " << res << " " << iterState(*it) << "\n";
      }
    }
    else if (t[0] == "jump")
    {
      it->jump_to(u64(t[1]), u64(t[2]));
      std::cout << "jump " << t[1] << " " << t[2] << " => " << iterState(*it) << "\n";
    }
    else if (t[0] == "clear")
    {
      it->clear();
      std::cout << "clear => " << iterState(*it) << "\n";
    }
    else if (t[0] == "movein")
    {
      // move construction: continue with the new object
      std::unique_ptr<primesieve::iterator> b(new primesieve::iterator(std::move(*it)));
      it = std::move(b);
      std::cout << "movein => " << iterState(*it) << "\n";
    }
    else if (t[0] == "moveassign")
    {
      // move assignment into a used iterator: continue with the target
      std::unique_ptr<primesieve::iterator> b(new primesieve::iterator(1000, 2000));
      b->next_prime();
      *b = std::move(*it);
      it = std::move(b);
      std::cout << "movein => " << iterState(*it) << "\n";
    }
    else if (t[0] == "moveout")
    {
      // continue with the moved-from object
      primesieve::iterator b(std::move(*it));
      b.next_prime();
      std::cout << "moveout => " << iterState(*it) << "\n";
    }
    else if (t[0] == "selfmove")
    {
      primesieve::iterator& r = *it;
      *it = std::move(r);
      std::cout << "movein => " << iterState(*it) << "\n";
    }
    else
    {
      std::cerr << "bad op: " << line << "\n";
      return 2;
    }
  }
  return 0;
}

// ---------------------------------------------------------------------------
// stream "segment": the Erat layer under PrimeGenerator, one segment at a time
//   seg <start> <stop> <sieveKiB>
// prints per sieved segment the geometry and a digest of the 1-bits, and whether the
// decoded numbers are exactly the primes of the segment's part of [start, stop]
// (checked against an independent trial-division / Miller-Rabin oracle in the harness).
// ---------------------------------------------------------------------------

const int bitOff[8] = { 7, 11, 13, 17, 19, 23, 29, 31 };

int streamSegment(std::istream& in)
{
  std::string line;
  while (std::getline(in, line))
  {
    auto t = split(line);
    if (t.empty() || t[0][0] == '#')
      continue;
    if (t[0] != "seg" || t.size() < 4) { std::cerr << "bad op: " << line << "\n"; return 2; }
    uint64_t start = u64(t[1]), stop = u64(t[2]);
    int kib = atoi(t[3].c_str());
    primesieve::set_sieve_size(kib);
    std::cout << "seg " << start << " " << stop << " " << kib << " l1=" << primesieve_verif_probe::l1CacheSize() << " => ";
    try
    {
      primesieve::PrimeGenerator pg(start, stop);
      primesieve::Vector<uint64_t> primes;
      std::size_t size = 0;
      long nseg = 0;
      uint64_t total = 0, sum = 0;
      std::string bad;
      std::ostringstream geo;
      uint64_t prevHigh = 0;
      while (true)
      {
        try
        {
          if (!primesieve_verif_probe::pgSieveNext(pg, primes, &size))
            break;
        }
        catch (const primesieve::primesieve_error&)
        {
          // stop = 2^64-1: after the last segment sieveNextPrimes() reports
          // "cannot generate primes > 2^64" instead of returning false
          if (stop == UINT64_MAX)
            break;
          throw;
        }
        // the segment just sieved starts at low_; its bytes are sieve_
        uint64_t low = primesieve_verif_probe::low(pg);
        auto& sv = primesieve_verif_probe::sieve(pg);
        uint64_t bytes = sv.size();
        if (nseg < 4)
          geo << " [low=" << low << " bytes=" << bytes << " nlow=" << primesieve_verif_probe::segLow(pg)
              << " nhigh=" << primesieve_verif_probe::segHigh(pg) << "]";
        uint64_t lo = std::max<uint64_t>(std::max<uint64_t>(start, 721), low + 7);
        uint64_t hi = low + bytes * 30 + 1;   // value of the last bit of the last byte
        if (hi < low || hi > stop) hi = stop;
        // every number of the wheel in [low+7, low+30*bytes+1]: bit must equal "prime and in [lo,hi]"
        std::vector<char> isP;
        uint64_t olo = low + 7, ohi = low + bytes * 30 + 1;
        if (ohi < olo) ohi = UINT64_MAX;
        oracleRange(olo, ohi, isP);
        for (uint64_t j = 0; j < bytes && bad.empty(); j++)
          for (int b = 0; b < 8; b++)
          {
            uint64_t n = low + 30 * j + bitOff[b];
            if (n < low) continue; // wrapped
            bool bit = (sv[j] >> b) & 1;
            bool want = n >= lo && n <= hi && isP[n - olo];
            if (bit) { total++; sum += n; }
            if (bit != want)
            {
              bad = "n=" + std::to_string(n) + (bit ? ":composite-or-out-of-range-kept" : ":prime-missing")
                    + " seg=" + std::to_string(nseg) + " low=" + std::to_string(low) + " byte=" + std::to_string(j) + " bit=" + std::to_string(b);
              break;
            }
          }
        // padding bytes up to a multiple of 8 must be zero (read by 64-bit loads)
        for (uint64_t j = bytes; j % 8 != 0 && j < sv.capacity(); j++)
          if (sv.data()[j] != 0 && bad.empty())
            bad = "nonzero-padding seg=" + std::to_string(nseg);
        primesieve_verif_probe::setSieveIdxDone(pg);
        nseg++;
        prevHigh = hi;
      }
      std::cout << "segs=" << nseg << " total=" << total << " sum=" << sum
                << " small=" << primesieve_verif_probe::maxSmall(pg) << " medium=" << primesieve_verif_probe::maxMedium(pg)
                << " content=" << (bad.empty() ? "ok" : bad) << geo.str() << "\n";
    }
    catch (const std::exception& e)
    {
      std::cout << "ERR:" << errClass(e) << "\n";
    }
  }
  primesieve::set_sieve_size(0 + 256);
  return 0;
}

// ---------------------------------------------------------------------------
// stream "count": ParallelSieve::sieve with all six counters
//   count <start> <stop> <sieveKiB> <threads> <minThreadDistance or 0>
// ---------------------------------------------------------------------------

std::mutex pieceMutex;
std::vector<std::pair<uint64_t, std::pair<uint64_t, uint64_t>>> pieceLog;
void pieceHook(uint64_t i, uint64_t start, uint64_t stop)
{
  std::lock_guard<std::mutex> g(pieceMutex);
  pieceLog.push_back({i, {start, stop}});
}

const std::vector<std::vector<int>> kPatterns[6] = {
  {}, {{0, 2}}, {{0, 2, 6}, {0, 4, 6}}, {{0, 2, 6, 8}}, {{0, 2, 6, 8, 12}, {0, 4, 6, 10, 12}}, {{0, 4, 6, 10, 12, 16}}
};

// independent expectation: counts of primes and of the constellations inside [start, stop]
bool oracleCounts(uint64_t start, uint64_t stop, uint64_t out[6])
{
  for (int i = 0; i < 6; i++) out[i] = 0;
  if (start > stop) return true;
  if (stop - start > 120000000ull) return false;
  std::vector<char> isP;
  oracleRange(start, stop, isP);
  for (uint64_t n = start; ; n++)
  {
    if (isP[n - start])
    {
      out[0]++;
      for (int k = 1; k < 6; k++)
        for (auto& pat : kPatterns[k])
        {
          bool ok = true;
          for (int d : pat)
            if (n + d < n || n + d > stop || !isP[n + d - start]) { ok = false; break; }
          if (ok) out[k]++;
        }
    }
    if (n == stop) break;
  }
  return true;
}

int streamCount(std::istream& in)
{
  std::string line;
  int cores = std::max(1u, std::thread::hardware_concurrency());
  while (std::getline(in, line))
  {
    auto t = split(line);
    if (t.empty() || t[0][0] == '#')
      continue;
    if (t[0] != "count" || t.size() < 6) { std::cerr << "bad op: " << line << "\n"; return 2; }
    uint64_t start = u64(t[1]), stop = u64(t[2]);
    int kib = atoi(t[3].c_str()), threads = atoi(t[4].c_str());
    uint64_t md = u64(t[5]);
    std::cout << "count " << start << " " << stop << " " << kib << " " << threads << " " << md << " cores=" << cores << " => ";
    try
    {
      primesieve_verif_min_thread_distance = md;
      primesieve_verif_piece_hook = pieceHook;
      pieceLog.clear();
      primesieve::ParallelSieve ps;
      ps.setSieveSize(kib);
      ps.setNumThreads(threads);
      ps.sieve(start, stop, 63);
      int ideal = ps.idealNumThreads();
      uint64_t td = (ideal > 1 && start <= stop) ? primesieve_verif_probe::threadDistance(ps, ideal) : 0;
      std::sort(pieceLog.begin(), pieceLog.end());
      std::cout << "c=";
      for (int i = 0; i < 6; i++) std::cout << (i ? "," : "") << ps.getCount(i);
      std::cout << " ideal=" << ideal << " td=" << td << " pieces=";
      for (size_t i = 0; i < pieceLog.size(); i++)
        std::cout << (i ? ";" : "") << pieceLog[i].second.first << "-" << pieceLog[i].second.second;
      uint64_t exp[6];
      if (oracleCounts(start, stop, exp))
      {
        bool ok = true;
        for (int i = 0; i < 6; i++) ok = ok && exp[i] == ps.getCount(i);
        if (!ok)
        {
          std::cout << " ORACLE-MISMATCH exp=";
          for (int i = 0; i < 6; i++) std::cout << (i ? "," : "") << exp[i];
        }
      }
      std::cout << "\n";
    }
    catch (const std::exception& e)
    {
      std::cout << "ERR:" << errClass(e) << "\n";
    }
    primesieve_verif_min_thread_distance = 0;
    primesieve_verif_piece_hook = nullptr;
  }
  return 0;
}

} // namespace

int main(int argc, char** argv)
{
  if (argc < 3)
  {
    std::cerr << "usage: psv_harness <stream> <opsfile>\n";
    return 2;
  }
  std::string stream = argv[1];
  std::ifstream in(argv[2]);
  if (!in)
  {
    std::cerr << "cannot open " << argv[2] << "\n";
    return 2;
  }
  std::ios::sync_with_stdio(false);
  if (stream == "iter")
    return streamIter(in);
  if (stream == "segment")
    return streamSegment(in);
  if (stream == "count")
    return streamCount(in);
  std::cerr << "unknown stream " << stream << "\n";
  return 2;
}
