#!/bin/bash
# usage: checks/confirm_seeded.sh <id>   (scratch worktree /tmp/wt/<id> left by a sub-agent)
# confirms: patch applies to a clean /repo HEAD, mutated tree builds, all ctest tests pass.
id=$1; wt=/tmp/wt/$id
git -C /repo apply --check $wt/_out/patch.diff && echo "patch applies to /repo HEAD" || { echo "PATCH DOES NOT APPLY"; exit 1; }
cmake --build $wt/_b -j16 >/dev/null 2>&1 || { echo "mutated build failed"; exit 1; }
ctest --test-dir $wt/_b -j16 --timeout 900 2>&1 | tail -3
python3 - "$wt" <<'PY'
import json,sys
m=json.load(open(sys.argv[1]+"/_out/meta.json"))
print("demo_build:", m.get("demo_build"))
PY
