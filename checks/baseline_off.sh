#!/bin/bash
# Builds /repo's current working tree WITHOUT the verification guard (PRIMESIEVE_VERIF undefined)
# in a scratch directory and runs the repository's own test suite (34 ctest tests).
set -e
HERE="$(cd "$(dirname "$0")/.." && pwd)"
B="$HERE/.work/baseline_off"
rm -rf "$B"
mkdir -p "$B"
cmake -G Ninja -S /repo -B "$B" -DBUILD_TESTS=ON -DCMAKE_BUILD_TYPE=RelWithDebInfo -DCMAKE_CXX_FLAGS=-Wno-error >"$B/cmake.log" 2>&1
cmake --build "$B" -j16 >"$B/build.log" 2>&1
ctest --test-dir "$B" -j8 --timeout 900 2>&1 | tail -45
rc=${PIPESTATUS[0]}
rm -rf "$B"
exit $rc
