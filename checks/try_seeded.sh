#!/bin/bash
# usage: checks/try_seeded.sh <seeded-name> <tier> <prop> [<prop>...]
# applies seeded/<name>/patch.diff to /repo, runs the given checks, reverts /repo.
name=$1; tier=$2; shift 2
cd /verif
git -C /repo diff --quiet || { echo "/repo is dirty"; exit 2; }
git -C /repo apply /verif/seeded/$name/patch.diff || exit 2
for p in "$@"; do
  echo "=== $name vs $p ($tier)"
  python3 checks/check.py $p --tier $tier 2>&1 | grep -E "VIOLATION|KNOWN|^\[" 
done
git -C /repo checkout -- .
python3 /verif/translator/translate.py >/dev/null   # regenerate lean/PsModel/Generated from the restored tree
