#!/bin/bash
# usage: checks/import_seeded.sh <id> "<what I ran to confirm>"
id=$1; wt=/tmp/wt/$id; dst=/verif/seeded/$id
mkdir -p $dst
cp $wt/_out/patch.diff $dst/
for f in $wt/_out/demo.cpp $wt/_out/demo.py $wt/_out/demo.sh; do [ -f $f ] && cp $f $dst/; done
python3 - "$wt/_out/meta.json" "$dst/meta.json" "$2" <<'PY'
import json,sys
m=json.load(open(sys.argv[1])); m["confirmed_by_me"]=sys.argv[3]
json.dump(m,open(sys.argv[2],"w"),indent=1)
PY
ls $dst
