"""Per-property wording for MANIFEST.json (kept next to the registry)."""
HOOK_COMMITS = ["bfa4000 (H0 friend probe)", "7764012 (H1 ParallelSieve piece hook / minimum piece length override)", "9768352 (H4 nthPrimeApprox override)", "e826426 (H1b thread threshold override)", "c77513f (H2 sysfs root for CpuInfo::init)"]
NOTES = ("Technique family: machine-checked proof in Lean 4 (see DESIGN.md). Every check = build /repo with "
         "hooks+asserts+sanitizers, regenerate lean/PsModel/Generated from /repo, lake build + axiom audit + "
         "statement lock of the property theorems, then correspondence streams (harness vs compiled Lean model).")

_IGEN = ("Relative to the ideal generator IGen: the theorem is about the iterator layer over a generator that hands "
         "out exactly the primes of a chunk; the real PrimeGenerator is tied to IGen by the iter correspondence "
         "stream (every refill's block, sizes, empty/overflow outcome), not yet by a proof of the sieve. "
         "Trusted: Lean kernel + Mathlib, axioms propext/Classical.choice/Quot.sound, translator, harness, "
         "compiled driver (Miller-Rabin, libm doubles).")

TEXT = {
    "C01": {
        "text": "Proof (Lean 4): for every start, stop_hint, generator block policy and every value of the floating-point "
                "sub-expressions, n next_prime() calls on the iterator model return primeSeq start 0..n-1 (the ascending "
                "enumeration of all primes >= start, proved exact) and primesieve_error once that exceeds 2^64; termination "
                "of generate_next_primes is the well-founded recursion accepted by Lean. The model is tied to src/iterator.cpp, "
                "IteratorHelper.cpp and PrimeGenerator by executing both on seeded histories and comparing every returned "
                "value and the complete cursor state (i, size, start, stop, dist, include flag, generator, buffer ends).",
        "design_ref": "DESIGN.md section 8 C01", "note": _IGEN,
        "technique": "Lean 4 refinement proof (iterator model -> abstract cursor) + model/implementation correspondence"},
    "C02": {
        "text": "Proof (Lean 4): for every start and stop_hint, n prev_prime() calls return prevSeq start 0..n-1 (the descending "
                "enumeration of all primes <= start followed by 0 forever, proved exact); termination of the do/while of "
                "generate_prev_primes is a well-founded recursion. Tied to the code by the iter correspondence stream.",
        "design_ref": "DESIGN.md section 8 C02", "note": _IGEN,
        "technique": "Lean 4 refinement proof (iterator model -> abstract cursor) + model/implementation correspondence"},
    "C03": {
        "text": "Proof (Lean 4): simulation between the iterator model (C++ iterator incl. the rollback on exceptions, jump_to, "
                "clear, skipto, move) and an abstract cursor over 0,2,3,5,...: every finite history returns exactly the "
                "cursor's values; hints, block lengths and float values never change a value; reset/moved-from iterators "
                "equal fresh ones; a failing call leaves the cursor in place. Tied to the code by seeded histories "
                "(direction switches at i_==0 and i_==size_-1, past-the-hint runs, jumps between switches, 2^64 edge).",
        "design_ref": "DESIGN.md section 8 C03", "note": _IGEN,
        "technique": "Lean 4 simulation proof over all histories + model/implementation correspondence"},
}

_COUNT = ("Counting is proved over an ideal segmented sieve; the real cross-off algorithms are tied to it by the segment "
          "and count correspondence streams (every bit of every sieved segment and every counter checked against an "
          "independent oracle in the harness and against the Lean model). Trusted: Lean kernel + Mathlib, the three "
          "standard axioms, translator, harness, compiled driver; std::atomic::fetch_add hands out each index once.")

TEXT["C09"] = {
    "text": "Proof (Lean 4): for every start < stop and every piece length that is a positive multiple of 30 (which "
            "getThreadDistance always returns - proved), the pieces computed by ParallelSieve::sieve are adjacent, start "
            "at start, end at stop, never run backwards, have interior boundaries = 2 (mod 30) and >= 32; no prime "
            "constellation straddles such a boundary; per-piece prime and k-tuplet counts add up to the interval's "
            "counts; and the total is the same for every assignment of piece indices to workers. The 64-bit "
            "wrap/saturation arithmetic of the real code is proved equal to the exact arithmetic under an explicit "
            "no-wrap side condition (only relevant at stop = 2^64-1). Tied to src/ParallelSieve.cpp by hook H1: the "
            "harness records every (index, start, stop) handed to a worker, for production and reduced piece lengths, "
            "and the Lean model must reproduce thread count, piece length, the piece list and all six counters. "
            "Partial: freedom from data races of the real threads is not expressible in the model.",
    "design_ref": "DESIGN.md section 8 C09", "note": _COUNT,
    "technique": "Lean 4 proof of tiling/no-split/schedule-independence + model/implementation correspondence via hook H1"}
TEXT["C10"] = {
    "text": "Proof (Lean 4): 18446744073709551557 is prime (two-level Lucas certificate checked by the kernel, no "
            "native_decide) and each of the 58 larger numbers below 2^64 has an explicit factor; hence every value the "
            "iterator model returns is <= that prime, an iterator positioned there returns it and then fails with "
            "primesieve_error on every later call for any hint/block policy/float oracle; checkedAdd/checkedSub "
            "saturate. Tied to the code by the iter, count and segment streams with arguments in the top of the range. "
            "Sieve core: Wheel::addSievingPrime with wrapping uint64_t arithmetic equals the same function over unbounded "
            "integers for every sieving prime < 2^32, segment start and stop < 2^64 (both overflow guards proved sufficient), "
            "stores the least admissible multiple or drops the prime exactly when none is <= stop. Partial: no-wrap of the "
            "index arithmetic inside the cross-off loops is tied by the cross/segment streams.",
    "design_ref": "DESIGN.md section 8 C10", "note": _IGEN,
    "technique": "Lean 4 proof (Lucas primality certificate, saturation lemmas, iterator refinement) + correspondence"}


TEXT["C04"] = {
    "text": "Proof (Lean 4): for every start, stop, flag set containing COUNT_PRIMES, thread count and minimum piece "
            "length, counter 0 of the model of PrimeSieve::sieve / ParallelSieve::sieve (small-prime table rows + popcount "
            "of every byte of an ideal segmented sieve + per-piece addition) equals the number of primes in [start, stop] "
            "(0 when start > stop); additivity and agreement with the enumeration are corollaries. The byte decoding "
            "(bitValues, popcount) is checked for all 256 byte values by the kernel (decide +kernel, no axioms). Tied to "
            "src/PrimeSieve.cpp, CountPrintPrimes.cpp, ParallelSieve.cpp, Erat*.cpp by the count stream (all six counters, "
            "thread count, piece list vs model, every result vs an independent oracle) and the segment stream (every bit "
            "of every sieved segment vs oracle, segment geometry vs model).",
    "design_ref": "DESIGN.md section 8 C04", "note": _COUNT,
    "technique": "Lean 4 proof (byte-level decoding lemmas + tiling) over an ideal sieve + model/implementation correspondence"}
TEXT["C05"] = {
    "text": "Proof (Lean 4): for i = 1..5 counter i of the model equals the number of constellations of kind i all of whose "
            "members lie in [start, stop] (single-threaded and per-piece-added), including the five small ones from the "
            "table and excluding constellations cut by start or stop. The per-byte bit masks are proved to decode to "
            "exactly the constellations of their kind for ALL 256 byte values (kernel-checked), the residue argument shows "
            "every constellation >= 7 lies inside one sieve byte. Tied to the code by the count stream with dense piece "
            "boundaries (hook H1) and intervals cutting constellations.",
    "design_ref": "DESIGN.md section 8 C05", "note": _COUNT,
    "technique": "Lean 4 proof (exhaustive mask/pattern correspondence + residue window + tiling) + correspondence"}
TEXT["C15"] = {
    "text": "Proof (Lean 4): the lines the model of PrimeSieve::sieve(PRINT_PRIMES) writes are exactly the decimal "
            "renderings of the primes of [start, stop] in ascending order for every start, stop; for PRINT_TWINS.."
            "PRINT_SEXTUPLETS and start >= 7 exactly '(a, b, ...)' for the constellations of that kind, ordered by first "
            "member; the number of lines equals the corresponding count; the small-table strings are the renderings of "
            "their members. Tied to CountPrintPrimes::printPrimes/printkTuplets and the C/C++ print functions by the "
            "print stream (captured stdout compared byte for byte with an oracle rendering and by digest with the model, "
            "including segments with several 64 KiB print batches). Partial: k-tuplet printing for start < 7 is covered "
            "by the table-string theorem and the stream, not by a full theorem.",
    "design_ref": "DESIGN.md section 8 C15", "note": _COUNT + " iostream decimal formatting is trusted equal to Nat.repr.",
    "technique": "Lean 4 proof (list-level decoding of the ideal sieve) + stdout correspondence stream"}
TEXT["C06"] = {
    "text": "Proof (Lean 4): store_primes over the iterator model appends nothing for empty requests, throws before "
            "storing anything when stop exceeds the element type's maximum, and otherwise appends exactly the primes of "
            "[start, stop] ascending (so never a truncated value), for every start, stop, element type, block-length "
            "policy and float oracle; the block loop provably terminates (explicit fuel bound); every "
            "generate_next_primes block is a non-empty run of consecutive primes continuing the previous block. Tied to "
            "StorePrimes.hpp / api-c.cpp by the store stream: all 8 C++ element types and all 14 C type codes at their own "
            "limits, prefilled vectors, n on block edges, top of the range. store_n_primes: for every n, start, type and "
            "block policy it appends exactly the first n primes >= start when the n-th fits the element type and 64 bits, "
            "and otherwise throws having appended an exact prefix (loop invariant over the block loop).",
    "design_ref": "DESIGN.md section 8 C06", "note": _IGEN,
    "technique": "Lean 4 proof (loop invariant over the iterator refinement) + model/implementation correspondence"}


_TRUST = ("Trusted: Lean kernel + Mathlib, axioms propext/Classical.choice/Quot.sound, translator, harness, compiled driver.")

TEXT["C07"] = {
    "text": "Proof (Lean 4): over the model of PrimeSieve::nthPrime / negativeNthPrime with the Riemann-R "
            "approximations, avgPrimeGap, isqrt and the generator's block policy as ARBITRARY functions (any 64-bit "
            "values), and the bulk count given by the count model (C04): for every int64 n with |n| <= pi(2^64) and every "
            "start < 2^64 the result is the n-th prime > start (n > 0), the first prime >= start (n = 0), the |n|-th prime "
            "< start (n < 0), or an error exactly when that prime does not exist below 2^64 / above 0 - whichever of the "
            "four correction walks the estimate selects (induction over the walks + counting lemmas relating primeSeq / "
            "prevSeq to the number of primes of an interval). Every n outside [-pi(2^64), pi(2^64)] (INT64_MIN included) is "
            "rejected before any arithmetic on n, so the only negation fits int64. Tied to src/nthPrime.cpp by the nth "
            "stream: the real nth_prime (C and C++ API, 1 and 4 threads, several sieve sizes) and the Lean model under two "
            "different approximation oracles against an independent oracle, with n and start at the limits named in the "
            "property (0, +-1, +-max_n, INT64_MIN/MAX, start near 0 and near 2^64, prime starts at 1e16..1e19).",
    "design_ref": "DESIGN.md section 8 C07", "note": _IGEN + " RiemannR (long double) is outside the model: its results are inputs.",
    "technique": "Lean 4 proof (value theorem for all n, start and all approximation oracles; guard logic) + model/implementation correspondence"}
TEXT["C08"] = {
    "text": "Proof (Lean 4): set_sieve_size/setSieveSize and set_num_threads/setNumThreads clamp every int to [16,8192] / "
            "[1,cores]; get_sieve_size() lies in [16,8192] KiB for EVERY cache description (zero, tiny, huge, garbage "
            "sizes and sharing counts, the maxSize-1 underflow included); Erat's L1 size is always in [4 KiB, 1 GiB]; the "
            "segment size is a multiple of 8 or (EratBig) a power of two for every configuration; counts are independent "
            "of thread count and piece length (both equal the exact count, C04/C05); iterator results are independent of "
            "block lengths, hints and float values (C03). Tied to src/api.cpp, Erat.cpp, CpuInfo.hpp by the cfg stream "
            "(set/get sequences, injected cache descriptions, segment geometry for sieve sizes 16..8192 incl. non powers "
            "of two) and by re-running the presieve, iter, segment, count and print streams on a second build without runtime dispatch "
            "(-DWITH_MULTIARCH=OFF: portable pre-sieve, bit decoding and popcount) next to the AVX512 build, and by the sysfs "
            "stream (hook H2): one process start-up per substituted /sys/devices/system/cpu tree - realistic, hybrid, missing, "
            "zero/huge/garbage sizes, malformed sharing lists/maps, garbage levels - checking that the library initialises, "
            "get_sieve_size() stays in range and equals the model's value for the description the process parsed, and results "
            "are unchanged. Partial: the parsing itself (iostream, std::stoul) is exercised, not proved; SIMD paths are tied by "
            "differential execution, not by a proof about intrinsics.",
    "design_ref": "DESIGN.md section 8 C08", "note": _COUNT + " " + _IGEN,
    "technique": "Lean 4 proof (clamps, cache-topology range, segment geometry, independence corollaries) + correspondence on two build variants"}
TEXT["C11"] = {
    "text": "Proof (Lean 4): the C iterator model (inline primesieve_next_prime/prev_prime over generate_*_primes with "
            "the catch handler of src/iterator-c.cpp) returns on every non-failing call exactly what the C++ iterator "
            "model returns and leaves the same state; the first failing call yields PRIMESIEVE_ERROR, is_error = 1, "
            "errno = EDOM and a state from which every further next_prime fails again (sticky, by induction over any "
            "number of calls, for every block policy and float oracle); jump_to is inclusive and skipto exclusive (via "
            "C03). The shapes of all 31 extern \"C\" wrappers (try present, catches std::exception, handler sets errno = "
            "EDOM and returns PRIMESIEVE_ERROR/NULL/error state, errno assigned outside a handler only on the invalid-"
            "type path) and both 14-entry type-code switches are REGENERATED from the sources on every run and checked by "
            "decide. Tied to the code by the iterc stream (C iterator histories incl. continued use after an error, errno "
            "observed before/after), the store stream through primesieve_generate_(n_)primes for all 14 type codes at "
            "their limits, invalid codes, NULL size pointers, and the nth/print streams' C variants.",
    "design_ref": "DESIGN.md section 8 C11", "note": _IGEN + " Wrapper facts are textual extraction, not C++ semantics.",
    "technique": "Lean 4 proof (C iterator simulates C++ iterator, sticky error by induction, regenerated wrapper facts by decide) + correspondence"}
TEXT["C13"] = {
    "text": "Proof (Lean 4): for every history of iterator operations in which an arbitrary subset of next_prime / "
            "prev_prime calls suffers an allocation failure, each call either returns what the abstract cursor returns or "
            "raises and leaves the cursor where it was (simulation into FaultRun, by induction over the history); calls "
            "that stay inside the buffer cannot fault; the state after a failure holds no buffer and no generator; the C "
            "handler turns a failure into the sticky error state. Tie = fault enumeration on the real code: psv_alloc "
            "replaces operator new, reads each workload's allocation count N from an undisturbed run and then fails "
            "allocation k for EVERY k in 1..N (quick: up to 80 sampled k per workload; pairs in the fiter stream) for "
            "iterator forward/backward (C++ and C), count with 1 and 4 threads, twins, generate_(n_)primes (C++ and C), "
            "nth_prime and print_primes; checked: error reported in the documented way, no wrong value, exact prefix, "
            "nothing leaked in the ledger, object reusable afterwards.",
    "design_ref": "DESIGN.md section 8 C13",
    "note": "The theorem covers the iterator layer; count/generate/nth workloads under faults are decided by the enumeration "
            "(every allocation index), not by a theorem. malloc/realloc failures inside malloc_vector and std::thread "
            "creation failures are not injected. " + _TRUST,
    "technique": "Lean 4 simulation proof under arbitrary fault schedules (iterator) + exhaustive k-th-allocation fault enumeration on the real code"}
TEXT["C14"] = {
    "text": "Proof (Lean 4): (1) the inventory of variables with static storage duration that are not const/constexpr is "
            "regenerated from src/ and include/ on every run and proved (decide) to be exactly {sieve_size, num_threads} "
            "- a new static/thread_local buffer anywhere breaks the theorem; (2) frame theorem: for every interleaving of "
            "operations on two iterator models each object returns exactly what it returns alone (induction over the "
            "schedule). Tied to the code by the multi stream: k >= 2 real iterators (C++ and C) driven in seeded "
            "interleavings, each object's output compared with its solo run and with the cursor oracle, long enough for "
            "multi-segment generators and SievingPrimes refills; and by the mt stream: 2..16 user threads running count / nth_prime / "
            "generate / iterator calls concurrently (the calls spawn their own workers too), every result compared with the same "
            "call made alone. Partial: data-race freedom of concurrent user threads under the C++ memory model is not "
            "expressible in the model; the mt stream samples schedules, it does not enumerate them.",
    "design_ref": "DESIGN.md section 8 C14", "note": _IGEN + " The globals inventory is a textual scan (translator).",
    "technique": "Lean 4 frame theorem by induction over schedules + regenerated static-state inventory by decide + interleaving correspondence"}
TEXT["C17"] = {
    "text": "Proof (Lean 4), partial: the length of every backward chunk the iterator requests is bounded by "
            "max(2*sqrt(stop), (MIN_CACHE_ITERATOR/8)*log stop) whatever the previous chunk length was (so it cannot grow "
            "with the number of primes consumed), forward chunk lengths are within [maxCachedPrime, 2^60], jump_to / "
            "clear / skipto leave no buffer and no generator, backward refills never keep a generator. Heap bytes are "
            "outside the model: the mem stream measures peak live operator-new bytes of the real code for interval "
            "lengths over 2-3 orders of magnitude at fixed magnitude of stop (count 1/4/8 threads, iterator forward / "
            "backward, C iterator) and checks them against an explicit bound B(sqrt(stop), sieve size, threads, backward "
            "chunk) and for growth with L; forward buffer <= 1024 primes, <= 2 KiB after clear, 0 after destruction.",
    "design_ref": "DESIGN.md section 8 C17",
    "note": "MemoryPool / sieve array / sieving-prime vector bytes are measured, not derived in Lean. " + _TRUST,
    "technique": "Lean 4 proof of history-independent chunk-length bounds and release bookkeeping + measured heap ledger against an explicit bound"}

TEXT["C16"] = {
    "text": "Proof (Lean 4): the model of calculator.hpp's ExpressionParser<uint64_t> (operator stack, precedence table, "
            "checkedAdd/Sub/Mul/Div/Mod/Shift as written, pow by squaring, hex/decimal literals, unary + - ~) REFINES the same "
            "parser over unbounded integers: every accepted string has the same value there and that value is in [0, 2^64) "
            "- so a value or intermediate result outside the range is rejected, never reinterpreted (simulation by mutual "
            "induction over the three parser functions, all strings). checkedAdd/Sub/Mul are proved exact-or-overflow at "
            "every type with min <= 0 <= max (uint64_t, int, int64_t; all four sign cases of the truncating-division test). "
            "Over the model of CmdOptions.cpp/main.cpp, for EVERY argv: the interval sieved and the (n, start) passed to "
            "nth_prime are < 2^64, n*20 fits int64, an accepted -d appends exactly START+DIST without wrap, bare negative "
            "numbers and a second main option are rejected. The operator table (13 rows), calculate() switch, the source text "
            "of the checked arithmetic, the 30-entry option table, both dispatch switches, both overflow guards and the "
            "element type of every getValue<T> site are REGENERATED from the sources on every run and checked by decide/rfl. "
            "Tie: calc stream (grammar-directed ASTs rendered with minimal parentheses, exact big-integer oracle on the AST, "
            "2^64/2^31/2^63 boundaries, malformed and mutated strings; model = implementation on value / error class) and cli "
            "stream (the real binary, sanitized build: stdout and exit status vs in-process library calls for the intended "
            "interval/kinds and vs the Lean model; rejected command lines; nth prime incl. failures).",
    "design_ref": "DESIGN.md section 8 C16",
    "note": _COUNT + " 'Same answers as the library' is tied by the cli stream, not proved about main.cpp's printing code; "
            "informational options (--help, --version, --cpu-info, --test, -S, -R) are modelled only by exit status.",
    "technique": "Lean 4 refinement proof (bounded parser -> exact-integer parser, all strings), exactness of checked arithmetic, regenerated grammar/dispatch facts + correspondence on the real binary"}

TEXT["C12"] = {
    "text": "Proof (Lean 4), partial: the part of C12 that is arithmetic is proved for all inputs - the 720-entry primePi "
            "table is only indexed inside it and its values are monotone and <= 128, so the small-prime copy [a, b) has "
            "a <= b <= 128 and b - a cannot wrap (ASSERT(a <= b)); after initNextPrimes the buffer holds the cached primes "
            "and, whenever a segment will be sieved, 64 more slots, for EVERY value of the floating-point estimate and any "
            "previous buffer size (ASSERT(primes.size() >= *size), ASSERT(i + 64 <= maxSize)); every slot written by the "
            "4-way unrolled default loop (surplus stores and all-zero words included), by the 8-lane AVX512 stores and by the "
            "growing backward loop lies inside the buffer, for arbitrary popcounts per word; bitValues[ctz64(bits)] (65 "
            "entries, ctz64(0) = 64) and unsetSmaller/unsetLarger[byteRemainder] (37 entries) are in bounds; nth_prime's "
            "negation, the command line's n*20 and the calculator's signed + - * cannot overflow silently. All 90 ASSERT sites "
            "are regenerated from the sources on every run into a ledger that maps each to its theorem or to 'runtime' (a "
            "new, removed or edited assertion breaks the ledger theorem). What no executable model can exhibit - use-after-"
            "free, double free, uninitialised reads, misalignment, leaks - is covered only by the tie: iter (incl. moved-"
            "from / self-moved / repeated clear), iterc (reuse after error, repeated free), store, print, calc, wheel and "
            "cross streams (quick) plus count, cli, segment, nth and multi (thorough) all execute the real code built with "
            "ASan + UBSan + ENABLE_ASSERT; an abort is a violation whose replay is the bisected operation. (Every other "
            "property's check runs its own streams on the same instrumented build, so the count/cli/segment inputs are "
            "swept on every change as well.)",
    "design_ref": "DESIGN.md section 8 C12",
    "note": "81 of 90 assertions and all allocator-level memory safety are checked at run time by sanitizers on the explored "
            "inputs, not proved. " + _IGEN,
    "technique": "Lean 4 proof of buffer/table index bounds and signed side conditions + regenerated assertion ledger; sanitizer-instrumented correspondence runs as tie"}

NOT_APPLICABLE = [
    {"property_id": "C18",
     "reason": "|R(x)-pi(x)| < sqrt(x) on [2,2^64) is an RH-strength statement about pi(x) evaluated in x87 long double; "
               "Lean/Mathlib can neither state the float semantics nor prove the bound; see DESIGN.md section 8 C18"},
]
for _p in [x for x in [] if x not in TEXT]:
    NOT_APPLICABLE.append({"property_id": _p, "reason": "not claimed yet: model/theorems under construction (will be claimed once its check exists)"})
