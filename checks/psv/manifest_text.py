"""Per-property wording for MANIFEST.json (kept next to the registry)."""
HOOK_COMMITS = ["bfa4000 (H0 friend probe)", "7764012 (H1 ParallelSieve piece hook / minimum piece length override)"]
NOTES = ("Technique family: machine-checked proof in Lean 4 (see DESIGN.md). Every check = build /repo with "
         "hooks+asserts+sanitizers, regenerate lean/PsModel/Generated from /repo, lake build + axiom audit + "
         "statement lock of the property theorems, then correspondence streams (harness vs compiled Lean model).")

_IGEN = ("Relative to the ideal generator IGen: the theorem is about the iterator layer over a generator that hands "
         "out exactly the primes of a chunk; the real PrimeGenerator is tied to IGen by the iter correspondence "
         "stream (every refill's block, sizes, empty/overflow outcome), not yet by a proof of the sieve. "
         "Trusted: Lean kernel + Mathlib, axioms propext/Classical.choice/Quot.sound, translator, harness, "
         "compiled driver (Miller-Rabin, libm doubles).")

TEXT = {
    "C01": {
        "text": "Proof (Lean 4): for every start, stop_hint, generator block policy and every value of the floating-point "
                "sub-expressions, n next_prime() calls on the iterator model return primeSeq start 0..n-1 (the ascending "
                "enumeration of all primes >= start, proved exact) and primesieve_error once that exceeds 2^64; termination "
                "of generate_next_primes is the well-founded recursion accepted by Lean. The model is tied to src/iterator.cpp, "
                "IteratorHelper.cpp and PrimeGenerator by executing both on seeded histories and comparing every returned "
                "value and the complete cursor state (i, size, start, stop, dist, include flag, generator, buffer ends).",
        "design_ref": "DESIGN.md section 8 C01", "note": _IGEN,
        "technique": "Lean 4 refinement proof (iterator model -> abstract cursor) + model/implementation correspondence"},
    "C02": {
        "text": "Proof (Lean 4): for every start and stop_hint, n prev_prime() calls return prevSeq start 0..n-1 (the descending "
                "enumeration of all primes <= start followed by 0 forever, proved exact); termination of the do/while of "
                "generate_prev_primes is a well-founded recursion. Tied to the code by the iter correspondence stream.",
        "design_ref": "DESIGN.md section 8 C02", "note": _IGEN,
        "technique": "Lean 4 refinement proof (iterator model -> abstract cursor) + model/implementation correspondence"},
    "C03": {
        "text": "Proof (Lean 4): simulation between the iterator model (C++ iterator incl. the rollback on exceptions, jump_to, "
                "clear, skipto, move) and an abstract cursor over 0,2,3,5,...: every finite history returns exactly the "
                "cursor's values; hints, block lengths and float values never change a value; reset/moved-from iterators "
                "equal fresh ones; a failing call leaves the cursor in place. Tied to the code by seeded histories "
                "(direction switches at i_==0 and i_==size_-1, past-the-hint runs, jumps between switches, 2^64 edge).",
        "design_ref": "DESIGN.md section 8 C03", "note": _IGEN,
        "technique": "Lean 4 simulation proof over all histories + model/implementation correspondence"},
}

_COUNT = ("Counting is proved over an ideal segmented sieve; the real cross-off algorithms are tied to it by the segment "
          "and count correspondence streams (every bit of every sieved segment and every counter checked against an "
          "independent oracle in the harness and against the Lean model). Trusted: Lean kernel + Mathlib, the three "
          "standard axioms, translator, harness, compiled driver; std::atomic::fetch_add hands out each index once.")

TEXT["C09"] = {
    "text": "Proof (Lean 4): for every start < stop and every piece length that is a positive multiple of 30 (which "
            "getThreadDistance always returns - proved), the pieces computed by ParallelSieve::sieve are adjacent, start "
            "at start, end at stop, never run backwards, have interior boundaries = 2 (mod 30) and >= 32; no prime "
            "constellation straddles such a boundary; per-piece prime and k-tuplet counts add up to the interval's "
            "counts; and the total is the same for every assignment of piece indices to workers. The 64-bit "
            "wrap/saturation arithmetic of the real code is proved equal to the exact arithmetic under an explicit "
            "no-wrap side condition (only relevant at stop = 2^64-1). Tied to src/ParallelSieve.cpp by hook H1: the "
            "harness records every (index, start, stop) handed to a worker, for production and reduced piece lengths, "
            "and the Lean model must reproduce thread count, piece length, the piece list and all six counters. "
            "Partial: freedom from data races of the real threads is not expressible in the model.",
    "design_ref": "DESIGN.md section 8 C09", "note": _COUNT,
    "technique": "Lean 4 proof of tiling/no-split/schedule-independence + model/implementation correspondence via hook H1"}
TEXT["C10"] = {
    "text": "Proof (Lean 4): 18446744073709551557 is prime (two-level Lucas certificate checked by the kernel, no "
            "native_decide) and each of the 58 larger numbers below 2^64 has an explicit factor; hence every value the "
            "iterator model returns is <= that prime, an iterator positioned there returns it and then fails with "
            "primesieve_error on every later call for any hint/block policy/float oracle; checkedAdd/checkedSub "
            "saturate. Tied to the code by the iter, count and segment streams with arguments in the top of the range. "
            "Partial: the no-wrap lemmas for the cross-off index arithmetic belong to the sieve chain (not yet proved).",
    "design_ref": "DESIGN.md section 8 C10", "note": _IGEN,
    "technique": "Lean 4 proof (Lucas primality certificate, saturation lemmas, iterator refinement) + correspondence"}


TEXT["C04"] = {
    "text": "Proof (Lean 4): for every start, stop, flag set containing COUNT_PRIMES, thread count and minimum piece "
            "length, counter 0 of the model of PrimeSieve::sieve / ParallelSieve::sieve (small-prime table rows + popcount "
            "of every byte of an ideal segmented sieve + per-piece addition) equals the number of primes in [start, stop] "
            "(0 when start > stop); additivity and agreement with the enumeration are corollaries. The byte decoding "
            "(bitValues, popcount) is checked for all 256 byte values by the kernel (decide +kernel, no axioms). Tied to "
            "src/PrimeSieve.cpp, CountPrintPrimes.cpp, ParallelSieve.cpp, Erat*.cpp by the count stream (all six counters, "
            "thread count, piece list vs model, every result vs an independent oracle) and the segment stream (every bit "
            "of every sieved segment vs oracle, segment geometry vs model).",
    "design_ref": "DESIGN.md section 8 C04", "note": _COUNT,
    "technique": "Lean 4 proof (byte-level decoding lemmas + tiling) over an ideal sieve + model/implementation correspondence"}
TEXT["C05"] = {
    "text": "Proof (Lean 4): for i = 1..5 counter i of the model equals the number of constellations of kind i all of whose "
            "members lie in [start, stop] (single-threaded and per-piece-added), including the five small ones from the "
            "table and excluding constellations cut by start or stop. The per-byte bit masks are proved to decode to "
            "exactly the constellations of their kind for ALL 256 byte values (kernel-checked), the residue argument shows "
            "every constellation >= 7 lies inside one sieve byte. Tied to the code by the count stream with dense piece "
            "boundaries (hook H1) and intervals cutting constellations.",
    "design_ref": "DESIGN.md section 8 C05", "note": _COUNT,
    "technique": "Lean 4 proof (exhaustive mask/pattern correspondence + residue window + tiling) + correspondence"}
TEXT["C15"] = {
    "text": "Proof (Lean 4): the lines the model of PrimeSieve::sieve(PRINT_PRIMES) writes are exactly the decimal "
            "renderings of the primes of [start, stop] in ascending order for every start, stop; for PRINT_TWINS.."
            "PRINT_SEXTUPLETS and start >= 7 exactly '(a, b, ...)' for the constellations of that kind, ordered by first "
            "member; the number of lines equals the corresponding count; the small-table strings are the renderings of "
            "their members. Tied to CountPrintPrimes::printPrimes/printkTuplets and the C/C++ print functions by the "
            "print stream (captured stdout compared byte for byte with an oracle rendering and by digest with the model, "
            "including segments with several 64 KiB print batches). Partial: k-tuplet printing for start < 7 is covered "
            "by the table-string theorem and the stream, not by a full theorem.",
    "design_ref": "DESIGN.md section 8 C15", "note": _COUNT + " iostream decimal formatting is trusted equal to Nat.repr.",
    "technique": "Lean 4 proof (list-level decoding of the ideal sieve) + stdout correspondence stream"}
TEXT["C06"] = {
    "text": "Proof (Lean 4): store_primes over the iterator model appends nothing for empty requests, throws before "
            "storing anything when stop exceeds the element type's maximum, and otherwise appends exactly the primes of "
            "[start, stop] ascending (so never a truncated value), for every start, stop, element type, block-length "
            "policy and float oracle; the block loop provably terminates (explicit fuel bound); every "
            "generate_next_primes block is a non-empty run of consecutive primes continuing the previous block. Tied to "
            "StorePrimes.hpp / api-c.cpp by the store stream: all 8 C++ element types and all 14 C type codes at their own "
            "limits, prefilled vectors, n on block edges, top of the range. Partial: store_n_primes is modelled and tied "
            "by the stream, its theorem is not proved.",
    "design_ref": "DESIGN.md section 8 C06", "note": _IGEN,
    "technique": "Lean 4 proof (loop invariant over the iterator refinement) + model/implementation correspondence"}

NOT_APPLICABLE = [
    {"property_id": "C18",
     "reason": "|R(x)-pi(x)| < sqrt(x) on [2,2^64) is an RH-strength statement about pi(x) evaluated in x87 long double; "
               "Lean/Mathlib can neither state the float semantics nor prove the bound; see DESIGN.md section 8 C18"},
]
for _p in [x for x in ["C04", "C05", "C06", "C07", "C08", "C09", "C10", "C11", "C12", "C13", "C14", "C15", "C16", "C17"] if x not in TEXT]:
    NOT_APPLICABLE.append({"property_id": _p, "reason": "not claimed yet: model/theorems under construction (will be claimed once its check exists)"})
