"""Per-property wording for MANIFEST.json (kept next to the registry)."""
HOOK_COMMITS = []
NOTES = ("Technique family: machine-checked proof in Lean 4 (see DESIGN.md). Every check = build /repo with "
         "hooks+asserts+sanitizers, regenerate lean/PsModel/Generated from /repo, lake build + axiom audit + "
         "statement lock of the property theorems, then correspondence streams (harness vs compiled Lean model).")

_IGEN = ("Relative to the ideal generator IGen: the theorem is about the iterator layer over a generator that hands "
         "out exactly the primes of a chunk; the real PrimeGenerator is tied to IGen by the iter correspondence "
         "stream (every refill's block, sizes, empty/overflow outcome), not yet by a proof of the sieve. "
         "Trusted: Lean kernel + Mathlib, axioms propext/Classical.choice/Quot.sound, translator, harness, "
         "compiled driver (Miller-Rabin, libm doubles).")

TEXT = {
    "C01": {
        "text": "Proof (Lean 4): for every start, stop_hint, generator block policy and every value of the floating-point "
                "sub-expressions, n next_prime() calls on the iterator model return primeSeq start 0..n-1 (the ascending "
                "enumeration of all primes >= start, proved exact) and primesieve_error once that exceeds 2^64; termination "
                "of generate_next_primes is the well-founded recursion accepted by Lean. The model is tied to src/iterator.cpp, "
                "IteratorHelper.cpp and PrimeGenerator by executing both on seeded histories and comparing every returned "
                "value and the complete cursor state (i, size, start, stop, dist, include flag, generator, buffer ends).",
        "design_ref": "DESIGN.md section 8 C01", "note": _IGEN,
        "technique": "Lean 4 refinement proof (iterator model -> abstract cursor) + model/implementation correspondence"},
    "C02": {
        "text": "Proof (Lean 4): for every start and stop_hint, n prev_prime() calls return prevSeq start 0..n-1 (the descending "
                "enumeration of all primes <= start followed by 0 forever, proved exact); termination of the do/while of "
                "generate_prev_primes is a well-founded recursion. Tied to the code by the iter correspondence stream.",
        "design_ref": "DESIGN.md section 8 C02", "note": _IGEN,
        "technique": "Lean 4 refinement proof (iterator model -> abstract cursor) + model/implementation correspondence"},
    "C03": {
        "text": "Proof (Lean 4): simulation between the iterator model (C++ iterator incl. the rollback on exceptions, jump_to, "
                "clear, skipto, move) and an abstract cursor over 0,2,3,5,...: every finite history returns exactly the "
                "cursor's values; hints, block lengths and float values never change a value; reset/moved-from iterators "
                "equal fresh ones; a failing call leaves the cursor in place. Tied to the code by seeded histories "
                "(direction switches at i_==0 and i_==size_-1, past-the-hint runs, jumps between switches, 2^64 edge).",
        "design_ref": "DESIGN.md section 8 C03", "note": _IGEN,
        "technique": "Lean 4 simulation proof over all histories + model/implementation correspondence"},
}

NOT_APPLICABLE = [
    {"property_id": "C18",
     "reason": "|R(x)-pi(x)| < sqrt(x) on [2,2^64) is an RH-strength statement about pi(x) evaluated in x87 long double; "
               "Lean/Mathlib can neither state the float semantics nor prove the bound; see DESIGN.md section 8 C18"},
]
for _p in ["C04", "C05", "C06", "C07", "C08", "C09", "C10", "C11", "C12", "C13", "C14", "C15", "C16", "C17"]:
    NOT_APPLICABLE.append({"property_id": _p, "reason": "not claimed yet: model/theorems under construction (will be claimed once its check exists)"})
