"""Shared plumbing for the primesieve verification checks."""
import fcntl, hashlib, json, os, subprocess, sys, time, random

VERIF = os.path.abspath(os.path.join(os.path.dirname(__file__), "..", ".."))
REPO = os.environ.get("PSV_REPO", "/repo")
WORK = os.path.join(VERIF, ".work")
LEAN = os.path.join(VERIF, "lean")
EVID = os.path.join(VERIF, "evidence")
REPLAYS = os.path.join(VERIF, "replays")
GUARD = "PRIMESIEVE_VERIF"
U64 = 1 << 64
UMAX = U64 - 1
MAXPRIME64 = 18446744073709551557

def log(*a):
    print(*a, file=sys.stderr, flush=True)

def run(cmd, cwd=None, timeout=None, env=None, stdin=None, check=False):
    """run a command, return (rc, stdout, stderr)"""
    e = dict(os.environ)
    if env:
        e.update(env)
    p = subprocess.run(cmd, cwd=cwd, timeout=timeout, env=e, input=stdin,
                       stdout=subprocess.PIPE, stderr=subprocess.PIPE, text=True, errors="replace")
    if check and p.returncode != 0:
        raise RuntimeError(f"command failed ({p.returncode}): {cmd}\n{p.stdout[-4000:]}\n{p.stderr[-4000:]}")
    return p.returncode, p.stdout, p.stderr

class Lock:
    """serialises builds between concurrently running checks"""
    def __init__(self, name):
        os.makedirs(WORK, exist_ok=True)
        self.path = os.path.join(WORK, name + ".lock")
    def __enter__(self):
        self.f = open(self.path, "w")
        fcntl.flock(self.f, fcntl.LOCK_EX)
        return self
    def __exit__(self, *a):
        fcntl.flock(self.f, fcntl.LOCK_UN)
        self.f.close()

def tree_hash(paths):
    h = hashlib.sha256()
    for root in paths:
        if os.path.isfile(root):
            files = [root]
        else:
            files = []
            for d, dn, fn in os.walk(root):
                dn.sort()
                for f in sorted(fn):
                    files.append(os.path.join(d, f))
        for f in files:
            h.update(f.encode())
            with open(f, "rb") as fh:
                h.update(fh.read())
    return h.hexdigest()

def seed():
    try:
        return int(os.environ.get("VERIF_SEED", "1"))
    except ValueError:
        return 1

def rng(tag):
    return random.Random(f"{seed()}:{tag}")

class Violation(Exception):
    def __init__(self, prop, kind, obligation, detail, found_input):
        self.prop, self.kind, self.obligation, self.detail, self.found_input = prop, kind, obligation, detail, found_input

def write_replay(prop, data):
    os.makedirs(REPLAYS, exist_ok=True)
    key = hashlib.sha256(json.dumps(data, sort_keys=True).encode()).hexdigest()[:12]
    p = os.path.join(REPLAYS, f"{prop}_{key}.json")
    with open(p, "w") as f:
        json.dump(data, f, indent=1)
    return p

def known_findings():
    p = os.path.join(VERIF, "known_findings.json")
    if not os.path.exists(p):
        return []
    with open(p) as f:
        return json.load(f).get("findings", [])
