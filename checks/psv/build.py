"""Build steps: /repo (sanitized, hooks on), harness, translator, lake."""
import os, shutil, glob, json, re
from .common import *

SAN_FLAGS = "-fsanitize=address,undefined -fno-sanitize-recover=all -fno-omit-frame-pointer"
CXXFLAGS = f"-D{GUARD} -DENABLE_ASSERT -g -O1 -Wno-error {SAN_FLAGS}"

def repo_hash():
    return tree_hash([os.path.join(REPO, "src"), os.path.join(REPO, "include"),
                      os.path.join(REPO, "CMakeLists.txt"), os.path.join(REPO, "cmake")])

TSAN_FLAGS = "-fsanitize=thread -fno-omit-frame-pointer"
VARIANT_FLAGS = {
    # ThreadSanitizer build (cannot be combined with AddressSanitizer): data races of worker and user threads
    "tsan": (f"-D{GUARD} -DENABLE_ASSERT -g -O1 -Wno-error {TSAN_FLAGS}", TSAN_FLAGS),
}
VARIANTS = {
    None: [],
    "tsan": [],
    # no runtime dispatch to AVX512/POPCNT code paths: the portable pre-sieve, bit decoding and popcount
    "portable": ["-DWITH_MULTIARCH=OFF"],
}

def build_repo(variant=None):
    """cmake build of /repo's working tree with hooks+asserts+sanitizers; cached by content hash.
    returns (dir, error or None)"""
    h = repo_hash()[:16]
    d = os.path.join(WORK, ("repo-" if variant is None else f"var{variant}-") + h)
    with Lock("repo-build"):
        if os.path.exists(os.path.join(d, ".ok")):
            return d, None
        if os.path.exists(os.path.join(d, ".failed")):
            with open(os.path.join(d, ".failed")) as f:
                return d, f.read()
        # prune older builds (disk space)
        for old in glob.glob(os.path.join(WORK, "repo-*" if variant is None else f"var{variant}-*")):
            if old != d:
                shutil.rmtree(old, ignore_errors=True)
        shutil.rmtree(d, ignore_errors=True)
        os.makedirs(d)
        t0 = time.time()
        cxx, ld = VARIANT_FLAGS.get(variant, (CXXFLAGS, SAN_FLAGS))
        with open(os.path.join(d, ".cxxflags"), "w") as f:
            f.write(cxx)
        rc, out, err = run(["cmake", "-G", "Ninja", "-S", REPO, "-B", d,
                            "-DCMAKE_BUILD_TYPE=RelWithDebInfo", "-DBUILD_SHARED_LIBS=OFF",
                            "-DBUILD_STATIC_LIBS=ON", "-DBUILD_TESTS=OFF", "-DBUILD_PRIMESIEVE=ON",
                            f"-DCMAKE_CXX_FLAGS={cxx}", f"-DCMAKE_EXE_LINKER_FLAGS={ld}"] + VARIANTS[variant])
        if rc == 0:
            rc, out, err = run(["cmake", "--build", d, "-j16"])
        if rc != 0:
            msg = (out + err)[-6000:]
            with open(os.path.join(d, ".failed"), "w") as f:
                f.write(msg)
            return d, msg
        with open(os.path.join(d, ".ok"), "w") as f:
            f.write(f"{time.time()-t0:.1f}s")
        log(f"[build] /repo built in {time.time()-t0:.1f}s -> {d}")
        return d, None

def build_harness(repo_build):
    """compile harness/*.cpp against the repo build; cached by harness source hash"""
    hs = tree_hash([os.path.join(VERIF, "harness")])[:12]
    exe = os.path.join(repo_build, f"psv_harness-{hs}")
    with Lock("harness-build"):
        if os.path.exists(exe):
            return exe, None
        srcs = [x for x in sorted(glob.glob(os.path.join(VERIF, "harness", "*.cpp"))) if not x.endswith("_fast.cpp")]
        # *_fast.cpp: independent oracle code, compiled -O2 without sanitizers
        objs = []
        for x in sorted(glob.glob(os.path.join(VERIF, "harness", "*_fast.cpp"))):
            o = os.path.join(repo_build, os.path.basename(x) + f".{hs}.o")
            rc, out, err = run(["g++", "-std=gnu++17", "-O2", "-c", x, "-o", o])
            if rc != 0:
                return None, (out + err)[-6000:]
            objs.append(o)
        flags = CXXFLAGS
        if os.path.exists(os.path.join(repo_build, ".cxxflags")):
            with open(os.path.join(repo_build, ".cxxflags")) as f:
                flags = f.read()
        cmd = ["g++", "-std=gnu++17"] + flags.split() + [
            f"-I{REPO}/include", f"-I{REPO}/src", f"-I{VERIF}/harness"] + srcs + objs + [
            os.path.join(repo_build, "libprimesieve.a"), "-lpthread", "-o", exe + ".tmp"]
        rc, out, err = run(cmd)
        if rc != 0:
            return None, (out + err)[-6000:]
        os.replace(exe + ".tmp", exe)
        return exe, None

def build_alloc_harness(repo_build):
    """harness/alloc/psv_alloc.cpp: replaces operator new/delete (fault injection + ledger)"""
    hs = tree_hash([os.path.join(VERIF, "harness", "alloc"), os.path.join(VERIF, "harness", "oracle_fast.cpp")])[:12]
    exe = os.path.join(repo_build, f"psv_alloc-{hs}")
    with Lock("harness-build"):
        if os.path.exists(exe):
            return exe, None
        o = os.path.join(repo_build, f"oracle_fast.alloc.{hs}.o")
        rc, out, err = run(["g++", "-std=gnu++17", "-O2", "-c", os.path.join(VERIF, "harness", "oracle_fast.cpp"), "-o", o])
        if rc != 0:
            return None, (out + err)[-6000:]
        cmd = ["g++", "-std=gnu++17"] + CXXFLAGS.split() + [
            f"-I{REPO}/include", f"-I{REPO}/src", os.path.join(VERIF, "harness", "alloc", "psv_alloc.cpp"), o,
            os.path.join(repo_build, "libprimesieve.a"), "-lpthread", "-o", exe + ".tmp"]
        rc, out, err = run(cmd)
        if rc != 0:
            return None, (out + err)[-6000:]
        os.replace(exe + ".tmp", exe)
        return exe, None

def translate():
    """regenerate lean/PsModel/Generated from /repo; returns (info dict, fail list)"""
    with Lock("lake"):
        rc, out, err = run([sys.executable, os.path.join(VERIF, "translator", "translate.py")])
    info = {"changed": [], "fails": []}
    for line in out.splitlines():
        if line.startswith("{"):
            try:
                info = json.loads(line)
            except ValueError:
                pass
    if rc not in (0, 3):
        info["fails"].append("translator crashed: " + (out + err)[-2000:])
    return info

def lake_build(targets):
    """lake build of the given targets; returns (ok, output)"""
    with Lock("lake"):
        rc, out, err = run(["lake", "build"] + targets, cwd=LEAN, timeout=3600)
    return rc == 0, out + err

def leanchecker(modules):
    """thorough tier: re-check the compiled .olean of the property modules with Lean's independent checker"""
    bad = []
    for m in modules:
        with Lock("lake"):
            rc, out, err = run(["lake", "env", "leanchecker", m], cwd=LEAN, timeout=3600)
        if rc != 0:
            bad.append((m, (out + err)[-800:]))
    return bad

def model_exe():
    return os.path.join(LEAN, ".lake", "build", "bin", "psv_model")

FORBIDDEN = re.compile(r"\bsorry\b|\badmit\b|^\s*axiom\s|native_decide|bv_decide|implemented_by|\bunsafe\s|maxHeartbeats\s+0|\bpartial\s")
def grep_forbidden():
    """scan the proof/model sources (not the driver) for constructs that would weaken the claims"""
    hits = []
    for d in ["PsModel", "PsSpec", "PsProofs", "PsProps"]:
        for root, _, files in os.walk(os.path.join(LEAN, d)):
            for fn in files:
                if not fn.endswith(".lean"):
                    continue
                p = os.path.join(root, fn)
                in_block = False
                for n, line in enumerate(open(p, errors="replace"), 1):
                    s = line
                    # drop comments
                    if in_block:
                        if "-/" in s:
                            s = s.split("-/", 1)[1]; in_block = False
                        else:
                            continue
                    while "/-" in s:
                        pre, rest = s.split("/-", 1)
                        if "-/" in rest:
                            s = pre + rest.split("-/", 1)[1]
                        else:
                            s = pre; in_block = True
                    s = s.split("--", 1)[0]
                    if FORBIDDEN.search(s):
                        hits.append(f"{os.path.relpath(p, LEAN)}:{n}: {line.strip()}")
    return hits

ALLOWED_AXIOMS = {"propext", "Classical.choice", "Quot.sound"}
def audit_axioms(module_thms):
    """module_thms: list of (module, theorem).  Returns (results, raw) where results maps theorem ->
    {'axioms': [...], 'ok': bool, 'statement': str}"""
    os.makedirs(os.path.join(WORK, "audit"), exist_ok=True)
    mods = sorted({m for m, _ in module_thms})
    src = "\n".join(f"import {m}" for m in mods) + "\n"
    for _, t in module_thms:
        src += f"#print axioms {t}\n#check @{t}\n"
    key = hashlib.sha256(src.encode()).hexdigest()[:10]
    p = os.path.join(WORK, "audit", f"Audit_{key}.lean")
    with open(p, "w") as f:
        f.write(src)
    with Lock("lake"):
        rc, out, err = run(["lake", "env", "lean", p], cwd=LEAN, timeout=1800)
    text = out + err
    res = {}
    for _, t in module_thms:
        res[t] = {"axioms": None, "ok": False, "statement": None}
    # parse "'X' depends on axioms: [a, b]" / "'X' does not depend on any axioms"
    for m in re.finditer(r"'([^']+)' depends on axioms: \[([^\]]*)\]", text, flags=re.S):
        ax = [a.strip() for a in m.group(2).replace("\n", " ").split(",") if a.strip()]
        if m.group(1) in res:
            res[m.group(1)]["axioms"] = ax
            res[m.group(1)]["ok"] = set(ax) <= ALLOWED_AXIOMS
    for m in re.finditer(r"'([^']+)' does not depend on any axioms", text):
        if m.group(1) in res:
            res[m.group(1)]["axioms"] = []
            res[m.group(1)]["ok"] = True
    # statements: "@Name : type" possibly spanning lines until next "'" line or "@"
    for _, t in module_thms:
        m = re.search(r"^@?" + re.escape(t) + r" :(.*?)(?=^'|^@|\Z)", text, flags=re.S | re.M)
        if m:
            res[t]["statement"] = " ".join(m.group(1).split())
    return res, text
