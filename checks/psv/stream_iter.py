"""`iter` correspondence stream: histories on one primesieve::iterator.
Generates operation scripts, runs harness and model, compares, classifies differences."""
import os, re
from .common import *
from . import oracle

def _hint(r, s, big=False):
    c = r.choice(["max", "lt", "eq", "gt", "gtfar", "zero"])
    if c == "max": return UMAX
    if c == "lt": return r.randrange(0, s) if s > 0 else 0
    if c == "eq": return s
    if c == "gt": return min(UMAX, s + r.randrange(1, 5000))
    if c == "gtfar": return min(UMAX, s + r.randrange(5000, 10**6))
    return 0

def gen_scripts(tier, r):
    """list of (partition label, [op lines])"""
    S = []
    q = tier == "quick"
    # --- small starts, all hint kinds, block edges, 719/721 hand-over
    for s in [0, 1, 2, 3, 4, 5, 6, 7, 29, 30, 31, 210, 240, 717, 718, 719, 720, 721, 722, 723, 727]:
        S.append(("small-fwd", [f"new {s} {_hint(r, s)}", f"next {r.randrange(3, 60)}"]))
        S.append(("small-bwd", [f"new {s} {_hint(r, s)}", f"prev {r.randrange(3, 40)}"]))
    for _ in range(6 if q else 40):
        s = r.randrange(0, 2000)
        S.append(("small-long-fwd", [f"new {s} {_hint(r, s)}", f"next {r.randrange(1100, 3300)}"]))
    # --- direction switches exactly at i_==0 and i_==size-1, with jumps/clear between
    for _ in range(25 if q else 200):
        s = r.choice([r.randrange(0, 1000), r.randrange(1000, 10**6), r.randrange(10**6, 10**9)])
        ops = [f"new {s} {_hint(r, s)}"]
        for _ in range(r.randrange(3, 9)):
            c = r.random()
            if c < 0.35: ops.append(f"next {r.choice([1, 1, 2, 3, 7, 64, 1023, 1024, 1025])}")
            elif c < 0.7: ops.append(f"prev {r.choice([1, 1, 2, 3, 7, 64, 200])}")
            elif c < 0.8:
                t = r.randrange(0, 10**7)
                ops.append(f"jump {t} {_hint(r, t)}")
            elif c < 0.86: ops.append("clear")
            elif c < 0.92: ops.append(r.choice(["movein", "moveassign", "selfmove"]))
            else: ops.append(r.choice(["moveout", "moveassignout"]))
        S.append(("switch", ops))
    # the moved-from object of a move construction / move assignment into a USED iterator is a fresh iterator
    for s in [0, 100, 10**6, 10**9 + 7]:
        for mv in ["moveout", "moveassignout"]:
            S.append(("switch-moved-from", [f"new {s} {_hint(r, s)}", f"next {r.randrange(1, 2000)}", mv, "next 3", "prev 4"]))
            S.append(("switch-moved-from", [f"new {s + 1000} {_hint(r, s)}", f"prev {r.randrange(1, 50)}", mv, "prev 2", "next 2", "clear", "next 1"]))
    # first-of-block / last-of-chunk seams
    for s in [2, 3, 100, 719, 721, 10**4, 10**6 + 3, 2**32 - 5, 2**32 + 15]:
        S.append(("seam-fwd-bwd", [f"new {s} {UMAX}", "next 1", "prev 2", "next 3", "prev 1"]))
        S.append(("seam-bwd-fwd", [f"new {s} {UMAX}", "prev 1", "next 2", "prev 3", "next 1"]))
    # --- running past the hint
    for _ in range(6 if q else 30):
        s = r.randrange(10**3, 10**8)
        h = s + r.randrange(0, 3000)
        S.append(("past-hint", [f"new {s} {h}", f"next {r.randrange(300, 1500)}", "prev 5", "next 7"]))
        S.append(("past-hint-bwd", [f"new {s} {max(0, s - r.randrange(0, 3000))}", f"prev {r.randrange(300, 1500)}", "next 5"]))
    # --- chunk bounds on the edges of the cached-prime table (<= 719) and of the sentinel (<= 2):
    #     backward chunk [a, start] with a in {0..4, 716..724}, forward chunk [s, stop] with stop there
    import math
    def gap(h):
        return int(math.log(max(8.0, float(h))) ** 2)
    edges = [0, 1, 2, 3, 4] + list(range(716, 725))
    for a in edges:
        st = a + 2876                      # first unhinted backward chunk is [start - 2876, start] here
        S.append(("bwd-chunk-edge", [f"new {st} {UMAX}", f"prev {len(oracle.primes_in(0, st)) + 3}", "next 2"]))
        for h in range(a, a + 120):
            if h - gap(h) == a:
                st = h + r.randrange(0, 800)
                S.append(("bwd-chunk-edge-hint", [f"new {st} {h}", f"prev {len(oracle.primes_in(0, st)) + 3}", "next 2"]))
                break
        if a > 100:
            for h in range(a - 120, a):
                if h + gap(h) == a:
                    s0 = r.randrange(max(0, h - 300), h + 1)
                    S.append(("fwd-stop-edge", [f"new {s0} {h}", f"next {r.randrange(40, 200)}", "prev 3"]))
                    break
    sweep = range(3585, 3606) if q else range(0, 6001)
    for st in sweep:
        if q or st % 1 == 0:
            S.append(("bwd-sweep", [f"new {st} {UMAX}", f"prev {len(oracle.primes_in(0, st)) + 2}"]))
    # --- descending to 0 and staying there
    for s in [0, 1, 2, 3, 10, 100, 1000, 5000]:
        S.append(("to-zero", [f"new {s} {_hint(r, s)}", f"prev {len(oracle.primes_in(0, s)) + 4}", "next 3", "prev 4"]))
    # --- magnitudes
    mags = [10**k for k in range(4, 13)] + [2**32, 2**33, 10**10 + 19]
    for m in (r.sample(mags, 5) if q else mags):
        s = m + r.randrange(-50, 50)
        S.append(("mag-fwd", [f"new {s} {_hint(r, s)}", f"next {r.randrange(50, 2200)}", "prev 3"]))
        if m <= 10**11:
            S.append(("mag-bwd", [f"new {s} {UMAX}", f"prev {r.randrange(5, 300)}", "next 4"]))
        S.append(("mag-bwd-hint", [f"new {s} {max(0, s - r.randrange(0, 2000))}", f"prev {r.randrange(5, 120)}", "next 4"]))
    big = [10**15, 10**18, 2**63] if not q else [r.choice([10**15, 10**18])]
    for m in big:
        s = m + r.randrange(0, 10**6)
        S.append(("big-fwd", [f"new {s} {s + 2000}", "next 40", "prev 3", "next 2"]))
        S.append(("big-bwd-hint", [f"new {s} {s - 1500}", "prev 30", "next 3"]))
    # --- top of the range: the last primes, the error, continued use after the error
    # (hints just below the start keep backward chunks short: near 2^64 an unhinted backward
    #  chunk holds 1.3e8 primes, which the real code handles but the executable model cannot)
    S.append(("top-error", [f"new {MAXPRIME64 - 100} {MAXPRIME64 - 400}", "next 3", "next 1", "prev 2", "next 3", "next 1", "prev 1"]))
    S.append(("top-fresh-error", [f"new {UMAX - 10} {UMAX - 900}", "next 1", "prev 1", "next 2"]))
    if not q:
        S.append(("top-error2", [f"new {MAXPRIME64} {MAXPRIME64}", "next 1", "next 1", "next 1"]))
        S.append(("top-bwd", [f"new {UMAX} {UMAX - 1000}", "prev 3", "next 3", "next 1"]))
        S.append(("top-fwd", [f"new {UMAX - 5000} {UMAX}", "next 200"]))
    # --- corpus of past (seeded) failures, runs last because `ss` stays in effect: a refill of the 1024-prime buffer that
    # ends exactly at the last non-empty 64-bit word of a NON-final 16 KiB segment whose remaining words hold no prime
    # (prime gap >= 236 over the segment's tail): the next fillNextPrimes call must go on to the next segment instead of
    # returning 0 primes, which its callers read as "generator exhausted" (portable fill path; DESIGN 18, seed c08c)
    corpus = [(4010747047, 4012238560, 22300), (4028294617, 4029786130, 22300), (9292014307, 9293505820, 21500)]
    for s0, h0, n in (corpus[:1] if q else corpus):
        S.append(("corpus-refill-before-empty-segment-tail", ["ss 16", f"new {s0} {h0}", f"next {n}", "prev 3", "next 5"]))
    return S

LINE = re.compile(r"^(.*?) => (.*)$")

def parse_fields(obs):
    d = {}
    for tok in obs.split():
        if "=" in tok:
            k, v = tok.split("=", 1)
            d[k] = v
    return d

def run_stream(harness, model, scripts, workdir, tag):
    """runs all scripts through harness and model.  Returns dict with lines, diffs, stats."""
    os.makedirs(workdir, exist_ok=True)
    ops_path = os.path.join(workdir, f"{tag}.ops")
    with open(ops_path, "w") as f:
        for label, ops in scripts:
            f.write(f"# {label}\n")
            for o in ops:
                f.write(o + "\n")
    rc, out, err = run([harness, "iter", ops_path], timeout=3600,
                       env={"ASAN_OPTIONS": "detect_leaks=1:abort_on_error=0", "UBSAN_OPTIONS": "print_stacktrace=1"})
    trace_path = os.path.join(workdir, f"{tag}.trace")
    with open(trace_path, "w") as f:
        f.write(out)
    res = {"ops_path": ops_path, "trace_path": trace_path, "harness_rc": rc, "harness_err": err[-4000:],
           "impl_lines": out.splitlines()}
    rc2, out2, err2 = run([model, "iter", trace_path], timeout=3600)
    res["model_rc"] = rc2
    res["model_err"] = err2[-2000:]
    res["model_lines"] = out2.splitlines()
    return res

def compare(res):
    """returns (value_diffs, state_diffs) as lists of (line_no, impl_line, model_line)"""
    vd, sd = [], []
    il, ml = res["impl_lines"], res["model_lines"]
    for n, (a, b) in enumerate(zip(il, ml)):
        if a == b:
            continue
        fa, fb = parse_fields(a.split(" => ", 1)[-1]), parse_fields(b.split(" => ", 1)[-1])
        if fa.get("v") != fb.get("v"):
            vd.append((n, a, b))
        else:
            sd.append((n, a, b))
    if len(il) != len(ml):
        sd.append((min(len(il), len(ml)), f"<{len(il)} impl lines>", f"<{len(ml)} model lines>"))
    return vd, sd

def oracle_check(scripts, impl_lines):
    """replays the scripts on the abstract cursor oracle and compares the values returned by the
    implementation.  Returns first mismatch (script index, op index, expected, actual, history) or None."""
    k = 0
    for si, (label, ops) in enumerate(scripts):
        cur = oracle.CursorOracle(0)
        hist = []
        for o in ops:
            t = o.split()
            if t[0] in ("next", "prev"):
                n = int(t[1]) if len(t) > 1 else 1
                for j in range(n):
                    if k >= len(impl_lines):
                        return (si, o, "<a line>", "<harness stopped>", hist + [o])
                    f = parse_fields(impl_lines[k].split(" => ", 1)[-1])
                    k += 1
                    exp = cur.next() if t[0] == "next" else cur.prev()
                    if str(exp) != f.get("v"):
                        return (si, f"{t[0]} (call {j+1} of {n})", str(exp), f.get("v"), hist + [f"{t[0]} {j+1}"])
                hist.append(o)
            else:
                if t[0] == "new": cur.jump(int(t[1]))
                elif t[0] == "jump": cur.jump(int(t[1]))
                elif t[0] == "clear": cur.jump(0)
                elif t[0] in ("moveout", "moveassignout"): cur.jump(0)
                hist.append(o)
                k += 1
    return None

def stats(scripts, impl_lines):
    """coverage statistics measured on the trace"""
    parts = {}
    for label, _ in scripts:
        parts[label] = parts.get(label, 0) + 1
    evals = 0
    nontrivial = set()
    kinds = {"refill-fwd": 0, "refill-bwd": 0, "switch-at-0": 0, "error": 0, "reposition": 0, "in-buffer": 0}
    prev = None
    for line in impl_lines:
        m = LINE.match(line)
        if not m:
            continue
        evals += 1
        op, obs = m.group(1), m.group(2)
        f = parse_fields(obs)
        kind = "in-buffer"
        if op.startswith("next") or op.startswith("prev"):
            if f.get("v", "").startswith("ERR"):
                kind = "error"
            elif prev is not None and (prev.get("stop") != f.get("stop") or prev.get("start") != f.get("start")
                                       or prev.get("b0") != f.get("b0") or prev.get("gen") != f.get("gen")):
                if op.startswith("next"):
                    kind = "refill-fwd"
                else:
                    kind = "switch-at-0" if prev.get("gen") == "1" else "refill-bwd"
        else:
            kind = "reposition"
        kinds[kind] += 1
        if kind != "in-buffer":
            nontrivial.add((op.split()[0], f.get("v"), f.get("start"), f.get("stop"), f.get("gen")))
        prev = f
    return {"evaluations": evals, "distinct_nontrivial": len(nontrivial), "kinds": kinds, "partitions": parts}
