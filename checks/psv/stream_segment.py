"""`segment` correspondence stream: the Erat layer under PrimeGenerator, one segment at a time.
The harness decodes every sieved segment and checks each bit against its own oracle; the Lean
model (PsModel.Erat) predicts the geometry (segment bounds, sizes, thresholds) and the ideal
content digest (count and sum of the primes each segment is responsible for).

Inputs are DIRECTED by the case splits of the sieve: products p*q of sieving primes placed on the
first / last byte of the k-th segment for several sieve sizes, primes just below / above the
EratSmall / EratMedium / EratBig thresholds, every (start mod 30, stop mod 30) pair, magnitudes
up to 2^64-1, degenerate intervals."""
import math, os
from .common import *
from . import oracle

OFFS = [7, 11, 13, 17, 19, 23, 29, 31]

def _coprime30(n):
    return n % 2 and n % 3 and n % 5

def placements(n, S, ks=(0, 1, 2), where=("first", "last")):
    """start values that put the number n (coprime to 30, > 36) on the first / last byte of segment k
    of a sieve with S-byte segments"""
    off = next(o for o in OFFS if (n - o) % 30 == 0)
    out = []
    for k in ks:
        for w in where:
            j = 0 if w == "first" else S - 1
            low0 = n - off - 30 * (S * k + j)
            if low0 >= 720:
                out.append((k, w, low0))
    return out

def sieve_bytes(stop, kib, l1=49152):
    """sieve size the implementation will use for a small stop (mirrors Erat::initAlgorithms roughly;
    only used to aim the directed inputs, never to judge)"""
    mx = kib * 1024
    mn = min((l1 + 7) // 8 * 8, mx)
    s = int(math.isqrt(stop) * 2)
    if s > mn:
        s -= s % mn
    s = min(max(s, mn), mx)
    s = min(max(s, 16 << 10), 8192 << 10)
    s = (s + 7) // 8 * 8
    if math.isqrt(stop) > s * 3:
        s = 1 << (s.bit_length() - 1)
    return s

def gen_ops(tier, r):
    q = tier == "quick"
    ops = []   # (label, opline)
    kibs = [16, 33, 100] if q else [16, 17, 33, 64, 100, 256, 1000]
    # 1. products p*q on segment edges
    small_ps = [7, 11, 13, 163, 167, 173, 179, 997, 1009, 1013, 1019, 1021]
    for kib in kibs:
        S0 = sieve_bytes(10**7, kib)
        ps = small_ps + [r.choice([p for p in range(1031, 4000) if oracle.is_prime(p)]) for _ in range(2 if q else 8)]
        # thresholds: maxEratSmall = 0.2 * min(l1, sieve), maxEratMedium = 3 * sieve
        for thr in [int(0.2 * min(49152, S0)), 3 * S0]:
            ps += [oracle.prev_prime_le(thr), oracle.next_prime_ge(thr + 1), oracle.next_prime_ge(thr + 200)]
        for p in ps:
            qs = [p]                                   # p^2
            x = p + 2
            while len(qs) < (3 if q else 6):           # p*q for the next q coprime to 30
                if _coprime30(x):
                    qs.append(x)
                x += 2
            if p < 1000:                               # small p: take large cofactors so that n is big enough
                base = (30 * S0 * 3 + 2000) // p + 1
                x = base | 1
                while len(qs) < (6 if q else 10):
                    if _coprime30(x):
                        qs.append(x)
                    x += 2
            for qq in qs:
                n = p * qq
                if not _coprime30(n) or n < 2000:
                    continue
                S = sieve_bytes(n + 30 * S0 * 3, kib)
                pls = placements(n, S)
                if q and len(pls) > 2:
                    pls = r.sample(pls, 2)
                for k, w, low0 in pls:
                    start = low0 + r.randrange(7, 37)
                    if start > n:
                        start = low0 + 7
                    stop = n + r.choice([0, 1, 5, 30 * S + r.randrange(0, 1000), 30 * S * 2 + 17])
                    ops.append((f"edge-k{k}-{w}", f"seg {start} {stop} {kib}"))
    # 2. every (start mod 30, stop mod 30) pair, tiny intervals (unsetSmaller / unsetLarger / padding)
    for base in ([900, 10**9 + 30] if q else [900, 3000, 10**6, 10**9 + 30, 10**12]):
        for a in range(30):
            for b in (r.sample(range(30), 6) if q else range(30)):
                s0 = base + a
                e0 = s0 + (b - a) % 30 + 30 * r.randrange(0, 40)
                ops.append(("residues", f"seg {s0} {e0} {r.choice(kibs)}"))
    # 3. magnitudes, several segments
    for k in (range(3, 20, 2) if q else range(3, 20)):
        s0 = 10**k + r.randrange(0, 10**3)
        kib = r.choice([16, 33])
        S = sieve_bytes(s0 * 2, kib)
        width = r.choice([1000, 30 * S + 500, 30 * S * 2 + 100])
        if k >= 15:
            width = min(width, 30 * 16384 + 1000)
            kib = 16
        ops.append(("magnitude", f"seg {s0} {s0 + width} {kib}"))
    for s0, e0 in [(2**32 - 10**5, 2**32 + 10**5), (2**33 - 500, 2**33 + 500), (UMAX - 10**5, UMAX),
                   (UMAX - 30, UMAX), (UMAX - 1, UMAX), (MAXPRIME64 - 50, MAXPRIME64), (MAXPRIME64, MAXPRIME64 + 3)]:
        ops.append(("top-or-2^32", f"seg {s0} {e0} 16"))
    # several segments ending at / near 2^64-1 (segmentLow/High saturation on the last segments)
    for s0, e0 in [(UMAX - 600000, UMAX), (UMAX - 1100000, UMAX - 2), (UMAX - 700000, MAXPRIME64)]:
        ops.append(("top-multi-segment", f"seg {s0} {e0} 16"))
    # 4. degenerate
    for s0, e0 in [(0, 0), (0, 6), (0, 720), (0, 721), (0, 722), (719, 727), (721, 721), (727, 727), (728, 728),
                   (800, 700), (UMAX, UMAX), (UMAX, 0), (1000, 1000), (997, 997)]:
        ops.append(("degenerate", f"seg {s0} {e0} 16"))
    # 4b. feed boundaries: the interval (hence the last segment's segmentHigh_) ends exactly at / next to the square of a
    # prime p > 163 while earlier segments left p pending: the loop `while (prime_ <= isqrt(segmentHigh_))` must add p
    # iff p*p <= stop (PsModel.Feed; the model line carries prime_ after every segment)
    def is_p(n):
        if n < 2: return False
        i = 2
        while i * i <= n:
            if n % i == 0: return False
            i += 1
        return True
    for _ in range(6 if q else 60):
        pp = r.choice([r.randrange(167, 2000), r.randrange(2000, 40000), r.randrange(40000, 999000)])
        while not is_p(pp):
            pp += 1
        for d in ((0,) if q else (-1, 0, 1)):
            e0 = pp * pp + d
            nseg = r.choice([1, 2, 3])
            s0 = max(0, e0 - 30 * 16384 * nseg - r.randrange(0, 30 * 16384))
            ops.append(("feed-boundary", f"seg {s0} {e0} 16"))
    # 4c. the source itself: drain the generator's SievingPrimes object after the first segment (stop <= 10^12)
    for _ in range(10 if q else 80):
        e0 = r.choice([r.randrange(30000, 10**6), r.randrange(10**6, 10**9), r.randrange(10**9, 10**12)])
        if r.random() < 0.3:
            pp = math.isqrt(e0)
            while not is_p(pp):
                pp += 1
            e0 = pp * pp + r.choice([-1, 0, 1])
        s0 = r.choice([max(0, e0 - r.choice([1000, 30 * 16384, 3 * 30 * 16384, r.randrange(0, 10**7)])), e0 // 2, e0 // 10, e0 // 1000, 0])
        ops.append(("sieving-primes-source", f"sp {s0} {e0} {r.choice([16, 32, 64])}"))
    # 5. random
    for _ in range(20 if q else 200):
        s0 = r.randrange(0, 10**r.randrange(3, 13))
        kib = r.choice(kibs)
        ops.append(("random", f"seg {s0} {s0 + r.randrange(0, 30 * sieve_bytes(max(s0, 10**6), kib) * 3)} {kib}"))
    return ops

def run_stream(harness, model, ops, workdir, tag):
    os.makedirs(workdir, exist_ok=True)
    ops_path = os.path.join(workdir, f"{tag}.ops")
    with open(ops_path, "w") as f:
        for label, o in ops:
            f.write(o + "\n")
    rc, out, err = run([harness, "segment", ops_path], timeout=7200,
                       env={"ASAN_OPTIONS": "detect_leaks=1:abort_on_error=0", "UBSAN_OPTIONS": "print_stacktrace=1"})
    trace_path = os.path.join(workdir, f"{tag}.trace")
    with open(trace_path, "w") as f:
        f.write(out)
    res = {"harness_rc": rc, "harness_err": err[-4000:], "impl_lines": out.splitlines()}
    rc2, out2, err2 = run([model, "segment", trace_path], timeout=7200)
    res.update({"model_rc": rc2, "model_err": err2[-2000:], "model_lines": out2.splitlines()})
    return res

def analyse(ops, res):
    """returns (content_failures, geometry_diffs, stats)"""
    content, geom = [], []
    il, ml = res["impl_lines"], res["model_lines"]
    nontrivial = set()
    parts = {}
    multi = 0
    for n, (label, o) in enumerate(ops):
        parts[label] = parts.get(label, 0) + 1
        if n >= len(il):
            break
        a = il[n]
        obs = a.split(" => ", 1)[-1]
        if ("content=" in obs and "content=ok" not in obs) or "ORACLE-MISMATCH" in obs:
            content.append((o, obs))
        elif n < len(ml) and a != ml[n]:
            geom.append((o, a, ml[n]))
        if "segs=" in obs:
            try:
                segs = int(obs.split("segs=")[1].split()[0])
            except ValueError:
                segs = 0
            if segs >= 1:
                nontrivial.add(o)
        elif o.startswith("sp ") and " n=0 " not in obs:
            nontrivial.add(o)
            if segs >= 2:
                multi += 1
    st = {"evaluations": len(il), "distinct_nontrivial": len(nontrivial), "multi_segment_cases": multi,
          "partitions": parts}
    return content, geom, st
