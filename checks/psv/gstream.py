"""Generic line-protocol correspondence stream.

A stream is a list of (partition label, operation line).  The harness executes every operation
against the real library and prints `<op + observed nondeterminism> => <observation>`; an
observation that contradicts the harness's own independent oracle carries the token
ORACLE-MISMATCH.  The Lean driver re-reads these lines, recomputes the observation from the
model and prints lines of the same shape.  Three outcomes per operation:
  * ORACLE-MISMATCH           -> the implementation violates the property on this input (replay)
  * impl line != model line   -> model and implementation disagree (correspondence broken)
  * harness exits non-zero    -> sanitizer / assertion / crash; bisected to the first bad op
"""
import os, json
from .common import *


def run_stream(harness, model, stream, ops, workdir, tag, env=None, model_stream=None, timeout=7200):
    os.makedirs(workdir, exist_ok=True)
    ops_path = os.path.join(workdir, f"{tag}.ops")
    with open(ops_path, "w") as f:
        for label, o in ops:
            f.write(o + "\n")
    e = {"ASAN_OPTIONS": "detect_leaks=1:abort_on_error=0", "UBSAN_OPTIONS": "print_stacktrace=1",
         "TSAN_OPTIONS": "halt_on_error=1 exitcode=66"}
    if env:
        e.update(env)
    rc, out, err = run([harness, stream, ops_path], timeout=timeout, env=e)
    trace_path = os.path.join(workdir, f"{tag}.trace")
    with open(trace_path, "w") as f:
        f.write(out)
    res = {"harness_rc": rc, "harness_err": err[-4000:], "impl_lines": out.splitlines()}
    if model is not None:
        rc2, out2, err2 = run([model, model_stream or stream, trace_path], timeout=timeout)
        res.update({"model_rc": rc2, "model_err": err2[-2000:], "model_lines": out2.splitlines()})
    else:
        res.update({"model_rc": 0, "model_err": "", "model_lines": None})
    return res


def analyse(ops, res, nontrivial=None):
    wrong, diffs = [], []
    il, ml = res["impl_lines"], res["model_lines"]
    parts, nt = {}, set()
    for n, (label, o) in enumerate(ops):
        parts[label] = parts.get(label, 0) + 1
        if n >= len(il):
            break
        a = il[n]
        obs = a.split(" => ", 1)[-1]
        if "ORACLE-MISMATCH" in obs:
            wrong.append((o, obs))
        elif ml is not None and (n >= len(ml) or a != ml[n]):
            diffs.append((o, a, ml[n] if n < len(ml) else "<no model line>"))
        if nontrivial is None or nontrivial(o, obs):
            nt.add(a)        # distinct by operation AND observation (the full trace line)
    return wrong, diffs, {"evaluations": len(il), "distinct_nontrivial": len(nt), "partitions": parts}


class Stream:
    """name: harness/driver stream name; gen(tier, rng) -> [(label, op)]; rule: evidence text;
    nontrivial(op, observation) -> bool; env: extra environment for the harness;
    use_model: False for streams whose observation is only checked against the harness oracle"""
    def __init__(self, name, gen, rule, nontrivial=None, env=None, use_model=True, model_stream=None):
        self.name, self.gen, self.rule, self.nontrivial, self.env = name, gen, rule, nontrivial, env
        self.use_model, self.model_stream = use_model, model_stream

    def tie(self, ctx, tie_fail, tier=None, tag=None):
        tier = tier or ctx.tier
        tag = tag or self.name
        r = rng(f"{self.name}-{ctx.prop}-{tag}")
        ops = self.gen(tier, r)
        res = run_stream(ctx.harness, ctx.model if self.use_model else None, self.name, ops, ctx.workdir, tag,
                         env=self.env, model_stream=self.model_stream)
        wrong, diffs, cov = analyse(ops, res, self.nontrivial)
        cov["rule"] = self.rule
        cov["samples"] = [{"partition": l, "op": o} for l, o in ops[:2]] + [{"trace_line": x[:300]} for x in res["impl_lines"][:2]]
        if res["harness_rc"] != 0:
            loc = self.locate_crash(ctx, ops, res)
            data = None
            if loc is not None:
                data = {"kind": "impl-crash", "stderr": res["harness_err"][-3000:]}
                data.update(loc)
                data["key"] = f"crash:{self.name}:" + (loc["op"] if "op" in loc else "prefix-ending-at:" + loc["ops"][-1])
            tie_fail.append((self.name, f"harness aborted (rc={res['harness_rc']}; sanitizer / assertion / crash): "
                             + res["harness_err"][-600:], data))
            return cov
        if res["model_rc"] != 0:
            tie_fail.append((self.name, "model driver failed: " + res["model_err"], None))
            return cov
        for o, obs in wrong[:1]:
            tie_fail.append((self.name, f"implementation contradicts the independent oracle: {o} -> {obs[:300]}",
                             {"kind": "impl-vs-spec", "op": o, "observed": obs[:800], "key": f"{self.name}:{o}"}))
        if not wrong and diffs:
            o, a, b = diffs[0]
            tie_fail.append((self.name, f"model and implementation differ for `{o}`: impl `{a[:400]}` model `{b[:400]}`", None))
        cov["disagreements_checked"] = len(wrong) + len(diffs)
        return cov

    def locate_crash(self, ctx, ops, res):
        """the harness flushes its trace when it dies, so the operation that kills it is the one after the last
        line that came out: try it (and its neighbours) alone; a stream whose operations share state is replayed
        as the shortest failing prefix instead"""
        import time
        n = len(res["impl_lines"])
        def dies(sub):
            r1 = run_stream(ctx.harness, None, self.name, sub, ctx.workdir, "bisect", env=self.env)
            return r1["harness_rc"] != 0
        for i in (n, n - 1, n + 1):
            if 0 <= i < len(ops) and dies([ops[i]]):
                return {"op": ops[i][1]}
        hi = min(len(ops), n + 1)
        t0 = time.time()
        if not dies(ops[:hi]):
            hi = len(ops)
            if not dies(ops):
                return None           # not reproducible
        if time.time() - t0 < 60:
            lo = 0                    # ops[:lo] survives, ops[:hi] dies
            while hi - lo > 1 and time.time() - t0 < 900:
                mid = (lo + hi) // 2
                if dies(ops[:mid]):
                    hi = mid
                else:
                    lo = mid
        return {"ops": [o for _, o in ops[:hi]]}

    def witness(self, ctx, obligations_failed, tie_fail):
        for k in range(2):
            tf = []
            self.tie(ctx, tf, tier="quick", tag=f"{self.name}wit{k}")
            hit = [t for t in tf if t[2] is not None]
            if hit:
                return hit[0]
        return None

    def replay(self, ctx, data):
        rops = [("replay", o) for o in (data["ops"] if "ops" in data else [data["op"]])]
        res = run_stream(ctx.harness, None, self.name, rops, ctx.workdir, "replay", env=self.env)
        wrong, _, _ = analyse(rops, res)
        return {"fails": bool(wrong) or res["harness_rc"] != 0, "observed": res["impl_lines"][-1:],
                "stderr": res["harness_err"][-1500:]}


STREAMS = {}

def register(s):
    STREAMS[s.name] = s
    return s
