"""Registry: per property the Lean obligations, the correspondence streams and the witness search."""
import os, json
from dataclasses import dataclass, field
from .common import *
from . import stream_iter, stream_segment, stream_count, oracle, streams
from .gstream import STREAMS
from . import build
import dataclasses

TRUSTED_BASE = [
    "Lean 4.33.0 kernel; Mathlib v4.33.0 (imported only by PsSpec/PsProofs/PsProps)",
    "axioms allowed in #print axioms: propext, Classical.choice, Quot.sound (audited on every run)",
    "translator/translate.py (textual extraction of tables/constants from /repo into lean/PsModel/Generated)",
    "correspondence harness harness/psv_harness.cpp + compiled driver lean/Driver.lean (Lean compiler, GMP, libm)",
    "hand-written model in lean/PsModel is tied to the code by differential execution only",
]


@dataclass
class Ctx:
    prop: str
    tier: str
    repo_build: str
    harness: str
    model: str
    workdir: str


@dataclass
class Prop:
    targets: list
    theorems: list            # (module, fully qualified theorem name)
    tie: object               # f(ctx, tie_fail) -> coverage dict
    witness: object           # f(ctx, obligations_failed, tie_fail) -> (stream, desc, data) or None
    level: str = "proof"
    assumptions: list = field(default_factory=list)
    trusted_extra: list = field(default_factory=list)
    undischarged: list = field(default_factory=list)
    explanation: str = ""


# --------------------------------------------------------------------------------------------
# iterator properties C01 / C02 / C03
# --------------------------------------------------------------------------------------------

def _iter_filter(prop, scripts):
    if prop == "C10":
        keep = ("top-", "big-", "mag-")
        return [s for s in scripts if s[0].startswith(keep)]
    if prop == "C01":
        keep = ("small-fwd", "small-long-fwd", "mag-fwd", "big-fwd", "past-hint", "top-", "seam-fwd", "fwd-", "corpus-")
    elif prop == "C02":
        keep = ("small-bwd", "to-zero", "mag-bwd", "big-bwd", "past-hint-bwd", "seam-bwd", "top-bwd", "bwd-")
    else:
        return scripts
    return [s for s in scripts if s[0].startswith(keep)]


def iter_tie(ctx, tie_fail, tier=None):
    tier = tier or ctx.tier
    r = rng("iter-" + ctx.prop)
    scripts = _iter_filter(ctx.prop, stream_iter.gen_scripts(tier, r))
    res = stream_iter.run_stream(ctx.harness, ctx.model, scripts, ctx.workdir, "iter")
    cov = stream_iter.stats(scripts, res["impl_lines"])
    cov["rule"] = ("cases = single next/prev/jump/clear/move calls of seeded histories on primesieve::iterator; "
                   "non-trivial = the call left the buffer (refill forwards/backwards, direction switch at "
                   "i_==0, error, reposition); distinct by (operation, returned value, chunk start, chunk "
                   "stop, generator present)")
    cov["samples"] = [{"partition": l, "ops": o} for l, o in scripts[:3]] + \
                     [{"trace_line": x} for x in res["impl_lines"][:3]]
    cov["traces_validated_against_impl"] = len(scripts)
    if res["harness_rc"] != 0:
        # sanitizer abort / assertion / crash: find the script that dies
        bad = _bisect_crash(ctx, scripts)
        tie_fail.append(("iter", "harness aborted (sanitizer / assertion / crash): " + res["harness_err"][-600:],
                         {"kind": "impl-crash", "history": bad, "stderr": res["harness_err"][-3000:],
                          "key": "crash:" + json.dumps(bad)} if bad else None))
        return cov
    if res["model_rc"] != 0:
        tie_fail.append(("iter", "model driver failed: " + res["model_err"], None))
        return cov
    vd, sd = stream_iter.compare(res)
    cov["disagreements_checked"] = len(vd) + len(sd)
    if vd or sd:
        # is it the implementation that violates the property?  ask the independent oracle
        mm = stream_iter.oracle_check(scripts, res["impl_lines"])
        if mm is not None:
            si, op, exp, act, hist = mm
            data = {"kind": "impl-vs-spec", "history": scripts[si][1], "failing_call": op,
                    "expected": exp, "actual": act, "key": f"iter:{scripts[si][1]}"}
            tie_fail.append(("iter", f"iterator returned {act}, abstract cursor says {exp} "
                                     f"(history {scripts[si][1]}, at {op})", data))
        else:
            n, a, b = (vd or sd)[0]
            tie_fail.append(("iter", f"model and implementation disagree at trace line {n}: impl `{a}` model `{b}`", None))
    return cov


def _bisect_crash(ctx, scripts):
    for label, ops in scripts:
        res = stream_iter.run_stream(ctx.harness, ctx.model, [(label, ops)], ctx.workdir, "bisect")
        if res["harness_rc"] != 0:
            return ops
    return None


def iter_witness(ctx, obligations_failed, tie_fail):
    """directed search: thorough generator at several seeds, implementation vs cursor oracle"""
    for k in range(3):
        r = rng(f"iter-witness-{ctx.prop}-{k}")
        scripts = _iter_filter(ctx.prop, stream_iter.gen_scripts("quick", r))
        res = stream_iter.run_stream(ctx.harness, ctx.model, scripts, ctx.workdir, f"witness{k}")
        if res["harness_rc"] != 0:
            bad = _bisect_crash(ctx, scripts)
            if bad:
                return ("iter", "crash", {"kind": "impl-crash", "history": bad, "stderr": res["harness_err"][-3000:],
                                          "key": "crash:" + json.dumps(bad)})
        mm = stream_iter.oracle_check(scripts, res["impl_lines"])
        if mm is not None:
            si, op, exp, act, hist = mm
            return ("iter", f"iterator returned {act}, abstract cursor says {exp}",
                    {"kind": "impl-vs-spec", "history": scripts[si][1], "failing_call": op,
                     "expected": exp, "actual": act, "key": f"iter:{scripts[si][1]}"})
    return None


# --------------------------------------------------------------------------------------------
# segment stream (Erat layer): used by every property that depends on sieved segments
# --------------------------------------------------------------------------------------------

def segment_tie(ctx, tie_fail, tier=None, tag="segment"):
    tier = tier or ctx.tier
    r = rng("segment-" + ctx.prop + tag)
    ops = stream_segment.gen_ops(tier, r)
    res = stream_segment.run_stream(ctx.harness, ctx.model, ops, ctx.workdir, tag)
    content, geom, cov = stream_segment.analyse(ops, res)
    cov["rule"] = ("cases = (start, stop, sieve KiB) intervals sieved segment by segment through the real "
                   "PrimeGenerator/Erat; every bit of every segment is checked against the harness oracle and the "
                   "segment geometry against the Lean model; non-trivial = at least one segment was sieved; "
                   "distinct by the (start, stop, KiB) triple")
    cov["samples"] = [{"partition": l, "op": o} for l, o in ops[:2]] + [{"trace_line": x[:300]} for x in res["impl_lines"][:2]]
    if res["harness_rc"] != 0:
        bad = None
        for label, o in ops:
            r1 = stream_segment.run_stream(ctx.harness, ctx.model, [(label, o)], ctx.workdir, "bisect")
            if r1["harness_rc"] != 0:
                bad = o
                break
        tie_fail.append(("segment", "harness aborted (sanitizer / assertion / crash): " + res["harness_err"][-600:],
                         {"kind": "impl-crash", "op": bad, "stderr": res["harness_err"][-3000:], "key": f"crash:{bad}"} if bad else None))
        return cov
    if res["model_rc"] != 0:
        tie_fail.append(("segment", "model driver failed: " + res["model_err"], None))
        return cov
    for o, obs in content[:1]:
        tie_fail.append(("segment", f"sieved segment differs from the primes of its interval: {o} -> {obs[:300]}",
                         {"kind": "impl-vs-spec", "op": o, "observed": obs[:600], "key": "segment:" + o}))
    if not content and geom:
        o, a, b = geom[0]
        tie_fail.append(("segment", f"segment geometry of model and implementation differ for `{o}`: impl `{a[:400]}` model `{b[:400]}`", None))
    cov["disagreements_checked"] = len(content) + len(geom)
    return cov


def segment_witness(ctx, obligations_failed, tie_fail):
    for k in range(2):
        tf = []
        segment_tie(ctx, tf, tier="quick", tag=f"segwit{k}")
        hit = [t for t in tf if t[2] is not None]
        if hit:
            return hit[0]
    return None


# --------------------------------------------------------------------------------------------
# count stream (PrimeSieve / ParallelSieve counters, pieces)
# --------------------------------------------------------------------------------------------

def count_tie(ctx, tie_fail, tier=None, tag="count"):
    tier = tier or ctx.tier
    r = rng("count-" + ctx.prop + tag)
    ops = stream_count.gen_ops(tier, r)
    res = stream_count.run_stream(ctx.harness, ctx.model, ops, ctx.workdir, tag)
    wrong, diffs, cov = stream_count.analyse(ops, res)
    cov["rule"] = ("cases = ParallelSieve::sieve(start, stop, all six COUNT flags) with a sieve size, a thread count and "
                   "a piece-length override; every result is checked against the harness oracle and (counters, thread "
                   "count, piece length, list of pieces) against the Lean model; non-trivial = some counter is non-zero; "
                   "distinct by the full operation")
    cov["samples"] = [{"partition": l, "op": o} for l, o in ops[:2]] + [{"trace_line": x[:300]} for x in res["impl_lines"][:2]]
    if res["harness_rc"] != 0:
        bad = None
        for label, o in ops:
            r1 = stream_count.run_stream(ctx.harness, ctx.model, [(label, o)], ctx.workdir, "bisect")
            if r1["harness_rc"] != 0:
                bad = o
                break
        tie_fail.append(("count", "harness aborted (sanitizer / assertion / crash): " + res["harness_err"][-600:],
                         {"kind": "impl-crash", "op": bad, "stderr": res["harness_err"][-3000:], "key": f"crash:{bad}"} if bad else None))
        return cov
    if res["model_rc"] != 0:
        tie_fail.append(("count", "model driver failed: " + res["model_err"], None))
        return cov
    for o, obs in wrong[:1]:
        tie_fail.append(("count", f"counters differ from the number of primes / constellations in the interval: {o} -> {obs[:300]}",
                         {"kind": "impl-vs-spec", "op": o, "observed": obs[:600], "key": "count:" + o}))
    if not wrong and diffs:
        o, a, b = diffs[0]
        tie_fail.append(("count", f"model and implementation differ for `{o}`: impl `{a[:400]}` model `{b[:400]}`", None))
    cov["disagreements_checked"] = len(wrong) + len(diffs)
    return cov


def count_witness(ctx, obligations_failed, tie_fail):
    for k in range(2):
        tf = []
        count_tie(ctx, tf, tier="quick", tag=f"cntwit{k}")
        hit = [t for t in tf if t[2] is not None]
        if hit:
            return hit[0]
    return None


def combine(*fs):
    """tie function running several streams and merging their coverage"""
    def tie(ctx, tie_fail):
        cov = {"evaluations": 0, "distinct_nontrivial": 0, "samples": [], "streams": {}, "rule": ""}
        for name, f in fs:
            c = f(ctx, tie_fail)
            cov["evaluations"] += c.get("evaluations", 0)
            cov["distinct_nontrivial"] += c.get("distinct_nontrivial", 0)
            cov["samples"] += c.get("samples", [])[:4]
            cov["rule"] += f"[{name}] " + c.get("rule", "") + " "
            cov["streams"][name] = {k: v for k, v in c.items() if k not in ("samples", "rule")}
        cov["traces_validated_against_impl"] = cov["evaluations"]
        return cov
    return tie


def on_variant(variant, f):
    """run a tie function against another build variant of /repo (e.g. no AVX512/POPCNT dispatch)"""
    def tie(ctx, tie_fail):
        d, err = build.build_repo(variant)
        h, herr = (None, "repo variant build failed") if err else build.build_harness(d)
        if err or herr:
            tie_fail.append((f"build variant {variant}", (err or herr)[-1500:], None))
            return {"evaluations": 0, "distinct_nontrivial": 0}
        ctx2 = dataclasses.replace(ctx, repo_build=d, harness=h, workdir=ctx.workdir + "-" + variant)
        return f(ctx2, tie_fail)
    return tie


def combine_witness(*fs):
    def w(ctx, obligations_failed, tie_fail):
        for f in fs:
            r = f(ctx, obligations_failed, tie_fail)
            if r is not None:
                return r
        return None
    return w


def replay(ctx, data):
    """re-run a replay file; returns {'fails': bool, ...}"""
    if data.get("stream") in STREAMS and data.get("op"):
        return STREAMS[data["stream"]].replay(ctx, data)
    if data.get("stream") == "count" and data.get("op"):
        res = stream_count.run_stream(ctx.harness, ctx.model, [("replay", data["op"])], ctx.workdir, "replay")
        wrong, diffs, _ = stream_count.analyse([("replay", data["op"])], res)
        return {"fails": bool(wrong) or res["harness_rc"] != 0, "observed": res["impl_lines"][-1:], "stderr": res["harness_err"][-1500:]}
    if data.get("stream") == "segment" and data.get("op"):
        res = stream_segment.run_stream(ctx.harness, ctx.model, [("replay", data["op"])], ctx.workdir, "replay")
        content, geom, _ = stream_segment.analyse([("replay", data["op"])], res)
        return {"fails": bool(content) or res["harness_rc"] != 0, "observed": res["impl_lines"][-1:], "stderr": res["harness_err"][-1500:]}
    if "history" in data and data.get("stream", "iter") == "iter":
        scripts = [("replay", data["history"])]
        res = stream_iter.run_stream(ctx.harness, ctx.model, scripts, ctx.workdir, "replay")
        if res["harness_rc"] != 0:
            return {"fails": True, "why": "crash", "stderr": res["harness_err"][-2000:]}
        mm = stream_iter.oracle_check(scripts, res["impl_lines"])
        return {"fails": mm is not None, "mismatch": mm, "trace": res["impl_lines"][-5:]}
    return {"fails": False, "why": "nothing executable in this replay (proof obligation / correspondence record)"}


ITER_ASSUME = [
    "proved over the ideal generator PsModel.IGen (the primes of [lo,stop] in blocks); the real "
    "PrimeGenerator is tied to it by the iter stream (block contents, sizes, empty/overflow outcomes)",
    "Env.isPrime decides Nat.Prime (hypothesis EnvOK); the driver uses deterministic Miller-Rabin",
    "std::sqrt/std::log sub-expressions are arbitrary functions in the theorems (Oracle), IEEE doubles in the driver",
]

COUNT_ASSUME = [
    "counting is proved over an ideal segmented sieve (bit = prime and in range); the real Erat/EratSmall/Medium/Big "
    "cross-off is tied to it by the segment and count streams (every bit / every counter checked)",
    "std::atomic fetch_add hands out each piece index exactly once (C++ memory model); data-race freedom of the "
    "real threads is outside the model",
]

REGISTRY = {
    "C01": Prop(
        targets=["PsProps.C01"],
        theorems=[("PsProps.C01", "Ps.Props.C01_model_sources"), ("PsProps.C01", "Ps.Props.C01_forward"), ("PsProps.C01", "Ps.Props.C01_sequence_exact"),
                  ("PsProps.C01", "Ps.Props.C01_blocks_nonempty"), ("PsProps.C01", "Ps.Props.C01_crossoff_tables"),
                  ("PsProps.C01", "Ps.Props.C01_crossoff_step"), ("PsProps.C01", "Ps.Props.C01_crossoff_walk_exact"),
                  ("PsProps.C01", "Ps.Props.C01_first_multiple"), ("PsProps.C01", "Ps.Props.C01_presieve_exact"),
                  ("PsProps.C01", "Ps.Props.C01_wheel_source"), ("PsProps.C01", "Ps.Props.C01_sieve_principle"),
                  ("PsProps.C01", "Ps.Props.C01_crossoff_covers_segment"), ("PsProps.C01", "Ps.Props.C01_segments_tile"), ("PsProps.C01", "Ps.Props.C01_segment_numbers_correct"),
                  ("PsProps.C01", "Ps.Props.C01_segment_source"), ("PsProps.C01", "Ps.Props.C01_feed_complete"),
                  ("PsProps.C01", "Ps.Props.C01_loop_segments_correct"), ("PsProps.C01", "Ps.Props.C01_tiny_feed"),
                  ("PsProps.C01", "Ps.Props.C01_feed_source"), ("PsProps.C01", "Ps.Props.C01_tiny_sieve"),
                  ("PsProps.C01", "Ps.Props.C01_inner_feed_primes"), ("PsProps.C01", "Ps.Props.C01_crossoff_one_segment"),
                  ("PsProps.C01", "Ps.Props.C01_crossoff_across_segments"),
                  ("PsProps.C01", "Ps.Props.C01_segment_clears_multiples")],
        tie=combine(("iter", iter_tie), ("segment", segment_tie), ("wheel", streams.WHEEL.tie), ("cross", streams.CROSS.tie),
                    ("presieve", streams.PRESIEVE.tie)),
        witness=combine_witness(iter_witness, streams.WHEEL.witness, streams.CROSS.witness, streams.PRESIEVE.witness, segment_witness), assumptions=ITER_ASSUME,
        undischarged=["IGen ~ PrimeGenerator: the wheel layer (tables, step, walk, first multiple) and the pre-sieve (16 tables, AND) of the "
                      "sieve chain, the sieve principle, their composition (a number of a segment is prime iff pre-sieved bit set and "
                      "not crossed off by a stored sieving prime's walk), the tiling of [start, stop] by segments and the feed loops (every "
                      "source value <= isqrt(segmentHigh) is added before the segment is sieved; C01_loop_segments_correct composes all "
                      "of them over the whole segment loop) are proved, and so is the per-prime loop shape `while (idx < S) {clear; step} idx -= S` "
                      "carried over any list of segments (C01_crossoff_one_segment, C01_crossoff_across_segments); what remains is (a) "
                      "scheduling: that EratSmall (L1 sub-segments, unrolled loops) / EratMedium (bucket lists per wheel index) / EratBig "
                      "(segment rotation, MemoryPool) run exactly this loop for every stored prime in every segment, and (b) that SievingPrimes::next() delivers the primes of (163, isqrt(stop)] in order - a "
                      "hypothesis of the theorem (it is the same Erat code one level down; its own feed from tinySieve IS proved: "
                      "C01_tiny_sieve, C01_inner_feed_primes) - both tied by the "
                      "segment and cross streams only"],
        explanation="forward iteration = primeSeq for every start, hint, block policy and float oracle; "
                    "termination of generate_next_primes is the well-founded recursion of genNextFresh"),
    "C02": Prop(
        targets=["PsProps.C02"],
        theorems=[("PsProps.C02", "Ps.Props.C02_model_sources"), ("PsProps.C02", "Ps.Props.C02_backward"), ("PsProps.C02", "Ps.Props.C02_sequence_exact")],
        tie=iter_tie, witness=iter_witness, assumptions=ITER_ASSUME,
        undischarged=["IGen ~ PrimeGenerator (sieve chain, DESIGN section 9 Tier B)"],
        explanation="backward iteration = prevSeq for every start, hint and float oracle; termination of the "
                    "do/while of generate_prev_primes is the well-founded recursion of genPrevLoop"),
    "C03": Prop(
        targets=["PsProps.C03"],
        theorems=[("PsProps.C03", "Ps.Props.C03_model_sources"), ("PsProps.C03", "Ps.Props.C03_refines"), ("PsProps.C03", "Ps.Props.C03_hint_independent"),
                  ("PsProps.C03", "Ps.Props.C03_reset_like_fresh"),
                  ("PsProps.C03", "Ps.Props.C03_moved_from_like_fresh")],
        tie=iter_tie, witness=iter_witness, assumptions=ITER_ASSUME,
        undischarged=["IGen ~ PrimeGenerator (sieve chain, DESIGN section 9 Tier B)"],
        explanation="simulation between the iterator model and the abstract cursor for every history"),
    "C04": Prop(
        targets=["PsProps.C04"],
        theorems=[("PsProps.C04", "Ps.Props.C04_model_sources"), ("PsProps.C04", "Ps.Props.C04_count_single"), ("PsProps.C04", "Ps.Props.C04_count_parallel"),
                  ("PsProps.C04", "Ps.Props.C04_empty"), ("PsProps.C04", "Ps.Props.C04_additive"),
                  ("PsProps.C04", "Ps.Props.C04_agrees_with_enumeration")],
        tie=combine(("count", count_tie), ("segment", segment_tie), ("cross", streams.CROSS.tie)),
        witness=combine_witness(count_witness, streams.CROSS.witness, segment_witness), assumptions=COUNT_ASSUME,
        undischarged=["ideal sieve ~ Erat cross-off (sieve chain, DESIGN section 9 Tier B)"],
        explanation="counter 0 of PrimeSieve::sieve / ParallelSieve::sieve over the ideal sieve = number of primes in "
                    "[start, stop], for every start, stop, thread count and piece length"),
    "C05": Prop(
        targets=["PsProps.C05"],
        theorems=[("PsProps.C05", "Ps.Props.C05_model_sources"), ("PsProps.C05", "Ps.Props.C05_tuplets_single"), ("PsProps.C05", "Ps.Props.C05_tuplets_parallel"),
                  ("PsProps.C05", "Ps.Props.C05_masks_exhaustive"), ("PsProps.C05", "Ps.Props.C05_small_rows")],
        tie=combine(("count", count_tie)), witness=combine_witness(count_witness), assumptions=COUNT_ASSUME,
        undischarged=["ideal sieve ~ Erat cross-off (sieve chain, DESIGN section 9 Tier B)"],
        explanation="counters 1..5 = number of constellations of each kind inside [start, stop]; the mask table is "
                    "checked against the pattern definition for all 256 byte values by the kernel"),
    "C15": Prop(
        targets=["PsProps.C15"],
        theorems=[("PsProps.C15", "Ps.Props.C15_model_sources"), ("PsProps.C15", "Ps.Props.C15_print_primes"), ("PsProps.C15", "Ps.Props.C15_lines_eq_count"),
                  ("PsProps.C15", "Ps.Props.C15_print_tuplets_from7"), ("PsProps.C15", "Ps.Props.C15_tuplet_lines_eq_count"),
                  ("PsProps.C15", "Ps.Props.C15_small_strings")],
        tie=combine(("print", streams.PRINT.tie), ("cliprint", lambda ctx, tf: cliprint_tie(ctx, tf))), witness=combine_witness(streams.PRINT.witness),
        assumptions=COUNT_ASSUME + ["iostream's decimal rendering of uint64_t equals Lean's Nat.repr (toString)"],
        undischarged=["ideal sieve ~ Erat cross-off (sieve chain)", "print_twins..sextuplets for start < 7: only the "
                      "table strings are proved (C15_small_strings); the full statement is tied by the print stream"],
        explanation="the lines printed by PrimeSieve::sieve(PRINT_*) over the ideal sieve are the renderings of the "
                    "primes / constellations of [start, stop], ascending"),
    "C06": Prop(
        targets=["PsProps.C06"],
        theorems=[("PsProps.C06", "Ps.Props.C06_model_sources"), ("PsProps.C06", "Ps.Props.C06_store_primes"), ("PsProps.C06", "Ps.Props.C06_no_truncation"),
                  ("PsProps.C06", "Ps.Props.C06_next_block"), ("PsProps.C06", "Ps.Props.C06_storeMaxPrime"),
                  ("PsProps.C06", "Ps.Props.C06_store_n_primes")],
        tie=combine(("store", streams.STORE.tie)), witness=combine_witness(streams.STORE.witness),
        assumptions=ITER_ASSUME + ["std::vector::insert/push_back/reserve append and never touch existing elements"],
        undischarged=["IGen ~ PrimeGenerator (sieve chain)"],
        explanation="store_primes over the iterator model appends exactly primesIn start stop, or throws before storing "
                    "anything when stop exceeds the element type; store_n_primes appends exactly the first n primes >= start or "
                    "throws with an exact prefix when the n-th does not fit; both block loops terminate"),
    "C07": Prop(
        targets=["PsProps.C07"],
        theorems=[("PsProps.C07", "Ps.Props.C07_model_sources"), ("PsProps.C07", "Ps.Props.C07_extreme_n_rejected"), ("PsProps.C07", "Ps.Props.C07_negation_in_range"),
                  ("PsProps.C07", "Ps.Props.C07_zero_maps_to_first"), ("PsProps.C07", "Ps.Props.C07_negative_needs_room"),
                  ("PsProps.C07", "Ps.Props.C07_nth_value"), ("PsProps.C07", "Ps.Props.C07_count_hypothesis")],
        tie=combine(("nth", streams.NTH.tie)), witness=combine_witness(streams.NTH.witness),
        assumptions=ITER_ASSUME + COUNT_ASSUME + ["primePiApprox / nthPrimeApprox / avgPrimeGap (long double / double) are "
                                                  "arbitrary functions in the model; the driver runs two different instantiations"],
        undischarged=["IGen ~ PrimeGenerator and ideal sieve ~ Erat cross-off (the iterator and count layers the walks use)",
                      "primePiApprox / nthPrimeApprox (RiemannR, long double) are arbitrary 64-bit valued functions in the theorem"],
        explanation="value theorem: for every n, start and every approximation oracle nth_prime returns the n-th prime after / "
                    "before start (first prime >= start for n = 0) or fails exactly when it does not exist below 2^64 / above 0; "
                    "argument validation (|n| > pi(2^64) incl. INT64_MIN rejected before negation)"),
    "C08": Prop(
        targets=["PsProps.C08"],
        theorems=[("PsProps.C08", "Ps.Props.C08_model_sources"), ("PsProps.C08", "Ps.Props.C08_setSieveSize_clamped"), ("PsProps.C08", "Ps.Props.C08_setNumThreads_clamped"),
                  ("PsProps.C08", "Ps.Props.C08_getSieveSize_range"), ("PsProps.C08", "Ps.Props.C08_getSieveSize_user"),
                  ("PsProps.C08", "Ps.Props.C08_l1_range"), ("PsProps.C08", "Ps.Props.C08_sieveSize_mod8_or_pow2"),
                  ("PsProps.C08", "Ps.Props.C08_counts_independent_of_threads"),
                  ("PsProps.C08", "Ps.Props.C08_iterator_independent")],
        tie=combine(("cfg", streams.CFG.tie), ("sysfs", streams.SYSFS.tie),
                    ("presieve-portable", on_variant("portable", streams.PRESIEVE.tie)),
                    ("iter-portable", on_variant("portable", iter_tie)),
                    ("segment-portable", on_variant("portable", segment_tie)),
                    ("count-portable", on_variant("portable", count_tie)),
                    ("print-portable", on_variant("portable", streams.PRINT.tie))),
        witness=combine_witness(streams.CFG.witness, segment_witness, count_witness),
        assumptions=ITER_ASSUME + COUNT_ASSUME + [
            "cache descriptions are injected by overwriting the fields of the CpuInfo singleton through the friend probe "
            "(hook H0); parsing of /sys by CpuInfo::init (iostream, std::stoul, exceptions swallowed by the constructor) is "
            "not modelled"],
        undischarged=["'the library always initialises' for malformed sysfs files: decided by the sysfs stream (one process start-up "
                      "per substituted tree, hook H2), not by a theorem about iostream / std::stoul", "AVX512 vs portable code paths are tied by running the segment/count/print streams on "
                      "two builds (runtime dispatch on this AVX512 machine, -DWITH_MULTIARCH=OFF), not by a proof about SIMD"],
        explanation="clamps and get_sieve_size() range for every cache description; sieve size multiple of 8 or power of two "
                    "for every configuration; counts independent of threads/piece length; iterator independent of block "
                    "lengths, hints and float values"),
    "C11": Prop(
        targets=["PsProps.C11"],
        theorems=[("PsProps.C11", "Ps.Props.C11_model_sources"), ("PsProps.C11", "Ps.Props.C11_error_sticky"), ("PsProps.C11", "Ps.Props.C11_error_state"),
                  ("PsProps.C11", "Ps.Props.C11_next_same_as_cpp"), ("PsProps.C11", "Ps.Props.C11_prev_same_as_cpp"),
                  ("PsProps.C11", "Ps.Props.C11_jump_inclusive_skipto_exclusive"),
                  ("PsProps.C11", "Ps.Props.C11_wrappers_catch"), ("PsProps.C11", "Ps.Props.C11_wrappers_without_try"),
                  ("PsProps.C11", "Ps.Props.C11_errno_only_on_error"), ("PsProps.C11", "Ps.Props.C11_type_switch")],
        tie=combine(("iterc", streams.ITERC.tie), ("store", streams.STORE.tie), ("nth", streams.NTH.tie),
                    ("print", streams.PRINT.tie), ("capi", streams.CAPI.tie)),
        witness=combine_witness(streams.ITERC.witness, streams.STORE.witness, streams.NTH.witness),
        assumptions=ITER_ASSUME + ["the wrapper facts are extracted textually from src/api-c.cpp / src/iterator-c.cpp by "
                                   "translator/translate.py (try / catch / errno / return shapes), not from a C++ semantics"],
        undischarged=["count_* C wrappers are covered by the wrapper-shape theorem and by the print/nth/store streams' C "
                      "variants, not by a separate stream"],
        explanation="C iterator = C++ iterator on non-failing calls; sticky error state; jump inclusive / skipto exclusive; "
                    "wrapper shapes and type-code switch regenerated from the source and checked by decide"),
    "C14": Prop(
        targets=["PsProps.C14"],
        theorems=[("PsProps.C14", "Ps.Props.C14_mutable_globals"), ("PsProps.C14", "Ps.Props.C14_interleaving")],
        tie=combine(("multi", streams.MULTI.tie), ("mt", streams.MT.tie)), witness=combine_witness(streams.MULTI.witness, streams.MT.witness),
        assumptions=ITER_ASSUME + ["the inventory of variables with static storage duration is a textual scan "
                                   "(translator/translate.py) of src/*.cpp, include/**/*.hpp (verification hooks excluded)"],
        undischarged=["concurrent user threads: data-race freedom under the C++ memory model is not expressible; the "
                      "frame theorem + the absence of shared mutable state is what the model can carry"],
        explanation="no mutable static state except the two settings (regenerated inventory); every interleaving of "
                    "operations on two iterators returns per object what it returns alone"),
    "C09": Prop(
        targets=["PsProps.C09"],
        theorems=[("PsProps.C09", "Ps.Props.C09_model_sources"), ("PsProps.C09", "Ps.Props.C09_piece_exact"), ("PsProps.C09", "Ps.Props.C09_tiling"),
                  ("PsProps.C09", "Ps.Props.C09_threadDistance_shape"),
                  ("PsProps.C09", "Ps.Props.C09_primes_additive"), ("PsProps.C09", "Ps.Props.C09_tuplets_additive"),
                  ("PsProps.C09", "Ps.Props.C09_no_split"), ("PsProps.C09", "Ps.Props.C09_schedule_independent")],
        tie=combine(("count", count_tie)), witness=combine_witness(count_witness), assumptions=COUNT_ASSUME,
        undischarged=["data-race freedom of the real worker threads (not expressible in the model)"],
        explanation="pieces tile [start, stop], interior boundaries are = 2 mod 30 and >= 32, no constellation straddles "
                    "one, per-piece counts add up to the interval's count, for every assignment of pieces to workers"),
    "C10": Prop(
        targets=["PsProps.C10"],
        theorems=[("PsProps.C10", "Ps.Props.C10_model_sources"), ("PsProps.C10", "Ps.Props.C10_addSievingPrime_no_wrap"), ("PsProps.C10", "Ps.Props.C10_maxPrime64_prime"), ("PsProps.C10", "Ps.Props.C10_no_prime_above"),
                  ("PsProps.C10", "Ps.Props.C10_forward_values_le_max"), ("PsProps.C10", "Ps.Props.C10_iterator_top"),
                  ("PsProps.C10", "Ps.Props.C10_checkedAdd"), ("PsProps.C10", "Ps.Props.C10_checkedSub")],
        tie=combine(("iter", iter_tie), ("count", count_tie), ("segment", segment_tie), ("wheel", streams.WHEEL.tie)),
        witness=combine_witness(iter_witness, count_witness, streams.WHEEL.witness, segment_witness),
        assumptions=ITER_ASSUME + COUNT_ASSUME,
        undischarged=["no-wrap of the cross-off index arithmetic inside the EratSmall/Medium/Big loops (multipleIndex + sievingPrime*F + C "
                      "stays below 2^23 resp. the segment count) is tied by the cross and segment streams only"],
        explanation="18446744073709551557 is prime and nothing above it below 2^64 is (Lucas certificate + 58 explicit "
                    "factors); the iterator returns it and then reports primesieve_error forever; checkedAdd/checkedSub saturate"),
}


# --------------------------------------------------------------------------------------------
# allocation-fault enumeration and memory ledger (psv_alloc binary)
# --------------------------------------------------------------------------------------------
from . import gstream as _g

def _alloc_ctx(ctx, tie_fail):
    a, aerr = build.build_alloc_harness(ctx.repo_build)
    if aerr:
        tie_fail.append(("build of psv_alloc", aerr[-1500:], None))
        return None
    return dataclasses.replace(ctx, harness=a)

def fiter_tie(ctx, tie_fail):
    c2 = _alloc_ctx(ctx, tie_fail)
    return streams.FITER.tie(c2, tie_fail) if c2 else {"evaluations": 0, "distinct_nontrivial": 0}

def wl_tie(ctx, tie_fail):
    """phase 1: run every workload undisturbed and read its allocation count N;
    phase 2: fail allocation k for every k in 1..N (and pairs k, k+gap)"""
    c2 = _alloc_ctx(ctx, tie_fail)
    if not c2:
        return {"evaluations": 0, "distinct_nontrivial": 0}
    r = rng("wl-" + ctx.prop)
    ops0 = [("undisturbed", f"wl {w} 0") for w in streams.WORKLOADS]
    res0 = _g.run_stream(c2.harness, None, "wl", ops0, ctx.workdir, "wl0")
    counts = {}
    for line in res0["impl_lines"]:
        f = stream_iter.parse_fields(line.split(" => ", 1)[-1])
        w = line.split()[1]
        counts[w] = int(f.get("allocs", 0))
    ops = list(ops0)
    for w, n in counts.items():
        ks = list(range(1, n + 1))
        if len(ks) > 80 and ctx.tier == "quick":
            ks = sorted(r.sample(ks, 80))
        for k in ks:
            ops.append((f"fail-{w}", f"wl {w} {k}"))
    S = _g.Stream("wl", lambda tier, rr: ops,
                  rule=("cases = workload x k: iterator forward/backward (C++ and C), count_primes with 1 and 4 threads, "
                        "count_twins, C count, generate_primes / generate_n_primes (C++ and C), nth_prime, print_primes, each run "
                        "with its k-th operator new failing for EVERY k up to the workload's allocation count (read from an "
                        "undisturbed run); checked: error reported (bad_alloc / primesieve_error / C error return with errno=EDOM), "
                        "never a wrong value, exact prefix for vectors, no leak in the operator-new ledger, objects reusable; "
                        "non-trivial = the failure fired; distinct by (workload, k)"),
                  nontrivial=lambda o, obs: "fired=1" in obs, use_model=False)
    cov = S.tie(c2, tie_fail)
    cov["allocation_counts"] = counts
    return cov

def wl_witness(ctx, obligations_failed, tie_fail):
    tf = []
    wl_tie(ctx, tf)
    hit = [t for t in tf if t[2] is not None]
    return hit[0] if hit else None

def mem_tie(ctx, tie_fail):
    """peak heap bytes for intervals of growing length at fixed magnitude; bound and growth checks"""
    import math
    c2 = _alloc_ctx(ctx, tie_fail)
    if not c2:
        return {"evaluations": 0, "distinct_nontrivial": 0}
    q = ctx.tier == "quick"
    ops = []
    lens = [10**6, 10**7, 10**8] if q else [10**6, 10**7, 10**8, 10**9]
    for wl, start, kib, th in [("count", 10**10, 16, 1), ("count", 10**12, 64, 4), ("iterfwd", 10**10, 256, 1),
                               ("iterbwd", 10**10, 256, 1), ("citerfwd", 10**9, 256, 1)] + ([] if q else [("iterbwd", 10**12, 256, 1), ("count", 10**14, 256, 8)]):
        for L in lens:
            if wl != "count" and L > 10**8 and q:
                continue
            s0 = start - L if wl == "iterbwd" else start
            ops.append((f"{wl}@{start}", f"mem {wl} {s0} {L} {kib} {th}"))
    # direction switches: the number of zig-zag cycles plays the role of the interval length (primes consumed grow, the
    # position does not): the peak must not grow with it
    for wl, start in [("iterzig", 10**12), ("citerzig", 10**10)] + ([] if q else [("iterzig", 10**6), ("citerzig", 10**13)]):
        for cycles in ([2, 20, 200] if q else [2, 20, 200, 2000]):
            ops.append((f"{wl}@{start}", f"mem {wl} {start} {cycles} 256 1"))
    res = _g.run_stream(c2.harness, None, "mem", ops, ctx.workdir, "mem", timeout=7200)
    wrong, _, cov = _g.analyse(ops, res)
    cov["rule"] = ("cases = (workload, start, interval length L, sieve KiB, threads) with L over 2-3 orders of magnitude at fixed "
                   "magnitude of stop; measured: peak live bytes of all operator-new allocations; checked: peak <= B(sqrt(stop), "
                   "sieve size, threads, backward chunk) and peak(L) not growing with L, forward buffer <= 1024 primes, "
                   "clear() keeps <= 2 KiB, nothing live after destruction; distinct by the operation")
    cov["samples"] = [{"trace_line": x[:300]} for x in res["impl_lines"][:3]]
    groups = {}
    for (label, o), line in zip(ops, res["impl_lines"]):
        f = stream_iter.parse_fields(line.split(" => ", 1)[-1])
        t = o.split()
        wl, start, L, kib, th = t[1], int(t[2]), int(t[3]), int(t[4]), int(t[5])
        stop = start + (L if "zig" not in wl else 0)
        peak = int(f.get("peak", 0))
        sq = math.isqrt(stop)
        # ~8 bytes per sieving prime + bucket pool slack, sieve array and pre-sieve buffers - all of it PER THREAD: every
        # worker owns its sieving primes (the property's bound depends on the thread count)
        per_prime = 24 if th == 1 else 12 * th
        bound = int(per_prime * sq / max(1.0, math.log(sq) - 1.1)) + th * (3 * kib * 1024 + (1 << 20)) + (2 << 20)
        if wl in ("iterbwd", "iterzig", "citerzig"):
            chunk = max(2 * sq, 524288 * int(math.log(max(10, stop))))
            bound += int(8 * 1.3 * chunk / (math.log(stop) - 1.1)) + (1 << 20)
        groups.setdefault(label, []).append((L, peak))
        if peak > bound:
            wrong.append((o, f"peak={peak} exceeds bound {bound}"))
    for label, pts in groups.items():
        pts.sort()
        single_thread = all(int(o.split()[5]) == 1 for (l2, o) in ops if l2 == label)
        if single_thread and len(pts) >= 2 and pts[-1][1] > 1.5 * pts[0][1] + (1 << 20) and pts[-1][1] > 1.25 * pts[-2][1] + (1 << 19):
            wrong.append((label, f"peak heap grows with the interval length: {pts}"))
    if res["harness_rc"] != 0:
        tie_fail.append(("mem", "psv_alloc aborted: " + res["harness_err"][-600:], {"kind": "impl-crash", "stderr": res["harness_err"][-2000:], "key": "crash:mem"}))
    for o, obs in wrong[:1]:
        tie_fail.append(("mem", f"memory property violated: {o} -> {obs[:300]}",
                         {"kind": "impl-vs-spec", "op": o, "observed": obs[:800], "key": f"mem:{o}", "stream": "mem"}))
    cov["disagreements_checked"] = len(wrong)
    cov["peaks"] = {k: v for k, v in groups.items()}
    return cov

def mem_witness(ctx, obligations_failed, tie_fail):
    tf = []
    mem_tie(ctx, tf)
    hit = [t for t in tf if t[2] is not None]
    return hit[0] if hit else None

def cli_tie(ctx, tie_fail):
    streams.CLI.env = {"PSV_CLI": os.path.join(ctx.repo_build, "primesieve")}
    return streams.CLI.tie(ctx, tie_fail)

def cliprint_tie(ctx, tie_fail):
    streams.CLIPRINT.env = {"PSV_CLI": os.path.join(ctx.repo_build, "primesieve")}
    return streams.CLIPRINT.tie(ctx, tie_fail, tag="cliprint")

def cli_witness(ctx, obligations_failed, tie_fail):
    streams.CLI.env = {"PSV_CLI": os.path.join(ctx.repo_build, "primesieve")}
    return streams.CLI.witness(ctx, obligations_failed, tie_fail)

def c14_tie(ctx, tie_fail):
    """interleaved objects + concurrent user threads; thorough: the mt and count streams again on a ThreadSanitizer build
    (a reported race aborts the harness = violation; supporting validation, the model cannot express races)"""
    fs = [("multi", streams.MULTI.tie), ("mt", streams.MT.tie)]
    if ctx.tier != "quick":
        fs += [("mt-tsan", on_variant("tsan", streams.MT.tie))]
    return combine(*fs)(ctx, tie_fail)

def c12_tie(ctx, tie_fail):
    """sanitizer sweep: every stream runs the real code under ASan + UBSan + ENABLE_ASSERT; the quick tier leaves the two
    slowest streams (count, cli - both run by C04/C09/C16 on every change anyway) to the thorough tier"""
    fs = [("iter", iter_tie), ("iterc", streams.ITERC.tie), ("store", streams.STORE.tie), ("print", streams.PRINT.tie),
          ("calc", streams.CALC.tie), ("wheel", streams.WHEEL.tie), ("cross", streams.CROSS.tie),
          # memory errors on the exception paths: the k-th allocation of every workload fails (ASan + ledger)
          ("fiter", fiter_tie), ("wl", wl_tie)]
    if ctx.tier != "quick":
        fs += [("count", count_tie), ("cli", cli_tie), ("segment", segment_tie), ("nth", streams.NTH.tie), ("multi", streams.MULTI.tie)]
    return combine(*fs)(ctx, tie_fail)

SAN_ASSUME = ["every correspondence stream of this framework runs on a build with -fsanitize=address,undefined "
              "-fno-sanitize-recover=all -DENABLE_ASSERT (bounds-checked Vector/Array): an abort is reported as a violation "
              "with the operation that triggers it"]

REGISTRY.update({
    "C13": Prop(
        targets=["PsProps.C13"],
        theorems=[("PsProps.C13", "Ps.Props.C13_model_sources"), ("PsProps.C13", "Ps.Props.C13_iterator_fault_safe"), ("PsProps.C13", "Ps.Props.C13_fault_only_on_refill"),
                  ("PsProps.C13", "Ps.Props.C13_state_after_failure"), ("PsProps.C13", "Ps.Props.C13_c_iterator_failure")],
        tie=combine(("fiter", fiter_tie), ("wl", wl_tie)), witness=combine_witness(wl_witness),
        level="proof",
        assumptions=ITER_ASSUME + ["allocation failures are injected by replacing global operator new (one-shot k-th failure); "
                                   "failures of malloc/realloc inside malloc_vector (C arrays) and inside std::thread are not injected"],
        undischarged=["count / generate / nth_prime workloads under faults: decided by enumeration of every allocation index "
                      "against an oracle (fault enumeration), not by a theorem"],
        explanation="iterator under arbitrary allocation-failure schedules refines a cursor that may refuse a call without "
                    "moving (proof); every allocation point of every workload enumerated (tie)"),
    "C12": Prop(
        targets=["PsProps.C12"],
        theorems=[("PsProps.C12", "Ps.Props.C12_primePi_lookups"), ("PsProps.C12", "Ps.Props.C12_small_prime_copy"),
                  ("PsProps.C12", "Ps.Props.C12_next_buffer_slack"), ("PsProps.C12", "Ps.Props.C12_fill_default_in_bounds"),
                  ("PsProps.C12", "Ps.Props.C12_fill_avx512_in_bounds"), ("PsProps.C12", "Ps.Props.C12_fill_prev_in_bounds"), ("PsProps.C12", "Ps.Props.C12_eratSmall_unrolled_in_bounds"),
                  ("PsProps.C12", "Ps.Props.C12_decode_tables"), ("PsProps.C12", "Ps.Props.C12_constants"),
                  ("PsProps.C12", "Ps.Props.C12_signed"), ("PsProps.C12", "Ps.Props.C12_assert_ledger"),
                  ("PsProps.C12", "Ps.Props.C12_fill_source")],
        tie=c12_tie,
        witness=combine_witness(iter_witness, streams.ITERC.witness, streams.STORE.witness, count_witness, cli_witness),
        assumptions=ITER_ASSUME + SAN_ASSUME + [
            "the fill-loop model records only WHICH slots are written (indices), for arbitrary popcounts per 64-bit word; "
            "the guards and initNextPrimes it was written from are locked to the source text (C12_fill_source)"],
        undischarged=["81 of the 90 ASSERT sites are 'runtime' in the ledger: not modelled, checked by the ENABLE_ASSERT build on "
                      "every stream run", "use-after-free, double free, uninitialised reads, misalignment, leaks of the real "
                      "allocator: not expressible in the model; covered as a side effect of every correspondence stream running "
                      "under AddressSanitizer + UBSan (an abort is a violation with the failing operation as replay)",
                      "cross-off index arithmetic of EratSmall/EratMedium/EratBig and MemoryPool pointer arithmetic (sieve chain)"],
        explanation="buffer and table index arithmetic of PrimeGenerator proved in bounds for all inputs / estimates / popcounts; "
                    "signed-arithmetic side conditions; regenerated ledger of all 90 ASSERT sites; sanitizer sweep as tie"),
    "C16": Prop(
        targets=["PsProps.C16"],
        theorems=[("PsProps.C16", "Ps.Props.C16_calc_exact_or_rejected"), ("PsProps.C16", "Ps.Props.C16_checked_arith"),
                  ("PsProps.C16", "Ps.Props.C16_arguments_in_range"), ("PsProps.C16", "Ps.Props.C16_distance_exact"),
                  ("PsProps.C16", "Ps.Props.C16_negative_number_rejected"), ("PsProps.C16", "Ps.Props.C16_conflicting_options"),
                  ("PsProps.C16", "Ps.Props.C16_operator_table"), ("PsProps.C16", "Ps.Props.C16_calculator_source"),
                  ("PsProps.C16", "Ps.Props.C16_option_grammar")],
        tie=combine(("calc", streams.CALC.tie), ("cli", cli_tie)), witness=combine_witness(streams.CALC.witness, cli_witness),
        assumptions=COUNT_ASSUME + [
            "the exact semantics is the same operator-precedence parser run over unbounded integers (Arith.exact); that this "
            "parser implements the documented precedence/associativity is decided by the calc stream, whose generator renders "
            "random ASTs with minimal parentheses and evaluates the AST (not the string) with big integers",
            "the parser model uses a fuel of 2*len+8 recursive calls; fuel exhaustion is a distinct outcome that the calc stream "
            "would report as a disagreement",
            "argv reaches the program through /bin/sh quoting in the harness; stdout is canonicalised by dropping the status, "
            "'Seconds:', 'Sieve size =' and 'Threads =' lines"],
        undischarged=["'same answers as the library' (stdout of the binary = library results for the parsed interval) is tied by "
                      "the cli stream against in-process library calls and the Lean count/print model, not proved as a theorem "
                      "about main.cpp's printing code",
                      "--stress-test, --test, -R, --cpu-info, --help output is not modelled (only their exit status)"],
        explanation="uint64 parser refines the exact-integer parser (every accepted value is exact and < 2^64, intermediates "
                    "included); checked add/sub/mul exact at all three instantiated types; interval / n in range for every argv; "
                    "operator table, option table, dispatch switches, guards and value types regenerated from the source"),
    "C17": Prop(
        targets=["PsProps.C17"],
        theorems=[("PsProps.C17", "Ps.Props.C17_model_sources"), ("PsProps.C17", "Ps.Props.C17_prev_chunk_bounded"), ("PsProps.C17", "Ps.Props.C17_next_dist_range"),
                  ("PsProps.C17", "Ps.Props.C17_reset_releases"), ("PsProps.C17", "Ps.Props.C17_prev_keeps_no_generator")],
        tie=combine(("mem", mem_tie)), witness=combine_witness(mem_witness),
        assumptions=["heap bytes are the sum of live operator-new allocations measured by psv_alloc's ledger (malloc inside "
                     "libstdc++/libc and thread stacks are not counted)"],
        undischarged=["bytes held by MemoryPool / sieve arrays / sieving-prime vectors: measured (mem stream) against an explicit "
                      "bound B(sqrt(stop), sieve size, threads), not derived in Lean"],
        explanation="chunk lengths requested by the iterator are bounded independently of the history (proof); peak heap bytes "
                    "measured for growing interval lengths (tie)"),
})

REGISTRY["C14"].tie = c14_tie
