"""Independent oracles used ONLY to search for / confirm failing inputs (never to prove anything):
deterministic Miller-Rabin and a plain sieve."""
from .common import U64, UMAX

_SMALL = [2, 3, 5, 7, 11, 13, 17, 19, 23, 29, 31, 37]

def is_prime(n):
    if n < 2:
        return False
    for p in _SMALL:
        if n == p:
            return True
        if n % p == 0:
            return False
    d, s = n - 1, 0
    while d % 2 == 0:
        d //= 2; s += 1
    for a in _SMALL:
        x = pow(a, d, n)
        if x == 1 or x == n - 1:
            continue
        for _ in range(s - 1):
            x = x * x % n
            if x == n - 1:
                break
        else:
            return False
    return True

def next_prime_ge(n):
    """least prime >= n (may exceed 2^64)"""
    if n <= 2:
        return 2
    n |= 1
    while not is_prime(n):
        n += 2
    return n

def prev_prime_le(n):
    """greatest prime <= n, 0 if none"""
    if n < 2:
        return 0
    if n == 2:
        return 2
    if n % 2 == 0:
        n -= 1
    while n >= 3 and not is_prime(n):
        n -= 2
    return n if n >= 3 else 2

def primes_in(a, b):
    """primes in [a, b] (small ranges)"""
    if b < 2 or a > b:
        return []
    if b - a > 5_000_000:
        raise ValueError("range too wide for the oracle")
    if b < 10**13:
        # segmented sieve
        import math
        r = math.isqrt(b)
        base = bytearray([1]) * (r + 1)
        base[0:2] = b"\0\0"[: min(2, r + 1)]
        for i in range(2, math.isqrt(r) + 1):
            if base[i]:
                base[i * i :: i] = bytearray(len(base[i * i :: i]))
        a0 = max(a, 2)
        seg = bytearray([1]) * (b - a0 + 1)
        for p in range(2, r + 1):
            if base[p]:
                st = max(p * p, (a0 + p - 1) // p * p)
                if st <= b:
                    seg[st - a0 :: p] = bytearray(len(seg[st - a0 :: p]))
        return [a0 + i for i, v in enumerate(seg) if v]
    return [n for n in range(max(a, 2), b + 1) if is_prime(n)]

class CursorOracle:
    """the abstract cursor of PsSpec.Cursor, executable"""
    def __init__(self, s):
        self.fresh, self.pos = True, s
    def jump(self, s):
        self.fresh, self.pos = True, s
    def skip(self, s):
        self.fresh, self.pos = False, s
    def next(self):
        t = self.pos if self.fresh else self.pos + 1
        p = next_prime_ge(t)
        if p >= U64:
            return "ERR:overflow"
        self.fresh, self.pos = False, p
        return p
    def prev(self):
        t = self.pos if self.fresh else self.pos - 1
        p = prev_prime_le(t) if t >= 0 else 0
        self.fresh, self.pos = False, p
        return p
