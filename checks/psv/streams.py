"""Definitions of the line-protocol streams added after the iter/segment/count streams."""
from .common import *
from .gstream import Stream, register
from . import oracle

KIBS = [16, 33, 100, 256]

# --------------------------------------------------------------------------------------------
# print: print_primes / print_twins .. print_sextuplets (C++ and C API), stdout captured
# --------------------------------------------------------------------------------------------
def gen_print(tier, r):
    q = tier == "quick"
    ops = []
    for s0 in range(0, 20, 1 if not q else 3):
        for e0 in (r.sample(range(0, 60), 5) if q else range(0, 60, 2)):
            for kind in range(6):
                ops.append(("small", f"print {s0} {e0} {kind} 16 {r.choice(['cpp', 'c'])}"))
    for base in [900, 10**6 + 13, 10**9 + 7, 10**12 + 1]:
        for _ in range(10 if q else 80):
            s0 = base + r.randrange(0, 240)
            ops.append(("residues", f"print {s0} {s0 + r.randrange(0, 300)} {r.randrange(0, 6)} {r.choice(KIBS)} {r.choice(['cpp', 'c'])}"))
    # intervals cutting a constellation at each member: sextuplet at 97 (97,101,103,107,109,113), 16057.., 
    for p in [7, 97, 16057, 19417, 43777, 1091257]:
        for d in [0, 4, 6, 10, 12, 16]:
            for kind in ([1, 5] if q else range(1, 6)):
                ops.append(("cut-stop", f"print {p - r.randrange(0, 50)} {p + d + r.choice([-1, 0])} {kind} 16 cpp"))
                ops.append(("cut-start", f"print {p + d + r.choice([0, 1])} {p + 16 + r.randrange(0, 50)} {kind} 16 c"))
    for k in (range(4, 19, 4) if q else range(3, 19)):
        s0 = 10**k + r.randrange(0, 1000)
        ops.append(("magnitude", f"print {s0} {s0 + r.choice([1000, 20000])} {r.randrange(0, 6)} {r.choice(KIBS)} cpp"))
    # more than one 64 KiB print batch per segment: sieve array > 64 KiB needs stop > 1.07e9,
    # width > 1.97e6 and a sieve size > 64 KiB
    ops.append(("multi-batch", f"print {10**10} {10**10 + 2500000} 0 {r.choice([128, 256, 1024])} cpp"))
    ops.append(("multi-batch", f"print {4 * 10**9 + 1} {4 * 10**9 + 2200000} {r.choice([1, 2])} 100 c"))
    if not q:
        ops.append(("multi-batch", f"print {10**12} {10**12 + 7000000} 0 512 cpp"))
        ops.append(("multi-batch", f"print {10**11} {10**11 + 5000000} 3 8192 cpp"))
    # several segments
    ops.append(("multi-seg", f"print 0 {2 * 10**6} 0 16 c"))
    ops.append(("multi-seg", f"print 5 {10**6} {r.randrange(1, 6)} 16 cpp"))
    for s0, e0 in [(UMAX - 3000, UMAX), (MAXPRIME64, UMAX), (UMAX - 100000, UMAX - 90000)]:
        ops.append(("top", f"print {s0} {e0} {r.choice([0, 1])} 16 cpp"))
    ops.append(("empty", "print 100 50 0 16 cpp"))
    ops.append(("empty", "print 100 50 2 16 c"))
    return ops

PRINT = register(Stream(
    "print", gen_print,
    rule=("cases = print_primes / print_twins..print_sextuplets (C++ and C API) over (start, stop, kind, sieve KiB) with "
          "stdout captured; the text is compared byte for byte with the rendering of the harness oracle's primes / "
          "constellations and (line count, FNV-1a of the text, first, last line) with the Lean model primeSievePrint; "
          "non-trivial = at least one line printed; distinct by the full operation"),
    nontrivial=lambda o, obs: "lines=0 " not in obs and "lines=" in obs))

# --------------------------------------------------------------------------------------------
# store: generate_primes / generate_n_primes, all element types, C++ vectors and C arrays
# --------------------------------------------------------------------------------------------
CPP_TYPES = {"i8": 127, "u8": 255, "i16": 32767, "u16": 65535, "i32": 2**31 - 1, "u32": 2**32 - 1,
             "i64": 2**63 - 1, "u64": 2**64 - 1}
C_TYPES = {"i16": 32767, "u16": 65535, "i32": 2**31 - 1, "u32": 2**32 - 1, "i64": 2**63 - 1, "u64": 2**64 - 1,
           "short": 32767, "ushort": 65535, "int": 2**31 - 1, "uint": 2**32 - 1, "long": 2**63 - 1,
           "ulong": 2**64 - 1, "llong": 2**63 - 1, "ullong": 2**64 - 1}

def gen_store(tier, r):
    q = tier == "quick"
    ops = []
    def types(api):
        return list((CPP_TYPES if api == "cpp" else C_TYPES).items())
    # (a) every type at its own limit: stop = max-300..max (fits), max+1 / max+300 (must fail)
    for api in ["cpp", "c"]:
        for ty, mx in types(api):
            lo = max(0, mx - 300)
            ops.append(("limit-fit", f"gp {lo} {mx} {ty} {api} {r.choice([0, 3])}"))
            if mx < UMAX:
                ops.append(("limit-over", f"gp {lo} {mx + 1} {ty} {api} 0"))
                ops.append(("limit-over", f"gp {lo} {min(UMAX, mx + r.randrange(2, 400))} {ty} {api} 2"))
            # n primes ending just below / above the limit
            if mx < 2**62:
                k = r.randrange(1, 12)
                ops.append(("n-limit", f"gn {k} {max(0, mx - 200)} {ty} {api} {r.choice([0, 5])}"))
                ops.append(("n-limit", f"gn {k + 40} {max(0, mx - 200)} {ty} {api} 0"))
    # (b) small requests, empty requests, prefilled vectors
    for _ in range(40 if q else 400):
        api = r.choice(["cpp", "c"])
        ty, mx = r.choice(types(api))
        a = r.choice([0, 1, 2, 3, 5, 6, 7, r.randrange(0, 1000), 535, 541, 719, 720, 721])
        b = a + r.choice([0, 1, 2, 10, 100, r.randrange(0, 3000)])
        ops.append(("small", f"gp {a} {b} {ty} {api} {r.choice([0, 0, 1, 7])}"))
    for _ in range(10 if q else 60):
        ty, mx = r.choice(types("cpp"))
        ops.append(("empty", f"gp {r.randrange(10, 1000)} {r.randrange(0, 10)} {ty} cpp {r.choice([0, 4])}"))
        ops.append(("empty", f"gn 0 {r.randrange(0, 1000)} {ty} {r.choice(['cpp', 'c']) if ty in C_TYPES else 'cpp'} {r.choice([0, 4])}"))
    # (c) n ending exactly on block edges (blocks of the first generator hold up to 1024 primes;
    #     the first block from 0 holds the 128 cached primes)
    for n in ([127, 128, 129, 1023, 1024, 1025, 1152, 2048] if q else list(range(120, 136)) + list(range(1016, 1032)) + [1151, 1152, 1153, 2047, 2048, 2049, 5000]):
        for start in ([0, 1000] if q else [0, 1, 719, 721, 1000, 10**6]):
            ty = r.choice(["u32", "i64", "u64", "i32"])
            ops.append(("n-block-edge", f"gn {n} {start} {ty} {r.choice(['cpp', 'c'])} {r.choice([0, 2])}"))
    # 16-bit overflow in the middle: primes up to 65521 fit u16, 32749 fits i16
    for ty, mx in [("u16", 65535), ("i16", 32767), ("short", 32767), ("ushort", 65535), ("u8", 255), ("i8", 127)]:
        api = "cpp" if ty in ("u8", "i8") else r.choice(["cpp", "c"])
        ops.append(("n-overflow", f"gn {r.randrange(2, 3000)} {max(0, mx - r.randrange(0, 20000) % (mx + 1))} {ty} {api} 0"))
        ops.append(("n-overflow", f"gn 7000 0 {ty} {api} 1"))
    # (d) magnitudes and the top of the range
    for k in (range(6, 19, 4) if q else range(4, 19)):
        a = 10**k + r.randrange(0, 1000)
        ops.append(("magnitude", f"gp {a} {a + r.choice([1000, 30000])} {r.choice(['u64', 'i64', 'ulong'])} {r.choice(['cpp', 'c'])} 0"))
        ops.append(("magnitude", f"gn {r.randrange(1, 300)} {a} u64 {r.choice(['cpp', 'c'])} 0"))
    for a, b in [(UMAX - 2000, UMAX), (MAXPRIME64 - 1000, MAXPRIME64), (MAXPRIME64, UMAX), (MAXPRIME64 + 1, UMAX),
                 (UMAX - 5000, UMAX - 4000), (MAXPRIME64 - 500, MAXPRIME64 - 1)]:
        ops.append(("top", f"gp {a} {b} u64 {r.choice(['cpp', 'c'])} {r.choice([0, 2])}"))
    ops.append(("top", f"gn 19 18446744073709550672 u64 cpp 0"))
    ops.append(("top-beyond", f"gn 3 {MAXPRIME64 - 50} u64 c 0"))
    ops.append(("top-beyond", f"gn 1 {MAXPRIME64 + 1} u64 cpp 0"))
    ops.append(("top-beyond", f"gn 40 {UMAX - 1000} u64 cpp 0"))
    # several chunks / blocks
    ops.append(("long", f"gp 0 {200000 if q else 3000000} u32 cpp 0"))
    ops.append(("long", f"gp {10**9} {10**9 + (100000 if q else 2000000)} i64 c 0"))
    return ops

STORE = register(Stream(
    "store", gen_store,
    rule=("cases = generate_primes / generate_n_primes over (start, stop | n, start, element type, C++ vector | C array, "
          "number of prefilled elements); the harness oracle checks the appended elements against the requested primes "
          "(exact list, or exact prefix + justified error), prefilled elements, errno/NULL contract; the Lean model "
          "storePrimes / storeNPrimes must predict ok/throw, count, FNV-1a of the list, first and last element; "
          "non-trivial = something was appended or an error was raised; distinct by the full operation"),
    nontrivial=lambda o, obs: "ok n=0 " not in obs))

# --------------------------------------------------------------------------------------------
# nth: nth_prime(n, start), C++ and C API
# --------------------------------------------------------------------------------------------
INT64_MIN, INT64_MAX, MAX_N = -2**63, 2**63 - 1, 425656284035217743

def gen_nth(tier, r):
    q = tier == "quick"
    ops = []
    def op(label, n, start):
        ops.append((label, f"nth {n} {start} {r.choice([1, 4])} {r.choice([16, 33, 256])} {r.choice(['cpp', 'c'])}"))
    for n in (range(-12, 13) if not q else [-7, -3, -2, -1, 0, 1, 2, 5, 11]):
        for start in (range(0, 32) if not q else r.sample(range(0, 32), 8)):
            op("small", n, start)
    for start in [0, 1, 2, 3, 4, 7, 8, 9, 719, 720, 721, 10**6, 10**9 + 7, 10**12 + 39, MAXPRIME64, MAXPRIME64 - 1, MAXPRIME64 + 1, UMAX, UMAX - 1]:
        op("n-zero", 0, start)
    # not enough primes below start
    for n, start in [(-4, 8), (-5, 8), (-1, 2), (-1, 3), (-1, 0), (-2, 3), (-25, 100), (-26, 100), (-168, 1000), (-169, 1000), (-9, 9), (-10, 9)]:
        op("neg-exhaust", n, start)
    # medium n: counting + correction walks
    for n in ([50, 1000, 20000] if q else [50, 100, 333, 1000, 5000, 20000, 100000, 250000]):
        for start in ([0, 10**6, 10**10] if q else [0, 1, 10**4, 10**6, 10**8 + 7, 10**10, 10**12, 10**13]):
            op("medium", n, start)
            if start > 40 * n:
                op("medium-neg", -n, start)
    for _ in range(10 if q else 100):
        op("random", r.choice([1, -1]) * r.randrange(1, 3000), r.randrange(10**5, 10**11))
    # extremes of n
    for n in [INT64_MIN, INT64_MIN + 1, INT64_MAX, MAX_N + 1, -(MAX_N + 1)]:
        op("extreme-n", n, r.choice([0, 10, 10**6, UMAX]))
    # |n| = pi(2^64) is accepted: only ask for it where the answer is immediate (n = -pi(2^64) from 2^64-1 would
    # count every prime below 2^64)
    op("extreme-n", -MAX_N, r.choice([0, 10, 10**6]))
    op("extreme-n", MAX_N, UMAX - 5)
    # top of the range
    tops = [(1, UMAX), (3, UMAX), (1, MAXPRIME64), (1, MAXPRIME64 - 1), (2, MAXPRIME64 - 1), (-1, UMAX), (-2, UMAX),
            (-1, MAXPRIME64), (-1, MAXPRIME64 + 1), (5, UMAX - 300), (12, UMAX - 300), (1000, UMAX - 20000),
            (400, UMAX - 20000), (-1000, UMAX - 7), (40, 2**63 - 5), (-40, 2**63 + 5), (7, 2**32 - 3), (-7, 2**32 + 3)]
    for n, start in (r.sample(tops, 8) if q else tops):
        op("top", n, start)
    # large prime starts: the Riemann-R estimate may land below start (n = 0, 1 must not move back)
    # hook H4: nthPrimeApprox() replaced by a constant below / at / above start: forces each correction walk
    # (estimate below start: the clamp; small overshoot: short walk; large overshoot: bulk count + backward walk)
    def opabs(label, n, start, v):
        ops.append((label, f"nth {n} {start} {r.choice([1, 4])} {r.choice([16, 33, 256])} {r.choice(['cpp', 'c'])} abs={max(0, min(UMAX, v))}"))
    for start in ([0, 10**6, 10**10 + 19] if q else [0, 1, 1000, 10**6, 10**8 + 7, 10**10 + 19, 10**12 + 39]):
        for n in ([1, 7, 300] if q else [1, 2, 7, 50, 300, 2000]):
            isq = int(start ** 0.5) // 10 + 1
            for v in [0, start - 5 * isq - 10, start - 1, start, start + 1, start + isq // 2, start + 3 * isq + 50 * n, start + 400 * n + 10 * isq]:
                opabs("forced-walk", n, start, v)
            opabs("forced-walk", 0, start, 0)
            if start > 100 * n:
                for v in [max(0, start - 2 * 10**7), start - 400 * n - 10 * isq, start - 3 * isq - 20 * n, start - 1, start, start + 1, start + 10 * isq, UMAX]:
                    opabs("forced-walk-neg", -n, start, v)
    for start, n, v in [(UMAX - 1000, 3, 0), (UMAX - 1000, 3, UMAX), (UMAX - 10**6, 100, UMAX), (MAXPRIME64 - 1, 1, 0), (UMAX, -1, UMAX - 10**6), (UMAX, -3, UMAX),
                        (UMAX - 5, -2, UMAX - 10**7), (2**32, 5, 0), (2**32, -5, UMAX)][: (4 if q else 9)]:
        opabs("forced-walk-top", n, start, v)
    for k in ([17, 19] if q else [15, 16, 17, 18, 19]):
        for _ in range(1 if q else 12):
            x = r.randrange(10**k, min(10**(k + 1), UMAX - 10**6))
            p0 = oracle.next_prime_ge(x)
            for n, st in [(1, p0), (0, p0), (1, p0 - 1), (-1, p0 + 1), (2, p0), (0, p0 + 1)]:
                op("big-prime-start", n, st)
    return ops

NTH = register(Stream(
    "nth", gen_nth,
    rule=("cases = nth_prime(n, start) via the C++ and C API with thread counts 1/4 and several sieve sizes; the harness "
          "oracle walks the primes itself (sieve / Miller-Rabin) and checks value or error; the Lean model nthPrime is "
          "run with two different approximation oracles and must give the same value / error class; non-trivial = "
          "|n| >= 1 and the call did not fail for argument validation alone; distinct by (n, start)"),
    nontrivial=lambda o, obs: obs.startswith("v=")))

# --------------------------------------------------------------------------------------------
# cfg: configuration clamps and cache topologies
# --------------------------------------------------------------------------------------------
def gen_cfg(tier, r):
    q = tier == "quick"
    ops = []
    edge_sizes = [0, 1, 1023, 1024, 4095, 4096, 4097, 16 << 10, 32 << 10, 48 << 10, 64 << 10, 100000, 256 << 10, 512 << 10,
                  1 << 20, 1280 << 10, 2 << 20, 3 << 20, 8 << 20, 16 << 20, 1 << 30, (1 << 30) + 1, 1 << 40, (1 << 40) + 1,
                  1 << 50, UMAX, UMAX - 1]
    shares = [0, 1, 2, 3, 4, 6, 8, 12, 16, 64, 1 << 20, (1 << 20) + 1, UMAX]
    for _ in range(60 if q else 900):
        l1 = r.choice(edge_sizes + [r.randrange(0, 1 << 21)])
        l2 = r.choice(edge_sizes + [r.randrange(0, 1 << 26)])
        ops.append(("topology", f"gss {l1} {l2} {r.choice(shares)} {r.choice(shares)}"))
    # realistic machines
    for l1, l2, s2, s3 in [(32768, 262144, 2, 16), (49152, 1310720, 2, 24), (65536, 524288, 1, 1), (32768, 1048576, 1, 8),
                           (131072, 4194304, 4, 0), (196608, 16777216, 8, 8), (65536, 2097152, 2, 0), (4096, 4096, 1, 1)]:
        ops.append(("realistic", f"gss {l1} {l2} {s2} {s3}"))
    for x in [-2**31, -1, 0, 1, 15, 16, 17, 31, 100, 1000, 8191, 8192, 8193, 10**6, 2**31 - 1] + [r.randrange(-100, 9000) for _ in range(10 if q else 100)]:
        ops.append(("sieve-size", f"ss {x}"))
    for x in [-2**31, -5, 0, 1, 2, 3, 15, 16, 17, 64, 10**6, 2**31 - 1] + [r.randrange(-10, 40) for _ in range(10 if q else 60)]:
        ops.append(("threads", f"nt {x}"))
    return ops

CFG = register(Stream(
    "cfg", gen_cfg,
    rule=("cases = (a) cache descriptions (L1/L2 bytes, L2/L3 sharing incl. 0, garbage, huge) poked into the CpuInfo "
          "singleton: get_sieve_size(), Erat's L1 size vs the Lean model, plus count_primes/count_twins/iterator results "
          "under that topology vs the oracle; (b) set_sieve_size / PrimeSieve::setSieveSize and (c) set_num_threads / "
          "ParallelSieve::setNumThreads for in- and out-of-range ints vs the model clamps; non-trivial = every case; "
          "distinct by the operation"),
    nontrivial=None))

# --------------------------------------------------------------------------------------------
# iterc: histories on one primesieve_iterator (C API); multi: interleaved C++ iterators
# --------------------------------------------------------------------------------------------
from . import stream_iter

def _expand(ops, allow_skipto, r):
    out = []
    for o in ops:
        t = o.split()
        if t[0] in ("next", "prev"):
            out += [t[0]] * int(t[1] if len(t) > 1 else 1)
        elif t[0] in ("movein", "moveassign", "selfmove", "moveout", "moveassignout", "ss"):
            continue            # C++-only operations / operations of the iter stream's harness
        elif t[0] == "jump" and allow_skipto and r.random() < 0.4:
            out.append("skipto " + " ".join(t[1:]))
        else:
            out.append(o)
    return out

def gen_iterc(tier, r):
    q = tier == "quick"
    ops = []
    scripts = stream_iter.gen_scripts("quick", r)
    keep = [s for s in scripts if not s[0].startswith(("small-long", "big-", "mag-", "long", "corpus-"))]
    r.shuffle(keep)
    for label, sc in keep[: (60 if q else 400)]:
        for o in _expand(sc, True, r):
            ops.append((label, o))
    # continued use after an error: next past the largest prime, then next/prev/jump/skipto/clear
    for s in [MAXPRIME64 - 100, MAXPRIME64, UMAX - 10, UMAX]:
        for tail in (["next", "next", "prev", "prev", "next"], ["next", "jump 100 200", "next", "prev"],
                     ["next", "skipto 7 100", "next", "next"], ["next", "clear", "next", "prev", "prev"],
                     ["prev", "next", "next", "next", "prev"]):
            ops.append(("after-error", f"new {s} {UMAX}"))
            for o in ["next"] * 4 + tail:
                ops.append(("after-error", o))
    # skipto / jump_to as the FIRST operation on a primesieve_init'ed iterator (memory == NULL) and after free_iterator
    for p in [2, 3, 7, 11, 97, 719, 1009, 10**6 + 3, 2**32 + 15, 4, 100]:
        for kind in ["jump", "skipto"]:
            ops += [("fresh-first-op", "fresh"), ("fresh-first-op", f"{kind} {p} {UMAX}"), ("fresh-first-op", "next"), ("fresh-first-op", "next"),
                    ("fresh-first-op", "fresh"), ("fresh-first-op", f"{kind} {p} 0"), ("fresh-first-op", "prev"), ("fresh-first-op", "prev")]
    ops += [("fresh-first-op", "fresh"), ("fresh-first-op", "next"), ("fresh-first-op", "fresh"), ("fresh-first-op", "prev"), ("fresh-first-op", "fresh"),
            ("fresh-first-op", "clear"), ("fresh-first-op", "next")]
    # skipto is exclusive, jump_to inclusive, at primes and composites
    for p in [2, 3, 5, 7, 719, 721, 997, 1000, 10**6 + 3, 2**32 - 5, 2**32 + 15]:
        for kind in ["jump", "skipto"]:
            ops += [("incl-excl", f"{kind} {p} {UMAX}"), ("incl-excl", "next"), ("incl-excl", f"{kind} {p} 0"), ("incl-excl", "prev"),
                    ("incl-excl", "prev")]
    return ops

ITERC = register(Stream(
    "iterc", gen_iterc,
    rule=("cases = single primesieve_next_prime / prev_prime / jump_to / skipto / clear calls of seeded histories on one "
          "primesieve_iterator incl. continued use after PRIMESIEVE_ERROR; every returned value, the complete iterator "
          "state, is_error and 'errno was set to EDOM' are compared with the Lean model CIter; non-trivial = the call "
          "left the buffer (refill, reposition or error); distinct by the full trace line"),
    nontrivial=lambda o, obs: True))

def gen_multi(tier, r):
    q = tier == "quick"
    ops = []
    for rep in range(6 if q else 40):
        n = r.choice([2, 2, 3, 5])
        starts = [r.choice([0, r.randrange(0, 10**4), r.randrange(10**5, 10**7), 10**9 + r.randrange(0, 10**6), 10**12 + r.randrange(0, 10**6)]) for _ in range(n)]
        for i, s0 in enumerate(starts):
            ops.append(("interleave", f"{i} new {s0} {r.choice([UMAX, s0 + 3 * 10**7, s0 + 5000])}"))
        for _ in range(300 if q else 1200):
            i = r.randrange(n)
            c = r.random()
            if c < 0.6: ops.append(("interleave", f"{i} next"))
            elif c < 0.93: ops.append(("interleave", f"{i} prev"))
            elif c < 0.97:
                t = r.randrange(0, 10**12)
                ops.append(("interleave", f"{i} jump {t} {r.choice([UMAX, t + 1000])}"))
            else: ops.append(("interleave", f"{i} clear"))
    # one iterator sieving many segments of one generator while another one refills in between
    ops.append(("segments-vs-refill", f"0 new 0 {3 * 10**7}"))
    ops.append(("segments-vs-refill", f"1 new {10**12} {UMAX}"))
    for j in range(400 if q else 2500):
        for _ in range(300):
            ops.append(("segments-vs-refill", "0 next"))
        t = 10**12 + 1000 * j
        ops.append(("segments-vs-refill", f"1 jump {t} {t + 100}"))
        ops.append(("segments-vs-refill", "1 next"))
    return ops

MULTI = register(Stream(
    "multi", gen_multi,
    rule=("cases = single next/prev/jump/clear calls interleaved over 2..5 primesieve::iterator objects in one thread "
          "(including one iterator sieving many segments of one generator while another iterator re-creates its "
          "generator between every 40 calls); each call's value and state are compared with the Lean model run "
          "on per-object states (frame property); distinct by the full trace line"),
    nontrivial=lambda o, obs: True))

# --------------------------------------------------------------------------------------------
# allocation faults (separate harness binary psv_alloc: it replaces operator new/delete)
# --------------------------------------------------------------------------------------------
def gen_fiter(tier, r):
    """iterator histories; before some calls the k-th allocation from now is armed to fail"""
    q = tier == "quick"
    ops = []
    for rep in range(25 if q else 250):
        s0 = r.choice([0, r.randrange(0, 3000), 10**6, 10**9 + r.randrange(0, 10**6), 10**12])
        ops.append(("fault-history", f"new {s0} {r.choice([UMAX, s0 + 10**5, 0])}"))
        for _ in range(r.randrange(4, 12)):
            c = r.random()
            if c < 0.35:
                ops.append(("fault-history", f"arm {r.randrange(1, 9)}"))
                # two failing calls in a row: re-arm immediately after
                if r.random() < 0.4:
                    ops += [("fault-history", r.choice(["next", "prev"])), ("fault-history", "arm 1")]
            d = r.random()
            if d < 0.5:
                for _ in range(r.choice([1, 1, 2, 5, 130, 1100])): ops.append(("fault-history", "next"))
            elif d < 0.85:
                for _ in range(r.choice([1, 1, 2, 5, 60])): ops.append(("fault-history", "prev"))
            elif d < 0.93:
                t = r.randrange(0, 10**8)
                ops.append(("fault-history", f"jump {t} {UMAX}"))
            else:
                ops.append(("fault-history", "clear"))
        ops.append(("fault-history", "disarm"))
    return ops

FITER = register(Stream(
    "fiter", gen_fiter,
    rule=("cases = single next_prime/prev_prime/jump_to/clear calls of seeded histories on primesieve::iterator during which "
          "the k-th operator new (k = 1..8 from an arming point, also twice in a row) throws std::bad_alloc; the harness "
          "replaces global operator new/delete; every value is checked against an exact cursor oracle (a failed call must not "
          "move the cursor) and value + complete iterator state against the Lean fault model (Iter.nextFault/prevFault); "
          "non-trivial = every call; distinct by the full trace line"),
    nontrivial=lambda o, obs: True))

WORKLOADS = ["iterfwd", "iterbwd", "citer", "count1", "countN", "twinsN", "ccount", "gp", "gn", "cgp", "nth", "print"]


# --------------------------------------------------------------------------------------------
# calc: calculator::eval<T> on grammar-directed expressions (C16); cli: the primesieve binary
# --------------------------------------------------------------------------------------------
CALC_TYPES = {"u64": (0, 2**64 - 1, 64), "i32": (-2**31, 2**31 - 1, 31), "i64": (-2**63, 2**63 - 1, 63)}
BINOPS = {"|": (4, "L"), "&": (6, "L"), "<<": (9, "L"), ">>": (9, "L"), "+": (10, "L"), "-": (10, "L"),
          "*": (20, "L"), "/": (20, "L"), "%": (20, "L"), "^": (30, "R"), "**": (30, "R"), "e": (40, "R"), "E": (40, "R")}

class Reject(Exception):
    pass
class Unknown(Exception):
    pass

def exact_eval(ast, ty):
    """exact integer value of the AST; Reject if the value or ANY intermediate result is outside T,
    on division by zero or an invalid shift count; Unknown where 'exact integer' is not defined"""
    mn, mx, digits = CALC_TYPES[ty]
    def chk(z):
        if z < mn or z > mx:
            raise Reject()
        return z
    k = ast[0]
    if k == "lit":
        return chk(ast[1])
    if k == "par":
        return exact_eval(ast[1], ty)
    if k == "un":
        v = exact_eval(ast[2], ty)
        if ast[1] == "+":
            return v
        if ast[1] == "-":
            return chk(-v)
        return chk(mx - v if mn == 0 else -v - 1)
    op = ast[1]
    a = exact_eval(ast[2], ty)
    b = exact_eval(ast[3], ty)
    if op == "|": return chk(a | b)
    if op == "&": return chk(a & b)
    if op in ("<<", ">>"):
        if b < 0 or b >= digits:
            raise Reject()
        if op == ">>":
            return chk(a >> b)
        if a < 0:
            raise Reject()
        return chk(a << b)
    if op == "+": return chk(a + b)
    if op == "-": return chk(a - b)
    if op == "*": return chk(a * b)
    if op in ("/", "%"):
        if b == 0:
            raise Reject()
        q = abs(a) // abs(b)
        if (a < 0) != (b < 0):
            q = -q
        return chk(q) if op == "/" else chk(a - b * q)
    if op in ("^", "**"):
        if b < 0:
            raise Unknown()
        if abs(a) >= 2 and b > 70:
            raise Reject()
        return chk(a ** b)
    if op in ("e", "E"):
        if b < 0:
            raise Unknown()
        if b > 30:
            raise Reject()
        return chk(a * chk(10 ** b))
    raise ValueError(op)

def render(ast, r, spaces=True):
    """minimal parentheses according to precedence / associativity; unary binds tightest"""
    def sp():
        return r.choice(["", "", "", " ", "  ", "\t"]) if spaces else ""
    k = ast[0]
    if k == "lit":
        v, style = ast[1], ast[2]
        if style == "hex":
            h = format(v, "x")
            h = "".join(c.upper() if r.random() < 0.3 else c for c in h)
            return r.choice(["0x", "0X"]) + h
        if style == "lz":
            return "0" * r.randrange(1, 4) + str(v)
        return str(v)
    if k == "par":
        return "(" + sp() + render(ast[1], r, spaces) + sp() + ")"
    if k == "un":
        c = ast[2]
        inner = render(c, r, spaces)
        if c[0] == "bin":
            inner = "(" + inner + ")"
        return ast[1] + sp() + inner
    op, l, rt = ast[1], ast[2], ast[3]
    p, assoc = BINOPS[op]
    def side(c, is_left):
        s = render(c, r, spaces)
        if c[0] == "bin":
            cp, _ = BINOPS[c[1]]
            if cp < p or (cp == p and ((assoc == "R") if is_left else (assoc == "L"))):
                s = "(" + s + ")"
        return s
    ls, rs = side(l, True), side(rt, False)
    gap = sp()
    # a hex literal directly followed by e/E would swallow the operator as a hex digit
    if op in ("e", "E") and gap == "" and _ends_with_hex_lit(l):
        gap = " "
    return ls + gap + op + sp() + rs

def _ends_with_hex_lit(a):
    if a[0] == "lit":
        return a[2] == "hex"
    if a[0] == "un":
        return a[2][0] != "bin" and _ends_with_hex_lit(a[2])
    if a[0] == "bin":
        return False if BINOPS[a[1]][0] < 40 else _ends_with_hex_lit(a[3])   # conservative: parenthesised or right operand
    return False

def gen_ast(r, ty, depth, small):
    mn, mx, digits = CALC_TYPES[ty]
    if depth == 0 or r.random() < 0.25:
        c = r.random()
        if small or c < 0.45:
            v = r.choice([0, 1, 2, 3, 5, 7, 10, 16, 63, 64, r.randrange(0, 100)])
        elif c < 0.6:
            v = r.choice([2**k for k in range(0, digits + 1)] + [2**digits - 1]) + r.choice([-1, 0, 0, 1])
            v = max(v, 0)
        elif c < 0.7:
            v = mx - r.randrange(0, 3) + r.choice([0, 0, 1, 2])
        elif c < 0.8:
            v = 10 ** r.randrange(0, 21)
        else:
            v = r.randrange(0, 2 ** r.choice([8, 16, 32, 40, 63, 64, 65]))
        return ("lit", v, r.choice(["dec", "dec", "dec", "hex", "lz"]))
    c = r.random()
    if c < 0.12:
        return ("un", r.choice(["-", "+", "~", "-"]), gen_ast(r, ty, depth - 1, small))
    if c < 0.2:
        return ("par", gen_ast(r, ty, depth - 1, small))
    op = r.choice(["+", "+", "-", "-", "*", "*", "/", "%", "^", "**", "e", "E", "<<", ">>", "|", "&"])
    if op in ("^", "**", "e", "E", "<<", ">>"):
        return ("bin", op, gen_ast(r, ty, depth - 1, small), gen_ast(r, ty, min(depth - 1, 1), True))
    return ("bin", op, gen_ast(r, ty, depth - 1, small or op == "*" and r.random() < 0.5), gen_ast(r, ty, depth - 1, small))

def hexs(s):
    return "x" + s.encode("latin-1", "replace").hex()

def calc_expect(ast, ty):
    try:
        return "exp=v:%d" % exact_eval(ast, ty)
    except Reject:
        return "exp=reject"
    except Unknown:
        return "exp=any"

def gen_calc(tier, r):
    q = tier == "quick"
    ops = []
    N = 2500 if q else 40000
    for i in range(N):
        ty = r.choice(["u64", "u64", "u64", "i32", "i64"])
        ast = gen_ast(r, ty, r.choice([1, 2, 2, 3, 3, 4]), r.random() < 0.3)
        s = render(ast, r)
        e = calc_expect(ast, ty)
        ops.append(("grammar-" + ty + "-" + e[4:5], f"calc {ty} {hexs(s)} {e}"))
    # documented examples and the boundary of 2^64
    fixed = [("u64", "1e10", 10**10), ("u64", "2^32", 2**32), ("u64", "1e10+2^32", 10**10 + 2**32), ("u64", "0x10", 16),
             ("u64", "2^64", None), ("u64", "2^64-1", None), ("u64", "2^63+(2^63-1)", 2**64 - 1), ("u64", "18446744073709551615", 2**64 - 1),
             ("u64", "18446744073709551616", None), ("u64", "0-5", None), ("u64", "1e20", None), ("u64", "0xFFFFFFFFFFFFFFFF", 2**64 - 1),
             ("u64", "0x10000000000000000", None), ("u64", "2**2**2**2", 65536), ("u64", "10-2-3", 5), ("u64", "2*3+4", 10), ("u64", "2+3*4", 14),
             ("u64", "2^3^2", 512), ("u64", "100/10/5", 2), ("u64", "7%4*2", 6), ("u64", "1<<4+1", 32), ("u64", "6|1&3", 7), ("u64", "2e3^2", 4000000), ("u64", "2^3e1", 2**30),
             ("u64", "-0", 0), ("u64", "-1", None), ("u64", "~0", 2**64 - 1), ("u64", "5/0", None), ("u64", "5%0", None), ("u64", "1<<64", None),
             ("u64", "1<<63", 2**63), ("u64", "2<<63", None), ("u64", "(2^64-1)", None), ("u64", "4294967296*4294967296", None),
             ("u64", "4294967295*4294967297", 2**64 - 1), ("i32", "-(2**2**2**2)", -65536), ("i32", "(0 + ~(0xDF234 & 1000) *3) /-2", 817),
             ("i32", "2147483647+1", None), ("i32", "-2147483647-1", -2**31), ("i32", "-2147483648", None), ("i32", "(-2147483647-1)/-1", None),
             ("i32", "(-2147483647-1)%-1", 0), ("i32", "65536*32768", None), ("i32", "-65536*32768", -2**31), ("i64", "2^62*2", None),
             ("i64", "-(2^62)*2", -2**63), ("i64", "9223372036854775807", 2**63 - 1)]
    for ty, s, v in fixed:
        ops.append(("fixed", f"calc {ty} {hexs(s)} {'exp=v:%d' % v if v is not None else 'exp=reject'}"))
    for s in ["", " ", "(", ")", "1+", "+", "1 2", "0x", "0xg", "1<2", "1>2", "1<<", "(1", "1)", "()", "a", "1ee2", "1e", "e1", "--", "1//2",
              "1 + + 2 )", "2^^3", "1,000", "1.5", "0b101", "１", "1_000", "$1", "1;2", "1=1", "!1", "\x01"]:
        ops.append(("malformed-fixed", f"calc u64 {hexs(s)} exp=reject"))
    alphabet = "0123456789abcdefxXeE()+-*/%^&|<>~ \t.,g"
    for i in range(600 if q else 8000):
        ty = r.choice(["u64", "u64", "i32"])
        s = render(gen_ast(r, ty, r.choice([1, 2, 3]), True), r)
        l = list(s)
        for _ in range(r.choice([1, 1, 2, 3])):
            c = r.random()
            pos = r.randrange(0, len(l) + 1)
            if c < 0.35 and l: del l[min(pos, len(l) - 1)]
            elif c < 0.7: l.insert(pos, r.choice(alphabet))
            elif l: l[min(pos, len(l) - 1)] = r.choice(alphabet)
        ops.append(("mutated", f"calc {ty} {hexs(''.join(l))} exp=any"))
    return ops

CALC = register(Stream(
    "calc", gen_calc,
    rule=("cases = calculator::eval<uint64_t|int|int64_t>(s) on (a) expressions rendered with minimal parentheses, random "
          "extra parentheses, spaces, hex/decimal/leading-zero literals from random ASTs over all 13 operators and the 3 unary "
          "operators; the generator evaluates the AST exactly (big integers, every intermediate result range-checked): "
          "exp=v must be returned exactly, exp=reject must be rejected; (b) the documented examples and the 2^64 / 2^31 / "
          "2^63 boundaries; (c) malformed strings; (d) random character mutations of valid expressions (model vs "
          "implementation only); the Lean model Calc.eval must agree on value / error class for every string; "
          "non-trivial = the string is accepted or rejected for overflow / division by zero; distinct by the full line"),
    nontrivial=lambda o, obs: "err=syntax" not in obs))

def expr_for(r, T):
    """an expression whose exact value is T (0 <= T < 2^64) and whose intermediates fit"""
    forms = [str(T), "0x%x" % T, "%d+%d" % (T - min(T, 7), min(T, 7))]
    if T + 9 < 2**64: forms.append("%d-9" % (T + 9))
    if T > 0:
        b = T.bit_length() - 1
        forms.append("2^%d+%d" % (b, T - 2**b))
        forms.append("(1<<%d)+%d" % (b, T - 2**b))
        d = len(str(T)) - 1
        forms.append("1e%d*%d+%d" % (d, T // 10**d, T % 10**d))
        qq = r.choice([2, 3, 7, 1000])
        forms.append("%d*%d+%d" % (T // qq, qq, T % qq))
        forms.append(" ( %d ) " % T)
        if T * 2 < 2**64: forms.append("%d/2" % (T * 2))
    if T % 10**6 == 0 and T > 0:
        forms.append("%de6" % (T // 10**6))
    return r.choice(forms)

def gen_cli(tier, r):
    q = tier == "quick"
    ops = []
    def add(label, args, exp):
        ops.append((label, f"cli {hexs(chr(0x1f).join(args))} {exp}"))
    def interval():
        # runs above 1e15 take seconds each in the sanitized binary (sieving primes up to sqrt): keep them few
        if r.random() < (0.05 if q else 0.12):
            base = r.choice([10**r.randrange(15, 19) + r.randrange(0, 1000), 2**64 - 1 - r.randrange(0, 5000), MAXPRIME64 - r.randrange(0, 300)])
        else:
            base = r.choice([0, 0, r.randrange(0, 100), 10**r.randrange(2, 14) + r.randrange(0, 1000), 2**32 - 500])
        w = r.choice([0, 1, 10, 100, 1000, 30000])
        return base, min(UMAX, base + w)
    cnt_spell = [(["-c"], 1), (["--count"], 1), (["-c1"], 1), (["-c2"], 2), (["--count=3"], 4), (["-c123456"], 63), (["--count=26"], 34),
                 (["-c", "-c4"], 9), (["--count=5", "-c6"], 48), (["-c12", "--count=2"], 3), ([], 0)]
    for i in range(140 if q else 1600):
        a, b = interval()
        spell, mask = r.choice(cnt_spell)
        args, quiet, pk = [], False, "-"
        form = r.random()
        if form < 0.35:
            a = 0; b = r.choice([0, 1, 2, 5, 6, 7, 10, 11, 17, 100, 1000, r.randrange(0, 200000), 10**6]); nums = [expr_for(r, b)]
        elif form < 0.8:
            nums = [expr_for(r, a), expr_for(r, b)]
        else:
            d = b - a
            nums = [expr_for(r, a), r.choice(["-d", "--dist"]), expr_for(r, d)] if r.random() < 0.5 else [expr_for(r, a), r.choice(["-d%s", "--dist=%s"]) % expr_for(r, d).replace(" ", "")]
            if not nums[-1][2:3].isdigit() and nums[-1].startswith("-d") and len(nums) == 2 and not nums[-1][2:].lstrip("=")[:1].isdigit():
                nums = [expr_for(r, a), "--dist=" + str(d)]
        args += nums
        opts = [[x] for x in spell]
        if r.random() < 0.3 and b - a <= 30000:
            k = r.randrange(1, 7)
            opts.append([r.choice(["-p%d" % k, "--print=%d" % k] + (["-p", "--print"] if k == 1 else []))])
            pk, quiet = str(k - 1), True
        if r.random() < 0.5:
            opts.append([r.choice(["-q", "--quiet"])]); quiet = True
        elif r.random() < 0.8:
            opts.append(["--no-status"])
        if r.random() < 0.3: opts.append(r.choice([["-t", str(r.randrange(-2, 40))], ["--threads=%d" % r.randrange(1, 9)], ["-t%d" % r.randrange(1, 5)]]))
        if r.random() < 0.3: opts.append(r.choice([["-s", str(r.choice([0, 1, 16, 17, 100, 8192, 99999]))], ["--size=%d" % r.choice([16, 33, 256])], ["-s64"]]))
        if r.random() < 0.1: opts.append(["--time"])
        r.shuffle(opts)
        opts = [x for g in opts for x in g]
        # a bare -c/-p/--count/--print/-S takes a following non-option as its value: keep those last or before an option
        args2 = args + opts if r.random() < 0.6 else None
        if args2 is None:
            args2 = opts + args
            for j, o in enumerate(args2[:-1]):
                if o in ("-c", "--count", "-p", "--print") and not args2[j + 1].startswith("-"):
                    args2 = args + opts
                    break
        eff = mask if (mask or pk != "-") else 1
        add("sieve", args2, f"exp=sieve:{a}:{b}:{eff}:{pk}:{1 if quiet else 0}")
    # printing with an explicit thread count over an interval long enough for several worker pieces (>= 2e7): the output
    # must still be ascending (main.cpp forces one thread when printing)
    for a, w, k, th in ([(0, 22000000, 1, 4)] if q else [(0, 22000000, 1, 4), (10**7, 31000000, 2, 2), (5, 40000000, 3, 8)]):
        add("print-threads", [str(a), str(a + w), f"--print={k}", r.choice(["-t", "--threads"]), str(th)] + r.choice([[], ["-q"]]),
            f"exp=sieve:{a}:{a + w}:0:{k - 1}:1")
    # nth prime
    for i in range(40 if q else 400):
        n = r.choice([0, 1, 2, 10, 100, 1000, r.randrange(1, 5000)])
        st = r.choice([None, 0, 1, 100, 10**6, 10**12 + 5, 2**32] + ([UMAX - 100000, MAXPRIME64 - 1, MAXPRIME64, UMAX] if i % 8 == 0 else [10**9, 7]))
        nums = [expr_for(r, n)] + ([] if st is None else [expr_for(r, st)])
        opt = r.choice(["-n", "--nthprime", "--nth-prime"])
        quiet = r.random() < 0.5
        args = nums + [opt] + (["-q"] if quiet else []) if r.random() < 0.5 else [opt] + nums + (["--quiet"] if quiet else [])
        add("nth", args, f"exp=nth:{n}:{0 if st is None else st}:{1 if quiet else 0}")
    # rejected command lines
    rej = [["--foo"], ["-x"], ["100", "--count=7"], ["100", "-c0"], ["100", "-c17"], ["100", "-p7"], ["100", "--print=0"], ["100", "-t"], ["100", "--threads="],
           ["100", "-t", "-q"], ["100", "-s"], ["100", "--dist"], ["-5"], ["-1e3"], ["10", "-20"], ["--dist=-5", "10"], ["2^64"], ["2^64-1"], ["0-5"], ["1e20"],
           ["18446744073709551616"], ["10", "-d", "18446744073709551615"], ["10", "--dist=2^64"], ["1", "-d", "18446744073709551615"],
           ["-n"], ["-n", "-q"], ["1e18", "-n"], ["461168601842738791", "-n"], ["2^63", "-n"], ["--help", "--version"], ["-n", "100", "--cpu-info"],
           ["-c"], ["-q"], ["--no-status", "-p"], ["abc"], ["1O0"], ["100", ""], ["", "100"], ["100", "--coun"], ["100", "--count2x"], ["100", "-c2x"],
           ["1/0"], ["5%0", "10"], ["(10"], ["10)"], ["1<<64"], ["100", "-t", "1e100"], ["100", "-s", "2^31"], ["100", "-t", "abc"], ["-R"], ["--RiemannR-inverse"],
           ["100", "--timeout=1x"], ["100", "-S", "GPU"], ["100", "--stress-test=FOO"], ["10", "0x"], ["100", "--number"], ["100", "--number=-1"], ["100", "--count=-5"], ["100", "--count=0"], ["100", "-c", "0"], ["100", "-c00"]]
    for a in rej:
        add("reject", a, "exp=reject")
    for i in range(30 if q else 400):
        a, b = interval()
        bad = r.choice(["2^64", "1e20", "0-%d" % r.randrange(1, 10), "-%d" % r.randrange(1, 1000), "%d+%d" % (UMAX, r.randrange(1, 9)), "2^63*2", "1<<64", "0x1%016x" % r.getrandbits(64),
                        "(%d" % b, "%d)" % b, "%d/0" % b, "%d %d" % (a, b), "~0+1", "3^41", "18446744073709551616", "99999999999999999999"])
        where = r.randrange(3)
        args = [bad] if where == 0 else ([expr_for(r, a), bad] if where == 1 else [bad, expr_for(r, b)])
        add("reject-number", args + r.choice([[], ["-q"], ["-c2"], ["--no-status"]]), "exp=reject")
        dd = r.choice(["2^64", str(UMAX - a + 1), "-1", "0-1", "1e20", str(2**64 - a) if a > 0 else "2^64"])
        add("reject-dist", [expr_for(r, a), r.choice(["-d", "--dist"]), dd], "exp=reject")
    # informational main options: exit status 0
    for a in [["--help"], ["-h"], ["--version"], ["-v"], ["--cpu-info"]]:
        add("other", a, "exp=other")
    add("other", [], "exp=help1")
    # value-taking spellings that swallow the next argument, odd but accepted forms: model vs implementation
    for a in [["-c", "100"], ["100", "-c", "2"], ["-p", "100"], ["100", "-p", "2", "-q"], ["1", "2", "3"], ["100", "-c", "-q"], ["100", "--count=0x2"],
              ["100", "--count=1+1"], ["100", "-t", "2*2"], ["100", "--number", "200", "-q"], ["--number=5", "--number=50", "-q"], ["100", "-q", "-q", "--quiet"],
              ["50", "-d", "50", "-d", "10", "-q"], ["-d", "50", "-q"], ["100", "-p", "-c", "-q"], ["100", "--print", "--count=2"], ["100", "--timeout=5m", "-q"],
              ["100", "--timeout", "10", "-q"], ["10", "100", "-n", "-q"], ["100", "-s", "-5", "-q"], ["100", "-t", "-3", "-q"]]:
        add("odd-accepted", a, "exp=any")
    return ops

CLI = register(Stream(
    "cli", gen_cli,
    rule=("cases = one run of the primesieve binary per argument vector: (a) START/STOP/-d DIST written as arithmetic "
          "expressions with a known exact value, all spellings of -c/-p/-t/-s/-q/--no-status/--time in random order: stdout "
          "(status, timing and settings lines removed) must equal what the LIBRARY returns for the intended interval and kinds "
          "(count_* called in the harness, printed lines from the harness oracle) and the Lean model Cli.mainAction + count/print "
          "model; (b) -n with n / start incl. failures at the top of the range; (c) command lines that must be rejected "
          "(unknown / value-less / conflicting options, negative numbers, malformed expressions, value or intermediate >= 2^64, "
          "START+DIST >= 2^64, n too large): exit status 1 and no result on stdout; (d) informational options; (e) odd but "
          "accepted spellings (model vs implementation only); an exit status other than 0/1 (signal, sanitizer) is a "
          "violation; non-trivial = every case; distinct by the full line"),
    nontrivial=None))

def gen_cliprint(tier, r):
    """the command lines of the cli stream that print (--print[=N] in every spelling, with counting options, -q, -t):
    what C15 says about the binary"""
    out = []
    for label, op in gen_cli(tier, r):
        exp = op.split(" ")[-1]
        f = exp.split(":")
        if label == "print-threads" or (exp.startswith("exp=sieve:") and len(f) >= 5 and f[4] != "-"):
            out.append((label if label == "print-threads" else "print-" + label, op))
    return out

CLIPRINT = Stream(
    "cli", gen_cliprint,
    rule=("cases = one run of the primesieve binary per argument vector containing -p / --print[=N] (all spellings, combined with "
          "-c digits, -q, -t/--threads, -s, START STOP / -d forms, in random order): stdout must be exactly the lines the harness "
          "oracle derives for the intended interval (ascending, one per line, decimal / '(a, b, ...)'), followed by the counts "
          "the library returns when counting options are combined; includes printing with an explicit thread count over "
          "intervals long enough for several worker pieces; non-trivial = every case; distinct by the full line"),
    nontrivial=None)


# --------------------------------------------------------------------------------------------
# wheel / cross: the wheel layer of the sieve chain (Wheel::addSievingPrime, EratSmall/Medium/Big)
# --------------------------------------------------------------------------------------------
def _primes_upto(n):
    return oracle.primes_in(0, n)

def gen_wheel(tier, r):
    q = tier == "quick"
    ops = []
    small = [p for p in _primes_upto(3000) if p >= 7]
    def add(label, M, p, low, stop):
        if M == 210 and p == 7:
            return      # 7 divides 210: not a sieving prime of Wheel210_t (its multiples are pre-sieved; ASSERT(multiple % 7 != 0))
        ops.append((label, f"wheel {M} {p} {low} {stop}"))
    # every prime class x every quotient class: segment starts placed so that the first quotient
    # q0 = (low+6)/p + 1 runs through all residues mod M
    for M in (30, 210):
        for pr in [7, 11, 13, 17, 19, 23, 29, 31]:
            cand = [p for p in small if p % 30 == pr % 30]
            for p in (r.sample(cand, 2) if q else r.sample(cand, 6)):
                for x in (r.sample(range(M), 12) if q else range(M)):
                    qq = p + x + M * r.randrange(0, 50)
                    low = (p * qq - 7) // 30 * 30
                    add(f"classes-{M}", M, p, max(0, low), r.choice([UMAX, p * qq + 10**6, p * qq, p * qq - 1, p * (qq + 10)]))
    # p^2 placements: first multiple is p*p
    for p in (r.sample(small, 20) if q else small):
        for M in (30, 210):
            low = (p * p) // 30 * 30 - 30 * r.choice([0, 1, 2, 10])
            add("square", M, p, max(0, low), r.choice([UMAX, p * p, p * p + 1, p * p - 1, p * p + 12 * p]))
    # large primes (EratBig territory) and the top of the range: wrap guards
    # sieving primes are <= isqrt(stop) < 2^32 (PrimeGenerator::sieveSegment adds primes <= isqrt(segmentHigh)):
    # a prime > 2^32 is outside the function's domain (p*p wraps; the real code never passes one)
    bigs = [oracle.next_prime_ge(x) for x in [2**16 + 1, 10**6, 2**31, 2**32 - 300, 3 * 10**9, 4294967291 - 1000, 4294967291]]
    for p in bigs:
        for M in (30, 210):
            for _ in range(3 if q else 20):
                k = r.randrange(0, 2**64 // p)
                low = min(UMAX - 36, p * k) // 30 * 30
                add("large", M, p, low, r.choice([UMAX, UMAX - r.randrange(0, 10**6), low + r.randrange(0, 40 * p)]))
            for d in [0, 1, 2, 7, 30, 210, 1000]:
                low = (UMAX - d * p) // 30 * 30
                add("top-wrap", M, p, max(0, low - r.choice([0, 30, 30 * 1000])), r.choice([UMAX, UMAX - 1, UMAX - d]))
    for _ in range(100 if q else 3000):
        M = r.choice([30, 210])
        p = r.choice(small + bigs)
        low = r.randrange(0, 2**r.choice([10, 20, 40, 60, 64]) // 30) * 30
        low = min(low, (UMAX - 36) // 30 * 30)
        add("random", M, p, low, r.choice([UMAX, low + r.randrange(0, 10**7), r.randrange(low, UMAX)]))
    return ops

WHEEL = register(Stream(
    "wheel", gen_wheel,
    rule=("cases = Wheel30_t / Wheel210_t::addSievingPrime(prime, segmentLow) with stop_ = stop on the real class (a subclass "
          "records what storeSievingPrime receives): every prime class x every quotient class mod 30 / 210, p^2 placements, "
          "primes > 2^32, products at the top of the 64-bit range (both overflow guards); compared with the Lean model "
          "Wheel.addSievingPrime (stored or not, sievingPrime, multipleIndex, wheelIndex) and with a 128-bit oracle in the "
          "harness; non-trivial = the prime was stored; distinct by the full line"),
    nontrivial=lambda o, obs: "none" not in obs))

def gen_cross(tier, r):
    q = tier == "quick"
    ops = []
    small = [p for p in _primes_upto(5000) if p >= 7]
    for pr in [7, 11, 13, 17, 19, 23, 29, 31]:
        cand = [p for p in small if p % 30 == pr % 30]
        for p in (r.sample(cand, 2) if q else r.sample(cand, 8)):
            for alg in ["small", "medium", "big"]:
                S = r.choice([1024, 4096, 16384]) if alg == "big" else r.choice([1000, 1024, 3000, 4096, 16384, 17000])
                for start in ([p * p, r.randrange(0, 10**9)] if q else [0, p * p, p * p - 31, r.randrange(0, 10**6), r.randrange(0, 10**12), r.randrange(10**15, 10**18)]):
                    # Erat::addSievingPrime hands a prime to a cross-off class only once p <= isqrt(segmentHigh_), i.e.
                    # p*p <= low + 30*S + 6: an earlier segment is outside the classes' domain (EratBig sizes its bucket
                    # lists for a first multiple at most one prime-stride beyond the segment and ASSERTs otherwise)
                    if start + 30 * S < p * p:
                        start = p * p - r.randrange(0, 30 * S)
                    low = max(0, start) // 30 * 30
                    if alg == "big" and p == 7:
                        continue    # 7 is not a sieving prime of the 210-wheel
                    nseg = r.choice([1, 2, 5]) if p < 200 else r.choice([3, 8, 20])
                    l1 = r.choice([512, 1024, 4096, 32768])
                    ops.append((f"{alg}-{pr}", f"cross {alg} {p} {low} {UMAX} {S} {nseg} {l1}"))
    # primes larger than the segment: several segments without a multiple (EratBig / EratMedium re-bucketing)
    for p in [oracle.next_prime_ge(x) for x in ([40000, 10**6 + 3] if q else [40000, 65537, 10**5, 10**6 + 3, 2**24 + 1])]:
        for alg in ["medium", "big"]:
            S = r.choice([1024, 4096])
            if alg == "medium" and p // 30 * 6 + 6 > 2**23 - 1:
                continue
            low = (p * p) // 30 * 30 - 30 * r.randrange(0, 3)
            ops.append((f"{alg}-sparse", f"cross {alg} {p} {max(0, low)} {UMAX} {S} {60 if q else 300} 32768"))
    return ops

CROSS = register(Stream(
    "cross", gen_cross,
    rule=("cases = one sieving prime added with addSievingPrime and crossed off over consecutive segments by the real "
          "EratSmall (incl. L1 sub-segments and the 8-way unrolled loop), EratMedium (64 bucket lists) and EratBig (wheel210, "
          "segment rotation); observation = the ordered list of NUMBERS whose bits were cleared; the harness checks that each "
          "is p*q with q >= p coprime to the wheel and that none is missing; the Lean model (step30 / step210 on the "
          "regenerated rows) must clear exactly the same numbers; prime classes 7..31, segment sizes incl. non powers of two "
          "for Small/Medium, starts at 0, p^2, p^2-31 and up to 1e18; non-trivial = at least one bit cleared; distinct by the full line"),
    nontrivial=lambda o, obs: "n=0 " not in obs))


def gen_presieve(tier, r):
    q = tier == "quick"
    ops = []
    sizes = [5957, 6479, 6409, 6683, 6751, 7097, 7897, 8201, 8357, 8777, 9017, 8249, 8611, 8881, 9167, 9797]
    for low in [0, 30, 60, 90, 120, 150, 180, 210, 240]:
        ops.append(("first-bytes", f"presieve {low} {r.choice([8, 9, 16, 40])}"))
    # every table is read around its wrap-around point and at every position (thorough)
    for sz in sizes:
        for _ in range(2 if q else 12):
            k = r.randrange(0, 10**6)
            low = 30 * (sz * k + sz - r.randrange(1, 50))
            ops.append(("table-wrap", f"presieve {low} {r.choice([64, 200])}"))
    n_full = 1 if q else 16
    for sz in r.sample(sizes, n_full):
        ops.append(("full-period", f"presieve {30 * sz * r.randrange(1, 1000)} {sz + 8}"))
    for _ in range(20 if q else 300):
        low = 30 * r.randrange(0, 2**r.choice([12, 24, 40, 58]))
        ops.append(("random", f"presieve {low} {r.choice([8, 64, 512, 3000])}"))
    for low in [UMAX // 30 * 30 - 30 * 100, (UMAX - 40000) // 30 * 30]:
        ops.append(("top", f"presieve {low} 64"))
    return ops

PRESIEVE = register(Stream(
    "presieve", gen_presieve,
    rule=("cases = PreSieve::preSieve(sieve, segmentLow) on the real code (AVX512 / SSE2 / portable AND loops depending on the "
          "build variant) for segment starts at the first bytes (primes <= 163 restored), around the wrap-around point of each "
          "of the 16 tables, over a full period of a table, random positions up to 2^63 and the top of the range; every bit is "
          "checked against 'no prime in 7..163 properly divides the number' in the harness and the bytes against the Lean model "
          "preSieveFinal over the regenerated tables; non-trivial = every case; distinct by the operation"),
    nontrivial=None))


def gen_capi(tier, r):
    q = tier == "quick"
    ops = []
    U64T, INVALID = 13, [14, 15, 99, -1, 1000, 2**31 - 1]
    for ty in INVALID:
        for a, b in [(0, 100), (100, 0), (0, 0), (UMAX - 10, UMAX)]:
            ops.append(("invalid-type", f"capi gp {a} {b} {ty}"))
            ops.append(("invalid-type", f"capi gpnull {a} {b} {ty}"))
        ops.append(("invalid-type", f"capi gn 5 0 {ty}"))
        ops.append(("invalid-type", f"capi gn 0 0 {ty}"))
    for ty in range(0, 14):
        ops.append(("null-size", f"capi gpnull {r.randrange(0, 1000)} {r.randrange(1000, 5000)} {ty}"))
        ops.append(("empty", f"capi gp 100 {r.randrange(0, 100)} {ty}"))
        ops.append(("empty", f"capi gp 24 28 {ty}"))
        ops.append(("empty", f"capi gn 0 {r.randrange(0, 10**6)} {ty}"))
    for a, b in [(0, 1000), (10, 5), (UMAX - 1000, UMAX), (MAXPRIME64 + 1, UMAX), (UMAX, UMAX), (0, 0), (2, 2), (3, 2)]:
        ops.append(("u64", f"capi gp {a} {b} {U64T}"))
        ops.append(("u64", f"capi gpnull {a} {b} {U64T}"))
        ops.append(("count", f"capi count {a} {b} 0"))
    for n, st in [(1, 0), (0, 0), (5, UMAX), (1, MAXPRIME64), (3, 7), (2**62, 0)]:
        ops.append(("nth", f"capi nth {n} {st} 0"))
    ops.append(("free", "capi free0 0 0 0"))
    return ops

CAPI = register(Stream(
    "capi", gen_capi,
    rule=("cases = corners of the C error contract: every invalid type code (NULL, *size = 0, errno = EDOM) for generate_primes / "
          "generate_n_primes, NULL size pointer for all 14 type codes, empty requests (start > stop, no prime in range, n = 0: NULL or "
          "array, errno untouched), 64-bit arrays compared byte for byte with the C++ API in the same process, count / nth_prime "
          "against their C++ counterparts incl. failures at the top of the range, primesieve_free(NULL); checked by the harness "
          "oracle only (no model line); non-trivial = every case; distinct by the operation"),
    nontrivial=None, use_model=False))


def gen_mt(tier, r):
    q = tier == "quick"
    ops = []
    for base in ([0, 10**9 + r.randrange(0, 10**6)] if q else [0, 10**6, 10**9 + r.randrange(0, 10**6), 10**12 + r.randrange(0, 10**6), 10**15]):
        for m in ([4, 9] if q else [2, 4, 9, 16]):
            ops.append((f"threads-{m}", f"mt {m} {6 if q else 14} {base}"))
    return ops

MT = register(Stream(
    "mt", gen_mt,
    rule=("cases = m user threads (2..16) each running rounds of count_primes (incl. intervals long enough for two internal worker "
          "threads), count_twins, count_sextuplets, nth_prime, generate_primes, a C++ iterator (3000 next, 1500 prev) and a C iterator "
          "concurrently; every result must equal the result of the same call made alone beforehand in the same process; "
          "harness oracle only; evaluations = operations, each covering m x rounds calls; non-trivial = every case"),
    nontrivial=None, use_model=False))


# --------------------------------------------------------------------------------------------
# sysfs: process start-up under substituted /sys/devices/system/cpu trees (hook H2)
# --------------------------------------------------------------------------------------------
def _write_tree(root, online, cpus):
    """cpus: {cpuId: [ {level,type,size,list,map} per cache index ]}; a value None = file absent"""
    import shutil
    shutil.rmtree(root, ignore_errors=True)
    base = os.path.join(root, "sys", "devices", "system", "cpu")
    os.makedirs(base, exist_ok=True)
    if online is not None:
        with open(os.path.join(base, "online"), "w") as f:
            f.write(online)
    for cid, idxs in cpus.items():
        for i, c in enumerate(idxs):
            d = os.path.join(base, f"cpu{cid}", "cache", f"index{i}")
            os.makedirs(d, exist_ok=True)
            for k, fn in [("level", "level"), ("type", "type"), ("size", "size"), ("list", "shared_cpu_list"), ("map", "shared_cpu_map")]:
                if c.get(k) is not None:
                    with open(os.path.join(d, fn), "w") as f:
                        f.write(c[k])

def gen_sysfs(tier, r):
    q = tier == "quick"
    ops = []
    top = os.path.join(WORK, "sysfs", str(seed()))
    count = [0]
    def add(label, online, cpus):
        d = os.path.join(top, f"t{count[0]}")
        count[0] += 1
        _write_tree(d, online, cpus)
        ops.append((label, f"sysfs {d}"))
    def core(l1="32K", l2="1024K", l3="16384K", s1="0-1", s2="0-1", s3="0-15", t1="Data"):
        return [{"level": "1", "type": t1, "size": l1, "list": s1, "map": None},
                {"level": "1", "type": "Instruction", "size": "32K", "list": s1, "map": None},
                {"level": "2", "type": "Unified", "size": l2, "list": s2, "map": None},
                {"level": "3", "type": "Unified", "size": l3, "list": s3, "map": None}]
    # realistic machines
    add("realistic", "0-15\n", {0: core(), 15: core(), 8: core()})
    add("realistic", "0-7\n", {0: core("48K", "1280K", "24576K", "0-1", "0-1", "0-7"), 7: core("48K", "1280K", "24576K"), 4: core("48K", "1280K", "24576K")})
    add("realistic", "0\n", {0: core("64K", "512K", "4096K", "0", "0", "0")})
    # hybrid: performance and efficiency cores with different L1 sizes
    add("hybrid", "0-13\n", {0: core("48K", "2048K", "24M", "0-1", "0-1", "0-13"), 13: core("32K", "4096K", "24M", "13", "10-13", "0-13"), 7: core("48K", "2048K", "24M")})
    add("hybrid", "0-5\n", {0: core("64K"), 5: core("32K"), 3: core("128K")})
    # missing pieces
    add("missing", None, {})
    add("missing", "0-3\n", {})
    add("missing", "0-3\n", {0: [{"level": "1", "type": "Data", "size": "32K", "list": None, "map": None}]})
    add("missing", "0-3\n", {0: [{"level": "1", "type": "Data", "size": None, "list": "0", "map": None}]})
    add("missing", "0-3\n", {0: core(s2=None, s3="0-3")[:]})
    add("missing", "0-3\n", {0: [dict(c, list=None, map="f") for c in core()]})
    add("missing", "0-1\n", {0: [{"level": "2", "type": "Unified", "size": "512K", "list": "0-1", "map": None}]})
    # zero / tiny / huge / garbage values
    garbage_sizes = ["0", "0K", "1", "1K", "3K", "4K", "16383", "1048576K", "1G", "4G", "99999999G", "18446744073709551615", "18446744073709551616K",
                     "99999999999999999999999", "-1", "-32K", "32Q", "K", "abc", "", " ", "\n", "32 K", "0x8000", "3.5M", "32k", "1e6"]
    for g in (r.sample(garbage_sizes, 10) if q else garbage_sizes):
        which = r.choice(["l1", "l2", "l3"])
        add("garbage-size", "0-3\n", {0: core(**{which: g})})
    garbage_lists = ["0", "0-0", "0-1023", "3-0", "5-2", "0-18446744073709551615", "0,2,4", "0-1,4-5,9", "-", "-5", "1-", ",", ",,", "a-b", "0-99999999999999999999", ""]
    for g in (r.sample(garbage_lists, 8) if q else garbage_lists):
        add("garbage-sharing", "0-3\n", {0: core(**{r.choice(["s2", "s3"]): g})})
        add("garbage-online", g + "\n", {0: core()})
    for m in ["ff", "ffffffff,ffffffff", "00000000,00000001", "zz", "0", ",", "f" * 300, ""]:
        add("sharing-map", "0-3\n", {0: [dict(c, list=None, map=m) for c in core()]})
    for lv in ["0", "4", "99", "18446744073709551615", "x", "-1", ""]:
        cs = core()
        cs[0]["level"] = lv
        add("garbage-level", "0-3\n", {0: cs})
    for ty in ["Unified", "data", "Instruction", "", "Data "]:
        add("cache-type", "0-3\n", {0: core(t1=ty)})
    return ops

SYSFS = register(Stream(
    "sysfs", gen_sysfs,
    rule=("cases = one process start-up per substituted /sys/devices/system/cpu tree (hook H2): realistic machines, hybrid cores "
          "with different L1 sizes, missing files and directories, zero / tiny / huge / non-numeric cache sizes (all unit suffixes, "
          "overflowing numbers), malformed online / shared_cpu_list ranges (reversed, open, overflowing), shared_cpu_map variants, "
          "garbage cache levels and types; the harness checks that the library initialises (exit status 0, no sanitizer report), that "
          "get_sieve_size() is in [16, 8192] and that count_primes / count_twins / iterator results are right; the Lean model must "
          "predict get_sieve_size() and Erat's L1 size from the cache description the process parsed; distinct by the tree"),
    nontrivial=None, model_stream="cfg"))
