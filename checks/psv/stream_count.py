"""`count` correspondence stream: ParallelSieve::sieve with all six counters, thread counts,
piece-length overrides (hook H1) and sieve sizes.  The harness checks every result against its
own oracle; the Lean model (PsModel.Parallel / PsModel.CountPrint) predicts the counters, the
number of threads, the piece length and the exact list of pieces."""
import os
from .common import *
from . import oracle
from .stream_segment import placements, sieve_bytes, _coprime30

def gen_ops(tier, r):
    q = tier == "quick"
    ops = []
    kibs = [16, 33, 100]
    # (a) production piece length: the last interior boundary within 0..40 of stop
    for t in ([2, 3] if q else [2, 3, 4, 7, 16]):
        for rem in ([1, 12, 31, 32, 33] if q else range(0, 45, 3)):
            td = 10000020
            start = r.choice([0, 0, 7, r.randrange(0, 10**6)])
            ops.append(("prod-boundary", f"count {start} {start + td * t + rem} {r.choice(kibs)} {t} 0"))
    # (b) dense boundaries (override): many pieces, constellations next to boundaries
    for _ in range(120 if q else 1500):
        md = r.choice([30, 60, 90, 120, 300, 990, 3000, 30030])
        t = r.choice([2, 3, 4, 5, 8, 16])
        start = r.choice([0, 1, 2, 3, 5, 6, 7, 11, r.randrange(0, 300), r.randrange(0, 10**6), r.randrange(0, 10**9)])
        width = r.choice([md * t + r.randrange(0, 64), md * t * 3 + r.randrange(0, 100), r.randrange(1, 40 * md)])
        ops.append(("dense", f"count {start} {start + width} {r.choice(kibs)} {t} {md}"))
    # boundaries right at the end: (dist - 1) % td in 0..40
    for _ in range(40 if q else 400):
        md = r.choice([90, 300, 3000])
        t = r.choice([2, 3, 4])
        start = r.randrange(0, 10**5)
        ops.append(("dense-end", f"count {start} {start + md * t + r.randrange(0, 41)} 16 {t} {md}"))
    # (c) small numbers and degenerate intervals, single thread
    for s0 in range(0, 20):
        for e0 in (r.sample(range(0, 40), 6) if q else range(0, 40)):
            ops.append(("small", f"count {s0} {e0} 16 1 0"))
    for base in [900, 10**6 + 13, 10**9 + 7]:
        for _ in range(15 if q else 120):
            s0 = base + r.randrange(0, 60)
            ops.append(("residues", f"count {s0} {s0 + r.randrange(0, 90)} {r.choice(kibs)} 1 0"))
    # (d) magnitudes
    for k in (range(4, 20, 3) if q else range(3, 20)):
        s0 = 10**k + r.randrange(0, 1000)
        ops.append(("magnitude", f"count {s0} {s0 + r.choice([1000, 10**5, 600000])} {r.choice([16, 33])} {r.choice([1, 4])} {r.choice([0, 3000])}"))
    for s0, e0 in [(UMAX - 10**5, UMAX), (UMAX - 40, UMAX), (UMAX, UMAX), (MAXPRIME64, UMAX), (2**32 - 1000, 2**32 + 1000),
                   (UMAX - 3 * 10**5, UMAX - 1)]:
        ops.append(("top", f"count {s0} {e0} 16 {r.choice([1, 3])} {r.choice([0, 30030])}"))
    # many pieces ending at the very top: the raw end of the last piece saturates at 2^64-1 (align / checkedAdd at
    # the limit).  (dist - 1) % td >= 33 keeps the overridden piece length inside the envelope proved in C09.
    import math
    cores = os.cpu_count() or 1
    n_top = 0
    while n_top < (12 if q else 120):
        md = r.choice([60, 90, 120, 300, 3000])
        t = r.choice([2, 3, 4, 8])
        k = r.randrange(2, 12)
        rem = r.randrange(34, md)
        e0 = r.choice([UMAX, UMAX, UMAX - r.randrange(1, 40)])
        s0 = e0 - (md * k + rem)
        # the piece length the code will use (ParallelSieve::getThreadDistance with the override); at stop = 2^64-1 a last
        # piece starting within 32 of stop would make `align(start) + 1` wrap (outside the envelope proved in C09 and not
        # reachable with the production piece length), so such combinations are not generated
        dist = e0 - s0
        threads = max(1, min(dist // md, min(t, cores)))
        if threads > 1:
            fastest = min(math.isqrt(e0) * 200, dist // threads)
            iters = max((dist // fastest) // threads * threads, threads)
            td = max((dist - 1) // iters + 1, md)
            td += 30 - td % 30
            if (dist - 1) % td < 40:
                continue
        ops.append(("top-dense", f"count {s0} {e0} 16 {t} {md} nosqrt"))
        n_top += 1
    # the largest sieve size with EratBig engaged: multipleIndex needs all 23 bits (one 8 MiB segment = 2.5e8 numbers)
    ops.append(("max-sieve-size", f"count {10**15 + r.randrange(0, 10**6)} {10**15 + 10**6 + r.randrange(0, 10**6)} 8192 1 0"))
    # more than one segment below 2^64-1 (16 KiB sieve = 491520 numbers per segment)
    ops.append(("top-multi-segment", f"count {UMAX - 600000} {UMAX} 16 1 0"))
    ops.append(("top-multi-segment", f"count {UMAX - 1000000 - r.randrange(0, 1000)} {UMAX - r.randrange(0, 40)} 16 {r.choice([1, 2])} {r.choice([0, 300000])}"))
    # (e) products of sieving primes on segment edges through the counting path
    for kib in ([16, 33] if q else [16, 33, 100, 256]):
        S0 = sieve_bytes(10**7, kib)
        ps = [7, 163, 167, 1009] + [oracle.prev_prime_le(int(0.2 * min(49152, S0))), oracle.next_prime_ge(int(0.2 * min(49152, S0)) + 1),
                                    oracle.prev_prime_le(3 * S0), oracle.next_prime_ge(3 * S0 + 1)]
        for p in ps:
            cands = [p * p] if p > 1000 else []
            x = max(p, (30 * S0 * 3 + 2000) // p) | 1
            while len(cands) < 3:
                if _coprime30(x) and x >= p:
                    cands.append(p * x)
                x += 2
            for n in cands:
                if not _coprime30(n):
                    continue
                S = sieve_bytes(n + 30 * S0 * 3, kib)
                pls = placements(n, S)
                for k, w, low0 in (r.sample(pls, min(2, len(pls))) if q else pls):
                    start = low0 + r.randrange(7, 37)
                    if start > n:
                        start = low0 + 7
                    ops.append((f"edge-k{k}-{w}", f"count {start} {n + r.choice([0, 3, 30 * S + 77])} {kib} 1 0"))
    return ops

def run_stream(harness, model, ops, workdir, tag):
    os.makedirs(workdir, exist_ok=True)
    ops_path = os.path.join(workdir, f"{tag}.ops")
    with open(ops_path, "w") as f:
        for label, o in ops:
            f.write(o + "\n")
    rc, out, err = run([harness, "count", ops_path], timeout=7200,
                       env={"ASAN_OPTIONS": "detect_leaks=1:abort_on_error=0", "UBSAN_OPTIONS": "print_stacktrace=1"})
    trace_path = os.path.join(workdir, f"{tag}.trace")
    with open(trace_path, "w") as f:
        f.write(out)
    res = {"harness_rc": rc, "harness_err": err[-4000:], "impl_lines": out.splitlines()}
    rc2, out2, err2 = run([model, "count", trace_path], timeout=7200)
    res.update({"model_rc": rc2, "model_err": err2[-2000:], "model_lines": out2.splitlines()})
    return res

def analyse(ops, res):
    """(oracle mismatches, model diffs, stats)"""
    wrong, diffs = [], []
    il, ml = res["impl_lines"], res["model_lines"]
    parts, nontrivial, multi = {}, set(), 0
    for n, (label, o) in enumerate(ops):
        parts[label] = parts.get(label, 0) + 1
        if n >= len(il):
            break
        a = il[n]
        obs = a.split(" => ", 1)[-1]
        if "ORACLE-MISMATCH" in obs:
            wrong.append((o, obs))
        elif n < len(ml) and a != ml[n]:
            diffs.append((o, a, ml[n]))
        if "pieces=" in obs:
            pcs = obs.split("pieces=")[1].split()[0] if not obs.endswith("pieces=") else ""
            if pcs:
                multi += 1
            if not obs.startswith("c=0,0,0,0,0,0"):
                nontrivial.add(o)
    return wrong, diffs, {"evaluations": len(il), "distinct_nontrivial": len(nontrivial),
                          "multi_piece_cases": multi, "partitions": parts}
