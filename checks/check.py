#!/usr/bin/env python3
"""check.py <ID> --tier quick|thorough   decide one property (see DESIGN.md section 2)
   check.py replay <path>               re-run a replay file against the current /repo
   check.py setup                       build everything once (MANIFEST.setup_cmd)
   check.py lock                        re-record the statements of all property theorems

Pipeline per property: BUILD /repo (hooks+asserts+sanitizers) -> TRANSLATE /repo into
lean/PsModel/Generated -> PROVE (lake build + axiom audit + forbidden-construct grep +
statement lock) -> TIE (correspondence streams: harness vs compiled Lean model) -> on any
failure WITNESS search (implementation vs independent oracle) -> EVIDENCE.
Exit 0: property held on everything explored.  Exit 1 + "VIOLATION property=<id> replay=<path>".
"""
import argparse, json, os, sys, time, traceback

sys.path.insert(0, os.path.dirname(os.path.abspath(__file__)))
from psv.common import *
from psv import build, props


def load_lock():
    p = os.path.join(LEAN, "props.lock.json")
    if os.path.exists(p):
        with open(p) as f:
            return json.load(f)
    return {}


def write_evidence(prop, tier, level, coverage, assumptions, wall, violations):
    os.makedirs(EVID, exist_ok=True)
    ev = {"property_id": prop, "tier": tier, "seed": seed(), "level": level, "coverage": coverage,
          "assumptions": assumptions, "wall_s": round(wall, 2), "violations": violations}
    with open(os.path.join(EVID, f"{prop}.json"), "w") as f:
        json.dump(ev, f, indent=1)


def prove(P, obligations_failed, tier="quick"):
    """steps TRANSLATE + PROVE.  Appends (name, reason) to obligations_failed.  Returns info dict."""
    info = {}
    tr = build.translate()
    info["translator"] = tr
    for f in tr.get("fails", []):
        obligations_failed.append(("translation", f))
    # the driver first: the correspondence streams must be able to run even when a proof obligation no longer builds
    okm, outm = build.lake_build(["psv_model"])
    info["model_ok"] = okm
    if not okm:
        errs = [l for l in outm.splitlines() if "error" in l][:8]
        obligations_failed.append(("lake build psv_model (Generated model no longer compiles)", "\n".join(errs) or outm[-1500:]))
    ok, out = build.lake_build(P.targets)
    info["lake_ok"] = ok
    if not ok:
        # name the first failing module / error lines
        errs = [l for l in out.splitlines() if "error" in l][:8]
        obligations_failed.append(("lake build " + " ".join(P.targets), "\n".join(errs) or out[-1500:]))
        return info
    if tier == "thorough":
        bad = build.leanchecker(P.targets)
        info["leanchecker"] = {"modules": P.targets, "failed": [m for m, _ in bad]}
        for m, msg in bad:
            obligations_failed.append((f"leanchecker {m}", msg))
    hits = build.grep_forbidden()
    info["forbidden_hits"] = hits
    for h in hits:
        obligations_failed.append(("forbidden construct", h))
    res, raw = build.audit_axioms(P.theorems)
    lock = load_lock()
    info["audit"] = res
    for mod, t in P.theorems:
        r = res.get(t, {})
        if r.get("axioms") is None:
            obligations_failed.append((t, "theorem missing or #print axioms failed"))
        elif not r["ok"]:
            obligations_failed.append((t, "depends on non-standard axioms: " + ", ".join(r["axioms"])))
        elif t not in lock:
            obligations_failed.append((t, "statement not recorded in lean/props.lock.json"))
        elif lock[t] != r.get("statement"):
            obligations_failed.append((t, "statement differs from lean/props.lock.json (weakened or changed)"))
    return info


def cmd_check(prop, tier):
    t0 = time.time()
    P = props.REGISTRY[prop]
    findings = [k for k in known_findings() if k.get("property") == prop and k.get("status") == "known"]
    obligations_failed = []
    tie_fail = []      # (stream, description, replay-data or None)
    coverage = {}
    info = {}
    violations = 0
    try:
        d, err = build.build_repo()
        if err:
            obligations_failed.append(("build of /repo with hooks", err[-1500:]))
            harness = None
        else:
            harness, herr = build.build_harness(d)
            if herr:
                obligations_failed.append(("build of harness against /repo", herr[-1500:]))
        info = prove(P, obligations_failed, tier)
        ctx = props.Ctx(prop=prop, tier=tier, repo_build=d, harness=harness, model=build.model_exe(),
                        workdir=os.path.join(WORK, "run", prop))
        if harness and info.get("model_ok"):
            coverage = P.tie(ctx, tie_fail)
        # ---- WITNESS search when a proof obligation or the correspondence broke
        confirmed = [t for t in tie_fail if t[2] is not None]
        if (obligations_failed or tie_fail) and not confirmed and harness:
            w = P.witness(ctx, obligations_failed, tie_fail)
            if w is not None:
                confirmed.append(w)
        out_lines = []
        if confirmed:
            for stream, desc, data in confirmed:
                key = data.get("key")
                kf = [k for k in findings if k.get("key") == key]
                if kf:
                    out_lines.append(f"KNOWN-FINDING: property={prop} {kf[0].get('what', desc)}")
                    continue
                data.update({"property": prop, "kind": data.get("kind", "impl-vs-spec"), "stream": stream,
                             "description": desc, "seed": seed(),
                             "how_to_run": f"python3 checks/check.py replay <this file>"})
                path = write_replay(prop, data)
                out_lines.append(f"VIOLATION property={prop} replay={path}")
                violations += 1
        elif obligations_failed or tie_fail:
            data = {"property": prop, "kind": "proof-obligation" if obligations_failed else "model-vs-impl",
                    "obligations_failed": [{"obligation": o, "reason": r} for o, r in obligations_failed],
                    "correspondence_failed": [{"stream": s, "description": dsc} for s, dsc, _ in tie_fail],
                    "seed": seed(),
                    "note": "the property is no longer shown to hold; the witness search found no input on "
                            "which the implementation violates it"}
            path = write_replay(prop, data)
            out_lines.append(f"VIOLATION property={prop} replay={path} no-failing-input-found")
            violations += 1
    except Exception as e:
        traceback.print_exc()
        data = {"property": prop, "kind": "check-crashed", "error": repr(e)}
        path = write_replay(prop, data)
        out_lines = [f"VIOLATION property={prop} replay={path} no-failing-input-found"]
        violations = 1
    n_obl = len(P.theorems)
    failed_names = {o for o, _ in obligations_failed}
    discharged = 0 if not info.get("lake_ok") else sum(1 for _, t in P.theorems if t not in failed_names)
    cov = {"obligations": n_obl, "discharged": discharged,
           "checker_cmd": f"cd lean && lake build {' '.join(P.targets)} && lake env lean <audit: #print axioms + #check of every obligation>",
           "trusted_base": props.TRUSTED_BASE + P.trusted_extra,
           "theorems": [t for _, t in P.theorems],
           "axioms": {t: (info.get("audit", {}).get(t, {}) or {}).get("axioms") for _, t in P.theorems},
           "obligations_failed": [{"obligation": o, "reason": r[:300]} for o, r in obligations_failed],
           "undischarged_structures": P.undischarged,
           "translator": info.get("translator"),
           "leanchecker": info.get("leanchecker"),
           "explanation": P.explanation}
    cov.update(coverage)
    write_evidence(prop, tier, P.level, cov, P.assumptions, time.time() - t0, violations)
    for l in out_lines:
        print(l)
    print(f"[{prop}] tier={tier} obligations={discharged}/{n_obl} evaluations={cov.get('evaluations')} "
          f"violations={violations} wall={time.time()-t0:.1f}s")
    return 1 if violations else 0


def cmd_setup():
    d, err = build.build_repo()
    if err:
        print("setup: /repo build failed\n" + err); return 1
    h, herr = build.build_harness(d)
    if herr:
        print("setup: harness build failed\n" + herr); return 1
    tr = build.translate()
    ok, out = build.lake_build([])
    if not ok:
        print(out[-5000:]); return 1
    print("setup ok")
    return 0


def cmd_lock():
    allthms = []
    for P in props.REGISTRY.values():
        allthms += P.theorems
    targets = sorted({m for m, _ in allthms})
    ok, out = build.lake_build(targets)
    if not ok:
        print(out[-3000:]); return 1
    # audit per property, with exactly the imports the check itself uses (pretty-printing of a
    # statement depends on the set of imported modules)
    lock, raw = {}, ""
    for P in props.REGISTRY.values():
        res, r1 = build.audit_axioms(P.theorems)
        raw += r1
        for t, r in res.items():
            lock[t] = r["statement"]
    missing = [t for t, s in lock.items() if not s]
    if missing:
        print("could not read statements of", missing); print(raw[-3000:]); return 1
    with open(os.path.join(LEAN, "props.lock.json"), "w") as f:
        json.dump(lock, f, indent=1, sort_keys=True)
    print(f"locked {len(lock)} statements")
    return 0


def cmd_replay(path):
    with open(path) as f:
        data = json.load(f)
    prop = data.get("property")
    P = props.REGISTRY.get(prop)
    d, err = build.build_repo()
    if err:
        print("build failed"); return 2
    harness, herr = build.build_harness(d)
    ctx = props.Ctx(prop=prop, tier="quick", repo_build=d, harness=harness, model=build.model_exe(),
                    workdir=os.path.join(WORK, "replay"))
    still = props.replay(ctx, data)
    print(json.dumps(still, indent=1))
    return 1 if still.get("fails") else 0


def main():
    ap = argparse.ArgumentParser()
    ap.add_argument("what")
    ap.add_argument("arg", nargs="?")
    ap.add_argument("--tier", default=os.environ.get("VERIF_TIER", "quick"))
    a = ap.parse_args()
    if a.what == "setup":
        return cmd_setup()
    if a.what == "lock":
        return cmd_lock()
    if a.what == "replay":
        return cmd_replay(a.arg)
    if a.what in props.REGISTRY:
        # two runs of the same property share .work/run/<id> and evidence/<id>.json: the second one waits
        with Lock("check-" + a.what):
            return cmd_check(a.what, a.tier)
    print("unknown property", a.what)
    return 2


if __name__ == "__main__":
    sys.exit(main())
