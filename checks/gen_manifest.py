#!/usr/bin/env python3
"""Writes /verif/MANIFEST.json from the registry (single source of truth) and validates it."""
import json, os, sys
sys.path.insert(0, os.path.dirname(os.path.abspath(__file__)))
from psv import props, manifest_text as T

HERE = os.path.abspath(os.path.join(os.path.dirname(__file__), ".."))
checks = []
for pid in sorted(props.REGISTRY):
    P = props.REGISTRY[pid]
    t = T.TEXT[pid]
    checks.append({
        "property_id": pid,
        "quick_cmd": f"python3 checks/check.py {pid} --tier quick",
        "thorough_cmd": f"python3 checks/check.py {pid} --tier thorough",
        "evidence_file": f"evidence/{pid}.json",
        "replay_cmd_template": "python3 checks/check.py replay {path}",
        "engine": "lean4-proof+correspondence",
        "level_claimed": {"category": P.level, "text": t["text"], "design_ref": t["design_ref"]},
        "level_note": t["note"],
        "technique": t["technique"],
    })
m = {
    "version": 1,
    "setup_cmd": "python3 checks/check.py setup",
    "hooks": {
        "guard": "PRIMESIEVE_VERIF",
        "enable": "checks build /repo with -DCMAKE_CXX_FLAGS='-DPRIMESIEVE_VERIF -DENABLE_ASSERT -fsanitize=address,undefined ...' into /verif/.work/repo-<hash> (checks/psv/build.py)",
        "baseline_off_cmd": "bash checks/baseline_off.sh",
        "source_commits": T.HOOK_COMMITS,
        "add_only": True,
    },
    "engines": [{
        "name": "lean4-proof+correspondence",
        "path": "lean/ (theorems), translator/ (regenerates lean/PsModel/Generated from /repo), harness/ + lean/Driver.lean (correspondence), checks/check.py (orchestration)",
        "serves_properties": sorted(props.REGISTRY),
        "kind_free_text": "machine-checked proof in Lean 4 about an executable model; model tied to /repo by a translator (tables, constants, structural facts) and by differential execution of model and implementation on the same operation sequences",
    }],
    "checks": checks,
    "not_applicable": T.NOT_APPLICABLE,
    "notes": T.NOTES,
}
with open(os.path.join(HERE, "MANIFEST.json"), "w") as f:
    json.dump(m, f, indent=1)
try:
    import jsonschema
    jsonschema.validate(m, json.load(open("/root/.vp/MANIFEST.schema.json")))
    print("MANIFEST.json valid,", len(checks), "checks")
except ImportError:
    print("MANIFEST.json written (jsonschema not available here)")
