/-
  PsModel.NthPrime — PrimeSieve::nthPrime / negativeNthPrime (src/nthPrime.cpp).
  The approximations (Riemann R and its inverse, long double), `avgPrimeGap` (double) and
  `isqrt` are parameters: the result must not depend on them.  `cnt a b` is countPrimes(a, b)
  (C04: the number of primes in [a, b]); the correction walks use the iterator model.
  `n` is the int64 argument as an `Int`.
-/
import PsModel.Iterator

namespace Ps

/-- PrimePi(2^64) -/
def max_n : Nat := 425656284035217743

def int64Min : Int := -9223372036854775808
def int64Max : Int := 9223372036854775807

structure NthOracle where
  /-- primePiApprox -/
  piA : Nat → Nat
  /-- nthPrimeApprox -/
  nthA : Nat → Nat
  /-- avgPrimeGap -/
  avgGap : Nat → Nat
  /-- isqrt -/
  isqrt : Nat → Nat

/-- `for (...) prime = iter.next_prime();` (k ≥ 1 calls); an exception ends the loop -/
def iterNextN (env : Env) (kf : Nat → Nat) : Nat → Nat → Iter → Nat → Except Err Nat
  | 0, _, _, last => .ok last
  | k + 1, j, it, _ =>
    match it.next env (kf j) with
    | (.ok v, it') => iterNextN env kf k (j + 1) it' v
    | (.error e, _) => .error e

/-- `for (...) { prime = iter.prev_prime(); if (prime == 0) throw; }` -/
def iterPrevN (env : Env) : Nat → Iter → Nat → Except Err Nat
  | 0, _, last => .ok last
  | k + 1, it, _ =>
    let r := it.prev env
    if r.1 = 0 then .error .invalid else iterPrevN env k r.2 r.1

/-- nthPrime for n > 0 (after the n = 0 adjustment) -/
def nthPrimePos (env : Env) (kf : Nat → Nat) (cnt : Nat → Nat → Nat) (o : NthOracle) (n start : Nat) :
    Except Err Nat :=
  if n > max_n then .error .invalid
  else
    let nApprox := min (checkedAdd (o.piA start) n) max_n
    let primeApprox := max (o.nthA nApprox) start
    let counted := decide (primeApprox - start > o.isqrt primeApprox / 10)
    let start1 := if counted then checkedAdd start 1 else start
    let primeApprox := if counted then max start1 primeApprox else primeApprox
    let countApprox := if counted then cnt start1 primeApprox else 0
    let start2 := if counted then primeApprox else start
    if countApprox < n then
      let s := checkedAdd start2 1
      let dist := mul64 (n - countApprox) (o.avgGap primeApprox)
      iterNextN env kf (n - countApprox) 0 (Iter.mk' s (checkedAdd s dist)) 0
    else
      let dist := mul64 (countApprox - n) (o.avgGap primeApprox)
      iterPrevN env (countApprox - n + 1) (Iter.mk' start2 (checkedSub start2 dist)) 0

/-- negativeNthPrime, `m` = -n > 0 -/
def nthPrimeNeg (env : Env) (kf : Nat → Nat) (cnt : Nat → Nat → Nat) (o : NthOracle) (m start : Nat) :
    Except Err Nat :=
  if m > max_n then .error .invalid
  else if m ≥ start then .error .invalid
  else
    let nApprox := min (checkedSub (o.piA start) m) max_n
    let primeApprox := min (o.nthA nApprox) start
    let counted := decide (start - primeApprox > o.isqrt start / 10)
    let start1 := if counted then checkedSub start 1 else start
    let primeApprox := if counted then min primeApprox start1 else primeApprox
    let countApprox := if counted then cnt primeApprox start1 else 0
    let start2 := if counted then primeApprox else start
    if countApprox ≥ m then
      let dist := mul64 (countApprox - m) (o.avgGap start2)
      iterNextN env kf (countApprox - m + 1) 0 (Iter.mk' start2 (checkedAdd start2 dist)) 0
    else
      let s := checkedSub start2 1
      let dist := mul64 (m - countApprox) (o.avgGap s)
      iterPrevN env (m - countApprox) (Iter.mk' s (checkedSub s dist)) 0

/-- PrimeSieve::nthPrime(int64_t n, uint64_t start).  The guard `n < -max_n` runs before `n = -n`,
    so the negation is never applied to INT64_MIN (signed overflow would be undefined behaviour). -/
def nthPrime (env : Env) (kf : Nat → Nat) (cnt : Nat → Nat → Nat) (o : NthOracle) (n : Int) (start : Nat) :
    Except Err Nat :=
  if n < 0 then
    if n < -(max_n : Int) then .error .invalid
    else nthPrimeNeg env kf cnt o (-n).toNat start
  else if n = 0 then nthPrimePos env kf cnt o 1 (checkedSub start 1)
  else nthPrimePos env kf cnt o n.toNat start

end Ps
