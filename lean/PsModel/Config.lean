/-
  PsModel.Config — the configuration functions of src/api.cpp, src/PrimeSieve.cpp,
  src/ParallelSieve.cpp and the range predicates of src/CpuInfo.cpp.
  A cache description is four raw numbers as the OS reports them (any uint64 value, including 0
  and garbage): L1 bytes, L2 bytes, L2 sharing, L3 sharing.
-/
import PsModel.Erat

namespace Ps

structure CpuDesc where
  l1 : Nat
  l2 : Nat
  s2 : Nat
  s3 : Nat
  deriving Repr, DecidableEq

/-- CpuInfo::hasL1Cache: 4 KiB ≤ l1 ≤ 1 GiB -/
def CpuDesc.hasL1 (c : CpuDesc) : Bool := c.l1 ≥ 4096 ∧ c.l1 ≤ 1073741824
/-- CpuInfo::hasL2Cache: 4 KiB ≤ l2 ≤ 1 TiB -/
def CpuDesc.hasL2 (c : CpuDesc) : Bool := c.l2 ≥ 4096 ∧ c.l2 ≤ 1099511627776
/-- CpuInfo::hasL2Sharing / hasL3Sharing: 1 ≤ s ≤ 2^20 -/
def CpuDesc.hasS2 (c : CpuDesc) : Bool := c.s2 ≥ 1 ∧ c.s2 ≤ 1048576
def CpuDesc.hasS3 (c : CpuDesc) : Bool := c.s3 ≥ 1 ∧ c.s3 ≤ 1048576

/-- api.cpp `set_sieve_size` / PrimeSieve::setSieveSize: the stored value -/
def setSieveSize (size : Int) : Int :=
  if size < 16 then 16 else if size > 8192 then 8192 else size

/-- api.cpp `set_num_threads` / ParallelSieve::setNumThreads: inBetween(1, threads, maxThreads) -/
def setNumThreads (threads maxThreads : Int) : Int :=
  if threads < 1 then 1 else if threads > maxThreads then maxThreads else threads

/-- api.cpp `get_sieve_size()` in KiB; `user` = the value stored by set_sieve_size (0 = never set).
    size_t arithmetic wraps: `maxSize - 1` for maxSize = 0 is 2^64 - 1. -/
def getSieveSize (user : Nat) (c : CpuDesc) : Nat :=
  if user ≠ 0 then user
  else if c.hasL1 ∧ c.hasL2 then
    let l1Size := c.l1 / 1024
    let l2Size := c.l2 / 1024
    if c.hasS2 ∧ (c.s2 > 1 ∨ (c.hasS3 ∧ c.s3 > 1)) then
      let maxSize := l2Size / c.s2
      let maxSize := if c.s2 = 2 then floorPow2 maxSize else floorPow2 (sub64 maxSize 1)
      let maxSize := max l1Size maxSize
      let size := min (l1Size * 16) maxSize
      inBetween 16 size 8192
    else
      let maxSize := floorPow2 (sub64 l2Size 1)
      let maxSize := max l1Size maxSize
      let size := min (l1Size * 8) maxSize
      inBetween 16 size 8192
  else if c.hasL1 then inBetween 16 (c.l1 / 1024) 8192
  else inBetween 16 (Gen.L1D_CACHE_BYTES / 1024 * 8) 8192

/-- Erat::getL1CacheSize() in bytes -/
def getL1CacheSize (c : CpuDesc) : Nat := if c.hasL1 then c.l1 else Gen.L1D_CACHE_BYTES

end Ps
