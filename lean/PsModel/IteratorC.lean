/-
  PsModel.IteratorC — the C iterator (include/primesieve/iterator.h, src/iterator-c.cpp).
  Same refill logic as the C++ iterator, but instead of propagating an exception the catch
  handler resets the iterator (primesieve_clear), stores the single value PRIMESIEVE_ERROR
  (= UINT64_MAX) in the buffer, sets `is_error` and errno = EDOM.
-/
import PsModel.Iterator

namespace Ps

structure CIter where
  it : Iter
  isError : Bool
  /-- errno == EDOM has been set by some call so far -/
  edom : Bool
  deriving Repr, DecidableEq

/-- primesieve_init -/
def CIter.init : CIter := { it := Iter.mk' 0 umax, isError := false, edom := false }

/-- state left by the catch handler of primesieve_generate_next_primes -/
def cErrStateNext : Iter :=
  { Iter.mk' 0 umax with buf := [umax], size := 1, i := 0, stop := umax }

/-- state left by the catch handler of primesieve_generate_prev_primes -/
def cErrStatePrev : Iter :=
  { Iter.mk' 0 umax with buf := [umax], size := 1, i := 1 }

/-- the loop of primesieve_generate_next_primes (no rollback: the C handler resets) -/
def cGenerateNext (env : Env) (k : Nat) (st : Iter) : Except Err Iter := st.generateNext env k

/-- primesieve_next_prime -/
def CIter.next (env : Env) (c : CIter) (k : Nat) : Nat × CIter :=
  let i1 := c.it.i + 1
  if i1 ≥ c.it.size then
    match cGenerateNext env k c.it with
    | .ok it' => (it'.buf.getD it'.i 0, { c with it := it' })
    | .error _ => (umax, { it := cErrStateNext, isError := true, edom := true })
  else (c.it.buf.getD i1 0, { c with it := { c.it with i := i1 } })

/-- primesieve_prev_prime (generate_prev_primes cannot fail except by allocation) -/
def CIter.prev (env : Env) (c : CIter) : Nat × CIter :=
  let r := c.it.prev env
  (r.1, { c with it := r.2 })

/-- primesieve_jump_to / skipto / clear keep `is_error` as it is (only primesieve_init resets it) -/
def CIter.jumpTo (c : CIter) (s h : Nat) : CIter := { c with it := c.it.jumpTo s h }
def CIter.skipTo (c : CIter) (s h : Nat) : CIter := { c with it := c.it.skipTo s h }
def CIter.clear (c : CIter) : CIter := { c with it := c.it.clear }

def CIter.step (env : Env) (c : CIter) : Op → Out × CIter
  | .next k => let r := c.next env k; (.val r.1, r.2)
  | .prev => let r := c.prev env; (.val r.1, r.2)
  | .jumpTo s h => (.unit, c.jumpTo s h)
  | .skipTo s h => (.unit, c.skipTo s h)
  | .clear => (.unit, c.clear)
  | .moveIn => (.unit, c)
  | .moveOut => (.unit, { c with it := Iter.movedFrom })

def CIter.run (env : Env) : CIter → List Op → List Out
  | _, [] => []
  | c, op :: ops => let r := c.step env op; r.1 :: CIter.run env r.2 ops

end Ps
