/-
  PsModel.Store — primesieve::store_primes / store_n_primes (include/primesieve/StorePrimes.hpp)
  over the iterator model.  The destination vector is modelled by the list of appended elements
  (elements already present are never touched: the code only calls reserve / insert(end) / push_back).
  `vmax` = std::numeric_limits<V>::max() of the element type.  `kf j` is the block-length policy value
  of the j-th generate_next_primes call, `fuel` bounds the number of refills (the theorems show how
  much fuel always suffices, i.e. that the C++ loops terminate).
-/
import PsModel.Iterator

namespace Ps

/-- `maxPrime64bits` of StorePrimes.hpp -/
def storeMaxPrime : Nat := 18446744073709551557

inductive StoreRes where
  | ok (appended : List Nat)
  | throw (appended : List Nat) (e : Err)
  deriving Repr, DecidableEq

/-- `for (; it.primes_[it.size_ - 1] <= limit; it.generate_next_primes()) primes.insert(end, block)` -/
def storeBlocks (env : Env) (limit : Nat) (kf : Nat → Nat) :
    Nat → Nat → Iter → List Nat → Option (Except Err Iter × List Nat)
  | 0, _, _, _ => none
  | fuel + 1, j, it, acc =>
    if it.buf.getD (it.size - 1) 0 ≤ limit then
      match it.generateNext env (kf j) with
      | .error e => some (.error e, acc ++ it.buf)
      | .ok it' => storeBlocks env limit kf fuel (j + 1) it' (acc ++ it.buf)
    else some (.ok it, acc)

/-- store_primes(start, stop, primes); `none` = out of fuel -/
def storePrimes (env : Env) (kf : Nat → Nat) (fuel start stop vmax : Nat) : Option StoreRes :=
  if start > stop then some (.ok [])
  else if start > storeMaxPrime then some (.ok [])
  else if stop > vmax then some (.throw [] .invalid)
  else
    match (Iter.mk' start stop).generateNext env (kf 0) with
    | .error e => some (.throw [] e)
    | .ok it =>
      let limit := min stop (storeMaxPrime - 1)
      match storeBlocks env limit kf fuel 1 it [] with
      | none => none
      | some (.error e, acc) => some (.throw acc e)
      | some (.ok it', acc) =>
        let acc := acc ++ it'.buf.takeWhile (· ≤ limit)
        some (.ok (if stop ≥ storeMaxPrime then acc ++ [storeMaxPrime] else acc))

/-- `while (n >= it.size_) { type check; insert block; n -= size; if (n == 0) return; generate_next_primes(); }` -/
def storeNBlocks (env : Env) (vmax : Nat) (kf : Nat → Nat) :
    Nat → Nat → Nat → Iter → List Nat → Option (Except (List Nat × Err) (Nat × Iter × List Nat))
  | 0, _, _, _, _ => none
  | fuel + 1, j, n, it, acc =>
    if n ≥ it.size then
      if it.buf.getD (it.size - 1) 0 > vmax then some (.error (acc, .invalid))
      else
        let acc := acc ++ it.buf
        let n := n - it.size
        if n = 0 then some (.ok (0, it, acc))
        else
          match it.generateNext env (kf j) with
          | .error e => some (.error (acc, e))
          | .ok it' => storeNBlocks env vmax kf fuel (j + 1) n it' acc
    else some (.ok (n, it, acc))

/-- store_n_primes(n, start, primes); `hintStop` = start + (uint64_t)(n * (log x + log log x)) (a
    double computation; only used as stop hint) -/
def storeNPrimes (env : Env) (kf : Nat → Nat) (fuel n start hintStop vmax : Nat) : Option StoreRes :=
  if n = 0 then some (.ok [])
  else
    match (Iter.mk' start hintStop).generateNext env (kf 0) with
    | .error e => some (.throw [] e)
    | .ok it =>
      match storeNBlocks env vmax kf fuel 1 n it [] with
      | none => none
      | some (.error (acc, e)) => some (.throw acc e)
      | some (.ok (n', it', acc)) =>
        if n' = 0 then some (.ok acc)
        else if it'.buf.getD (n' - 1) 0 > vmax then some (.throw acc .invalid)
        else some (.ok (acc ++ it'.buf.take n'))

end Ps
