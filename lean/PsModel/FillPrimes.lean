/-
  PsModel.FillPrimes — the index arithmetic of PrimeGenerator: buffer sizing in initNextPrimes,
  the small-prime table copy, and the write pattern of fillNextPrimes / fillPrevPrimes in the
  default (4-way unrolled, stop 64 before the end) and AVX512 (8-lane stores, stop 8 before the
  end) variants.  Only indices are modelled here: which slots of `primes` get written.
  Mathlib-free.
-/
import PsModel.Basic
import PsModel.Generated.Consts

namespace Ps.Fill

/-- PrimeGenerator::getStartIdx(): primePi[start-1] for start > 1 -/
def getStartIdx (start : Nat) : Nat := if start > 1 then Gen.primePi720.getD (start - 1) 0 else 0

/-- PrimeGenerator::getStopIdx(): primePi[stop] below the last cached prime, else the table size -/
def getStopIdx (stop : Nat) : Nat :=
  if stop < Gen.maxCachedPrime then Gen.primePi720.getD stop 0 else Gen.smallPrimes128.length

/-- the `resize` lambda of initNextPrimes: grow only -/
def growTo (old req : Nat) : Nat := if req > old then req else old

/-- initNextPrimes: (primes.size() afterwards, *size); `old` = primes.size() before,
    `pixU` = primeCountUpper(start, stop) (a floating-point value: arbitrary) -/
def initNextSizes (old start stop pixU : Nat) : Nat × Nat :=
  let maxSize := 1024
  if start ≤ Gen.maxCachedPrime then
    let size := getStopIdx stop - getStartIdx start
    if stop < Gen.maxCachedPrime + 2 then (growTo old size, size)
    else
      let minSize := size + 64
      let pix := inBetween minSize (pixU + 64) maxSize
      (growTo old (max size pix), size)
  else (growTo old (inBetween 64 (pixU + 64) maxSize), 0)

/-- indices written for one 64-bit sieve word by the default variant: the do/while stores
    primes[j..j+3] for j = i, i+4, … while j < i + popcount (at least once) -/
def writesDefault (i pc : Nat) : List Nat := List.range' i (4 * max 1 ((pc + 3) / 4))

/-- indices written for one word by the AVX512 variant: _mm512_storeu_si512 of 8 lanes at
    offsets 0, 8, … while the offset is below the popcount (at least once) -/
def writesAvx (i pc : Nat) : List Nat := List.range' i (8 * max 1 ((pc + 7) / 8))

/-- the inner do/while of fillNextPrimes_default over the words of one segment (their
    popcounts): all indices written and the final `i`.  The loop body runs at least once
    and continues while `i ≤ maxSize - 64` and words remain. -/
def fillDefault (maxSize : Nat) : List Nat → Nat → List Nat × Nat
  | [], i => ([], i)
  | pc :: rest, i =>
    let w := writesDefault i pc
    let i' := i + pc
    if i' ≤ maxSize - 64 then
      let r := fillDefault maxSize rest i'
      (w ++ r.1, r.2)
    else (w, i')

/-- the `while (sieveIdx < sieveSize)` loop of fillNextPrimes_x86_avx512: break when fewer than
    8 slots would remain after this word -/
def fillAvx (maxSize : Nat) : List Nat → Nat → List Nat × Nat
  | [], i => ([], i)
  | pc :: rest, i =>
    if i + pc > maxSize - 8 then ([], i)
    else
      let r := fillAvx maxSize rest (i + pc)
      (writesAvx i pc ++ r.1, r.2)

/-- fillPrevPrimes_default: the buffer is grown to i + 64 whenever fewer than 64 slots remain -/
def fillPrevDefault : List Nat → Nat → Nat → List (Nat × Nat) × Nat × Nat
  | [], i, cap => ([], i, cap)
  | pc :: rest, i, cap =>
    let cap' := if i + 64 > cap then i + 64 else cap
    let r := fillPrevDefault rest (i + pc) cap'
    ((writesDefault i pc).map (fun k => (k, cap')) ++ r.1, r.2)

/-- `nextPrime(bits, low)` reads bitValues[ctz64(bits)]; ctz64(0) = 64 -/
def ctz64 (bits : Nat) : Nat := if bits % 2 ^ 64 = 0 then 64 else ((List.range 64).find? (fun k => bits.testBit k)).getD 64

end Ps.Fill
