/-
  PsModel.Wheel — wheel factorisation as used by the cross-off algorithms
  (include/primesieve/Wheel.hpp, src/EratSmall.cpp, src/EratMedium.cpp, src/EratBig.cpp).

  A sieving prime p = 30·sp + pr (pr = p % 30) is stored as (sp, multipleIndex, wheelIndex):
  its next multiple p·q to cross off is the number segmentLow + 30·multipleIndex + offs[bit],
  and wheelIndex = r·SIZE + k encodes r = the class of p (pr = primeRes[r]) and k = the class of
  the quotient q among the residues coprime to the wheel's modulus M (30: SIZE 8, 210: SIZE 48).
  One cross-off step clears `bit`, adds sp·F + C to multipleIndex and moves to class k+1.

  The tables themselves are regenerated from the sources (PsModel.Generated.Wheel); this file
  defines what they must contain (`specRow`) and the executable step functions.  Mathlib-free.
-/
import PsModel.Basic
import PsModel.Generated.Wheel

namespace Ps.Wheel

/-- offsets of the 8 bits of a sieve byte -/
def offs : List Nat := [7, 11, 13, 17, 19, 23, 29, 31]
/-- p % 30 for the prime class r (the order of wheelOffsets_: 7, 11, 13, 17, 19, 23, 29, 31≡1) -/
def primeRes : List Nat := [7, 11, 13, 17, 19, 23, 29, 1]

/-- index of the bit that represents a number ≡ x (mod 30), x coprime to 30 (8 = none) -/
def bitIdx (x : Nat) : Nat := (offs.findIdx? (fun o => o % 30 = x % 30)).getD 8

/-- the residues coprime to M, ascending -/
def cls (M : Nat) : List Nat := (List.range M).filter (fun x => Nat.gcd x M = 1)

/-- class k continued periodically: cls[k mod size] + M·(k / size) -/
def clsAt (M k : Nat) : Nat := (cls M).getD (k % (cls M).length) 0 + M * (k / (cls M).length)

/-- what row (r, k) of a wheel-M cross-off table must contain: (bit, F, C, next wheelIndex) -/
def specRow (M r k : Nat) : Nat × Nat × Nat × Nat :=
  let pr := primeRes.getD r 0
  let c := clsAt M k
  let c' := clsAt M (k + 1)
  let F := c' - c
  let b := bitIdx (pr * c)
  let b' := bitIdx (pr * c')
  (b, F, (offs.getD b 0 + pr * F - offs.getD b' 0) / 30, r * (cls M).length + (k + 1) % (cls M).length)

def specRows (M : Nat) : List (Nat × Nat × Nat × Nat) :=
  (List.range (8 * (cls M).length)).map (fun w => specRow M (w / (cls M).length) (w % (cls M).length))

/-- what INIT[x] of Wheel::addSievingPrime must contain for x = quotient % M: the distance to the
    next residue coprime to M and that residue's class index -/
def specInit (M x : Nat) : Nat × Nat :=
  let d := ((List.range M).find? (fun d => Nat.gcd (x + d) M = 1)).getD 0
  (d, (cls M).idxOf ((x + d) % M))

/-! ### executable steps, on the regenerated tables -/

structure SP where
  sp : Nat      -- sievingPrime = prime / 30
  idx : Nat     -- multipleIndex
  w : Nat       -- wheelIndex
  deriving Repr, DecidableEq, Inhabited

/-- one single-step case of EratSmall / EratMedium: (bit cleared at byte idx, new state before
    the `i >= sieveSize` test); `next w` = w+1 within the group of 8 (the for(;;) wraps) -/
def step30 (rows : List (Nat × Nat × Nat)) (s : SP) : Nat × SP :=
  let row := rows.getD s.w (0, 0, 0)
  (row.1, { sp := s.sp, idx := s.idx + s.sp * row.2.1 + row.2.2, w := s.w / 8 * 8 + (s.w + 1) % 8 })

/-- one step of EratBig::crossOff (before the `>> log2SieveSize` split) -/
def step210 (s : SP) : Nat × SP :=
  let row := Gen.wheel210.getD s.w (0, 0, 0, 0)
  (row.1, { sp := s.sp, idx := s.idx + row.2.1 * s.sp + row.2.2.1, w := row.2.2.2 })

/-- Wheel::addSievingPrime (MODULO M, SIZE size, INIT init): none = "prime not needed for
    sieving"; arithmetic is uint64_t (mul64 wraps; the two guards catch the wrap) -/
def addSievingPrime (M size : Nat) (init : List (Nat × Nat)) (stop prime segmentLow0 : Nat) : Option SP :=
  let segmentLow := add64 segmentLow0 6
  let quotient := max prime (segmentLow / prime + 1)
  let multiple := mul64 prime quotient
  if multiple > stop ∨ multiple < segmentLow then none
  else
    let e := init.getD (quotient % M) (0, 0)
    let nextMultiple := mul64 prime e.1
    if nextMultiple > stop - multiple then none
    else
      let multiple := multiple + nextMultiple
      some { sp := prime / 30, idx := (multiple - segmentLow) / 30,
             w := Gen.wheelOffsetUnits.getD (prime % 30) 0 * size + e.2 }

/-- the same function over unbounded integers: what addSievingPrime computes when nothing wraps -/
def addSievingPrimeExact (M size : Nat) (init : List (Nat × Nat)) (stop prime segmentLow0 : Nat) : Option SP :=
  let segmentLow := segmentLow0 + 6
  let quotient := max prime (segmentLow / prime + 1)
  let multiple := prime * quotient
  if multiple > stop then none
  else
    let e := init.getD (quotient % M) (0, 0)
    let nextMultiple := prime * e.1
    if multiple + nextMultiple > stop then none
    else
      some { sp := prime / 30, idx := (multiple + nextMultiple - segmentLow) / 30,
             w := Gen.wheelOffsetUnits.getD (prime % 30) 0 * size + e.2 }

end Ps.Wheel
