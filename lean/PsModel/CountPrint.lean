/-
  PsModel.CountPrint — PrimeSieve::sieve (src/PrimeSieve.cpp) and CountPrintPrimes
  (src/CountPrintPrimes.cpp) over an *ideal* segmented sieve: byte m of the sieve covers the
  numbers base + 30m + {7,11,13,17,19,23,29,31}; a bit is 1 iff the number is prime and lies in
  [start, stop].  Segment boundaries are byte aligned and all counting / printing is per byte
  (or per 8-byte word whose padding bytes are 0), so the segmentation is not visible here.
-/
import PsModel.Erat
import PsModel.Iterator
import PsModel.Generated.Tables

namespace Ps

/-- offsets of the 8 bits of a sieve byte (bitValues[0..7]) -/
def bitOffsets : List Nat := Gen.bitValues.take 8

/-- little-endian bits to number -/
def bitsToNat : List Bool → Nat
  | [] => 0
  | b :: bs => b.toNat + 2 * bitsToNat bs

/-- the 8 bits of byte m of the ideal sieve over [start, stop] whose grid starts at `base` -/
def idealBits (isP : Nat → Bool) (start stop base m : Nat) : List Bool :=
  bitOffsets.map (fun o =>
    decide (start ≤ base + 30 * m + o) && decide (base + 30 * m + o ≤ stop) && isP (base + 30 * m + o))

/-- byte m of the ideal sieve over [start, stop] whose grid starts at `base` -/
def idealByte (isP : Nat → Bool) (start stop base m : Nat) : Nat :=
  bitsToNat (idealBits isP start stop base m)

/-- number of 1 bits of a byte -/
def popcount8 (b : Nat) : Nat := ((List.range 8).filter (fun i => b.testBit i)).length

/-- CountPrintPrimes::initCounts: number of bitmasks of row i contained in byte j; the walk over
    the row stops at the first mask > j (the ~0ull sentinel at the latest) -/
def kCount (row : List Nat) (j : Nat) : Nat :=
  ((row.takeWhile (fun b => b ≤ j)).filter (fun b => j &&& b = b)).length

/-- the six counters of PrimeSieve -/
abbrev Counts := List Nat

def isFlag (flags bit : Nat) : Bool := flags &&& bit = bit

/-- PrimeSieve::processSmallPrimes, counting part: +1 on counter `index` for each table row with
    first ≥ start ∧ last ≤ stop whose kind is being counted -/
def smallCounts (start stop flags : Nat) : Counts :=
  (List.range 6).map (fun i =>
    (Gen.psSmallPrimes.filter (fun r =>
      r.2.2.1 = i ∧ r.1 ≥ start ∧ r.2.1 ≤ stop ∧ isFlag flags (2 ^ i))).length)

/-- start of the byte grid of a CountPrintPrimes run: Erat::init's segmentLow for max(start,7) -/
def gridBase (start : Nat) : Nat := max start 7 - byteRemainder (max start 7)

/-- number of sieve bytes of a CountPrintPrimes run over [max(start,7), stop] -/
def gridBytes (start stop : Nat) : Nat := ((stop - byteRemainder stop) - gridBase start) / 30 + 1

/-- all bytes of the ideal sieve of a CountPrintPrimes run -/
def sieveBytes (isP : Nat → Bool) (start stop : Nat) : List Nat :=
  (List.range (gridBytes start stop)).map (idealByte isP (max start 7) stop (gridBase start))

/-- count of kind i (0 primes, 1 twins, …) in one sieve byte: CountPrintPrimes::countPrimes
    (popcount) resp. kCounts_[i][byte] -/
def byteCount (i byte : Nat) : Nat :=
  if i = 0 then popcount8 byte else kCount (Gen.bitmasks.getD i []) byte

/-- CountPrintPrimes over [max(start,7), stop]: counts per kind over all bytes -/
def sieveCounts (isP : Nat → Bool) (start stop flags : Nat) : Counts :=
  if max start 7 > stop then List.replicate 6 0
  else
    let bytes := sieveBytes isP start stop
    (List.range 6).map (fun i =>
      if !isFlag flags (2 ^ i) then 0 else (bytes.map (byteCount i)).sum)

/-- PrimeSieve::sieve(): counts of one (single-threaded) run -/
def primeSieveCounts (isP : Nat → Bool) (start stop flags : Nat) : Counts :=
  if start > stop then List.replicate 6 0
  else
    let small := if start ≤ 5 then smallCounts start stop flags else List.replicate 6 0
    let big := if stop ≥ 7 then sieveCounts isP start stop flags else List.replicate 6 0
    List.zipWith (· + ·) small big

/-! ### printing (PRINT_PRIMES = 64 << 0 … PRINT_SEXTUPLETS = 64 << 5) -/

/-- `nextPrime(bits, low)` for every 1 bit of a byte, ascending: low + bitValues[k] -/
def byteNumbers (byte low : Nat) : List Nat :=
  (bitOffsets.zipIdx.filter (fun ok => byte.testBit ok.2)).map (fun ok => low + ok.1)

/-- "(a, b, c)" -/
def tupleStr (l : List Nat) : String := "(" ++ ", ".intercalate (l.map toString) ++ ")"

/-- CountPrintPrimes::printkTuplets for one byte: one line per bitmask of row i contained in it -/
def byteTuplets (row : List Nat) (byte low : Nat) : List (List Nat) :=
  ((row.takeWhile (fun b => b ≤ byte)).filter (fun b => byte &&& b = b)).map (fun b => byteNumbers b low)

/-- lines printed by processSmallPrimes -/
def smallLines (start stop flags : Nat) : List String :=
  (Gen.psSmallPrimes.filter (fun r =>
      r.1 ≥ start ∧ r.2.1 ≤ stop ∧ isFlag flags (64 * 2 ^ r.2.2.1))).map (fun r => r.2.2.2)

/-- the kind that printkTuplets prints: the first i ≥ 1 with isPrint(i) -/
def printKind (flags : Nat) : Nat :=
  ((List.range 6).filter (fun i => i ≥ 1 ∧ isFlag flags (64 * 2 ^ i))).headD 0

/-- numbers printed by printPrimes over all bytes -/
def sievePrimeNumbers (isP : Nat → Bool) (start stop : Nat) : List Nat :=
  if max start 7 > stop then []
  else
    ((List.range (gridBytes start stop)).map (fun m =>
      byteNumbers (idealByte isP (max start 7) stop (gridBase start) m) (gridBase start + 30 * m))).flatten

/-- tuplets printed by printkTuplets over all bytes -/
def sieveTuplets (isP : Nat → Bool) (start stop kind : Nat) : List (List Nat) :=
  if max start 7 > stop then []
  else
    ((List.range (gridBytes start stop)).map (fun m =>
      byteTuplets (Gen.bitmasks.getD kind []) (idealByte isP (max start 7) stop (gridBase start) m)
        (gridBase start + 30 * m))).flatten

/-- PrimeSieve::sieve() with print flags: the lines written to stdout (single-threaded; per
    segment primes are printed before k-tuplets, so with both flags the output interleaves per
    segment — the public API only ever sets one print flag, and so does this model) -/
def primeSievePrint (isP : Nat → Bool) (start stop flags : Nat) : List String :=
  if start > stop then []
  else
    let small := if start ≤ 5 then smallLines start stop flags else []
    let big :=
      if stop ≥ 7 then
        if isFlag flags 64 then (sievePrimeNumbers isP start stop).map toString
        else if printKind flags ≥ 1 then (sieveTuplets isP start stop (printKind flags)).map tupleStr
        else []
      else []
    small ++ big

end Ps
