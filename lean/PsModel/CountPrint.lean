/-
  PsModel.CountPrint — PrimeSieve::sieve (src/PrimeSieve.cpp) and CountPrintPrimes
  (src/CountPrintPrimes.cpp) over an *ideal* segmented sieve: byte m of the sieve covers the
  numbers base + 30m + {7,11,13,17,19,23,29,31}; a bit is 1 iff the number is prime and lies in
  [start, stop].  Segment boundaries are byte aligned and all counting / printing is per byte
  (or per 8-byte word whose padding bytes are 0), so the segmentation is not visible here.
-/
import PsModel.Erat
import PsModel.Iterator
import PsModel.Generated.Tables

namespace Ps

/-- offsets of the 8 bits of a sieve byte (bitValues[0..7]) -/
def bitOffsets : List Nat := Gen.bitValues.take 8

/-- byte m of the ideal sieve over [start, stop] whose grid starts at `base` -/
def idealByte (isP : Nat → Bool) (start stop base m : Nat) : Nat :=
  (bitOffsets.zipIdx.map (fun ob =>
    let n := base + 30 * m + ob.1
    if start ≤ n ∧ n ≤ stop ∧ isP n then 2 ^ ob.2 else 0)).sum

/-- number of 1 bits of a byte -/
def popcount8 (b : Nat) : Nat := ((List.range 8).filter (fun i => b.testBit i)).length

/-- CountPrintPrimes::initCounts: number of bitmasks of row i contained in byte j; the walk over
    the row stops at the first mask > j (the ~0ull sentinel at the latest) -/
def kCount (row : List Nat) (j : Nat) : Nat :=
  ((row.takeWhile (fun b => b ≤ j)).filter (fun b => j &&& b = b)).length

/-- the six counters of PrimeSieve -/
abbrev Counts := List Nat

def isFlag (flags bit : Nat) : Bool := flags &&& bit = bit

/-- PrimeSieve::processSmallPrimes, counting part: +1 on counter `index` for each table row with
    first ≥ start ∧ last ≤ stop whose kind is being counted -/
def smallCounts (start stop flags : Nat) : Counts :=
  (List.range 6).map (fun i =>
    (Gen.psSmallPrimes.filter (fun r =>
      r.2.2.1 = i ∧ r.1 ≥ start ∧ r.2.1 ≤ stop ∧ isFlag flags (2 ^ i))).length)

/-- CountPrintPrimes over [max(start,7), stop]: counts per kind over all bytes -/
def sieveCounts (isP : Nat → Bool) (start stop flags : Nat) : Counts :=
  let s7 := max start 7
  if s7 > stop then List.replicate 6 0
  else
    let base := s7 - byteRemainder s7
    let nbytes := ((stop - byteRemainder stop) - base) / 30 + 1
    let bytes := (List.range nbytes).map (idealByte isP s7 stop base)
    (List.range 6).map (fun i =>
      if !isFlag flags (2 ^ i) then 0
      else if i = 0 then (bytes.map popcount8).sum
      else (bytes.map (kCount (Gen.bitmasks.getD i []))).sum)

/-- PrimeSieve::sieve(): counts of one (single-threaded) run -/
def primeSieveCounts (isP : Nat → Bool) (start stop flags : Nat) : Counts :=
  if start > stop then List.replicate 6 0
  else
    let small := if start ≤ 5 then smallCounts start stop flags else List.replicate 6 0
    let big := if stop ≥ 7 then sieveCounts isP start stop flags else List.replicate 6 0
    List.zipWith (· + ·) small big

end Ps
