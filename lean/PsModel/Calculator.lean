/-
  PsModel.Calculator — include/primesieve/calculator.hpp (ExpressionParser<T>) as written:
  operator-precedence parser with an explicit operator stack, the overflow-checked
  arithmetic of `checkedAdd/Sub/Mul/Div/Mod/Shift`, `pow` by squaring, hex / decimal
  literals, unary `+ - ~`, parentheses.  Mathlib-free (imported by the compiled driver).

  The parser is generic over the arithmetic (`Arith`): the instances `Arith.ofTy t` are the C++
  code at `T = uint64_t / int / int64_t`; `Arith.exact t` is unbounded integer arithmetic (the
  specification: "the exact integer value").  Values of type `T` are `Int`s.
-/
namespace Ps.Calc

inductive CErr where
  | syntax | overflow | divZero | fuel
  deriving DecidableEq, Repr, Inhabited

/-- an integer type `T` of the C++ template: numeric_limits<T>::min(), max(), digits -/
structure Ty where
  min : Int
  max : Int
  digits : Nat
  deriving Repr

def u64 : Ty := ⟨0, 18446744073709551615, 64⟩
def i32 : Ty := ⟨-2147483648, 2147483647, 31⟩
def i64 : Ty := ⟨-9223372036854775808, 9223372036854775807, 63⟩

def Ty.InR (t : Ty) (z : Int) : Prop := t.min ≤ z ∧ z ≤ t.max
instance (t : Ty) (z : Int) : Decidable (t.InR z) := by unfold Ty.InR; exact inferInstance

/-- the arithmetic the parser is instantiated with -/
structure Arith where
  add : Int → Int → Except CErr Int
  sub : Int → Int → Except CErr Int
  mul : Int → Int → Except CErr Int
  div : Int → Int → Except CErr Int     -- divisor already checked ≠ 0
  mod : Int → Int → Except CErr Int
  shl : Int → Int → Except CErr Int
  shr : Int → Int → Except CErr Int
  compl : Int → Int
  lor : Int → Int → Int
  land : Int → Int → Int

/-! ### the checked operations of calculator.hpp, as written (T = t) -/

def checkedAdd (t : Ty) (x y : Int) : Except CErr Int :=
  if (if y > 0 then x > t.max - y else x < t.min - y) then .error .overflow else .ok (x + y)

def checkedSub (t : Ty) (x y : Int) : Except CErr Int :=
  if (if y > 0 then x < t.min + y else x > t.max + y) then .error .overflow else .ok (x - y)

/-- C++ `/` truncates towards zero: `Int.tdiv` -/
def checkedMul (t : Ty) (x y : Int) : Except CErr Int :=
  if x = 0 ∨ y = 0 then .ok 0
  else if (if x > 0 then (if y > 0 then x > t.max.tdiv y else y < t.min.tdiv x)
           else (if y > 0 then x < t.min.tdiv y else x < t.max.tdiv y)) then .error .overflow
  else .ok (x * y)

def checkedDiv (t : Ty) (x y : Int) : Except CErr Int :=
  if y < 0 ∧ y + 1 = 0 ∧ x = t.min then .error .overflow else .ok (x.tdiv y)

def checkedMod (_t : Ty) (x y : Int) : Except CErr Int :=
  if y < 0 ∧ y + 1 = 0 then .ok 0 else .ok (x.tmod y)

def checkedShift (t : Ty) (x n : Int) (left : Bool) : Except CErr Int :=
  if n < 0 ∨ n ≥ (t.digits : Int) then .error .overflow
  else if !left then .ok (x >>> n.toNat)
  else if x < 0 ∨ x > (t.max >>> n.toNat) then .error .overflow
  else .ok (x <<< n.toNat)

/-- `~v` at type T: all bits flipped.  signed: -v-1; unsigned: max - v -/
def complT (t : Ty) (v : Int) : Int := if t.min < 0 then -v - 1 else t.max - v

/-- number of value bits + sign bit -/
def Ty.bits (t : Ty) : Nat := if t.min < 0 then t.digits + 1 else t.digits
/-- two's-complement bit pattern of an in-range value -/
def toU (t : Ty) (x : Int) : Nat := (x % (2 ^ t.bits : Int)).toNat
def ofU (t : Ty) (n : Nat) : Int := if t.min < 0 ∧ n ≥ 2 ^ (t.bits - 1) then (n : Int) - 2 ^ t.bits else n
/-- `v1 | v2`, `v1 & v2` on the bit patterns -/
def lorT (t : Ty) (x y : Int) : Int := ofU t (toU t x ||| toU t y)
def landT (t : Ty) (x y : Int) : Int := ofU t (toU t x &&& toU t y)

def Arith.ofTy (t : Ty) : Arith where
  add := checkedAdd t
  sub := checkedSub t
  mul := checkedMul t
  div := checkedDiv t
  mod := checkedMod t
  shl := fun x n => checkedShift t x n true
  shr := fun x n => checkedShift t x n false
  compl := complT t
  lor := lorT t
  land := landT t

/-- unbounded integer arithmetic: the exact value of every operation (shift counts must still be
    in [0, digits): a shift by more is not an integer operation the documentation defines) -/
def Arith.exact (t : Ty) : Arith where
  add := fun x y => .ok (x + y)
  sub := fun x y => .ok (x - y)
  mul := fun x y => .ok (x * y)
  div := fun x y => .ok (x.tdiv y)
  mod := fun x y => .ok (x.tmod y)
  shl := fun x n => if n < 0 ∨ n ≥ (t.digits : Int) then .error .overflow else .ok (x * 2 ^ n.toNat)
  shr := fun x n => if n < 0 ∨ n ≥ (t.digits : Int) then .error .overflow else .ok (x / 2 ^ n.toNat)
  compl := complT t
  lor := lorT t
  land := landT t

/-! ### pow by squaring (generic in the multiplication) -/

/-- `T pow(T x, T n)`; the C++ loop runs while n > 0, at most 64 rounds since n halves -/
def powLoop (A : Arith) : Nat → Int → Int → Int → Except CErr Int
  | 0, _, _, res => .ok res         -- unreachable for fuel ≥ 64 (n < 2^63 halves each round)
  | fuel + 1, x, n, res =>
    if n > 0 then
      (if n % 2 ≠ 0 then A.mul res x else .ok res) >>= fun res' =>
      let n1 := if n % 2 ≠ 0 then n - 1 else n
      let n2 := n1 / 2
      (if n2 > 0 then A.mul x x else .ok x) >>= fun x' =>
      powLoop A fuel x' n2 res'
    else .ok res

def pow (A : Arith) (x n : Int) : Except CErr Int := powLoop A 70 x n 1

/-! ### operators -/

inductive Op where
  | null | bor | band | shl | shr | add | sub | mul | div | mod | pow | exp
  deriving DecidableEq, Repr, Inhabited

structure Operator where
  op : Op
  prec : Nat
  left : Bool      -- associativity 'L'
  deriving Repr, Inhabited

def nullOp : Operator := ⟨.null, 0, true⟩

def calculate (A : Arith) (v1 v2 : Int) (o : Op) : Except CErr Int :=
  match o with
  | .bor => .ok (A.lor v1 v2)
  | .band => .ok (A.land v1 v2)
  | .shl => A.shl v1 v2
  | .shr => A.shr v1 v2
  | .add => A.add v1 v2
  | .sub => A.sub v1 v2
  | .mul => A.mul v1 v2
  | .div => if v2 = 0 then .error .divZero else A.div v1 v2
  | .mod => if v2 = 0 then .error .divZero else A.mod v1 v2
  | .pow => pow A v1 v2
  | .exp => pow A 10 v2 >>= fun p => A.mul v1 p
  | .null => .ok 0

/-! ### lexing helpers -/

abbrev Str := Array Char

def getCh (s : Str) (i : Nat) : Char := if h : i < s.size then s[i] else '\x00'

def isSpace (c : Char) : Bool :=
  c = ' ' ∨ c = '\t' ∨ c = '\n' ∨ c = '\x0b' ∨ c = '\x0c' ∨ c = '\r'

/-- eatSpaces: first index ≥ i that is not white space (bounded by the string length) -/
def eatSpaces (s : Str) : Nat → Nat → Nat
  | 0, i => i
  | fuel + 1, i => if isSpace (getCh s i) then eatSpaces s fuel (i + 1) else i

/-- toInteger(c): digit value, 16 = no digit -/
def toInteger (c : Char) : Nat :=
  if '0' ≤ c ∧ c ≤ '9' then c.toNat - '0'.toNat
  else if 'a' ≤ c ∧ c ≤ 'f' then c.toNat - 'a'.toNat + 10
  else if 'A' ≤ c ∧ c ≤ 'F' then c.toNat - 'A'.toNat + 10
  else 16

/-- digit loop of parseDecimal / parseHex: value = checkedAdd(checkedMul(value, base), d) -/
def digitLoop (A : Arith) (s : Str) (base : Nat) : Nat → Nat → Int → Except CErr (Int × Nat)
  | 0, i, v => .ok (v, i)
  | fuel + 1, i, v =>
    let d := toInteger (getCh s i)
    if d < base then
      A.mul v base >>= fun m => A.add m d >>= fun v' => digitLoop A s base fuel (i + 1) v'
    else .ok (v, i)

def isHex (s : Str) (i : Nat) : Bool :=
  if i + 2 < s.size then
    let x := getCh s (i + 1)
    (x = 'x' ∨ x = 'X') ∧ toInteger (getCh s (i + 2)) ≤ 15
  else false

/-- parseOp (after eatSpaces): operator and the index behind it; `<`/`>` must be doubled -/
def parseOp (s : Str) (i0 : Nat) : Except CErr (Operator × Nat) :=
  let i := eatSpaces s s.size i0
  let c := getCh s i
  if c = '|' then .ok (⟨.bor, 4, true⟩, i + 1)
  else if c = '&' then .ok (⟨.band, 6, true⟩, i + 1)
  else if c = '<' then (if getCh s i = '<' ∧ getCh s (i + 1) = '<' ∧ i + 1 < s.size then .ok (⟨.shl, 9, true⟩, i + 2) else .error .syntax)
  else if c = '>' then (if getCh s i = '>' ∧ getCh s (i + 1) = '>' ∧ i + 1 < s.size then .ok (⟨.shr, 9, true⟩, i + 2) else .error .syntax)
  else if c = '+' then .ok (⟨.add, 10, true⟩, i + 1)
  else if c = '-' then .ok (⟨.sub, 10, true⟩, i + 1)
  else if c = '/' then .ok (⟨.div, 20, true⟩, i + 1)
  else if c = '%' then .ok (⟨.mod, 20, true⟩, i + 1)
  else if c = '*' then (if getCh s (i + 1) ≠ '*' then .ok (⟨.mul, 20, true⟩, i + 1) else .ok (⟨.pow, 30, false⟩, i + 2))
  else if c = '^' then .ok (⟨.pow, 30, false⟩, i + 1)
  else if c = 'e' ∨ c = 'E' then .ok (⟨.exp, 40, false⟩, i + 1)
  else .ok (nullOp, i)

/-- the inner `while` of parseExpr: reduce while the new operator binds no tighter than the top of
    the stack.  Returns `(stack', value, finished)`; finished = the NULL sentinel was reached. -/
def reduce (A : Arith) (op : Operator) : List (Operator × Int) → Int → Except CErr (List (Operator × Int) × Int × Bool)
  | [], v => .ok ([], v, true)         -- cannot happen: the sentinel is always at the bottom
  | (top, tv) :: rest, v =>
    if op.prec < top.prec ∨ (op.prec = top.prec ∧ op.left) then
      if top.op = .null then .ok (rest, v, true)
      else calculate A tv v top.op >>= fun v' => reduce A op rest v'
    else .ok ((top, tv) :: rest, v, false)

mutual
/-- parseValue: value and the index behind it -/
def parseValue (A : Arith) (s : Str) : Nat → Nat → Except CErr (Int × Nat)
  | 0, _ => .error .fuel
  | fuel + 1, i0 =>
    let i := eatSpaces s s.size i0
    let c := getCh s i
    if c = '0' then
      (if isHex s i then digitLoop A s 16 s.size (i + 2) 0 else digitLoop A s 10 s.size i 0)
    else if '1' ≤ c ∧ c ≤ '9' then digitLoop A s 10 s.size i 0
    else if c = '(' then
      parseExpr A s fuel (i + 1) >>= fun (v, j) =>
      let j' := eatSpaces s s.size j
      if getCh s j' ≠ ')' then .error .syntax else .ok (v, j' + 1)
    else if c = '~' then parseValue A s fuel (i + 1) >>= fun (v, j) => .ok (A.compl v, j)
    else if c = '+' then parseValue A s fuel (i + 1)
    else if c = '-' then parseValue A s fuel (i + 1) >>= fun (v, j) => A.sub 0 v >>= fun v' => .ok (v', j)
    else .error .syntax

/-- parseExpr: push the sentinel, parse the left value, then shift/reduce -/
def parseExpr (A : Arith) (s : Str) : Nat → Nat → Except CErr (Int × Nat)
  | 0, _ => .error .fuel
  | fuel + 1, i => parseValue A s fuel i >>= fun (v, j) => exprLoop A s fuel [(nullOp, 0)] v j

/-- the outer `while (!stack_.empty())` of parseExpr -/
def exprLoop (A : Arith) (s : Str) : Nat → List (Operator × Int) → Int → Nat → Except CErr (Int × Nat)
  | 0, _, _, _ => .error .fuel
  | fuel + 1, stack, value, i =>
    parseOp s i >>= fun (op, j) =>
    reduce A op stack value >>= fun (stack', value', fin) =>
    if fin then .ok (value', j)
    else parseValue A s fuel j >>= fun (v2, k) => exprLoop A s fuel ((op, value') :: stack') v2 k
end

/-- number of recursive calls is bounded by 2·len + 3 (every nesting and every loop round consumes a
    character); the driver reports fuel exhaustion as its own outcome -/
def fuelFor (s : Str) : Nat := 2 * s.size + 8

/-- `T eval(const std::string& expr)` -/
def eval (A : Arith) (str : String) : Except CErr Int :=
  let s : Str := str.toList.toArray
  parseExpr A s (fuelFor s) 0 >>= fun (v, i) => if i ≥ s.size then .ok v else .error .syntax

def evalU64 (str : String) : Except CErr Int := eval (Arith.ofTy u64) str
def evalI32 (str : String) : Except CErr Int := eval (Arith.ofTy i32) str
def evalI64 (str : String) : Except CErr Int := eval (Arith.ofTy i64) str

end Ps.Calc
