/-
  PsModel.Iterator — executable model of primesieve::iterator
  (include/primesieve/iterator.hpp, src/iterator.cpp, src/IteratorHelper.cpp)
  over an *ideal* prime generator (`IGen`): a generator for [lo, stop] that hands
  out the primes of that interval in ascending order, in blocks whose length is
  chosen by the caller-supplied policy value `k` (the real PrimeGenerator chooses
  the block length from its sieve geometry; no result may depend on it).

  Floating-point sub-expressions of IteratorHelper.cpp are parameters (`Oracle`).
  The primality test is a parameter (`Env.isPrime`): theorems assume it decides
  `Nat.Prime`, the compiled driver instantiates it with a deterministic Miller-Rabin.
-/
import PsModel.Basic
import PsModel.Generated.Consts

namespace Ps

/-- Values of the floating-point sub-expressions of IteratorHelper.cpp / pmath.hpp. -/
structure Oracle where
  /-- `(uint64_t) std::sqrt((double) start)` in getNextDist -/
  sqrtU : Nat → Nat
  /-- `maxPrimeGap<uint64_t>(n)` = `(uint64_t) (log(max(8,n))^2)` -/
  maxPrimeGap : Nat → Nat
  /-- `(uint64_t) std::log(std::max(10.0, (double) stop))` in getPrevDist -/
  logU : Nat → Nat
  /-- `(uint64_t) (std::sqrt(stop) * 2)` in getPrevDist -/
  sqrt2U : Nat → Nat

structure Env where
  isPrime : Nat → Bool
  o : Oracle

/-- IteratorHelper.cpp `getNextDist` -/
def getNextDist (o : Oracle) (start dist : Nat) : Nat :=
  let minDist := o.sqrtU start
  let maxDist := 1152921504606846976 -- 1ull << 60
  let dist := mul64 dist 4
  let minDist := max minDist Gen.maxCachedPrime
  inBetween minDist dist maxDist

/-- IteratorHelper.cpp `getPrevDist` -/
def getPrevDist (o : Oracle) (stop dist : Nat) : Nat :=
  let logx := o.logU stop
  let minDist := mul64 (Gen.MIN_CACHE_ITERATOR / 8) logx
  let maxDist := mul64 (Gen.MAX_CACHE_ITERATOR / 8) logx
  let tinyDist := mul64 Gen.maxCachedPrime 4
  let defaultDist := o.sqrt2U stop
  let dist := mul64 dist 4
  let minDist := inBetween tinyDist dist minDist
  inBetween minDist defaultDist maxDist

/-- The ideal generator for the interval [lo, stop] (primes below `lo` were handed out). -/
structure IGen where
  lo : Nat
  stop : Nat
  deriving Repr, DecidableEq

/-- Scan `fuel` consecutive numbers starting at `pos`, collecting at most `k` numbers
    accepted by `isP`; returns the collected numbers (ascending) and the position
    after the last number looked at. -/
def scan (isP : Nat → Bool) : (fuel pos k : Nat) → (acc : List Nat) → List Nat × Nat
  | 0, pos, _, acc => (acc.reverse, pos)
  | _ + 1, pos, 0, acc => (acc.reverse, pos)
  | fuel + 1, pos, k + 1, acc =>
    if isP pos then scan isP fuel (pos + 1) k (pos :: acc)
    else scan isP fuel (pos + 1) (k + 1) acc

/-- `PrimeGenerator::fillNextPrimes` seen from outside: the next block (at most
    `max k 1` primes) of the primes in [lo, stop]; an empty block when there is none
    left; `primesieve_error` when there is none left and stop = 2^64-1. -/
def IGen.fillNext (env : Env) (g : IGen) (k : Nat) : Except Err (List Nat × IGen) :=
  let r := scan env.isPrime (g.stop + 1 - g.lo) g.lo (max k 1) []
  if r.1.isEmpty && g.stop ≥ umax then .error .overflow
  else .ok (r.1, { g with lo := r.2 })

/-- `PrimeGenerator::fillPrevPrimes` seen from outside: all primes of [a, b], preceded
    by the sentinel 0 when a ≤ 2. -/
def fillPrev (env : Env) (a b : Nat) : List Nat :=
  (if a ≤ 2 then [0] else []) ++ (scan env.isPrime (b + 1 - a) a (b + 1 - a) []).1

/-- primesieve::iterator together with its IteratorData. `buf` is primes_[0 .. size_).
    `memory_ == nullptr` is represented by the IteratorData it would be created with
    (stop = start_, dist = 0, include_start_number = true, no generator). -/
structure Iter where
  i : Nat
  size : Nat
  start : Nat
  hint : Nat
  buf : List Nat
  stop : Nat
  dist : Nat
  incl : Bool
  gen : Option IGen
  deriving Repr, DecidableEq

/-- `iterator(start, stop_hint)` -/
def Iter.mk' (start hint : Nat) : Iter :=
  { i := 0, size := 0, start := start, hint := hint, buf := [],
    stop := start, dist := 0, incl := true, gen := none }

/-- `iterator::jump_to(start, stop_hint)` -/
def Iter.jumpTo (_st : Iter) (start hint : Nat) : Iter := Iter.mk' start hint

/-- `iterator::clear()` = `jump_to(0)` (stop_hint defaults to UINT64_MAX) -/
def Iter.clear (st : Iter) : Iter := st.jumpTo 0 umax

/-- C API `primesieve_skipto(it, start, stop_hint)` -/
def Iter.skipTo (_st : Iter) (start hint : Nat) : Iter :=
  { Iter.mk' start hint with incl := false }

/-- state of a moved-from iterator (move constructor / move assignment source) -/
def Iter.movedFrom : Iter := Iter.mk' 0 umax

/-- `IteratorHelper::updateNext`: returns (start, stop, dist) -/
def updateNext (o : Oracle) (st : Iter) : Nat × Nat × Nat :=
  let start := if st.incl then st.stop else checkedAdd st.stop 1
  let dist := getNextDist o start st.dist
  let stop :=
    if st.hint ≥ start ∧ st.hint < umax then checkedAdd st.hint (o.maxPrimeGap st.hint)
    else checkedAdd start dist
  (start, stop, dist)

/-- `IteratorHelper::updatePrev`: returns (start, stop, dist) -/
def updatePrev (o : Oracle) (st : Iter) : Nat × Nat × Nat :=
  let stop := if st.incl then st.start else checkedSub st.start 1
  let dist := getPrevDist o stop st.dist
  let start := checkedSub stop dist
  let start :=
    if st.hint ≥ start ∧ st.hint ≤ stop then checkedSub st.hint (o.maxPrimeGap st.hint)
    else start
  (start, stop, dist)

theorem checkedAdd_cases (x y : Nat) :
    (checkedAdd x y = umax ∧ umax ≤ x + y) ∨ (checkedAdd x y = x + y ∧ x + y < umax) := by
  unfold checkedAdd; split <;> omega

theorem checkedSub_cases (x y : Nat) :
    (checkedSub x y = 0 ∧ x ≤ y) ∨ (checkedSub x y = x - y ∧ y < x) := by
  unfold checkedSub; split <;> omega

theorem updateNext_measure (o : Oracle) (st : Iter) (h : (updateNext o st).2.1 < umax) :
    2 * (umax - (updateNext o st).2.1) < 2 * (umax - st.stop) + (if st.incl then 1 else 0) := by
  unfold updateNext at *
  simp only at *
  generalize getNextDist o _ st.dist = d at *
  generalize o.maxPrimeGap st.hint = gp at *
  rcases checkedAdd_cases st.stop 1 with h1 | h1 <;>
  rcases checkedAdd_cases st.hint gp with h2 | h2 <;>
  rcases checkedAdd_cases (if st.incl then st.stop else checkedAdd st.stop 1) d with h3 | h3 <;>
  cases hi : st.incl <;> simp only [hi, if_true, if_false, Bool.false_eq_true] at * <;>
  split at h <;> split <;> simp_all <;> omega

theorem updatePrev_le (o : Oracle) (st : Iter) :
    (updatePrev o st).1 ≤ (updatePrev o st).2.1 := by
  unfold updatePrev
  simp only
  generalize getPrevDist o _ st.dist = d
  generalize o.maxPrimeGap st.hint = gp
  generalize (if st.incl then st.start else checkedSub st.start 1) = stop
  rcases checkedSub_cases stop d with h1 | h1 <;>
  rcases checkedSub_cases st.hint gp with h2 | h2 <;>
  split <;> omega

theorem updatePrev_measure (o : Oracle) (st : Iter) (h : 2 < (updatePrev o st).1) :
    2 * (updatePrev o st).1 < 2 * st.start + (if st.incl then 1 else 0) := by
  have hle := updatePrev_le o st
  have : (updatePrev o st).2.1 = (if st.incl then st.start else checkedSub st.start 1) := rfl
  rcases checkedSub_cases st.start 1 with h1 | h1 <;>
  cases hi : st.incl <;> simp only [hi, if_true, if_false, Bool.false_eq_true] at * <;> omega

/-- Loop of `iterator::generate_next_primes` from a state without generator:
    new chunk via updateNext, fill; an empty chunk moves on to the next chunk.
    The termination proof is the "every call returns" part of C01. -/
def genNextFresh (env : Env) (k : Nat) (st : Iter) : Except Err Iter :=
  let u := updateNext env.o st
  let g : IGen := { lo := u.1, stop := u.2.1 }
  match hf : g.fillNext env k with
  | .error e => .error e
  | .ok (blk, g') =>
    if hb : blk.isEmpty then
      have : u.2.1 < umax := by
        unfold IGen.fillNext at hf
        simp only at hf
        split at hf
        · cases hf
        · rename_i hc
          simp only [Except.ok.injEq, Prod.mk.injEq] at hf
          rw [hf.1] at hc
          simp only [hb, Bool.true_and, decide_eq_true_eq] at hc
          exact Nat.lt_of_not_le hc
      have := updateNext_measure env.o st this
      genNextFresh env k
        { st with start := u.1, stop := u.2.1, dist := u.2.2, incl := false,
                  gen := none, buf := [], size := 0, i := 0 }
    else
      .ok { st with start := u.1, stop := u.2.1, dist := u.2.2, incl := false,
                    gen := some g', buf := blk, size := blk.length, i := 0 }
termination_by 2 * (umax - st.stop) + (if st.incl then 1 else 0)

/-- position to which a failed `generate_next_primes` rolls the iterator back:
    the last prime of the buffer (exclusive), or the unchanged fresh position -/
def Iter.snapNext (st : Iter) : Nat × Bool :=
  if st.size > 0 then (st.buf.getD (st.size - 1) 0, false) else (st.start, st.incl)

def Iter.snapPrev (st : Iter) : Nat × Bool :=
  if st.size > 0 then (st.buf.getD 0 0, false) else (st.start, st.incl)

/-- roll-back performed by the catch handler of generate_next/prev_primes -/
def Iter.resetTo (st : Iter) (p : Nat × Bool) : Iter :=
  { Iter.mk' p.1 st.hint with incl := p.2 }

/-- `iterator::generate_next_primes()` -/
def Iter.generateNext (env : Env) (k : Nat) (st : Iter) : Except Err Iter :=
  match st.gen with
  | none => genNextFresh env k st
  | some g =>
    match g.fillNext env k with
    | .error e => .error e
    | .ok (blk, g') =>
      if blk.isEmpty then
        genNextFresh env k { st with gen := none, buf := [], size := 0, i := 0 }
      else
        .ok { st with gen := some g', buf := blk, size := blk.length, i := 0 }

/-- Loop of `iterator::generate_prev_primes` (do/while over chunks). -/
def genPrevLoop (env : Env) (st : Iter) : Iter :=
  let u := updatePrev env.o st
  let blk := fillPrev env u.1 u.2.1
  if hb : blk.isEmpty then
    have : 2 < u.1 := by
      apply Nat.lt_of_not_le
      intro hle
      simp [blk, fillPrev, hle] at hb
    have := updatePrev_measure env.o st this
    genPrevLoop env { st with start := u.1, stop := u.2.1, dist := u.2.2, incl := false,
                              gen := none, buf := [], size := 0, i := 0 }
  else
    { st with start := u.1, stop := u.2.1, dist := u.2.2, incl := false,
              gen := none, buf := blk, size := blk.length, i := blk.length }
termination_by 2 * st.start + (if st.incl then 1 else 0)

/-- `iterator::generate_prev_primes()` -/
def Iter.generatePrev (env : Env) (st : Iter) : Iter :=
  match st.gen with
  | none => genPrevLoop env st
  | some _ =>
    -- special case: generate_next_primes() was used before
    genPrevLoop env { st with start := st.buf.getD 0 0, gen := none }

/-- `iterator::next_prime()`; `k` is the block-length policy value used if a refill happens -/
def Iter.next (env : Env) (st : Iter) (k : Nat) : Except Err Nat × Iter :=
  let i1 := st.i + 1
  if i1 ≥ st.size then
    match st.generateNext env k with
    | .ok st' => (.ok (st'.buf.getD st'.i 0), st')
    | .error e => (.error e, st.resetTo st.snapNext)
  else (.ok (st.buf.getD i1 0), { st with i := i1 })

/-- `iterator::prev_prime()` -/
def Iter.prev (env : Env) (st : Iter) : Nat × Iter :=
  let st1 := if st.i = 0 then st.generatePrev env else st
  let i1 := st1.i - 1
  (st1.buf.getD i1 0, { st1 with i := i1 })

/-- `next_prime()` during which an allocation fails: only a call that refills the buffer allocates;
    the exception (std::bad_alloc) reaches the caller and the rollback guard repositions the
    iterator where it was.  A call that stays inside the buffer allocates nothing. -/
def Iter.nextFault (env : Env) (st : Iter) (k : Nat) : Except Err Nat × Iter :=
  if st.i + 1 ≥ st.size then (.error .badAlloc, st.resetTo st.snapNext) else st.next env k

/-- `prev_prime()` during which an allocation fails -/
def Iter.prevFault (env : Env) (st : Iter) : Except Err Nat × Iter :=
  if st.i = 0 then (.error .badAlloc, st.resetTo st.snapPrev)
  else let r := st.prev env; (.ok r.1, r.2)

/-- Operations of a history on one iterator. -/
inductive Op where
  | next (k : Nat)
  | prev
  | jumpTo (s h : Nat)
  | skipTo (s h : Nat)
  | clear
  | moveIn     -- continue with the object the iterator was moved into
  | moveOut    -- continue with the moved-from object
  deriving Repr, DecidableEq

inductive Out where
  | val (n : Nat)
  | err (e : Err)
  | unit
  deriving Repr, DecidableEq

def Iter.step (env : Env) (st : Iter) : Op → Out × Iter
  | .next k => match st.next env k with
    | (.ok v, st') => (.val v, st')
    | (.error e, st') => (.err e, st')
  | .prev => let r := st.prev env; (.val r.1, r.2)
  | .jumpTo s h => (.unit, st.jumpTo s h)
  | .skipTo s h => (.unit, st.skipTo s h)
  | .clear => (.unit, st.clear)
  | .moveIn => (.unit, st)
  | .moveOut => (.unit, Iter.movedFrom)

def Iter.run (env : Env) : Iter → List Op → List Out
  | _, [] => []
  | st, op :: ops => let r := st.step env op; r.1 :: Iter.run env r.2 ops

end Ps
