/-
  PsModel.Parallel — ParallelSieve (src/ParallelSieve.cpp): thread count, piece length,
  alignment of piece boundaries and the list of pieces handed to the workers.
  `isqrt` is the exact integer square root.
-/
import PsModel.Basic
import PsModel.Generated.Consts
import PsModel.CountPrint

namespace Ps

/-- ParallelSieve::idealNumThreads (numThreads = ParallelSieve::numThreads_) -/
def idealNumThreads (start stop numThreads minDist : Nat) : Nat :=
  if start > stop then 1
  else
    let threshold := max (Nat.sqrt stop / 5) minDist
    inBetween 1 ((stop - start) / threshold) numThreads

/-- ParallelSieve::getThreadDistance(threads); `minDist` = config::MIN_THREAD_DISTANCE -/
def getThreadDistance (start stop threads minDist : Nat) : Nat :=
  let dist := stop - start
  let balanced := mul64 (Nat.sqrt stop) 200
  let unbalanced := dist / threads
  let fastest := min balanced unbalanced
  let iters := dist / fastest
  let iters := (iters / threads) * threads
  let iters := max iters threads
  let threadDist := (dist - 1) / iters + 1
  let threadDist := max threadDist minDist
  threadDist + (30 - threadDist % 30)

/-- ParallelSieve::align(n) -/
def align (stop n : Nat) : Nat :=
  let n32 := checkedAdd n 32
  if n32 ≥ stop then stop else n32 - n % 30

/-- the i-th piece [lo, hi] computed by a worker in ParallelSieve::sieve -/
def piece (start stop td i : Nat) : Nat × Nat :=
  let a := add64 start (mul64 td i)
  let hi := align stop (checkedAdd a td)
  let lo := if a > start then add64 (align stop a) 1 else a
  (lo, hi)

/-- number of pieces: `iters = ((dist - 1) / threadDist) + 1` -/
def numPieces (start stop td : Nat) : Nat := (stop - start - 1) / td + 1

/-- all pieces in index order -/
def pieces (start stop td : Nat) : List (Nat × Nat) :=
  (List.range (numPieces start stop td)).map (piece start stop td)

/-- ParallelSieve::sieve(): counters after a run with `numThreads` threads available.
    `minDist` = config::MIN_THREAD_DISTANCE (or the verification override). -/
def parallelCounts (isP : Nat → Bool) (start stop flags numThreads minDist : Nat) : Counts :=
  if start > stop then List.replicate 6 0
  else
    let threads := idealNumThreads start stop numThreads minDist
    if threads = 1 then primeSieveCounts isP start stop flags
    else
      let td := getThreadDistance start stop threads minDist
      (pieces start stop td).foldl
        (fun acc p => List.zipWith (· + ·) acc (primeSieveCounts isP p.1 p.2 flags))
        (List.replicate 6 0)

end Ps
