/-
  PsModel.Erat — segment geometry of the segmented sieve (src/Erat.cpp:
  Erat::init, initAlgorithms, hasNextSegment, sieveSegment, sieveLastSegment,
  byteRemainder) and PrimeGenerator::initErat.

  The double-precision products `x * FACTOR_*` are parameters (`EratCfg`); the compiled
  driver instantiates them with IEEE doubles.  `isqrt` is modelled by the exact integer
  square root (pmath.hpp's correction loops make it exact).
-/
import PsModel.Basic
import PsModel.Generated.Consts

namespace Ps

/-- Erat::byteRemainder: n % 30 in the classes 7..36 (n ≥ 7) -/
def byteRemainder (n : Nat) : Nat := (n - 7) % 30 + 7

/-- pmath.hpp floorPow2 (largest power of two ≤ x, 0 for 0) -/
def floorPow2 (x : Nat) : Nat := if x = 0 then 0 else 2 ^ (Nat.log2 x)

structure EratCfg where
  /-- Erat::getL1CacheSize() in bytes -/
  l1CacheSize : Nat
  /-- `uint64_t(sqrtStop * config::FACTOR_SIEVESIZE)` -/
  mulSieveSize : Nat → Nat
  /-- `(uint64_t) (x * config::FACTOR_ERATSMALL)` -/
  mulSmall : Nat → Nat
  /-- `(uint64_t) (x * config::FACTOR_ERATMEDIUM)` -/
  mulMedium : Nat → Nat

/-- the Erat data members that determine the segments -/
structure EratGeom where
  start : Nat
  stop : Nat
  sieveSize : Nat          -- sieve_.size() in bytes
  segmentLow : Nat
  segmentHigh : Nat
  maxEratSmall : Nat
  maxEratMedium : Nat
  deriving Repr, DecidableEq

/-- default-constructed Erat (segmentLow_ = ~0, segmentHigh_ = 0): hasNextSegment() is false -/
def EratGeom.uninit (start stop : Nat) : EratGeom :=
  { start := start, stop := stop, sieveSize := 0, segmentLow := umax, segmentHigh := 0,
    maxEratSmall := 0, maxEratMedium := 0 }

def roundUp8 (x : Nat) : Nat := ceilDiv x 8 * 8

/-- Erat::initAlgorithms steps 1–4: the sieve size before the EratBig power-of-two adjustment -/
def EratGeom.baseSize (cfg : EratCfg) (stop maxSieveKiB : Nat) : Nat :=
  let maxSieveSize := maxSieveKiB * 1024
  let sqrtStop := Nat.sqrt stop
  let l1 := inBetween (16 * 1024) cfg.l1CacheSize (8192 * 1024)
  let l1 := roundUp8 l1
  let maxSieveSize := roundUp8 maxSieveSize
  let minSieveSize := min l1 maxSieveSize
  let sieveSize := cfg.mulSieveSize sqrtStop
  let sieveSize := if sieveSize > minSieveSize then sieveSize - sieveSize % minSieveSize else sieveSize
  let sieveSize := inBetween minSieveSize sieveSize maxSieveSize
  let sieveSize := inBetween (16 * 1024) sieveSize (8192 * 1024)
  roundUp8 sieveSize

/-- Erat::initAlgorithms steps 1–7: (sieve size in bytes, maxEratSmall, maxEratMedium) -/
def EratGeom.sizes (cfg : EratCfg) (stop maxSieveKiB : Nat) : Nat × Nat × Nat :=
  let sqrtStop := Nat.sqrt stop
  let l1 := roundUp8 (inBetween (16 * 1024) cfg.l1CacheSize (8192 * 1024))
  let sieveSize := EratGeom.baseSize cfg stop maxSieveKiB
  let minSieveSize := min l1 sieveSize
  let maxEratSmall := cfg.mulSmall minSieveSize
  let maxEratMedium := cfg.mulMedium sieveSize
  let big := decide (sqrtStop > maxEratMedium)
  let sieveSize := if big then floorPow2 sieveSize else sieveSize
  let minSieveSize := if big then min l1 sieveSize else minSieveSize
  let maxEratSmall := if big then cfg.mulSmall minSieveSize else maxEratSmall
  let maxEratMedium := if big then cfg.mulMedium sieveSize else maxEratMedium
  (sieveSize, min maxEratSmall sqrtStop, min maxEratMedium sqrtStop)

/-- Erat::init + Erat::initAlgorithms; `maxSieveKiB` is the sieve size in KiB (16..8192) -/
def EratGeom.init (cfg : EratCfg) (start stop maxSieveKiB : Nat) : EratGeom :=
  if start > stop ∨ start ≥ umax then EratGeom.uninit start stop
  else
    let sz := EratGeom.sizes cfg stop maxSieveKiB
    let sieveSize := sz.1
    let maxEratSmall := sz.2.1
    let maxEratMedium := sz.2.2
    let sqrtStop := Nat.sqrt stop
    let rem := byteRemainder start
    let dist := sieveSize * 30 + 6
    let segmentLow := start - rem
    let segmentHigh := min (checkedAdd segmentLow dist) stop
    let sieveSize :=
      if segmentHigh ≥ stop ∧ sqrtStop ≤ maxEratMedium then
        roundUp8 (((stop - byteRemainder stop) - segmentLow) / 30 + 1)
      else sieveSize
    { start := start, stop := stop, sieveSize := sieveSize, segmentLow := segmentLow,
      segmentHigh := segmentHigh, maxEratSmall := maxEratSmall, maxEratMedium := maxEratMedium }

/-- Erat::hasNextSegment -/
def EratGeom.hasNextSegment (g : EratGeom) : Bool := g.segmentLow < g.stop

/-- Erat::sieveSegment, geometry only: returns (low of the segment just sieved, its size in
    bytes, the new geometry) -/
def EratGeom.sieveSegment (g : EratGeom) : Nat × Nat × EratGeom :=
  if g.segmentHigh < g.stop then
    let dist := g.sieveSize * 30
    (g.segmentLow, g.sieveSize,
     { g with segmentLow := checkedAdd g.segmentLow dist,
              segmentHigh := min (checkedAdd g.segmentHigh dist) g.stop })
  else
    let size := ((g.stop - byteRemainder g.stop) - g.segmentLow) / 30 + 1
    (g.segmentLow, size, { g with sieveSize := size, segmentLow := g.stop })

/-- the numbers a segment (low, bytes) of a sieve over [start, stop] is responsible for:
    [max(start, low+7), min(stop, low + 30*bytes + 1)] -/
def segRange (start stop low bytes : Nat) : Nat × Nat :=
  (max start (low + 7), min stop (low + 30 * bytes + 1))

/-- PrimeGenerator::initErat: the sieve starts at max(start, maxCachedPrime + 2) -/
def pgInitErat (cfg : EratCfg) (start stop sieveKiB : Nat) : EratGeom :=
  let startErat := max (Gen.maxCachedPrime + 2) start
  if startErat ≤ stop ∧ startErat < umax then EratGeom.init cfg startErat stop sieveKiB
  else EratGeom.uninit start stop

end Ps
