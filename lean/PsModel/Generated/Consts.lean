-- placeholder, overwritten by translator/translate.py
namespace Ps.Gen
def maxCachedPrime : Nat := 719
def MIN_CACHE_ITERATOR : Nat := 4194304
def MAX_CACHE_ITERATOR : Nat := 1073741824
end Ps.Gen
