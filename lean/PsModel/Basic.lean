/-
  PsModel.Basic — 64-bit integer helpers of primesieve (include/primesieve/pmath.hpp)
  as total functions on `Nat`.  Mathlib-free (imported by the compiled driver).

  Convention: a C++ `uint64_t` is a `Nat` together with the invariant `< 2^64`;
  `add64/sub64/mul64` are the wrapping C++ operators.
-/
namespace Ps

/-- 2^64 -/
def U64 : Nat := 18446744073709551616
/-- std::numeric_limits<uint64_t>::max() -/
def umax : Nat := 18446744073709551615

theorem U64_eq : U64 = 2 ^ 64 := by decide
theorem umax_eq : umax = U64 - 1 := by decide

def add64 (x y : Nat) : Nat := (x + y) % U64
def sub64 (x y : Nat) : Nat := (x + U64 - y % U64) % U64
def mul64 (x y : Nat) : Nat := (x * y) % U64

/-- pmath.hpp `checkedAdd` -/
def checkedAdd (x y : Nat) : Nat :=
  if x ≥ umax - y then umax else x + y

/-- pmath.hpp `checkedSub` -/
def checkedSub (x y : Nat) : Nat :=
  if x > y then x - y else 0

/-- pmath.hpp `inBetween(min, x, max)` on unsigned operands -/
def inBetween (mn x mx : Nat) : Nat :=
  if x < mn then mn else if x > mx then mx else x

/-- pmath.hpp `ceilDiv` -/
def ceilDiv (x y : Nat) : Nat := (x + y - 1) / y

inductive Err where
  | overflow      -- primesieve_error("cannot generate primes > 2^64") and friends
  | badAlloc      -- std::bad_alloc
  | invalid       -- other primesieve_error (bad argument)
  deriving DecidableEq, Repr, Inhabited

end Ps
