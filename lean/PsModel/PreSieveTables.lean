/-
  PsModel.PreSieveTables — the 16 regenerated tables as one list (table, size), in the order
  PreSieve::preSieve ANDs them.  Mathlib-free.
-/
import PsModel.PreSieve
import PsModel.Generated.PreSieve00
import PsModel.Generated.PreSieve01
import PsModel.Generated.PreSieve02
import PsModel.Generated.PreSieve03
import PsModel.Generated.PreSieve04
import PsModel.Generated.PreSieve05
import PsModel.Generated.PreSieve06
import PsModel.Generated.PreSieve07
import PsModel.Generated.PreSieve08
import PsModel.Generated.PreSieve09
import PsModel.Generated.PreSieve10
import PsModel.Generated.PreSieve11
import PsModel.Generated.PreSieve12
import PsModel.Generated.PreSieve13
import PsModel.Generated.PreSieve14
import PsModel.Generated.PreSieve15

namespace Ps.PreSieve

def allTables : List (Nat × Nat) := [(Gen.preSieve00, Gen.preSieve00Len), (Gen.preSieve01, Gen.preSieve01Len), (Gen.preSieve02, Gen.preSieve02Len), (Gen.preSieve03, Gen.preSieve03Len), (Gen.preSieve04, Gen.preSieve04Len), (Gen.preSieve05, Gen.preSieve05Len), (Gen.preSieve06, Gen.preSieve06Len), (Gen.preSieve07, Gen.preSieve07Len), (Gen.preSieve08, Gen.preSieve08Len), (Gen.preSieve09, Gen.preSieve09Len), (Gen.preSieve10, Gen.preSieve10Len), (Gen.preSieve11, Gen.preSieve11Len), (Gen.preSieve12, Gen.preSieve12Len), (Gen.preSieve13, Gen.preSieve13Len), (Gen.preSieve14, Gen.preSieve14Len), (Gen.preSieve15, Gen.preSieve15Len)]

end Ps.PreSieve
