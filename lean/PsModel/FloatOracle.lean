/-
  PsModel.FloatOracle — the floating-point sub-expressions of IteratorHelper.cpp,
  pmath.hpp, nthPrime.cpp evaluated with Lean's `Float` (IEEE double, the C library's
  sqrt/log), so that the compiled driver reproduces the C++ values on this machine.
  Only used by the driver; theorems quantify over all `Oracle`s.
-/
import PsModel.Iterator

namespace Ps

def toF (n : Nat) : Float := n.toUInt64.toFloat   -- (double) (uint64_t) n

def fmax (a b : Float) : Float := if a < b then b else a

/-- `(uint64_t) std::sqrt((double) n)` -/
def sqrtU (n : Nat) : Nat := (toF n).sqrt.toUInt64.toNat

/-- pmath.hpp `maxPrimeGap<uint64_t>` -/
def maxPrimeGapF (n : Nat) : Nat :=
  let x := fmax 8.0 (toF n)
  let logx := x.log
  (logx * logx).toUInt64.toNat

/-- `(uint64_t) std::log(std::max(10.0, (double) stop))` -/
def logU (n : Nat) : Nat := (fmax 10.0 (toF n)).log.toUInt64.toNat

/-- `(uint64_t) (std::sqrt(stop) * 2)` -/
def sqrt2U (n : Nat) : Nat := ((toF n).sqrt * 2).toUInt64.toNat

def floatOracle : Oracle :=
  { sqrtU := sqrtU, maxPrimeGap := maxPrimeGapF, logU := logU, sqrt2U := sqrt2U }

end Ps
