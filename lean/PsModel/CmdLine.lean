/-
  PsModel.CmdLine — src/app/CmdOptions.cpp (isOption, parseOption, option handlers, parseOptions)
  and the dispatch of src/app/main.cpp, as written.  The option table is regenerated from the
  source (`Gen.optionMap`).  Mathlib-free.
-/
import PsModel.Calculator
import PsModel.Generated.Cli

namespace Ps.Cli
open Ps.Calc

/-- what the command line asks the program to do (everything that influences the answer) -/
structure Opts where
  numbers : List Nat := []
  optionStr : String := ""
  option : String := ""          -- "" = no main option (-1)
  flags : Nat := 0
  sieveSize : Int := 0
  threads : Int := 0
  quiet : Bool := false
  status : Bool := true
  time : Bool := false
  deriving Repr

structure Opt where
  str : String
  opt : String := ""
  val : String := ""
  deriving Repr

def isLetter (c : Char) : Bool := ('a' ≤ c ∧ c ≤ 'z') ∨ ('A' ≤ c ∧ c ≤ 'Z')

/-- isOption: "-x…" or "--x…" with a Latin letter x -/
def isOption (s : String) : Bool :=
  let l := s.toList
  (l.length ≥ 2 ∧ l.getD 0 ' ' = '-' ∧ isLetter (l.getD 1 ' ')) ∨
  (l.length ≥ 3 ∧ l.getD 0 ' ' = '-' ∧ l.getD 1 ' ' = '-' ∧ isLetter (l.getD 2 ' '))

def lookup (name : String) : Option (String × Nat) :=
  (Gen.optionMap.find? (fun e => e.1 = name)).map (fun e => e.2)

def isDigit (c : Char) : Bool := '0' ≤ c ∧ c ≤ '9'

/-- std::string::find_first_of("0123456789") -/
def findDigit (l : List Char) : Option Nat := l.findIdx? isDigit
def findEq (l : List Char) : Option Nat := l.findIdx? (· = '=')

def NO_PARAM := 0
def REQUIRED_PARAM := 1
def OPTIONAL_PARAM := 2

/-- parseOption(argc, argv, i, optionMap): the option and the new value of i.  `argv` without the
    program name is indexed from 0 here. -/
def parseOption (argv : Array String) (i : Nat) : Except String (Opt × Nat) :=
  let str := argv.getD i ""
  if str.isEmpty then .error "unrecognized option ''"
  else match lookup str with
  | some (_, isParam) =>
    -- --opt or -o (not --opt=N)
    let r1 : Except String (String × Nat) :=
      if isParam = REQUIRED_PARAM then
        let i1 := i + 1
        let v := if i1 < argv.size then argv.getD i1 "" else ""
        if v.isEmpty ∨ isOption v then .error s!"missing value for option '{str}'" else .ok (v, i1)
      else .ok ("", i)
    r1 >>= fun (v, i1) =>
    if isParam = OPTIONAL_PARAM ∧ i1 + 1 < argv.size ∧ !(argv.getD (i1 + 1) "").isEmpty ∧ !isOption (argv.getD (i1 + 1) "") then
      .ok ({ str := str, opt := str, val := argv.getD (i1 + 1) "" }, i1 + 1)
    else .ok ({ str := str, opt := str, val := v }, i1)
  | none =>
    let l := str.toList
    if isOption str then
      let r : Except String (String × String) :=
        match findEq l with
        | some pos =>
          let o := String.ofList (l.take pos)
          let v := String.ofList (l.drop (pos + 1))
          if (lookup o).isNone then .error s!"unrecognized option '{o}'" else .ok (o, v)
        | none =>
          let (o, v) := match findDigit l with
            | none => (str, "")
            | some pos => (String.ofList (l.take pos), String.ofList (l.drop pos))
          if (lookup o).isNone then .error s!"unrecognized option '{str}'" else .ok (o, v)
      r >>= fun (o, v) =>
      if v.isEmpty ∧ ((lookup o).map (·.2)) = some REQUIRED_PARAM then .error s!"missing value for option '{o}'"
      else .ok ({ str := str, opt := o, val := v }, i)
    else
      if (findDigit l).isNone then .error s!"unrecognized option '{str}'"
      else if l.getD 0 ' ' = '-' then .error s!"unrecognized option '{str}'"
      else .ok ({ str := str, opt := "--number", val := str }, i)

/-- Option::getValue<T>(): calculator::eval<T>(val), any failure → "invalid option" -/
def getValue (t : Ty) (o : Opt) : Except String Int :=
  match eval (Arith.ofTy t) o.val with
  | .ok v => .ok v
  | .error _ => .error s!"invalid option '{o.opt}={o.val}'"

def setMainOption (opts : Opts) (id str : String) : Except String Opts :=
  if !opts.optionStr.isEmpty then .error s!"incompatible options: {opts.optionStr} {str}"
  else .ok { opts with optionStr := str, option := id }

def optionPrint (opts : Opts) (o : Opt) : Except String Opts :=
  let o := if o.val.isEmpty then { o with val := "1" } else o
  getValue i32 o >>= fun v =>
  if 1 ≤ v ∧ v ≤ 6 then .ok { opts with quiet := true, flags := opts.flags ||| (64 * 2 ^ (v.toNat - 1)) }
  else .error s!"invalid option '{o.str}'"

/-- the digit loop of optionCount: `for (; n > 0; n /= 10) switch (n % 10)` -/
def countDigits : Nat → Nat → Nat → Option Nat
  | 0, _, flags => some flags
  | fuel + 1, n, flags =>
    if n > 0 then
      let d := n % 10
      if 1 ≤ d ∧ d ≤ 6 then countDigits fuel (n / 10) (flags ||| 2 ^ (d - 1)) else none
    else some flags

def optionCount (opts : Opts) (o : Opt) : Except String Opts :=
  let o := if o.val.isEmpty then { o with val := "1" } else o
  getValue i32 o >>= fun n =>
  if n ≤ 0 then .error s!"invalid option '{o.str}'"       -- -c0, --count=-5 select nothing: rejected
  else match countDigits 12 n.toNat opts.flags with
  | some f => .ok { opts with flags := f }
  | none => .error s!"invalid option '{o.str}'"

def optionDistance (opts : Opts) (o : Opt) : Except String Opts :=
  getValue u64 o >>= fun v =>
  let start := opts.numbers.headD 0
  if v.toNat > 18446744073709551615 - start then .error s!"invalid option '{o.str}': START + DISTANCE must be < 2^64"
  else .ok { opts with numbers := opts.numbers ++ [start + v.toNat] }

def toUpper (s : String) : String := s.map Char.toUpper

/-- the options that are not part of the sieving interface are modelled only as far as they can
    reject the command line or occupy the main-option slot -/
def optionStressTest (opts : Opts) (o : Opt) : Except String Opts :=
  setMainOption opts "OPTION_STRESS_TEST" o.str >>= fun opts' =>
  let v := toUpper o.val
  if v.isEmpty ∨ v = "CPU" ∨ v = "RAM" then .ok opts' else .error s!"invalid option '{o.str}={v}'"

def timeoutBody (val : String) : String :=
  let l := (val.map Char.toLower).toList
  let last := l.getLastD ' '
  String.ofList (if last = 's' ∨ last = 'm' ∨ last = 'h' ∨ last = 'd' ∨ last = 'y' then l.dropLast else l)

def optionTimeout (opts : Opts) (o : Opt) : Except String Opts :=
  getValue i64 { o with val := timeoutBody o.val } >>= fun _ => .ok opts

def handle (opts : Opts) (o : Opt) : Except String Opts :=
  match lookup o.opt with
  | none => .error "internal: option not in map"
  | some (id, _) =>
    if id = "OPTION_COUNT" then optionCount opts o
    else if id = "OPTION_DISTANCE" then optionDistance opts o
    else if id = "OPTION_PRINT" then optionPrint opts o
    else if id = "OPTION_STRESS_TEST" then optionStressTest opts o
    else if id = "OPTION_TIMEOUT" then optionTimeout opts o
    else if id = "OPTION_SIZE" then getValue i32 o >>= fun v => .ok { opts with sieveSize := v }
    else if id = "OPTION_THREADS" then getValue i32 o >>= fun v => .ok { opts with threads := v }
    else if id = "OPTION_QUIET" then .ok { opts with quiet := true }
    else if id = "OPTION_NO_STATUS" then .ok { opts with status := false }
    else if id = "OPTION_TIME" then .ok { opts with time := true }
    else if id = "OPTION_NUMBER" then getValue u64 o >>= fun v => .ok { opts with numbers := opts.numbers ++ [v.toNat] }
    else setMainOption opts id o.str

def parseLoop (argv : Array String) : Nat → Nat → Opts → Except String Opts
  | 0, _, opts => .ok opts
  | fuel + 1, i, opts =>
    if i < argv.size then
      parseOption argv i >>= fun (o, i') => handle opts o >>= fun opts' => parseLoop argv fuel (i' + 1) opts'
    else .ok opts

/-- parseOptions (argv without the program name; the empty command line prints the help, exit 1) -/
def parseOptions (argv : List String) : Except String Opts :=
  parseLoop argv.toArray (argv.length + 1) 0 {} >>= fun o =>
  let o := if o.quiet then { o with status := false } else o
  .ok (if !o.quiet then { o with time := true } else o)

/-- what main() does with the parsed options -/
inductive Action where
  | help1                                        -- no arguments: help, exit status 1
  | reject (msg : String)                        -- message on stderr, exit status 1
  | other (id : String)                          -- --help, --version, --cpu-info, --test, -S, -R …: not modelled further
  | sieve (start stop flags : Nat) (size threads : Int) (quiet time : Bool)
  | nth (n start : Nat) (quiet time : Bool)
  deriving Repr

def int64MaxDiv20 : Nat := 9223372036854775807 / 20

def mainAction (argv : List String) : Action :=
  if argv.isEmpty then .help1
  else match parseOptions argv with
  | .error m => .reject m
  | .ok o =>
    if o.option = "OPTION_NTH_PRIME" then
      match o.numbers with
      | [] => .reject "missing n number"
      | n :: rest =>
        if n > int64MaxDiv20 then .reject "nth prime: n is too large"
        else .nth n (rest.headD 0) o.quiet o.time
    else if o.option = "" then
      match o.numbers with
      | [] => .reject "missing STOP number"
      | [stop] => .sieve 0 stop o.flags o.sieveSize o.threads o.quiet o.time
      | start :: stop :: _ => .sieve start stop o.flags o.sieveSize o.threads o.quiet o.time
    else if (o.option = "OPTION_R" ∨ o.option = "OPTION_R_INVERSE") ∧ o.numbers.isEmpty then .reject "missing x number"
    else .other o.option

/-- the count lines of sieve(): label or bare number -/
def countLabels : List String :=
  ["Primes: ", "Twin primes: ", "Prime triplets: ", "Prime quadruplets: ", "Prime quintuplets: ", "Prime sextuplets: "]

/-- flags the ParallelSieve ends up with: setFlags(opts.flags) or the default COUNT_PRIMES -/
def effFlags (flags : Nat) : Nat := if flags = 0 then 1 else flags

def countLines (flags : Nat) (quiet : Bool) (counts : List Nat) : List String :=
  let f := effFlags flags
  let idx := (List.range 6).filter (fun i => f &&& 2 ^ i ≠ 0)
  idx.map (fun i => if quiet ∧ idx.length = 1 then toString (counts.getD i 0)
                    else countLabels.getD i "" ++ toString (counts.getD i 0))

end Ps.Cli
