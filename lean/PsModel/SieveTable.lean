/-
  PsModel.SieveTable — a fast, table-backed primality test for the compiled driver:
  the driver sieves the interval a backward chunk is going to cover and hands the model
  an `Env.isPrime` that answers from the table (falling back to Miller–Rabin outside).
  Semantically the same function as `isPrimeMR`; only used to keep the model executable
  on chunks of 10^7 numbers.  Not used by any theorem.
-/
import PsModel.Primality

namespace Ps

/-- byte i = 1 iff i is prime, for 0 ≤ i ≤ n -/
def simpleSieve (n : Nat) : ByteArray := Id.run do
  let mut t := ByteArray.mk (Array.replicate (n + 1) 1)
  t := t.set! 0 0
  if n ≥ 1 then t := t.set! 1 0
  for i in [2 : n + 1] do
    if i * i > n then break
    if t.get! i == 1 then
      for q in [0 : (n - i * i) / i + 1] do
        t := t.set! (i * i + q * i) 0
  return t

def isqrtNat (n : Nat) : Nat := Id.run do
  -- integer square root by Newton iteration (bounded number of rounds)
  if n < 2 then return n
  let mut x := n
  let mut y := (x + 1) / 2
  for _ in [0:200] do
    if y ≥ x then break
    x := y
    y := (x + n / x) / 2
  return x

/-- byte j = 1 iff a + j is prime, for a ≤ a + j ≤ b -/
def segmentTable (a b : Nat) : ByteArray := Id.run do
  let len := b + 1 - a
  let mut t := ByteArray.mk (Array.replicate len 1)
  let r := isqrtNat b
  let base := simpleSieve r
  for p in [2 : r + 1] do
    if base.get! p == 1 then
      let first := max (p * p) ((a + p - 1) / p * p)
      if first ≤ b then
        for q in [0 : (b - first) / p + 1] do
          t := t.set! (first + q * p - a) 0
  if a ≤ 0 ∧ 0 ≤ b then t := t.set! (0 - a) 0
  if a ≤ 1 ∧ 1 ≤ b then t := t.set! (1 - a) 0
  return t

/-- primality test answering from a table for [a, b] -/
def tableIsPrime (a b : Nat) (t : ByteArray) (n : Nat) : Bool :=
  if a ≤ n ∧ n ≤ b then t.get! (n - a) == 1 else isPrimeMR n

end Ps
