/-
  PsModel.Primality — executable primality test used by the compiled driver to
  instantiate `Env.isPrime` (deterministic Miller–Rabin, bases 2..37, correct for
  n < 3.3·10^24).  It is part of the correspondence tie only: no theorem depends on it
  (theorems assume `EnvOK env`, i.e. that the test decides `Nat.Prime`).
-/
namespace Ps

def powModAux : Nat → Nat → Nat → Nat → Nat → Nat
  | 0, _, _, _, r => r
  | fuel + 1, b, e, m, r =>
    if e = 0 then r
    else
      let r' := if e % 2 = 1 then (r * b) % m else r
      powModAux fuel ((b * b) % m) (e / 2) m r'

/-- b^e mod m (for e < 2^200) -/
def powMod (b e m : Nat) : Nat := powModAux 200 (b % m) e m (1 % m)

def smallPrimesMR : List Nat := [2, 3, 5, 7, 11, 13, 17, 19, 23, 29, 31, 37]

/-- n - 1 = d * 2^s with d odd: returns (d, s) -/
def splitPow2 : Nat → Nat → Nat → Nat × Nat
  | 0, d, s => (d, s)
  | fuel + 1, d, s => if d % 2 = 0 ∧ d > 0 then splitPow2 fuel (d / 2) (s + 1) else (d, s)

/-- x := x^2 mod n up to `s` times; true if n-1 is met -/
def mrSquares : Nat → Nat → Nat → Bool
  | 0, _, _ => false
  | s + 1, x, n =>
    let x2 := (x * x) % n
    if x2 = n - 1 then true else mrSquares s x2 n

def mrWitnessOk (n d s a : Nat) : Bool :=
  let x := powMod a d n
  if x = 1 ∨ x = n - 1 then true else mrSquares (s - 1) x n

def isPrimeMR (n : Nat) : Bool :=
  if n < 2 then false
  else if smallPrimesMR.contains n then true
  else if smallPrimesMR.any (fun p => n % p = 0) then false
  else
    let ds := splitPow2 200 (n - 1) 0
    smallPrimesMR.all (fun a => mrWitnessOk n ds.1 ds.2 a)

end Ps
