/-
  PsModel.Feed — the loops that hand sieving primes to a segment before it is sieved, as written:

    PrimeGenerator::sieveSegment()   (src/PrimeGenerator.cpp)
        sqrtHigh = isqrt(segmentHigh_); low_ = segmentLow_;
        if (!prime_) prime_ = sievingPrimes_.next();
        while (prime_ <= sqrtHigh) { addSievingPrime(prime_); prime_ = sievingPrimes_.next(); }
        Erat::sieveSegment();
    CountPrintPrimes::sieve()        (src/CountPrintPrimes.cpp)
        prime = sievingPrimes.next();
        while (hasNextSegment()) { sqrtHigh = isqrt(segmentHigh_);
          for (; prime <= sqrtHigh; prime = sievingPrimes.next()) addSievingPrime(prime);
          sieveSegment(); … }
    SievingPrimes::sieveSegment()    (src/SievingPrimes.cpp)
        for (uint64_t& i = tinyIdx_; i * i <= high; i += 2) if (tinySieve_[i]) addSievingPrime(i);

  `src k` is the value of the k-th call of SievingPrimes::next() (a parameter: what it must deliver is a
  hypothesis of the theorems, validated by the `sp` operations of the segment stream).  The state records every
  addSievingPrime call together with the segmentLow_ it was made at.  Mathlib-free, executable.
-/
import PsModel.Erat
namespace Ps.Feed

structure St where
  fetched : Nat := 0                  -- calls of sievingPrimes_.next() so far
  prime : Nat := 0                    -- prime_: fetched, not yet added (0: nothing fetched yet)
  added : List (Nat × Nat) := []      -- addSievingPrime(p) calls so far (most recent first), with the segmentLow_ of the call
  deriving Repr, DecidableEq

/-- `while (prime_ <= sqrtHigh) { addSievingPrime(prime_); prime_ = sievingPrimes_.next(); }` -/
def loop (src : Nat → Nat) (low sqrtHigh : Nat) : Nat → St → St
  | 0, s => s
  | fuel + 1, s =>
    if s.prime ≤ sqrtHigh then
      loop src low sqrtHigh fuel
        { fetched := s.fetched + 1, prime := src s.fetched, added := (s.prime, low) :: s.added }
    else s

/-- PrimeGenerator::sieveSegment() up to (not including) Erat::sieveSegment(); the same state change
    as one round of the loop of CountPrintPrimes::sieve(), whose first fetch happens before the loop -/
def feedSegment (src : Nat → Nat) (low high : Nat) (s : St) : St :=
  let sqrtHigh := Nat.sqrt high
  let s := if s.prime = 0 then { s with fetched := s.fetched + 1, prime := src s.fetched } else s
  loop src low sqrtHigh (sqrtHigh + 2) s

/-- the whole segment loop (`while (hasNextSegment()) sieveSegment()`): for every segment its
    (low, bytes, segmentHigh_, addSievingPrime calls made before it is sieved) -/
def run (src : Nat → Nat) : Nat → EratGeom → St → List (Nat × Nat × Nat × List (Nat × Nat))
  | 0, _, _ => []
  | fuel + 1, g, s =>
    if g.hasNextSegment then
      let s' := feedSegment src g.segmentLow g.segmentHigh s
      let r := g.sieveSegment
      (r.1, r.2.1, g.segmentHigh, s'.added) :: run src fuel r.2.2 s'
    else []

/-- SievingPrimes::sieveSegment(): `for (i = tinyIdx_; i * i <= high; i += 2) if (tinySieve_[i]) add(i)`;
    returns the new tinyIdx_ and the numbers added, in order -/
def tinyLoop (tiny : Nat → Bool) (high : Nat) : Nat → Nat → List Nat → Nat × List Nat
  | 0, i, acc => (i, acc)
  | fuel + 1, i, acc =>
    if i * i ≤ high then tinyLoop tiny high fuel (i + 2) (if tiny i then acc ++ [i] else acc)
    else (i, acc)

def tinyFeed (tiny : Nat → Bool) (high tinyIdx : Nat) : Nat × List Nat :=
  tinyLoop tiny high (Nat.sqrt high + 2) tinyIdx []

/-- SievingPrimes::tinySieve(): the plain odd-only sieve of Eratosthenes over a Vector<bool> of n + 1
    entries, `for (i = 3; i*i <= n; i += 2) if (t[i]) for (j = i*i; j <= n; j += 2*i) t[j] = false` -/
def tinyInner (n i : Nat) : Nat → Nat → List Bool → List Bool
  | 0, _, t => t
  | fuel + 1, j, t => if j ≤ n then tinyInner n i fuel (j + 2 * i) (t.set j false) else t

def tinyOuter (n : Nat) : Nat → Nat → List Bool → List Bool
  | 0, _, t => t
  | fuel + 1, i, t =>
    if i * i ≤ n then
      tinyOuter n fuel (i + 2) (if t.getD i false then tinyInner n i (n + 1) (i * i) t else t)
    else t

def tinySieve (n : Nat) : List Bool := tinyOuter n (n + 1) 3 (List.replicate (n + 1) true)

end Ps.Feed
