/-
  psv_model — line-protocol driver around the executable Lean model.
  Usage: psv_model <stream> <tracefile>
  Each input line is `<operation> => <what the implementation did>`; the driver parses
  the operation (left of `=>`), runs the model and prints `<operation> => <what the model does>`.
-/
import PsModel.Iterator
import PsModel.Primality
import PsModel.FloatOracle
import PsModel.SieveTable
import PsModel.Erat

open Ps

def driverEnv : Env := { isPrime := isPrimeMR, o := floatOracle }

/-- environment for a prev_prime call: if the call is going to refill the buffer, sieve the first
    chunk it will cover (same bounds as the model computes) so that `isPrime` is a table lookup -/
def prevEnv (st : Iter) : Env :=
  if st.i = 0 then
    let st1 := match st.gen with
      | none => st
      | some _ => { st with start := st.buf.getD 0 0, gen := none }
    let u := updatePrev floatOracle st1
    let a := u.1
    let b := u.2.1
    if a ≤ b ∧ b - a ≥ 20000 ∧ b - a ≤ 60000000 ∧ b ≤ 200000000000000 then
      let t := segmentTable a b
      { isPrime := tableIsPrime a b t, o := floatOracle }
    else driverEnv
  else driverEnv

def kv (s : String) : Option Nat :=
  match s.splitOn "=" with
  | [_, v] => v.toNat?
  | _ => none

def errName : Err → String
  | .overflow => "overflow"
  | .badAlloc => "badAlloc"
  | .invalid => "invalid"

def iterState (st : Iter) : String :=
  s!"i={st.i} size={st.size} start={st.start} stop={st.stop} dist={st.dist} " ++
  s!"incl={if st.incl then 1 else 0} gen={if st.gen.isSome then 1 else 0} " ++
  (if st.size > 0 then s!"b0={st.buf.getD 0 0} bl={st.buf.getD (st.size - 1) 0}" else "b0=- bl=-")

/-- one line of the `iter` stream -/
def iterLine (st : Iter) (op : String) : Iter × String :=
  match (op.splitOn " ").filter (· ≠ "") with
  | ["new", s, h] =>
    match s.toNat?, h.toNat? with
    | some s, some h => let st' := Iter.mk' s h; (st', iterState st')
    | _, _ => (st, "bad-op")
  | ["jump", s, h] =>
    match s.toNat?, h.toNat? with
    | some s, some h => let st' := st.jumpTo s h; (st', iterState st')
    | _, _ => (st, "bad-op")
  | ["clear"] => let st' := st.clear; (st', iterState st')
  | ["movein"] => (st, iterState st)
  | ["moveout"] => (Iter.movedFrom, iterState Iter.movedFrom)
  | ["next", k] =>
    match kv k with
    | some k =>
      match st.next driverEnv k with
      | (.ok v, st') => (st', s!"v={v} " ++ iterState st')
      | (.error e, st') => (st', s!"v=ERR:{errName e} " ++ iterState st')
    | none => (st, "bad-op")
  | ["prev", _] =>
    let r := st.prev (prevEnv st)
    (r.2, s!"v={r.1} " ++ iterState r.2)
  | _ => (st, "bad-op")

partial def iterLoop (h : IO.FS.Stream) (st : Iter) : IO Unit := do
  let line ← h.getLine
  if line.isEmpty then return ()
  let line := line.trimAscii.toString
  let op := (line.splitOn " => ").headD ""
  let (st', out) := iterLine st op
  IO.println s!"{op} => {out}"
  iterLoop h st'

/-- EratCfg with the double-precision products evaluated as in C++ -/
def floatCfg (l1 : Nat) : EratCfg :=
  { l1CacheSize := l1
    mulSieveSize := fun x => (toF x * 2.0).toUInt64.toNat
    mulSmall := fun x => (toF x * 0.2).toUInt64.toNat
    mulMedium := fun x => (toF x * 3.0).toUInt64.toNat }

/-- (count, sum mod 2^64) of the primes in [lo, hi] -/
def countSum (lo hi : Nat) : Nat × Nat := Id.run do
  if lo > hi then return (0, 0)
  let mut c := 0
  let mut s := 0
  if hi - lo ≤ 60000000 ∧ hi ≤ 200000000000000 then
    let t := segmentTable lo hi
    for j in [0 : hi + 1 - lo] do
      if t.get! j == 1 then
        c := c + 1
        s := (s + lo + j) % U64
  else
    for j in [0 : hi + 1 - lo] do
      if isPrimeMR (lo + j) then
        c := c + 1
        s := (s + lo + j) % U64
  return (c, s)

/-- one `seg <start> <stop> <kib> l1=<bytes>` line: run the geometry model over all segments -/
def segLine (op : String) : String :=
  match (op.splitOn " ").filter (· ≠ "") with
  | ["seg", a, b, k, l1] =>
    match a.toNat?, b.toNat?, k.toNat?, kv l1 with
    | some start, some stop, some kib, some l1 => Id.run do
      let cfg := floatCfg l1
      let mut g := pgInitErat cfg start stop kib
      let small := g.maxEratSmall
      let medium := g.maxEratMedium
      let mut nseg := 0
      let mut total := 0
      let mut sum := 0
      let mut geo := ""
      for _ in [0 : 100000000] do
        if !g.hasNextSegment then break
        let (low, bytes, g') := g.sieveSegment
        let r := segRange (max start 721) stop low bytes
        let cs := countSum r.1 r.2
        total := total + cs.1
        sum := (sum + cs.2) % U64
        if nseg < 4 then
          geo := geo ++ s!" [low={low} bytes={bytes} nlow={g'.segmentLow} nhigh={g'.segmentHigh}]"
        nseg := nseg + 1
        g := g'
      return s!"segs={nseg} total={total} sum={sum} small={small} medium={medium} content=ok{geo}"
    | _, _, _, _ => "bad-op"
  | _ => "bad-op"

partial def segLoop (h : IO.FS.Stream) : IO Unit := do
  let line ← h.getLine
  if line.isEmpty then return ()
  let line := line.trimAscii.toString
  let op := (line.splitOn " => ").headD ""
  IO.println s!"{op} => {segLine op}"
  segLoop h

def main (args : List String) : IO UInt32 := do
  match args with
  | [stream, file] =>
    let h ← IO.FS.Handle.mk file .read
    let s := IO.FS.Stream.ofHandle h
    match stream with
    | "iter" => iterLoop s (Iter.mk' 0 umax); return 0
    | "segment" => segLoop s; return 0
    | _ => IO.eprintln s!"unknown stream {stream}"; return 2
  | _ => IO.eprintln "usage: psv_model <stream> <tracefile>"; return 2
