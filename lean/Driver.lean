/-
  psv_model — line-protocol driver around the executable Lean model.
  Usage: psv_model <stream> <tracefile>
  Each input line is `<operation> => <what the implementation did>`; the driver parses
  the operation (left of `=>`), runs the model and prints `<operation> => <what the model does>`.
-/
import PsModel.Iterator
import PsModel.Primality
import PsModel.FloatOracle
import PsModel.SieveTable
import PsModel.Erat
import PsModel.Feed
import PsModel.Parallel
import PsModel.Store
import PsModel.NthPrime
import PsModel.Config
import PsModel.IteratorC
import PsModel.Calculator
import PsModel.CmdLine
import PsModel.Wheel
import PsModel.PreSieveTables

open Ps

def driverEnv : Env := { isPrime := isPrimeMR, o := floatOracle }

/-- environment for a prev_prime call: if the call is going to refill the buffer, sieve the first
    chunk it will cover (same bounds as the model computes) so that `isPrime` is a table lookup -/
def prevEnv (st : Iter) : Env :=
  if st.i = 0 then
    let st1 := match st.gen with
      | none => st
      | some _ => { st with start := st.buf.getD 0 0, gen := none }
    let u := updatePrev floatOracle st1
    let a := u.1
    let b := u.2.1
    if a ≤ b ∧ b - a ≥ 20000 ∧ b - a ≤ 60000000 ∧ b ≤ 200000000000000 then
      let t := segmentTable a b
      { isPrime := tableIsPrime a b t, o := floatOracle }
    else driverEnv
  else driverEnv

/-- environment for a next_prime call: if the call is going to refill the buffer with a long block
    (the real generator fills the whole grown buffer after a backward run), sieve the chunk first -/
def nextEnv (st : Iter) (k : Nat) : Env :=
  if st.i + 1 ≥ st.size ∧ k > 3000 then
    let ab : Nat × Nat := match st.gen with
      | some g => (g.lo, g.stop)
      | none => let u := updateNext floatOracle st; (u.1, u.2.1)
    let a := ab.1
    let b := ab.2
    if a ≤ b ∧ b - a ≤ 60000000 ∧ b ≤ 200000000000000 then
      let t := segmentTable a b
      { isPrime := tableIsPrime a b t, o := floatOracle }
    else driverEnv
  else driverEnv

def kv (s : String) : Option Nat :=
  match s.splitOn "=" with
  | [_, v] => v.toNat?
  | _ => none

def errName : Err → String
  | .overflow => "overflow"
  | .badAlloc => "badAlloc"
  | .invalid => "invalid"

def iterState (st : Iter) : String :=
  s!"i={st.i} size={st.size} start={st.start} stop={st.stop} dist={st.dist} " ++
  s!"incl={if st.incl then 1 else 0} gen={if st.gen.isSome then 1 else 0} " ++
  (if st.size > 0 then s!"b0={st.buf.getD 0 0} bl={st.buf.getD (st.size - 1) 0}" else "b0=- bl=-")

/-- one line of the `iter` stream -/
def iterLine (st : Iter) (op : String) : Iter × String :=
  match (op.splitOn " ").filter (· ≠ "") with
  | ["new", s, h] =>
    match s.toNat?, h.toNat? with
    | some s, some h => let st' := Iter.mk' s h; (st', iterState st')
    | _, _ => (st, "bad-op")
  | ["jump", s, h] =>
    match s.toNat?, h.toNat? with
    | some s, some h => let st' := st.jumpTo s h; (st', iterState st')
    | _, _ => (st, "bad-op")
  | ["clear"] => let st' := st.clear; (st', iterState st')
  | ["ss", _] => (st, iterState st)          -- set_sieve_size: no effect on what the iterator returns (C08)
  | ["movein"] => (st, iterState st)
  | ["moveout"] => (Iter.movedFrom, iterState Iter.movedFrom)
  | ["next", k] =>
    match kv k with
    | some k =>
      match st.next (nextEnv st k) k with
      | (.ok v, st') => (st', s!"v={v} " ++ iterState st')
      | (.error e, st') => (st', s!"v=ERR:{errName e} " ++ iterState st')
    | none => (st, "bad-op")
  | ["prev", _] =>
    let r := st.prev (prevEnv st)
    (r.2, s!"v={r.1} " ++ iterState r.2)
  | _ => (st, "bad-op")

partial def iterLoop (h : IO.FS.Stream) (st : Iter) : IO Unit := do
  let line ← h.getLine
  if line.isEmpty then return ()
  let line := line.trimAscii.toString
  let op := (line.splitOn " => ").headD ""
  let (st', out) := iterLine st op
  IO.println s!"{op} => {out}"
  iterLoop h st'


/-- `multi` stream: `<idx> <iter op>` over eight iterator states -/
partial def multiLoop (h : IO.FS.Stream) (sts : Array Iter) : IO Unit := do
  let line ← h.getLine
  if line.isEmpty then return ()
  let line := line.trimAscii.toString
  let op := (line.splitOn " => ").headD ""
  match (op.splitOn " ").filter (· ≠ "") with
  | idx :: rest =>
    let i := idx.toNat?.getD 0
    let st := sts.getD i (Iter.mk' 0 umax)
    let (st', out) := iterLine st (" ".intercalate rest)
    IO.println s!"{op} => {out}"
    multiLoop h (sts.setIfInBounds i st')
  | [] => multiLoop h sts

def citerState (c : CIter) (edom : Bool) : String :=
  iterState c.it ++ s!" err={if c.isError then 1 else 0} edom={if edom then 1 else 0}"

/-- one line of the `iterc` stream -/
def itercLine (c : CIter) (op : String) : CIter × String :=
  match (op.splitOn " ").filter (· ≠ "") with
  | ["new", s, h] =>
    match s.toNat?, h.toNat? with
    | some s, some h => let c' := CIter.init.jumpTo s h; (c', citerState c' false)
    | _, _ => (c, "bad-op")
  | ["jump", s, h] =>
    match s.toNat?, h.toNat? with
    | some s, some h => let c' := c.jumpTo s h; (c', citerState c' c.edom)
    | _, _ => (c, "bad-op")
  | ["skipto", s, h] =>
    match s.toNat?, h.toNat? with
    | some s, some h => let c' := c.skipTo s h; (c', citerState c' c.edom)
    | _, _ => (c, "bad-op")
  | ["clear"] => let c' := c.clear; (c', citerState c' c.edom)
  | ["fresh"] => (CIter.init, citerState CIter.init false)
  | ["next", k] =>
    match kv k with
    | some k => let r := c.next (nextEnv c.it k) k; (r.2, s!"v={r.1} " ++ citerState r.2 r.2.edom)
    | none => (c, "bad-op")
  | ["prev", _] =>
    let r := ({ c with it := c.it } : CIter).prev (prevEnv c.it)
    (r.2, s!"v={r.1} " ++ citerState r.2 r.2.edom)
  | _ => (c, "bad-op")

partial def itercLoop (h : IO.FS.Stream) (c : CIter) : IO Unit := do
  let line ← h.getLine
  if line.isEmpty then return ()
  let line := line.trimAscii.toString
  let op := (line.splitOn " => ").headD ""
  let (c', out) := itercLine c op
  IO.println s!"{op} => {out}"
  itercLoop h c'


/-- one line of the `fiter` stream: iterator histories with allocation faults (f=1: an allocation
    failed during this call) -/
def fiterLine (st : Iter) (op : String) : Iter × String :=
  match (op.splitOn " ").filter (· ≠ "") with
  | ["arm", _] => (st, "armed")
  | ["disarm"] => (st, "disarmed")
  | ["next", f, k] =>
    match kv f, kv k with
    | some f, some k =>
      let r := if f = 1 then st.nextFault (nextEnv st k) k else st.next (nextEnv st k) k
      match r with
      | (.ok v, st') => (st', s!"v={v} " ++ iterState st')
      | (.error e, st') => (st', s!"v=ERR:{errName e} " ++ iterState st')
    | _, _ => (st, "bad-op")
  | ["prev", f, _] =>
    match kv f with
    | some f =>
      if f = 1 then
        match st.prevFault (prevEnv st) with
        | (.ok v, st') => (st', s!"v={v} " ++ iterState st')
        | (.error e, st') => (st', s!"v=ERR:{errName e} " ++ iterState st')
      else
        let r := st.prev (prevEnv st)
        (r.2, s!"v={r.1} " ++ iterState r.2)
    | none => (st, "bad-op")
  | _ => iterLine st op

partial def fiterLoop (h : IO.FS.Stream) (st : Iter) : IO Unit := do
  let line ← h.getLine
  if line.isEmpty then return ()
  let line := line.trimAscii.toString
  let op := (line.splitOn " => ").headD ""
  let (st', out) := fiterLine st op
  IO.println s!"{op} => {out}"
  fiterLoop h st'

/-- EratCfg with the double-precision products evaluated as in C++ -/
def floatCfg (l1 : Nat) : EratCfg :=
  { l1CacheSize := l1
    mulSieveSize := fun x => (toF x * 2.0).toUInt64.toNat
    mulSmall := fun x => (toF x * 0.2).toUInt64.toNat
    mulMedium := fun x => (toF x * 3.0).toUInt64.toNat }

/-- (count, sum mod 2^64) of the primes in [lo, hi] -/
def countSum (lo hi : Nat) : Nat × Nat := Id.run do
  if lo > hi then return (0, 0)
  let mut c := 0
  let mut s := 0
  if hi - lo ≤ 60000000 ∧ hi ≤ 200000000000000 then
    let t := segmentTable lo hi
    for j in [0 : hi + 1 - lo] do
      if t.get! j == 1 then
        c := c + 1
        s := (s + lo + j) % U64
  else
    for j in [0 : hi + 1 - lo] do
      if isPrimeMR (lo + j) then
        c := c + 1
        s := (s + lo + j) % U64
  return (c, s)

/-- one `seg <start> <stop> <kib> l1=<bytes>` line: run the geometry model over all segments -/
def segLine (op : String) : String :=
  match (op.splitOn " ").filter (· ≠ "") with
  | ["seg", a, b, k, l1] =>
    match a.toNat?, b.toNat?, k.toNat?, kv l1 with
    | some start, some stop, some kib, some l1 => Id.run do
      let cfg := floatCfg l1
      let mut g := pgInitErat cfg start stop kib
      let small := g.maxEratSmall
      let medium := g.maxEratMedium
      let mut nseg := 0
      let mut total := 0
      let mut sum := 0
      let mut geo := ""
      -- the feed loop (PsModel.Feed): what SievingPrimes::next() delivers is the primes of [165, isqrt(stop)], then ~0ull;
      -- observed: prime_ after every segment (sum and last).  Only for stop ≤ 10^12 (the source is tabulated).
      let feedOn := decide (stop ≤ 1000000000000)
      let r := if feedOn then Nat.sqrt stop else 0
      let base := simpleSieve r
      let ps : Array Nat := Id.run do
        let mut a : Array Nat := #[]
        for p in [165 : r + 1] do
          if base.get! p == 1 then a := a.push p
        return a
      let src : Nat → Nat := fun k => if k < ps.size then ps[k]! else umax
      let mut fs : Feed.St := {}
      let mut feedSum := 0
      for _ in [0 : 100000000] do
        if !g.hasNextSegment then break
        if feedOn then
          fs := Feed.feedSegment src g.segmentLow g.segmentHigh fs
          fs := { fs with added := [] }     -- the record of calls is not observable; dropped to keep the run linear
          feedSum := (feedSum + fs.prime) % U64
        let (low, bytes, g') := g.sieveSegment
        let r := segRange (max start 721) stop low bytes
        let cs := countSum r.1 r.2
        total := total + cs.1
        sum := (sum + cs.2) % U64
        if nseg < 4 then
          geo := geo ++ s!" [low={low} bytes={bytes} nlow={g'.segmentLow} nhigh={g'.segmentHigh}]"
        nseg := nseg + 1
        g := g'
      let feed := if feedOn then s!"{feedSum}:{fs.prime}" else "-"
      return s!"segs={nseg} total={total} sum={sum} small={small} medium={medium} feed={feed} content=ok{geo}"
    | _, _, _, _ => "bad-op"
  | ["sp", a, b, k, l1] =>
    -- what SievingPrimes::next() delivers after the first segment: the model's source is the table of the primes of
    -- [165, isqrt(stop)] followed by ~0ull — the hypothesis of C01_loop_segments_correct, compared with the real object
    match a.toNat?, b.toNat?, k.toNat?, kv l1 with
    | some start, some stop, some kib, some l1 => Id.run do
      let g := pgInitErat (floatCfg l1) start stop kib
      if !g.hasNextSegment then return "tiny=0:0 pending=0 n=0 sum=0 last=0 order=ok"
      let r := Nat.sqrt stop
      -- SievingPrimes::init: `if (start * start <= stop) tinySieve()` with start = 165, stop = isqrt(main stop)
      let tt : List Bool := if 165 * 165 ≤ r then Feed.tinySieve (Nat.sqrt r) else []
      let tsum := Id.run do
        let mut a := 0
        let mut k := 0
        for b in tt do
          if b then a := a + k
          k := k + 1
        return a
      let tiny := s!"tiny={tt.length}:{tsum} "
      let base := simpleSieve r
      let mut ps : Array Nat := #[]
      for p in [165 : r + 1] do
        if base.get! p == 1 then ps := ps.push p
      let psA := ps
      let src : Nat → Nat := fun k => if k < psA.size then psA[k]! else umax
      let fs := Feed.feedSegment src g.segmentLow g.segmentHigh {}
      if fs.prime == umax then return tiny ++ s!"pending={umax} n=0 sum=0 last={umax} order=ok"
      let mut n := 0
      let mut sum := 0
      let mut last := fs.prime
      for i in [fs.fetched - 1 : psA.size] do
        n := n + 1
        sum := (sum + psA[i]!) % U64
        last := psA[i]!
      return tiny ++ s!"pending={fs.prime} n={n} sum={sum} last={last} order=ok"
    | _, _, _, _ => "bad-op"
  | _ => "bad-op"

partial def segLoop (h : IO.FS.Stream) : IO Unit := do
  let line ← h.getLine
  if line.isEmpty then return ()
  let line := line.trimAscii.toString
  let op := (line.splitOn " => ").headD ""
  IO.println s!"{op} => {segLine op}"
  segLoop h

/-- primality test backed by a sieve table when the interval is small enough -/
def rangeIsPrime (lo hi : Nat) : Nat → Bool :=
  if lo ≤ hi ∧ hi - lo ≤ 60000000 ∧ hi ≤ 200000000000000 then
    let t := segmentTable lo hi
    tableIsPrime lo hi t
  else isPrimeMR

def tableOk (lo hi : Nat) : Bool := lo ≤ hi ∧ hi - lo ≤ 130000000 ∧ hi ≤ 200000000000000

def showList (l : List Nat) : String := ",".intercalate (l.map toString)

/-- counts with a table-backed primality test; the table is a *parameter* of a non-inlined
    function so that it is built exactly once (a `let` inside the caller gets moved into the
    closure by the compiler and would be rebuilt on every primality query) -/
@[noinline] def countsWithTable (t : ByteArray) (start stop numThreads minDist : Nat) : Counts :=
  parallelCounts (tableIsPrime start stop t) start stop 63 numThreads minDist

/-- `count <start> <stop> <kib> <threads> <mindist> cores=<n>` -/
def countLine (op : String) : String :=
  match (op.splitOn " ").filter (· ≠ "") with
  | ["count", a, b, _kib, t, md, cores, "nosqrt"] =>
    -- hook H1b: threshold = the override alone; the pieces are those of the model, counted piece by piece
    match a.toNat?, b.toNat?, t.toNat?, md.toNat?, kv cores with
    | some start, some stop, some t, some md, some cores =>
      let numThreads := inBetween 1 t cores
      let ideal := if start > stop ∨ md = 0 then 1 else inBetween 1 ((stop - start) / md) numThreads
      let td := if ideal > 1 ∧ start ≤ stop then getThreadDistance start stop ideal md else 0
      let ps := if ideal > 1 ∧ start ≤ stop then pieces start stop td else []
      let isP : Nat → Bool := if tableOk start stop then tableIsPrime start stop (segmentTable start stop) else isPrimeMR
      let counts :=
        if ideal > 1 ∧ start ≤ stop then
          ps.foldl (fun acc p => List.zipWith (· + ·) acc (primeSieveCounts isP p.1 p.2 63)) (List.replicate 6 0)
        else primeSieveCounts isP start stop 63
      let pstr := ";".intercalate (ps.map (fun p => s!"{p.1}-{p.2}"))
      s!"c={showList counts} ideal={ideal} td={td} pieces={pstr}"
    | _, _, _, _, _ => "bad-op"
  | ["count", a, b, _kib, t, md, cores] =>
    match a.toNat?, b.toNat?, t.toNat?, md.toNat?, kv cores with
    | some start, some stop, some t, some md, some cores =>
      let numThreads := inBetween 1 t cores
      let minDist := if md = 0 then Gen.MIN_THREAD_DISTANCE else md
      let counts :=
        if tableOk start stop then countsWithTable (segmentTable start stop) start stop numThreads minDist
        else parallelCounts isPrimeMR start stop 63 numThreads minDist
      let ideal := idealNumThreads start stop numThreads minDist
      let td := if ideal > 1 ∧ start ≤ stop then getThreadDistance start stop ideal minDist else 0
      let ps := if ideal > 1 ∧ start ≤ stop then pieces start stop td else []
      let pstr := ";".intercalate (ps.map (fun p => s!"{p.1}-{p.2}"))
      s!"c={showList counts} ideal={ideal} td={td} pieces={pstr}"
    | _, _, _, _, _ => "bad-op"
  | _ => "bad-op"


/-- FNV-1a (64 bit) of the UTF-8 bytes of a string -/
def fnv1a (s : String) : UInt64 :=
  s.toUTF8.foldl (fun h c => (h ^^^ c.toUInt64) * 1099511628211) 1469598103934665603

@[noinline] def printWithTable (t : ByteArray) (start stop flags : Nat) : List String :=
  primeSievePrint (tableIsPrime start stop t) start stop flags

def us (s : String) : String := s.replace " " "_"

/-- `print <start> <stop> <kind> <kib> <api>` -/
def printLine (op : String) : String :=
  match (op.splitOn " ").filter (· ≠ "") with
  | ["print", a, b, k, _kib, _api] =>
    match a.toNat?, b.toNat?, k.toNat? with
    | some start, some stop, some kind =>
      let flags := 64 * 2 ^ kind
      let lines :=
        if tableOk start stop then printWithTable (segmentTable start stop) start stop flags
        else primeSievePrint isPrimeMR start stop flags
      let text := String.join (lines.map (· ++ "\n"))
      let first := us (lines.headD "-")
      let last := us (lines.getLastD "-")
      s!"lines={lines.length} fnv={fnv1a text} first={first} last={last}"
    | _, _, _ => "bad-op"
  | _ => "bad-op"


def typeMax : String → Option Nat
  | "i8" => some 127 | "u8" => some 255
  | "i16" => some 32767 | "u16" => some 65535 | "short" => some 32767 | "ushort" => some 65535
  | "i32" => some 2147483647 | "u32" => some 4294967295 | "int" => some 2147483647 | "uint" => some 4294967295
  | "i64" => some 9223372036854775807 | "long" => some 9223372036854775807 | "llong" => some 9223372036854775807
  | "u64" => some umax | "ulong" => some umax | "ullong" => some umax
  | _ => none

def showStore : Option StoreRes → String
  | none => "out-of-fuel"
  | some (.throw _ _) => "throw"
  | some (.ok app) =>
    let text := ",".intercalate (app.map toString)
    s!"ok n={app.length} fnv={fnv1a text} first={(app.head?.map toString).getD "-"} last={(app.getLast?.map toString).getD "-"}"

/-- store_n_primes' stop hint: start + (uint64_t)(n * (log x + log log x)), x = max(6, n, start) -/
def storeNHint (n start : Nat) : Nat :=
  let x := fmax (fmax 6.0 (toF n)) (toF start)
  let logn := x.log
  let loglogn := logn.log
  add64 start ((toF n * (logn + loglogn)).toUInt64.toNat)

@[noinline] def storeWithTable (t : ByteArray) (lo hi : Nat) (fuel start stop vmax : Nat) : Option StoreRes :=
  storePrimes { isPrime := tableIsPrime lo hi t, o := floatOracle } (fun _ => 1024) fuel start stop vmax

/-- `gp <start> <stop> <type> <api> <prefill>` / `gn <n> <start> <type> <api> <prefill>` -/
def storeLine (op : String) : String :=
  match (op.splitOn " ").filter (· ≠ "") with
  | ["gp", a, b, ty, _api, _pre] =>
    match a.toNat?, b.toNat?, typeMax ty with
    | some start, some stop, some vmax =>
      let fuel := stop + 2 - start
      -- the iterator's last chunk may look a little beyond stop (stop_hint + max prime gap)
      let hi := min (stop + 2000) umax
      if start ≤ stop ∧ stop ≤ vmax ∧ tableOk start hi then
        showStore (storeWithTable (segmentTable start hi) start hi fuel start stop vmax)
      else showStore (storePrimes driverEnv (fun _ => 1024) fuel start stop vmax)
    | _, _, _ => "bad-op"
  | ["gn", a, b, ty, _api, _pre] =>
    match a.toNat?, b.toNat?, typeMax ty with
    | some n, some start, some vmax =>
      showStore (storeNPrimes driverEnv (fun _ => 1024) (n + 2) n start (storeNHint n start) vmax)
    | _, _, _ => "bad-op"
  | _ => "bad-op"


def countFn (a b : Nat) : Nat := (countSum a b).1

def showNth : Except Err Nat → String
  | .ok v => s!"v={v}"
  | .error _ => "ERR"

/-- avgPrimeGap of nthPrime.cpp: (uint64_t)(log(max(8, n)) + 2) -/
def avgGapF (n : Nat) : Nat := ((fmax 8.0 (toF n)).log + 2).toUInt64.toNat

@[noinline] def nthWithTable (t : ByteArray) (lo hi : Nat) (kf : Nat → Nat) (o : NthOracle) (n : Int) (start : Nat) :
    Except Err Nat :=
  nthPrime { isPrime := tableIsPrime lo hi t, o := floatOracle } kf countFn o n start

/-- `nth <n> <start> <threads> <kib> <api>`: the model is run with two different approximation
    oracles (never counting / over-estimating so that counting and the backward walk run); the
    result must not depend on them -/
def nthLine (op : String) : String :=
  match (op.splitOn " ").filter (· ≠ "") with
  | ["nth", a, b, _t, _k, _api, ab] =>
    -- hook H4: nthPrimeApprox() replaced by a constant
    match a.toInt?, b.toNat?, kv ab with
    | some n, some start, some v =>
      let o : NthOracle := { piA := fun _ => 0, nthA := fun _ => v, avgGap := avgGapF, isqrt := Nat.sqrt }
      -- window: everything between the estimate and start plus room for the walk
      let slack := n.natAbs * 60 + 20000
      let vc := if n < 0 then min v start else max v start
      let lo := (min vc start) - min (min vc start) slack
      let hi := (max vc start) + slack
      if hi ≤ 200000000000000 ∧ n.natAbs ≤ 400000 ∧ hi - lo ≤ 60000000 then
        showNth (nthWithTable (segmentTable lo hi) lo hi (fun _ => 1024) o n start)
      else showNth (nthPrime driverEnv (fun _ => 1024) countFn o n start)
    | _, _, _ => "bad-op"
  | ["nth", a, b, _t, _k, _api] =>
    match a.toInt?, b.toNat? with
    | some n, some start =>
      let o1 : NthOracle := { piA := fun _ => 0, nthA := fun _ => start, avgGap := avgGapF, isqrt := Nat.sqrt }
      let o2 : NthOracle :=
        { piA := fun _ => 0
          nthA := fun _ => if n > 0 then min umax (start + n.natAbs * 40 + 1000) else start - min start (n.natAbs * 40 + 1000)
          avgGap := avgGapF, isqrt := Nat.sqrt }
      let small := n.natAbs ≤ 20000 ∧ start ≤ 100000000000000
      let w := n.natAbs * 100 + 30000
      let lo := start - min start w
      let hi := start + w
      if hi ≤ 200000000000000 ∧ n.natAbs ≤ 400000 then
        let t := segmentTable lo hi
        let r1 := nthWithTable t lo hi (fun _ => 1024) o1 n start
        let r2 := if small then nthWithTable t lo hi (fun _ => 64) o2 n start else r1
        if showNth r1 = showNth r2 then showNth r1 else s!"{showNth r1} MODEL-INCONSISTENT alt={showNth r2}"
      else
        showNth (nthPrime driverEnv (fun _ => 1024) countFn o1 n start)
    | _, _ => "bad-op"
  | _ => "bad-op"


/-- one line of the `cfg` stream -/
def cfgLine (op : String) : String :=
  match (op.splitOn " ").filter (· ≠ "") with
  | ["gss", a, b, c, d] =>
    match a.toNat?, b.toNat?, c.toNat?, d.toNat? with
    | some l1, some l2, some s2, some s3 =>
      let c : CpuDesc := ⟨l1, l2, s2, s3⟩
      s!"size={getSieveSize 0 c} l1={getL1CacheSize c}"
    | _, _, _, _ => "bad-op"
  | ["ss", x] =>
    match x.toInt? with
    | some x => s!"api={setSieveSize x} ps={setSieveSize x}"
    | none => "bad-op"
  | ["nt", x, cores] =>
    match x.toInt?, kv cores with
    | some x, some cores => s!"api={setNumThreads x cores} ps={setNumThreads x cores}"
    | _, _ => "bad-op"
  | _ => "bad-op"

/-! ### calc / cli streams (C16) -/

def hexVal (c : Char) : Nat :=
  if '0' ≤ c ∧ c ≤ '9' then c.toNat - 48 else if 'a' ≤ c ∧ c ≤ 'f' then c.toNat - 87 else if 'A' ≤ c ∧ c ≤ 'F' then c.toNat - 55 else 0

def unhex (h : String) : String :=
  let rec go : List Char → List Char
    | a :: b :: rest => Char.ofNat (hexVal a * 16 + hexVal b) :: go rest
    | _ => []
  String.ofList (go (h.toList.drop 1))     -- first character is the marker 'x'

def calcErrName : Calc.CErr → String
  | .syntax => "syntax" | .overflow => "overflow" | .divZero => "divZero" | .fuel => "fuel"

/-- `calc <u64|i32|i64> <hex> exp=…` -/
def calcLine (op : String) : String :=
  match (op.splitOn " ").filter (· ≠ "") with
  | ["calc", ty, h, _exp] =>
    let t := if ty = "u64" then Calc.u64 else if ty = "i32" then Calc.i32 else Calc.i64
    match Calc.eval (Calc.Arith.ofTy t) (unhex h) with
    | .ok v => s!"v={v}"
    | .error e => s!"err={calcErrName e}"
  | _ => "bad-op"

def summarize (rc : Nat) (lines : List String) : String :=
  let text := String.join (lines.map (· ++ "\n"))
  s!"rc={rc} lines={lines.length} fnv={fnv1a text} first={us (lines.headD "-")} last={us (lines.getLastD "-")}"

@[noinline] def cliSieveWithTable (t : ByteArray) (lo hi start stop flags : Nat) (quiet : Bool) : List String :=
  let isP := tableIsPrime lo hi t
  let f := Cli.effFlags flags
  primeSievePrint isP start stop f ++ Cli.countLines flags quiet (primeSieveCounts isP start stop (f % 64))

/-- `cli <hex argv> exp=…` -/
def cliLine (op : String) : String :=
  match (op.splitOn " ").filter (· ≠ "") with
  | ["cli", h, _exp] =>
    let joined := unhex h
    let argv := if joined.isEmpty then [] else joined.splitOn "\x1f"
    match Cli.mainAction argv with
    | .help1 => "rc=1 other"
    | .reject _ => summarize 1 []
    | .other _ => "rc=0 other"
    | .sieve start stop flags _ _ quiet _ =>
      if start > stop then summarize 0 (Cli.countLines flags quiet (List.replicate 6 0))
      else if tableOk start stop then summarize 0 (cliSieveWithTable (segmentTable start stop) start stop start stop flags quiet)
      else
        let f := Cli.effFlags flags
        summarize 0 (primeSievePrint isPrimeMR start stop f ++ Cli.countLines flags quiet (primeSieveCounts isPrimeMR start stop (f % 64)))
    | .nth n start quiet _ =>
      let o1 : NthOracle := { piA := fun _ => 0, nthA := fun _ => start, avgGap := avgGapF, isqrt := Nat.sqrt }
      let r :=
        if start + 25000000 ≤ 200000000000000 ∧ n ≤ 400000 then
          let lo := start - min start 25000000
          nthWithTable (segmentTable lo (start + 25000000)) lo (start + 25000000) (fun _ => 1024) o1 (n : Int) start
        else nthPrime driverEnv (fun _ => 1024) countFn o1 (n : Int) start
      match r with
      | .ok v => summarize 0 [(if quiet then "" else "Nth prime: ") ++ toString v]
      | .error _ => summarize 1 []
  | _ => "bad-op"

/-! ### wheel / cross streams (sieve chain) -/

def wheelLine (op : String) : String :=
  match (op.splitOn " ").filter (· ≠ "") with
  | ["wheel", m, p, l, st] =>
    match p.toNat?, l.toNat?, st.toNat? with
    | some p, some l, some st =>
      let r := if m = "30" then Wheel.addSievingPrime 30 8 Gen.wheel30Init st p l
               else Wheel.addSievingPrime 210 48 Gen.wheel210Init st p l
      match r with
      | none => "none"
      | some s => s!"sp={s.sp} idx={s.idx} w={s.w}"
    | _, _, _ => "bad-op"
  | _ => "bad-op"

/-- cross off one sieving prime over `nseg` segments of `S` bytes: the numbers whose bits are
    cleared, in (segment, byte, bit) order like the harness reads them.  `big` uses step210 on
    a linear index (segment = idx >> log2 S, idx & (S-1) in the code). -/
def crossNumbers (big : Bool) (rows : List (Nat × Nat × Nat)) (s0 : Wheel.SP) (low S nseg : Nat) : List Nat := Id.run do
  let total := S * nseg
  let mut s := s0
  let mut out : Array (Nat × Nat) := #[]      -- (byte index over all segments, bit)
  let mut fuel := total * 8 + 8
  while s.idx < total ∧ fuel > 0 do
    let r := if big then Wheel.step210 s else Wheel.step30 rows s
    out := out.push (s.idx, r.1)
    s := r.2
    fuel := fuel - 1
  let sorted := out.qsort (fun a b => a.1 < b.1 ∨ (a.1 = b.1 ∧ a.2 < b.2))
  return sorted.toList.map (fun x => low + 30 * x.1 + Wheel.offs.getD x.2 0)

def crossLine (op : String) : String :=
  match (op.splitOn " ").filter (· ≠ "") with
  | ["cross", alg, p, l, st, sz, ns, _l1] =>
    match p.toNat?, l.toNat?, st.toNat?, sz.toNat?, ns.toNat? with
    | some p, some l, some st, some sz, some ns =>
      let big := alg = "big"
      let r := if big then Wheel.addSievingPrime 210 48 Gen.wheel210Init st p l
               else Wheel.addSievingPrime 30 8 Gen.wheel30Init st p l
      let nums := match r with
        | none => []
        | some s => crossNumbers big (if alg = "small" then Gen.eratSmallRows else Gen.eratMediumRows) s l sz ns
      let text := String.join (nums.map (fun n => toString n ++ ","))
      s!"n={nums.length} fnv={fnv1a text}"
    | _, _, _, _, _ => "bad-op"
  | _ => "bad-op"

def presieveLine (op : String) : String :=
  match (op.splitOn " ").filter (· ≠ "") with
  | ["presieve", l, n] =>
    match l.toNat?, n.toNat? with
    | some l, some n =>
      let text := String.join ((List.range n).map (fun o => toString (PreSieve.preSieveFinal PreSieve.allTables l o) ++ ","))
      s!"fnv={fnv1a text}"
    | _, _ => "bad-op"
  | _ => "bad-op"

partial def lineLoop (h : IO.FS.Stream) (f : String → String) : IO Unit := do
  let line ← h.getLine
  if line.isEmpty then return ()
  let line := line.trimAscii.toString
  let op := (line.splitOn " => ").headD ""
  IO.println s!"{op} => {f op}"
  lineLoop h f

def main (args : List String) : IO UInt32 := do
  match args with
  | [stream, file] =>
    let h ← IO.FS.Handle.mk file .read
    let s := IO.FS.Stream.ofHandle h
    match stream with
    | "iter" => iterLoop s (Iter.mk' 0 umax); return 0
    | "segment" => segLoop s; return 0
    | "count" => lineLoop s countLine; return 0
    | "print" => lineLoop s printLine; return 0
    | "store" => lineLoop s storeLine; return 0
    | "nth" => lineLoop s nthLine; return 0
    | "cfg" => lineLoop s cfgLine; return 0
    | "multi" => multiLoop s (Array.replicate 8 (Iter.mk' 0 umax)); return 0
    | "iterc" => itercLoop s CIter.init; return 0
    | "calc" => lineLoop s calcLine; return 0
    | "wheel" => lineLoop s wheelLine; return 0
    | "presieve" => lineLoop s presieveLine; return 0
    | "cross" => lineLoop s crossLine; return 0
    | "cli" => lineLoop s cliLine; return 0
    | "fiter" => fiterLoop s (Iter.mk' 0 umax); return 0
    | "bench" =>
      let n := (← IO.FS.readFile file).trimAscii.toString.toNat?.getD 1000
      let t00 ← IO.monoMsNow
      let tt := segmentTable 0 n
      IO.println s!"size {tt.size}"
      let t01 ← IO.monoMsNow
      IO.println s!"segmentTable 0 {n}: {t01 - t00} ms"
      let ss := simpleSieve n
      IO.println s!"size {ss.size}"
      let t02 ← IO.monoMsNow
      IO.println s!"simpleSieve {n}: {t02 - t01} ms"
      let t0 ← IO.monoMsNow
      let t := segmentTable 0 100000
      let t1 ← IO.monoMsNow
      IO.println s!"table {t1 - t0} ms size {t.size}"
      let c := primeSieveCounts (tableIsPrime 0 100000 t) 0 100000 63
      IO.println s!"counts {c}"
      let t2 ← IO.monoMsNow
      IO.println s!"primeSieveCounts {t2 - t1} ms"
      let c := sieveCounts isPrimeMR 0 100000 1
      IO.println s!"counts MR {c}"
      let t3 ← IO.monoMsNow
      IO.println s!"MR {t3 - t2} ms"
      let c := idealNumThreads 0 100000 1 10000000
      IO.println s!"ideal {c}"
      let t4 ← IO.monoMsNow
      IO.println s!"ideal {t4 - t3} ms"
      let c := parallelCounts (tableIsPrime 0 100000 t) 0 100000 63 1 10000000
      IO.println s!"par {c}"
      let t5 ← IO.monoMsNow
      IO.println s!"parallelCounts {t5 - t4} ms"
      let c := countLine "count 0 100000 16 1 0 cores=16"
      IO.println s!"line {c}"
      let t6 ← IO.monoMsNow
      IO.println s!"countLine {t6 - t5} ms"
      return 0
    | _ => IO.eprintln s!"unknown stream {stream}"; return 2
  | _ => IO.eprintln "usage: psv_model <stream> <tracefile>"; return 2
