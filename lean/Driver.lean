/-
  psv_model — line-protocol driver around the executable Lean model.
  Usage: psv_model <stream> <tracefile>
  Each input line is `<operation> => <what the implementation did>`; the driver parses
  the operation (left of `=>`), runs the model and prints `<operation> => <what the model does>`.
-/
import PsModel.Iterator
import PsModel.Primality
import PsModel.FloatOracle
import PsModel.SieveTable

open Ps

def driverEnv : Env := { isPrime := isPrimeMR, o := floatOracle }

/-- environment for a prev_prime call: if the call is going to refill the buffer, sieve the first
    chunk it will cover (same bounds as the model computes) so that `isPrime` is a table lookup -/
def prevEnv (st : Iter) : Env :=
  if st.i = 0 then
    let st1 := match st.gen with
      | none => st
      | some _ => { st with start := st.buf.getD 0 0, gen := none }
    let u := updatePrev floatOracle st1
    let a := u.1
    let b := u.2.1
    if a ≤ b ∧ b - a ≥ 20000 ∧ b - a ≤ 60000000 ∧ b ≤ 200000000000000 then
      let t := segmentTable a b
      { isPrime := tableIsPrime a b t, o := floatOracle }
    else driverEnv
  else driverEnv

def kv (s : String) : Option Nat :=
  match s.splitOn "=" with
  | [_, v] => v.toNat?
  | _ => none

def errName : Err → String
  | .overflow => "overflow"
  | .badAlloc => "badAlloc"
  | .invalid => "invalid"

def iterState (st : Iter) : String :=
  s!"i={st.i} size={st.size} start={st.start} stop={st.stop} dist={st.dist} " ++
  s!"incl={if st.incl then 1 else 0} gen={if st.gen.isSome then 1 else 0} " ++
  (if st.size > 0 then s!"b0={st.buf.getD 0 0} bl={st.buf.getD (st.size - 1) 0}" else "b0=- bl=-")

/-- one line of the `iter` stream -/
def iterLine (st : Iter) (op : String) : Iter × String :=
  match (op.splitOn " ").filter (· ≠ "") with
  | ["new", s, h] =>
    match s.toNat?, h.toNat? with
    | some s, some h => let st' := Iter.mk' s h; (st', iterState st')
    | _, _ => (st, "bad-op")
  | ["jump", s, h] =>
    match s.toNat?, h.toNat? with
    | some s, some h => let st' := st.jumpTo s h; (st', iterState st')
    | _, _ => (st, "bad-op")
  | ["clear"] => let st' := st.clear; (st', iterState st')
  | ["movein"] => (st, iterState st)
  | ["moveout"] => (Iter.movedFrom, iterState Iter.movedFrom)
  | ["next", k] =>
    match kv k with
    | some k =>
      match st.next driverEnv k with
      | (.ok v, st') => (st', s!"v={v} " ++ iterState st')
      | (.error e, st') => (st', s!"v=ERR:{errName e} " ++ iterState st')
    | none => (st, "bad-op")
  | ["prev", _] =>
    let r := st.prev (prevEnv st)
    (r.2, s!"v={r.1} " ++ iterState r.2)
  | _ => (st, "bad-op")

partial def iterLoop (h : IO.FS.Stream) (st : Iter) : IO Unit := do
  let line ← h.getLine
  if line.isEmpty then return ()
  let line := line.trimAscii.toString
  let op := (line.splitOn " => ").headD ""
  let (st', out) := iterLine st op
  IO.println s!"{op} => {out}"
  iterLoop h st'

def main (args : List String) : IO UInt32 := do
  match args with
  | [stream, file] =>
    let h ← IO.FS.Handle.mk file .read
    let s := IO.FS.Stream.ofHandle h
    match stream with
    | "iter" => iterLoop s (Iter.mk' 0 umax); return 0
    | _ => IO.eprintln s!"unknown stream {stream}"; return 2
  | _ => IO.eprintln "usage: psv_model <stream> <tracefile>"; return 2
