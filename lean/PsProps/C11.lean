/-
  C11 — C API equals the C++ API and obeys its error contract.
-/
import PsModel.IteratorC
import PsModel.Generated.Facts
import PsProps.C03
import PsProps.C06
import PsModel.Generated.Locks

namespace Ps.Props
open Ps Ps.Spec

/-- the iterator state after a failed primesieve_next_prime -/
def cErrC : CIter := { it := cErrStateNext, isError := true, edom := true }

theorem cErrState_size : cErrStateNext.size = 1 := rfl
theorem cErrState_i : cErrStateNext.i = 0 := rfl
theorem cErrState_refill : cErrStateNext.i + 1 ≥ cErrStateNext.size := by
  rw [cErrState_size, cErrState_i]

/-- the refill of an iterator in the C error state fails again (there is no prime ≥ 2^64-1) -/
theorem cErrState_fails {env : Env} (h : EnvOK env) (k : Nat) :
    cGenerateNext env k cErrStateNext = .error .overflow := by
  have hs := genNextFresh_spec h k cErrStateNext (Nat.le_refl umax)
  unfold cGenerateNext Iter.generateNext
  have hg : cErrStateNext.gen = none := rfl
  rw [hg]
  simp only
  cases hr : genNextFresh env k cErrStateNext with
  | error e =>
    rw [hr] at hs
    rw [hs.1]
  | ok st' =>
    rw [hr] at hs
    have hlt := hs.lt
    have hincl : cErrStateNext.incl = true := rfl
    have hstop : cErrStateNext.stop = umax := rfl
    rw [hincl, hstop] at hlt
    simp only [if_true] at hlt
    have h1 := le_nextPrime umax
    have h2 := nextPrime_prime umax
    have hne : nextPrime umax ≠ umax := fun e => umax_not_prime (e ▸ h2)
    rw [U64_eq_succ] at hlt
    omega

/-- the first failing call puts the iterator into exactly that state -/
theorem C11_error_state (env : Env) (c : CIter) (k : Nat) (e : Err)
    (hi : c.it.i + 1 ≥ c.it.size) (hf : cGenerateNext env k c.it = .error e) :
    c.next env k = (umax, cErrC) := by
  unfold CIter.next
  simp only [hi, if_true, hf]
  rfl

theorem run_fixpoint (env : Env) (c : CIter) (hfix : ∀ k, c.next env k = (umax, c)) (ks : List Nat) :
    CIter.run env c (ks.map Op.next) = ks.map (fun _ => Out.val umax) := by
  induction ks with
  | nil => rfl
  | cons k ks ih =>
    rw [List.map_cons, List.map_cons, CIter.run]
    simp only [CIter.step, hfix k]
    exact congrArg _ ih

theorem cErrC_fix {env : Env} (h : EnvOK env) (k : Nat) : cErrC.next env k = (umax, cErrC) :=
  C11_error_state env cErrC k .overflow cErrState_refill (cErrState_fails h k)

/-- **C11 (sticky error)** once primesieve_next_prime has failed, the iterator has is_error = 1,
    errno = EDOM has been set, and every further primesieve_next_prime returns PRIMESIEVE_ERROR
    (UINT64_MAX) again — for every block policy and float oracle. -/
theorem C11_error_sticky {env : Env} (h : EnvOK env) (ks : List Nat) :
    CIter.run env cErrC (ks.map Op.next) = ks.map (fun _ => Out.val umax) ∧
    cErrC.isError = true ∧ cErrC.edom = true :=
  ⟨run_fixpoint env cErrC (cErrC_fix h) ks, rfl, rfl⟩

/-- **C11 (same as C++)** a call that does not fail returns the same value and leaves the same
    iterator state as primesieve::iterator::next_prime / prev_prime (the flags are untouched, so
    errno is not set to EDOM by a successful call). -/
theorem C11_next_same_as_cpp (env : Env) (c : CIter) (k v : Nat) (st' : Iter)
    (h : c.it.next env k = (.ok v, st')) : c.next env k = (v, { c with it := st' }) := by
  by_cases hi : c.it.i + 1 ≥ c.it.size
  · simp only [Iter.next, hi, if_true] at h
    simp only [CIter.next, hi, if_true, cGenerateNext]
    cases hg : c.it.generateNext env k with
    | ok it' =>
      rw [hg] at h
      simp only [Prod.mk.injEq, Except.ok.injEq] at h
      obtain ⟨rfl, rfl⟩ := h
      rfl
    | error e =>
      rw [hg] at h
      simp at h
  · simp only [Iter.next, hi, if_false, Prod.mk.injEq, Except.ok.injEq] at h
    simp only [CIter.next, hi, if_false]
    obtain ⟨rfl, rfl⟩ := h
    rfl

theorem C11_prev_same_as_cpp (env : Env) (c : CIter) :
    c.prev env = ((c.it.prev env).1, { c with it := (c.it.prev env).2 }) := rfl

/-- **C11 (jump_to inclusive, skipto exclusive)** directly after primesieve_jump_to(s) the next prime is
    the first prime ≥ s, after primesieve_skipto(s) the first prime > s (both via C03). -/
theorem C11_jump_inclusive_skipto_exclusive (env : Env) (henv : EnvOK env) (s0 h0 s h k : Nat)
    (hs0 : s0 ≤ umax) (hs : s ≤ umax) :
    Iter.run env (Iter.mk' s0 h0) [.jumpTo s h, .next k] = specRun (.fresh s0) [.jumpTo s h, .next k] ∧
    Iter.run env (Iter.mk' s0 h0) [.skipTo s h, .next k] = specRun (.fresh s0) [.skipTo s h, .next k] ∧
    (specStep (.fresh s) (.next k)).1 = (if nextPrime s < U64 then .val (nextPrime s) else .err .overflow) ∧
    (specStep (.at s) (.next k)).1 =
      (if nextPrime (s + 1) < U64 then .val (nextPrime (s + 1)) else .err .overflow) := by
  refine ⟨C03_refines env henv s0 h0 hs0 _ ?_, C03_refines env henv s0 h0 hs0 _ ?_, ?_, ?_⟩
  · intro op hop; simp at hop; rcases hop with rfl | rfl <;> first | exact hs | trivial
  · intro op hop; simp at hop; rcases hop with rfl | rfl <;> first | exact hs | trivial
  · simp only [specStep, specNext]; split <;> rfl
  · simp only [specStep, specNext]; split <;> rfl

/-- **C11 (wrappers)** regenerated from src/api-c.cpp and src/iterator-c.cpp on every run: every extern "C"
    function that has a try block catches std::exception, sets errno = EDOM in the handler and
    returns PRIMESIEVE_ERROR / NULL / nothing / the iterator error state from it. -/
theorem C11_wrappers_catch :
    ∀ w ∈ Gen.cWrappers, w.2.1 = true →
      w.2.2.1 = true ∧ w.2.2.2.1 = true ∧
      w.2.2.2.2.1 ∈ ["PRIMESIEVE_ERROR", "nullptr", "void", "iterator-error-state"] := by decide

/-- the functions WITHOUT a try block are exactly these (none of them can raise a primesieve_error:
    type dispatch, free, getters/setters, iterator bookkeeping) -/
theorem C11_wrappers_without_try :
    (Gen.cWrappers.filter (fun w => !w.2.1)).map (fun w => w.1) =
      ["primesieve_generate_primes", "primesieve_generate_n_primes", "primesieve_free",
       "primesieve_get_sieve_size", "primesieve_get_num_threads", "primesieve_set_sieve_size",
       "primesieve_set_num_threads", "primesieve_get_max_stop", "primesieve_version", "primesieve_init",
       "primesieve_jump_to", "primesieve_skipto", "primesieve_clear", "primesieve_free_iterator"] := by decide

/-- errno is assigned EDOM only inside handlers, except on the invalid-type-code path of the two
    array functions; NULL comes with *size = 0 there -/
theorem C11_errno_only_on_error :
    ∀ w ∈ Gen.cWrappers, w.2.2.2.2.2.1 = 0 ∨
      (w.1 ∈ ["primesieve_generate_primes", "primesieve_generate_n_primes"] ∧ w.2.2.2.2.2.1 = 1) := by decide

/-- **C11 (type codes)** each of the 14 type codes instantiates the array functions at the element type of
    the same name -/
theorem C11_type_switch :
    Gen.cTypeSwitch = [("SHORT_PRIMES", "short"), ("USHORT_PRIMES", "unsigned short"), ("INT_PRIMES", "int"),
      ("UINT_PRIMES", "unsigned int"), ("LONG_PRIMES", "long"), ("ULONG_PRIMES", "unsigned long"),
      ("LONGLONG_PRIMES", "long long"), ("ULONGLONG_PRIMES", "unsigned long long"), ("INT16_PRIMES", "int16_t"),
      ("UINT16_PRIMES", "uint16_t"), ("INT32_PRIMES", "int32_t"), ("UINT32_PRIMES", "uint32_t"),
      ("INT64_PRIMES", "int64_t"), ("UINT64_PRIMES", "uint64_t")] ∧
    Gen.cTypeSwitchN = Gen.cTypeSwitch := by decide

/-- **C11 (model sources)** regenerated on every run: digests of the (comment-, hook- and whitespace-normalised) bodies of the
    functions that the hand-written model behind the theorems of this file mirrors.  An edit to one of
    them — harmless or not — breaks this obligation; the check then searches for a failing input
    with the correspondence streams (DESIGN.md section 2, step 5). -/
theorem C11_model_sources :
    Gen.modelSources.filter (fun e => e.1 ∈ ["iterator-c.skipto", "iterator-c.jump_to", "iterator-c.clear", "iterator-c.init", "iterator-c.free_iterator", "iterator-c.generate_next_primes", "iterator-c.generate_prev_primes", "iterator.h.next_prime", "iterator.h.prev_prime"]) =
     [("iterator-c.skipto", "636c0a68cf6ec520fb4b"),
      ("iterator-c.jump_to", "305e42bf5e9ea1870743"),
      ("iterator-c.clear", "0bfc2a109ad41a52c480"),
      ("iterator-c.init", "5cd6de5dae89be98f14a"),
      ("iterator-c.free_iterator", "92349951134908b1f05a"),
      ("iterator-c.generate_next_primes", "f2b77575cffe55b64d7e"),
      ("iterator-c.generate_prev_primes", "686803fbb620259da67e"),
      ("iterator.h.next_prime", "a158acb081322d74c935"),
      ("iterator.h.prev_prime", "609801e019b49ddb63c3")] := by decide

end Ps.Props
