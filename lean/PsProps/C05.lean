/-
  C05 — Prime k-tuplet counts (k = 2..6) are exact, including small and boundary cases.
-/
import PsProofs.CountSieve
import PsProps.C04
import PsModel.Generated.Locks

namespace Ps.Props
open Ps Ps.Spec

/-- **C05 (single thread)** for i = 1..5 (twins … sextuplets): counter i of `PrimeSieve::sieve` — rows of
    the small-constellation table with first ≥ start ∧ last ≤ stop, plus for every byte of the (ideal)
    sieve the number of bit masks of row i of `bitmasks` contained in it (walk stopped by the ~0
    sentinel) — equals the number of constellations of kind i all of whose members lie in
    [start, stop].  `tupletCount ds lo hi` counts the p ∈ [lo, hi] with p + span ds ≤ hi and all
    p + d (d ∈ ds) prime, so a constellation cut by start or stop is not counted. -/
theorem C05_tuplets_single {isP : Nat → Bool} (hP : IsPrimeOK isP) (start stop flags i : Nat)
    (hi1 : 1 ≤ i) (hi6 : i < 6) (hf : isFlag flags (2 ^ i) = true) :
    (primeSieveCounts isP start stop flags).getD i 0 =
      ((patterns i).map (fun ds => tupletCount ds start stop)).sum := by
  have := primeSieveCounts_spec hP start stop flags i hi6 hf
  have h0 : i ≠ 0 := by omega
  simpa [kindCount, h0] using this

/-- **C05 (ParallelSieve)** the same with any number of threads / piece length (no constellation is
    lost or counted twice at a piece boundary — C09). -/
theorem C05_tuplets_parallel {isP : Nat → Bool} (hP : IsPrimeOK isP)
    (start stop flags numThreads minDist i : Nat) (hi1 : 1 ≤ i) (hi6 : i < 6)
    (hf : isFlag flags (2 ^ i) = true) (hs : stop ≤ umax)
    (htdu : getThreadDistance start stop (idealNumThreads start stop numThreads minDist) minDist ≤ umax)
    (hnw : ∀ k, k < numPieces start stop
        (getThreadDistance start stop (idealNumThreads start stop numThreads minDist) minDist) →
      stop < umax ∨ start + getThreadDistance start stop (idealNumThreads start stop numThreads minDist) minDist * k
        + 32 < stop ∨ k = 0) :
    (parallelCounts isP start stop flags numThreads minDist).getD i 0 =
      ((patterns i).map (fun ds => tupletCount ds start stop)).sum := by
  have := parallelCounts_spec hP start stop flags numThreads minDist i hi6 hf hs htdu hnw
  have h0 : i ≠ 0 := by omega
  simpa [kindCount, h0] using this

/-- **C05 (masks)** the decoding tables are right for every one of the 256 byte values: the masks of
    row `kind` contained in a byte, decoded with `bitValues`, are exactly the constellations of that
    kind all of whose members have their bit set in the byte (checked exhaustively by the kernel). -/
theorem C05_masks_exhaustive : ∀ kind < 6, 1 ≤ kind → ∀ byte < 256,
    byteTuplets (Gen.bitmasks.getD kind []) byte 0 =
      (List.range' 7 30).flatMap (fun r =>
        ((patterns kind).filter (fun ds => ds.all (fun d => inByte byte (r + d)))).map
          (fun ds => ds.map (r + ·))) :=
  byteTuplets_fin

/-- **C05 (small constellations)** the rows of the small table are (3,5), (5,7), (5,7,11), (5,7,11,13),
    (5,7,11,13,17) with the right kinds -/
theorem C05_small_rows :
    (Gen.psSmallPrimes.filter (fun r => r.2.2.1 ≥ 1)).map (fun r => (r.1, r.2.1, r.2.2.1)) =
      [(3, 5, 1), (5, 7, 1), (5, 11, 2), (5, 13, 3), (5, 17, 4)] := by decide

/-- non-vacuity: twins in [0, 100]: (3,5) (5,7) (11,13) (17,19) (29,31) (41,43) (59,61) (71,73) -/
example : (primeSieveCounts (fun n => decide n.Prime) 0 100 63).getD 1 0 = 8 := by decide
/-- a twin cut by `stop` is not counted: [0, 12] has (3,5), (5,7) but not (11,13) -/
example : (primeSieveCounts (fun n => decide n.Prime) 0 12 63).getD 1 0 = 2 := by decide

/-- **C05 (model sources)** regenerated on every run: digests of the (comment-, hook- and whitespace-normalised) bodies of the
    functions that the hand-written model behind the theorems of this file mirrors.  An edit to one of
    them — harmless or not — breaks this obligation; the check then searches for a failing input
    with the correspondence streams (DESIGN.md section 2, step 5). -/
theorem C05_model_sources :
    Gen.modelSources.filter (fun e => e.1 ∈ ["CountPrintPrimes.initCounts", "CountPrintPrimes.countkTuplets", "PrimeSieve.processSmallPrimes"]) =
     [("CountPrintPrimes.initCounts", "08ae47d8a1173e6e802b"),
      ("CountPrintPrimes.countkTuplets", "f17bfa234d9b21e83b89"),
      ("PrimeSieve.processSmallPrimes", "aea93bdf6096ecdf2777")] := by decide

end Ps.Props
