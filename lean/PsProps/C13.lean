/-
  C13 — A failed allocation is reported, never turned into a crash or a wrong answer.
-/
import PsProofs.IterFault
import PsProps.C11
import PsModel.Generated.Locks

namespace Ps.Props
open Ps Ps.Spec

/-- **C13 (iterator)** for every history of next/prev/jump_to/skipto/clear/move operations in which an
    arbitrary subset of the next_prime / prev_prime calls suffers an allocation failure: every
    call either returns exactly what the abstract cursor returns, or raises std::bad_alloc and
    leaves the cursor where it was — so continued use of the same iterator never yields a wrong
    prime (`FaultRun` is the set of output sequences a cursor admits under faults). -/
theorem C13_iterator_fault_safe (env : Env) (henv : EnvOK env) (s h : Nat) (hs : s ≤ umax)
    (ops : List FOp) (hwf : ∀ op ∈ ops, Op.WF op.base) :
    FaultRun (.fresh s) ops (Iter.runF env (Iter.mk' s h) ops) :=
  runF_sim henv ops _ _ (R_mk' s h hs true) hwf

/-- a faulting call that has to refill raises bad_alloc and rolls back to the snapshot; a call that
    stays inside the buffer performs no allocation and is unaffected -/
theorem C13_fault_only_on_refill (env : Env) (st : Iter) (k : Nat) (h : ¬ st.i + 1 ≥ st.size) :
    st.nextFault env k = st.next env k := by
  unfold Iter.nextFault; simp [h]

/-- the state after a failed call is that of a freshly positioned iterator: nothing but the
    fixed IteratorData block is held, so it is destructible and resettable -/
theorem C13_state_after_failure (st : Iter) :
    (st.resetTo st.snapNext).buf = [] ∧ (st.resetTo st.snapNext).gen = none ∧
    (st.resetTo st.snapPrev).buf = [] ∧ (st.resetTo st.snapPrev).gen = none :=
  ⟨rfl, rfl, rfl, rfl⟩

/-- **C13 (C iterator)** the C handler turns any failure of generate_next_primes into the sticky error
    state: PRIMESIEVE_ERROR is returned, is_error and errno = EDOM are set -/
theorem C13_c_iterator_failure (env : Env) (c : CIter) (k : Nat) (e : Err)
    (hi : c.it.i + 1 ≥ c.it.size) (hf : cGenerateNext env k c.it = .error e) :
    (c.next env k).1 = umax ∧ (c.next env k).2.isError = true ∧ (c.next env k).2.edom = true := by
  rw [C11_error_state env c k e hi hf]
  exact ⟨rfl, rfl, rfl⟩

/-- non-vacuity: a history with a failing first call -/
example (env : Env) (henv : EnvOK env) :
    FaultRun (.fresh 10) [.nextFault 1, .plain (.next 1)]
      (Iter.runF env (Iter.mk' 10 100) [.nextFault 1, .plain (.next 1)]) :=
  C13_iterator_fault_safe env henv 10 100 (by decide) _ (by intro op hop; simp at hop; rcases hop with rfl | rfl <;> trivial)

/-- **C13 (model sources)** regenerated on every run: digests of the (comment-, hook- and whitespace-normalised) bodies of the
    functions that the hand-written model behind the theorems of this file mirrors.  An edit to one of
    them — harmless or not — breaks this obligation; the check then searches for a failing input
    with the correspondence streams (DESIGN.md section 2, step 5). -/
theorem C13_model_sources :
    Gen.modelSources.filter (fun e => e.1 ∈ ["iterator.generate_next_primes", "iterator.generate_prev_primes", "iterator-c.generate_next_primes", "iterator-c.generate_prev_primes"]) =
     [("iterator.generate_next_primes", "2a13a14724829f92f5fe"),
      ("iterator.generate_prev_primes", "1784049c687ca3b8c7e8"),
      ("iterator-c.generate_next_primes", "f2b77575cffe55b64d7e"),
      ("iterator-c.generate_prev_primes", "686803fbb620259da67e")] := by decide

end Ps.Props
