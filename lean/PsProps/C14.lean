/-
  C14 — Independent objects and concurrent calls do not influence each other.
-/
import PsModel.Iterator
import PsModel.Generated.Facts

namespace Ps.Props
open Ps

/-- **C14 (no hidden shared state)** regenerated from the sources on every run: the only variables with
    static storage duration in the library that are not const/constexpr are the two settings
    `sieve_size` and `num_threads` of src/api.cpp (which the property exempts).  A static buffer,
    cache or thread_local member introduced anywhere in src/ or include/ changes this list. -/
theorem C14_mutable_globals :
    Gen.mutableGlobals = [("src/api.cpp", "sieve_size"), ("src/api.cpp", "num_threads")] := by decide

/-- run a schedule of operations over two iterators (`false` = first, `true` = second object);
    each step touches only the addressed object — that is all the state the model (and, by
    `C14_mutable_globals`, the code) has -/
def runPair (env : Env) : Iter × Iter → List (Bool × Op) → List (Bool × Out)
  | _, [] => []
  | (a, b), (false, op) :: rest => let r := a.step env op; (false, r.1) :: runPair env (r.2, b) rest
  | (a, b), (true, op) :: rest => let r := b.step env op; (true, r.1) :: runPair env (a, r.2) rest

def proj (w : Bool) {α : Type} (l : List (Bool × α)) : List α := (l.filter (fun x => x.1 == w)).map (·.2)

/-- **C14 (frame)** for every interleaving of operations on two iterators, each iterator returns exactly
    what it returns when its own operations are run alone. -/
theorem C14_interleaving (env : Env) (a b : Iter) (sched : List (Bool × Op)) :
    proj false (runPair env (a, b) sched) = Iter.run env a (proj false sched) ∧
    proj true (runPair env (a, b) sched) = Iter.run env b (proj true sched) := by
  induction sched generalizing a b with
  | nil => exact ⟨rfl, rfl⟩
  | cons x rest ih =>
    obtain ⟨w, op⟩ := x
    cases w with
    | false =>
      have := ih (a.step env op).2 b
      simp only [runPair, proj, List.filter_cons, List.map_cons, Iter.run] at this ⊢
      simp only [beq_self_eq_true, if_true, List.map_cons, Iter.run]
      refine ⟨by rw [this.1], ?_⟩
      simpa using this.2
    | true =>
      have := ih a (b.step env op).2
      simp only [runPair, proj, List.filter_cons, List.map_cons, Iter.run] at this ⊢
      simp only [beq_self_eq_true, if_true, List.map_cons, Iter.run]
      refine ⟨?_, by rw [this.2]⟩
      simpa using this.1

/-- non-vacuity: a schedule alternating two iterators -/
example : proj false [(false, Op.next 1), (true, Op.prev), (false, Op.prev)] = [Op.next 1, Op.prev] := by decide

end Ps.Props
