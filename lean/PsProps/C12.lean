/-
  C12 — No undefined behaviour, memory error, failed assertion or leak for any input.
  What a proof can carry: the index arithmetic that keeps buffer and table accesses in bounds,
  the signed-arithmetic side conditions, and a ledger of every internal assertion.  Memory
  errors of the real allocator, uninitialised reads, alignment and leaks are outside any
  executable model: they are covered by running every correspondence stream on an
  ASan + UBSan + ENABLE_ASSERT build (an abort is a violation with the operation as replay).
-/
import PsProofs.Fill
import PsProofs.Wheel
import PsModel.Generated.Asserts
import PsModel.Generated.Tables
import PsModel.Erat
import PsProps.C07
import PsProps.C08
import PsProps.C16

namespace Ps.Props
open Ps Ps.Fill

/-- **C12 (table lookups)** getStartIdx / getStopIdx index the 720-entry primePi table only inside it -/
theorem C12_primePi_lookups (start stop : Nat) :
    (start ≤ Gen.maxCachedPrime → start > 1 → start - 1 < Gen.primePi720.length) ∧
    (stop < Gen.maxCachedPrime → stop < Gen.primePi720.length) :=
  ⟨startIdx_index_ok start, stopIdx_index_ok stop⟩

/-- **C12 (small-prime copy)** for start ≤ stop the copy `smallPrimes[a, b)` of initNextPrimes /
    initPrevPrimes has a ≤ b ≤ 128: it stays inside the 128-entry table and `b - a` cannot wrap
    (this is ASSERT(a <= b)) -/
theorem C12_small_prime_copy (start stop : Nat) (h : start ≤ Gen.maxCachedPrime) (hss : start ≤ stop) :
    getStartIdx start ≤ getStopIdx stop ∧ getStopIdx stop ≤ Gen.smallPrimes128.length :=
  idx_order start stop h hss

/-- **C12 (buffer slack)** after initNextPrimes — for every previous buffer size and EVERY value of the
    floating-point estimate primeCountUpper — the buffer holds the cached primes
    (ASSERT(primes.size() >= *size)), and whenever a segment is going to be sieved (stop ≥ 721)
    at least 64 further slots exist (ASSERT(i + 64 <= maxSize) of both fillNextPrimes variants) -/
theorem C12_next_buffer_slack (old start stop pixU : Nat) (hss : start ≤ stop) :
    (initNextSizes old start stop pixU).2 ≤ (initNextSizes old start stop pixU).1 ∧
    (stop ≥ Gen.maxCachedPrime + 2 →
      (initNextSizes old start stop pixU).2 + 64 ≤ (initNextSizes old start stop pixU).1) ∧
    (initNextSizes old start stop pixU).2 ≤ 128 :=
  initNext_slack old start stop pixU hss

/-- **C12 (fillNextPrimes, default)** for every segment content (popcounts of its 64-bit words) and every
    buffer with i + 64 ≤ size at loop entry: every slot the 4-way unrolled loop writes — including
    the up to 3 surplus stores per word and the stores for an all-zero word — lies inside the
    buffer, and the size returned does not exceed it -/
theorem C12_fill_default_in_bounds (maxSize : Nat) (pcs : List Nat) (i : Nat) (hpc : ∀ pc ∈ pcs, pc ≤ 64)
    (hi : i + 64 ≤ maxSize) :
    (∀ k ∈ (fillDefault maxSize pcs i).1, k < maxSize) ∧ (fillDefault maxSize pcs i).2 ≤ maxSize :=
  fillDefault_in_bounds maxSize pcs i hpc hi

/-- **C12 (fillNextPrimes, AVX512)** every 8-lane store lies inside the buffer; size ≤ buffer size -/
theorem C12_fill_avx512_in_bounds (maxSize : Nat) (hm : 8 ≤ maxSize) (pcs : List Nat) (i : Nat) (hi : i ≤ maxSize) :
    (∀ k ∈ (fillAvx maxSize pcs i).1, k < maxSize) ∧ (fillAvx maxSize pcs i).2 ≤ maxSize :=
  fillAvx_in_bounds maxSize hm pcs i hi

/-- **C12 (fillPrevPrimes)** every slot written lies below the capacity in force at that moment -/
theorem C12_fill_prev_in_bounds (pcs : List Nat) (i cap : Nat) (hpc : ∀ pc ∈ pcs, pc ≤ 64) :
    ∀ w ∈ (fillPrevDefault pcs i cap).1, w.1 < w.2 :=
  fillPrevDefault_in_bounds pcs i cap hpc

/-- **C12 (EratSmall unrolled loop)** regenerated from EratSmall.cpp: in each of the 8 unrolled loops every store offset is componentwise ≤
    the loop's maxOffset, so under the loop condition i < max(sieveSize, maxOffset) - maxOffset all 8 stores
    `sieve[i + sievingPrime·A + B]` address bytes inside [0, sieveSize), for every sieving prime and sieve size
    (the single-step cases write sieve[i] only after CHECK_FINISHED has established i < sieveSize; EratBig
    masks the index with sieveSize - 1) -/
theorem C12_eratSmall_unrolled_in_bounds (u : Nat × Nat × Nat × Nat × Nat × List (Nat × Nat × Nat))
    (hu : u ∈ Gen.eratSmallUnrolled) (sp i sieveSize : Nat)
    (hi : i < max sieveSize (sp * u.2.1 + u.2.2.1) - (sp * u.2.1 + u.2.2.1)) :
    ∀ st ∈ u.2.2.2.2.2, i + sp * st.1 + st.2.1 < sieveSize :=
  Wheel.unrolled_in_bounds u hu sp i sieveSize hi

/-- **C12 (decode tables)** `nextPrime` reads bitValues[ctz64(bits)] with ctz64(0) = 64: the regenerated table
    has 65 entries; Erat reads unsetSmaller / unsetLarger at byteRemainder(n) ∈ [7, 36]: both
    regenerated tables have 37 entries -/
theorem C12_decode_tables (bits n : Nat) :
    ctz64 bits < Gen.bitValues.length ∧ Gen.bitValuesLen = 65 ∧
    byteRemainder n < Gen.unsetSmaller.length ∧ byteRemainder n < Gen.unsetLarger.length ∧ 7 ≤ byteRemainder n := by
  have h1 : Gen.bitValues.length = 65 := by decide
  have h2 : Gen.unsetSmaller.length = 37 := by decide
  have h3 : Gen.unsetLarger.length = 37 := by decide
  have := ctz64_le bits
  refine ⟨by omega, rfl, ?_, ?_, ?_⟩ <;> unfold byteRemainder <;> omega

/-- **C12 (constants)** ASSERT(maxCachedPrime() >= 5); the cached-prime table ends with 719 -/
theorem C12_constants : Gen.maxCachedPrime ≥ 5 ∧ Gen.smallPrimes128.getLast? = some Gen.maxCachedPrime := by decide

/-- **C12 (signed arithmetic)** the signed operations whose operands come from the user: nth_prime negates n only
    inside [-π(2^64), -1]; the command line multiplies n by 20 only when the product fits int64;
    the calculator's +, -, * at int / int64_t never overflow silently -/
theorem C12_signed (n : Int) (h0 : n < 0) (h : ¬ n < -(max_n : Int)) (argv : List String) :
    (int64Min < n ∧ -n ≤ int64Max) ∧
    (∀ k st q tm, Cli.mainAction argv = .nth k st q tm → k * 20 ≤ 9223372036854775807) :=
  ⟨C07_negation_in_range n h0 h, fun k st q tm e => ((C16_arguments_in_range argv).2 k st q tm e).1⟩

/-- the ledger: every ASSERT of the library with the theorem that discharges it in the model, or
    `runtime` = not modelled, checked by the ENABLE_ASSERT build on every stream run -/
def assertLedger : List (String × String × String) := [
  ("src/CountPrintPrimes.cpp", "sieve_.capacity() % sizeof(uint64_t) == 0", "runtime"),
  ("src/CountPrintPrimes.cpp", "sieve_.capacity() % 4 == 0", "runtime"),
  ("src/Erat.cpp", "start >= 7", "runtime"),
  ("src/Erat.cpp", "maxSieveSize >= 16", "proved: C08_setSieveSize_clamped, C08_getSieveSize_range"),
  ("src/Erat.cpp", "maxSieveSize <= 8192", "proved: C08_setSieveSize_clamped, C08_getSieveSize_range"),
  ("src/Erat.cpp", "sieveSize % sizeof(uint64_t) == 0", "proved: C08_sieveSize_mod8_or_pow2"),
  ("src/Erat.cpp", "n >= 7", "runtime"),
  ("src/Erat.cpp", "sieve_.capacity() % sizeof(uint64_t) == 0", "runtime"),
  ("src/EratBig.cpp", "isPow2(sieveSize)", "runtime"),
  ("src/EratBig.cpp", "sieveSize <= SievingPrime::MAX_MULTIPLEINDEX + 1", "runtime"),
  ("src/EratBig.cpp", "prime <= maxPrime_", "runtime"),
  ("src/EratBig.cpp", "segment < buckets_.size()", "runtime"),
  ("src/EratMedium.cpp", "(maxPrime / 30) * getMaxFactor() + getMaxFactor() <= SievingPrime::MAX_MULTIPLEINDEX", "runtime"),
  ("src/EratMedium.cpp", "prime <= maxPrime_", "runtime"),
  ("src/EratMedium.cpp", "wheelIndex <= 7", "runtime"),
  ("src/EratMedium.cpp", "wheelIndex >= 8", "runtime"),
  ("src/EratMedium.cpp", "wheelIndex <= 15", "runtime"),
  ("src/EratMedium.cpp", "wheelIndex >= 16", "runtime"),
  ("src/EratMedium.cpp", "wheelIndex <= 23", "runtime"),
  ("src/EratMedium.cpp", "wheelIndex >= 24", "runtime"),
  ("src/EratMedium.cpp", "wheelIndex <= 31", "runtime"),
  ("src/EratMedium.cpp", "wheelIndex >= 32", "runtime"),
  ("src/EratMedium.cpp", "wheelIndex <= 39", "runtime"),
  ("src/EratMedium.cpp", "wheelIndex >= 40", "runtime"),
  ("src/EratMedium.cpp", "wheelIndex <= 47", "runtime"),
  ("src/EratMedium.cpp", "wheelIndex >= 48", "runtime"),
  ("src/EratMedium.cpp", "wheelIndex <= 55", "runtime"),
  ("src/EratMedium.cpp", "wheelIndex >= 56", "runtime"),
  ("src/EratMedium.cpp", "wheelIndex <= 63", "runtime"),
  ("src/EratSmall.cpp", "(maxPrime / 30) * getMaxFactor() + getMaxFactor() <= SievingPrime::MAX_MULTIPLEINDEX", "runtime"),
  ("src/EratSmall.cpp", "prime <= maxPrime_", "runtime"),
  ("src/EratSmall.cpp", "wheelIndex <= 63", "runtime"),
  ("src/ParallelSieve.cpp", "threads > 0", "runtime"),
  ("src/ParallelSieve.cpp", "getDistance() > 0", "runtime"),
  ("src/PreSieve.cpp", "sieve.capacity() >= primeBits.size()", "runtime"),
  ("src/PrimeGenerator.cpp", "a <= b", "proved: C12_small_prime_copy"),
  ("src/PrimeGenerator.cpp", "primes.size() >= *size", "proved: C12_next_buffer_slack"),
  ("src/PrimeGenerator.cpp", "maxCachedPrime() >= 5", "proved: C12_constants"),
  ("src/PrimeGenerator_default.hpp", "i + 64 <= maxSize", "proved: C12_next_buffer_slack"),
  ("src/PrimeGenerator_x86_avx512.hpp", "i + 64 <= maxSize", "proved: C12_next_buffer_slack"),
  ("src/SievingPrimes.cpp", "PreSieve::getMaxPrime() >= 7", "runtime"),
  ("src/SievingPrimes.cpp", "start % 2 == 1", "runtime"),
  ("src/SievingPrimes.cpp", "primes_.size() >= 64", "runtime"),
  ("src/iterator-c.cpp", "it->memory != nullptr", "runtime"),
  ("src/iterator-c.cpp", "!iterData.include_start_number", "runtime"),
  ("src/iterator.cpp", "!iterData.include_start_number", "runtime"),
  ("src/nthPrime.cpp", "n < 0", "proved: C07_negation_in_range (the branch is only entered for n < 0)"),
  ("include/primesieve/Bucket.hpp", "multipleIndex <= MAX_MULTIPLEINDEX", "runtime"),
  ("include/primesieve/Bucket.hpp", "wheelIndex <= MAX_WHEELINDEX", "runtime"),
  ("include/primesieve/Bucket.hpp", "multipleIndex <= MAX_MULTIPLEINDEX", "runtime"),
  ("include/primesieve/Bucket.hpp", "wheelIndex <= MAX_WHEELINDEX", "runtime"),
  ("include/primesieve/Bucket.hpp", "sievingPrime != nullptr", "runtime"),
  ("include/primesieve/IteratorHelper.hpp", "primeGenerator == nullptr", "runtime"),
  ("include/primesieve/PreSieveTables.hpp", "maxPrime == *std::max_element(preSievePrimes[i].begin(), preSievePrimes[i].end())", "runtime"),
  ("include/primesieve/PreSieveTables.hpp", "start >= maxPrime * maxPrime", "runtime"),
  ("include/primesieve/Vector.hpp", "pos < size()", "runtime"),
  ("include/primesieve/Vector.hpp", "pos < size()", "runtime"),
  ("include/primesieve/Vector.hpp", "end_ >= array_", "runtime"),
  ("include/primesieve/Vector.hpp", "capacity_ >= array_", "runtime"),
  ("include/primesieve/Vector.hpp", "!empty()", "runtime"),
  ("include/primesieve/Vector.hpp", "!empty()", "runtime"),
  ("include/primesieve/Vector.hpp", "!empty()", "runtime"),
  ("include/primesieve/Vector.hpp", "!empty()", "runtime"),
  ("include/primesieve/Vector.hpp", "pos == end_", "runtime"),
  ("include/primesieve/Vector.hpp", "n > capacity()", "runtime"),
  ("include/primesieve/Vector.hpp", "size() <= capacity()", "runtime"),
  ("include/primesieve/Vector.hpp", "old_capacity < new_capacity", "runtime"),
  ("include/primesieve/Vector.hpp", "size() < capacity()", "runtime"),
  ("include/primesieve/Vector.hpp", "((uintptr_t) (void*) array_) % sizeof(uint64_t) == 0", "runtime"),
  ("include/primesieve/Vector.hpp", "pos < size()", "runtime"),
  ("include/primesieve/Vector.hpp", "pos < size()", "runtime"),
  ("include/primesieve/Vector.hpp", "N > 0", "runtime"),
  ("include/primesieve/Vector.hpp", "N > 0", "runtime"),
  ("include/primesieve/Wheel.hpp", "segmentLow % 30 == 0", "runtime"),
  ("include/primesieve/Wheel.hpp", "multiple % 2 != 0", "runtime"),
  ("include/primesieve/Wheel.hpp", "multiple % 3 != 0", "runtime"),
  ("include/primesieve/Wheel.hpp", "multiple % 5 != 0", "runtime"),
  ("include/primesieve/Wheel.hpp", "multiple % 7 != 0", "runtime"),
  ("include/primesieve/Wheel.hpp", "multiple % 11 != 0", "runtime"),
  ("include/primesieve/ctz.hpp", "x <= 64", "runtime"),
  ("include/primesieve/ctz.hpp", "x != 0", "runtime"),
  ("include/primesieve/littleendian_cast.hpp", "uintptr_t(array) % sizeof(T) == 0", "runtime"),
  ("include/primesieve/malloc_vector.hpp", "pos < size()", "runtime"),
  ("include/primesieve/malloc_vector.hpp", "end_ >= array_", "runtime"),
  ("include/primesieve/malloc_vector.hpp", "capacity_ >= array_", "runtime"),
  ("include/primesieve/malloc_vector.hpp", "pos == end_", "runtime"),
  ("include/primesieve/malloc_vector.hpp", "n > capacity()", "runtime"),
  ("include/primesieve/malloc_vector.hpp", "size() <= capacity()", "runtime"),
  ("include/primesieve/malloc_vector.hpp", "old_capacity < new_capacity", "runtime"),
  ("include/primesieve/malloc_vector.hpp", "size() < capacity()", "runtime")
]

/-- **C12 (assertion ledger)** regenerated on every run: the ASSERT sites of src/ and include/ are exactly the
    entries of the ledger (none added, removed or changed without a decision about it) -/
theorem C12_assert_ledger : Gen.assertSites = assertLedger.map (fun e => (e.1, e.2.1)) := by decide +kernel

/-- **C12 (source lock)** the fill-loop guards and initNextPrimes were modelled from exactly this text -/
theorem C12_fill_source :
    Gen.fillGuards = [("default.next.while", "i <= maxSize - 64 && sieveIdx < sieveSize"),
      ("default.prev.grow", "i + 64 > primes.size()"), ("avx512.next.break", "i + primeCount > maxSize - 8"),
      ("default.unroll", "primes[j+3] = nextPrime(bits, low); bits &= bits - 1; j += 4; } while (j < i)")] ∧
    Gen.initNextPrimesText = "void PrimeGenerator::initNextPrimes(Vector<uint64_t>& primes, std::size_t* size) { auto resize = [](Vector<uint64_t>& primes, std::size_t size) { if (size > primes.size()) { primes.clear(); primes.resize(size); } }; std::size_t maxSize = 1 << 10; if (start_ <= maxCachedPrime()) { std::size_t a = getStartIdx(); std::size_t b = getStopIdx(); *size = b - a; if (stop_ < maxCachedPrime() + 2) resize(primes, *size); else { std::size_t minSize = *size + 64; std::size_t pix = primeCountUpper(start_, stop_) + 64; pix = inBetween(minSize, pix, maxSize); pix = std::max(*size, pix); resize(primes, pix); } ASSERT(primes.size() >= *size); std::copy(smallPrimes.begin() + a, smallPrimes.begin() + b, primes.begin()); } else { std::size_t minSize = 64; std::size_t pix = primeCountUpper(start_, stop_) + 64; pix = inBetween(minSize, pix, maxSize); resize(primes, pix); } initErat(); }" :=
  ⟨rfl, rfl⟩

/-- non-vacuity: a buffer of 1024 slots, a segment of three words -/
example : (fillDefault 1024 [50, 0, 64] 900).2 = 1014 ∧ (fillAvx 1024 [50, 0, 60] 900).2 = 1010 ∧
    (initNextSizes 0 0 1000 0) = (192, 128) := by decide +kernel

end Ps.Props
