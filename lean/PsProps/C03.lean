/-
  C03 — An iterator is a consistent cursor under any operation history.
  Property theorems only (helper lemmas live in PsProofs).
-/
import PsProofs.IterRun
import PsModel.Generated.Locks

namespace Ps.Props
open Ps Ps.Spec

/-- **C03** For every history of next/prev/jump_to/skipto/clear/move operations — with
    arbitrary stop hints, arbitrary block-length choices of the prime generator and
    arbitrary values of the floating-point sub-expressions (`env.o`) — the values the
    iterator model returns are exactly those of the abstract cursor; a call that fails
    (next prime ≥ 2^64) leaves the cursor where it was. -/
theorem C03_refines (env : Env) (henv : EnvOK env) (s h : Nat) (hs : s ≤ umax)
    (ops : List Op) (hwf : ∀ op ∈ ops, Op.WF op) :
    Iter.run env (Iter.mk' s h) ops = specRun (.fresh s) ops :=
  run_sim henv ops _ _ (R_mk' s h hs true) hwf

/-- erase stop hints and block-length policy values from an operation -/
def eraseHints : Op → Op
  | .next _ => .next 0
  | .jumpTo s _ => .jumpTo s 0
  | .skipTo s _ => .skipTo s 0
  | op => op

theorem specStep_eraseHints (c : Cursor) (op : Op) : specStep c (eraseHints op) = specStep c op := by
  cases op <;> rfl

theorem specRun_eraseHints (c : Cursor) (ops : List Op) :
    specRun c (ops.map eraseHints) = specRun c ops := by
  induction ops generalizing c with
  | nil => rfl
  | cons op ops ih => simp only [List.map_cons, specRun, specStep_eraseHints, ih]

/-- **C03 (hint independence)** two histories that differ only in stop hints (and in the
    generator's block lengths, and run under different float oracles) return the same values. -/
theorem C03_hint_independent (env₁ env₂ : Env) (h₁ : EnvOK env₁) (h₂ : EnvOK env₂)
    (s hint₁ hint₂ : Nat) (hs : s ≤ umax) (ops₁ ops₂ : List Op)
    (hw₁ : ∀ op ∈ ops₁, Op.WF op) (hw₂ : ∀ op ∈ ops₂, Op.WF op)
    (heq : ops₁.map eraseHints = ops₂.map eraseHints) :
    Iter.run env₁ (Iter.mk' s hint₁) ops₁ = Iter.run env₂ (Iter.mk' s hint₂) ops₂ := by
  rw [C03_refines env₁ h₁ s hint₁ hs ops₁ hw₁, C03_refines env₂ h₂ s hint₂ hs ops₂ hw₂,
    ← specRun_eraseHints _ ops₁, ← specRun_eraseHints _ ops₂, heq]

/-- **C03 (reset ≡ fresh)** after jump_to (hence clear) the iterator behaves like a freshly
    constructed one, whatever happened before. -/
theorem C03_reset_like_fresh (env : Env) (henv : EnvOK env) (s h s' h' : Nat) (hs : s ≤ umax)
    (hs' : s' ≤ umax) (pre post : List Op)
    (hw₁ : ∀ op ∈ pre, Op.WF op) (hw₂ : ∀ op ∈ post, Op.WF op) :
    (Iter.run env (Iter.mk' s h) (pre ++ (.jumpTo s' h' :: post))).drop (pre.length + 1) =
      Iter.run env (Iter.mk' s' h') post := by
  have hw : ∀ op ∈ pre ++ (Op.jumpTo s' h' :: post), Op.WF op := by
    intro op hop
    rcases List.mem_append.1 hop with hop | hop
    · exact hw₁ op hop
    · rcases List.mem_cons.1 hop with hop | hop
      · subst hop; exact hs'
      · exact hw₂ op hop
  rw [C03_refines env henv s h hs _ hw, C03_refines env henv s' h' hs' post hw₂, specRun_append]
  simp only [specRun, specStep]
  rw [List.drop_append, specRun_length]
  simp [specRun_length]

/-- the same for a moved-from iterator: it behaves like `iterator(0)` -/
theorem C03_moved_from_like_fresh (env : Env) (henv : EnvOK env) (s h : Nat) (hs : s ≤ umax)
    (pre post : List Op) (hw₁ : ∀ op ∈ pre, Op.WF op) (hw₂ : ∀ op ∈ post, Op.WF op) :
    (Iter.run env (Iter.mk' s h) (pre ++ (.moveOut :: post))).drop (pre.length + 1) =
      Iter.run env (Iter.mk' 0 umax) post := by
  have hw : ∀ op ∈ pre ++ (Op.moveOut :: post), Op.WF op := by
    intro op hop
    rcases List.mem_append.1 hop with hop | hop
    · exact hw₁ op hop
    · rcases List.mem_cons.1 hop with hop | hop
      · subst hop; trivial
      · exact hw₂ op hop
  rw [C03_refines env henv s h hs _ hw, C03_refines env henv 0 umax (Nat.zero_le _) post hw₂,
    specRun_append]
  simp only [specRun, specStep]
  rw [List.drop_append, specRun_length]
  simp [specRun_length]

/-- non-vacuity: there is an environment satisfying `EnvOK` -/
example : ∃ env : Env, EnvOK env :=
  ⟨{ isPrime := fun n => decide n.Prime, o := ⟨id, id, id, id⟩ }, fun n => by simp⟩

/-- **C03 (model sources)** regenerated on every run: digests of the (comment-, hook- and whitespace-normalised) bodies of the
    functions that the hand-written model behind the theorems of this file mirrors.  An edit to one of
    them — harmless or not — breaks this obligation; the check then searches for a failing input
    with the correspondence streams (DESIGN.md section 2, step 5). -/
theorem C03_model_sources :
    Gen.modelSources.filter (fun e => e.1 ∈ ["iterator.generate_next_primes", "iterator.generate_prev_primes", "iterator.jump_to", "iterator.clear", "iterator.move_ctor", "iterator.move_assign", "iterator.hpp.next_prime", "iterator.hpp.prev_prime"]) =
     [("iterator.generate_next_primes", "2a13a14724829f92f5fe"),
      ("iterator.generate_prev_primes", "1784049c687ca3b8c7e8"),
      ("iterator.jump_to", "130c2420f114441dcb1e"),
      ("iterator.clear", "aa40e08e21600bb96ea4"),
      ("iterator.move_ctor", "ce27cefb4a651ddb25af"),
      ("iterator.move_assign", "d81f5830efdc68736a88"),
      ("iterator.hpp.next_prime", "3ef2a1a42a787f93e2be"),
      ("iterator.hpp.prev_prime", "57cdaf17aeb89aae2176")] := by decide

end Ps.Props
