/-
  C15 — Printed primes and k-tuplets are exactly the counted ones, in order and format.
-/
import PsProofs.CountSieve
import PsProps.C04
import PsModel.Generated.Locks

namespace Ps.Props
open Ps Ps.Spec

/-- **C15 (print_primes)** for every start, stop the lines written by `PrimeSieve::sieve(start, stop,
    PRINT_PRIMES)` — table strings "2" "3" "5" when in range, then for every byte of the (ideal) sieve
    `low + bitValues[k]` for every 1 bit k ascending — are the decimal renderings of the primes of
    [start, stop] in ascending order, and nothing else. -/
theorem C15_print_primes {isP : Nat → Bool} (hP : IsPrimeOK isP) (start stop : Nat) :
    primeSievePrint isP start stop 64 = (primesIn start stop).map toString :=
  primeSievePrint_primes hP start stop

/-- the list printed has exactly as many lines as count_primes counts -/
theorem C15_lines_eq_count {isP : Nat → Bool} (hP : IsPrimeOK isP) (start stop : Nat) :
    (primeSievePrint isP start stop 64).length = primeCount start stop := by
  rw [C15_print_primes hP, List.length_map, primesIn_length]

/-- **C15 (print_twins … print_sextuplets)** for 7 ≤ start: the lines are "(a, b, …)" for exactly the
    constellations of that kind inside [start, stop], ordered by first member.
    (`_from7`: the rows for the five constellations below 7 are covered by `C15_small_strings`.) -/
theorem C15_print_tuplets_from7 {isP : Nat → Bool} (hP : IsPrimeOK isP) (start stop kind : Nat)
    (hk1 : 1 ≤ kind) (hk6 : kind < 6) (h7 : 7 ≤ start) :
    primeSievePrint isP start stop (64 * 2 ^ kind) = (tupletList kind start stop).map tupleStr :=
  primeSievePrint_tuplets hP start stop kind hk1 hk6 h7

/-- as many k-tuplet lines as the k-tuplet counter counts -/
theorem C15_tuplet_lines_eq_count (kind lo hi : Nat) :
    (tupletList kind lo hi).length = ((patterns kind).map (fun ds => tupletCount ds lo hi)).sum :=
  tupletList_length kind lo hi

/-- **C15 (small rows)** the strings of the small table are the renderings of their members -/
theorem C15_small_strings :
    Gen.psSmallPrimes.map (fun r => r.2.2.2) =
      ["2", "3", "5", tupleStr [3, 5], tupleStr [5, 7], tupleStr [5, 7, 11], tupleStr [5, 7, 11, 13],
       tupleStr [5, 7, 11, 13, 17]] :=
  smallRows_strings

/-- non-vacuity -/
example : primeSievePrint (fun n => decide n.Prime) 0 20 64 = ["2", "3", "5", "7", "11", "13", "17", "19"] := by
  decide
example : primeSievePrint (fun n => decide n.Prime) 0 20 128 = ["(3, 5)", "(5, 7)", "(11, 13)", "(17, 19)"] := by
  decide

/-- **C15 (model sources)** regenerated on every run: digests of the (comment-, hook- and whitespace-normalised) bodies of the
    functions that the hand-written model behind the theorems of this file mirrors.  An edit to one of
    them — harmless or not — breaks this obligation; the check then searches for a failing input
    with the correspondence streams (DESIGN.md section 2, step 5). -/
theorem C15_model_sources :
    Gen.modelSources.filter (fun e => e.1 ∈ ["CountPrintPrimes.printPrimes", "CountPrintPrimes.printkTuplets", "PrimeSieve.processSmallPrimes"]) =
     [("CountPrintPrimes.printPrimes", "7e98b8d4e0d08af4a7ee"),
      ("CountPrintPrimes.printkTuplets", "aa08210701ecd1a9c0e1"),
      ("PrimeSieve.processSmallPrimes", "aea93bdf6096ecdf2777")] := by decide

end Ps.Props
