/-
  C07 — nth_prime(n, start) returns exactly the documented prime or fails.
  (the value theorem for the correction walks is work in progress; the theorems below cover
  argument validation, the n = 0 mapping and the absence of the INT64_MIN negation)
-/
import PsModel.NthPrime
import PsProofs.IterSim

namespace Ps.Props
open Ps Ps.Spec

/-- **C07 (extreme n)** every n outside [-π(2^64), π(2^64)] — in particular INT64_MIN, whose negation
    would be signed overflow — is rejected with primesieve_error before any arithmetic on n, for
    every start, approximation oracle, count function and block policy. -/
theorem C07_extreme_n_rejected (env : Env) (kf : Nat → Nat) (cnt : Nat → Nat → Nat) (o : NthOracle)
    (n : Int) (start : Nat) (h : n < -(max_n : Int) ∨ (max_n : Int) < n) :
    nthPrime env kf cnt o n start = .error .invalid := by
  unfold nthPrime
  rcases h with h | h
  · have h0 : n < 0 := by have : (0 : Int) ≤ (max_n : Int) := Int.natCast_nonneg _; omega
    simp [h0, h]
  · have h0 : ¬ n < 0 := by have : (0 : Int) ≤ (max_n : Int) := Int.natCast_nonneg _; omega
    have h1 : ¬ n = 0 := by have : (0 : Int) ≤ (max_n : Int) := Int.natCast_nonneg _; omega
    have h2 : n.toNat > max_n := by omega
    simp [h0, h1, nthPrimePos, h2]

/-- the only negation performed is on values in [-π(2^64), -1]: `-n` fits int64 -/
theorem C07_negation_in_range (n : Int) (h0 : n < 0) (h : ¬ n < -(max_n : Int)) :
    int64Min < n ∧ -n ≤ int64Max := by
  unfold int64Min int64Max
  have : (max_n : Int) = 425656284035217743 := rfl
  omega

/-- **C07 (n = 0)** nth_prime(0, start) is "the 1st prime > start - 1", i.e. the first prime ≥ start
    (documented behaviour; for start = 0 the saturating subtraction keeps 0 and 2 is returned). -/
theorem C07_zero_maps_to_first (env : Env) (kf : Nat → Nat) (cnt : Nat → Nat → Nat) (o : NthOracle)
    (start : Nat) :
    nthPrime env kf cnt o 0 start = nthPrimePos env kf cnt o 1 (start - 1) := by
  unfold nthPrime
  have : checkedSub start 1 = start - 1 := checkedSub_one start
  simp [this]

/-- **C07 (negative n)** fewer than |n| numbers below start: rejected -/
theorem C07_negative_needs_room (env : Env) (kf : Nat → Nat) (cnt : Nat → Nat → Nat) (o : NthOracle)
    (m start : Nat) (hm : 0 < m) (h : start ≤ m) :
    nthPrime env kf cnt o (-(m : Int)) start = .error .invalid := by
  unfold nthPrime
  have h0 : (-(m : Int)) < 0 := by omega
  simp only [h0, if_true]
  split
  · rfl
  · unfold nthPrimeNeg
    have e : (-(-(m : Int))).toNat = m := by simp
    rw [e]
    split
    · rfl
    · have : m ≥ start := h
      simp [this]

end Ps.Props
