/-
  C07 — nth_prime(n, start) returns exactly the documented prime or fails.
  Value theorem for every n and start, for arbitrary approximation functions; argument validation;
  the n = 0 mapping; absence of the INT64_MIN negation.
-/
import PsModel.NthPrime
import PsProofs.IterSim
import PsProofs.NthPrime
import PsProps.C04
import PsModel.Generated.Locks

namespace Ps.Props
open Ps Ps.Spec

/-- **C07 (extreme n)** every n outside [-π(2^64), π(2^64)] — in particular INT64_MIN, whose negation
    would be signed overflow — is rejected with primesieve_error before any arithmetic on n, for
    every start, approximation oracle, count function and block policy. -/
theorem C07_extreme_n_rejected (env : Env) (kf : Nat → Nat) (cnt : Nat → Nat → Nat) (o : NthOracle)
    (n : Int) (start : Nat) (h : n < -(max_n : Int) ∨ (max_n : Int) < n) :
    nthPrime env kf cnt o n start = .error .invalid := by
  unfold nthPrime
  rcases h with h | h
  · have h0 : n < 0 := by have : (0 : Int) ≤ (max_n : Int) := Int.natCast_nonneg _; omega
    simp [h0, h]
  · have h0 : ¬ n < 0 := by have : (0 : Int) ≤ (max_n : Int) := Int.natCast_nonneg _; omega
    have h1 : ¬ n = 0 := by have : (0 : Int) ≤ (max_n : Int) := Int.natCast_nonneg _; omega
    have h2 : n.toNat > max_n := by omega
    simp [h0, h1, nthPrimePos, h2]

/-- the only negation performed is on values in [-π(2^64), -1]: `-n` fits int64 -/
theorem C07_negation_in_range (n : Int) (h0 : n < 0) (h : ¬ n < -(max_n : Int)) :
    int64Min < n ∧ -n ≤ int64Max := by
  unfold int64Min int64Max
  have : (max_n : Int) = 425656284035217743 := rfl
  omega

/-- **C07 (n = 0)** nth_prime(0, start) is "the 1st prime > start - 1", i.e. the first prime ≥ start
    (documented behaviour; for start = 0 the saturating subtraction keeps 0 and 2 is returned). -/
theorem C07_zero_maps_to_first (env : Env) (kf : Nat → Nat) (cnt : Nat → Nat → Nat) (o : NthOracle)
    (start : Nat) :
    nthPrime env kf cnt o 0 start = nthPrimePos env kf cnt o 1 (start - 1) := by
  unfold nthPrime
  have : checkedSub start 1 = start - 1 := checkedSub_one start
  simp [this]

/-- **C07 (negative n)** fewer than |n| numbers below start: rejected -/
theorem C07_negative_needs_room (env : Env) (kf : Nat → Nat) (cnt : Nat → Nat → Nat) (o : NthOracle)
    (m start : Nat) (hm : 0 < m) (h : start ≤ m) :
    nthPrime env kf cnt o (-(m : Int)) start = .error .invalid := by
  unfold nthPrime
  have h0 : (-(m : Int)) < 0 := by omega
  simp only [h0, if_true]
  split
  · rfl
  · unfold nthPrimeNeg
    have e : (-(-(m : Int))).toNat = m := by simp
    rw [e]
    split
    · rfl
    · have : m ≥ start := h
      simp [this]

/-- **C07 (value)** for EVERY int64 n with |n| ≤ π(2^64), every start < 2^64, every approximation oracle
    (primePiApprox / nthPrimeApprox / avgPrimeGap / isqrt may return anything that fits 64 bits),
    every generator block policy, and any count function that returns the number of primes of an
    interval (C04): nth_prime(n, start) is
    * n > 0: the n-th prime > start — `primeSeq (start+1) (n-1)` — or an error if that is ≥ 2^64;
    * n = 0: the first prime ≥ start, or an error if there is none below 2^64;
    * n < 0: the |n|-th prime < start — `prevSeq (start-1) (|n|-1)` — or an error when fewer than
      |n| primes lie below start.  It never returns any other number. -/
theorem C07_nth_value {env : Env} (henv : EnvOK env) (kf : Nat → Nat) (cnt : Nat → Nat → Nat)
    (hcnt : ∀ a b, cnt a b = (primesIn a b).length) (o : NthOracle) (ho : ∀ x, o.nthA x ≤ umax)
    (n : Int) (start : Nat) (hs : start ≤ umax) (hlo : -(max_n : Int) ≤ n) (hhi : n ≤ (max_n : Int)) :
    nthPrime env kf cnt o n start =
      if 0 < n then
        (if primeSeq (start + 1) (n.toNat - 1) < U64 then .ok (primeSeq (start + 1) (n.toNat - 1)) else .error .overflow)
      else if n = 0 then
        (if nextPrime start < U64 then .ok (nextPrime start) else .error .overflow)
      else
        (if (-n).toNat ≥ start ∨ prevSeq (start - 1) ((-n).toNat - 1) = 0 then .error .invalid
         else .ok (prevSeq (start - 1) ((-n).toNat - 1))) := by
  unfold nthPrime
  by_cases hneg : n < 0
  · have h1 : ¬ (0 < n) := by omega
    have h2 : ¬ (n = 0) := by omega
    have h3 : ¬ n < -(max_n : Int) := by omega
    simp only [hneg, h1, h2, h3, if_true, if_false]
    exact Nth.nthPrimeNeg_value henv kf cnt hcnt o _ start (by omega) (by omega) hs
  · by_cases h0 : n = 0
    · subst h0
      simp only [Int.lt_irrefl, if_false, if_true]
      rw [Nth.nthPrimePos_value henv kf cnt hcnt o ho 1 _ (by omega) (by decide)
        (by rw [checkedSub_one]; omega), checkedSub_one]
      simp only [Nat.sub_self, primeSeq]
      by_cases hst : start = 0
      · subst hst; simp only [Nat.zero_sub, Nat.zero_add]; rw [← Nth.nextPrime_zero_one]
      · rw [show start - 1 + 1 = start by omega]
    · have hpos : 0 < n := by omega
      simp only [hneg, h0, hpos, if_true, if_false]
      exact Nth.nthPrimePos_value henv kf cnt hcnt o ho _ start (by omega) (by omega) hs

/-- the count function of the model (C04) satisfies the hypothesis of `C07_nth_value` -/
theorem C07_count_hypothesis {isP : Nat → Bool} (hP : IsPrimeOK isP) (a b : Nat) :
    (primeSieveCounts isP a b 1).getD 0 0 = (primesIn a b).length := by
  rw [C04_count_single hP a b 1 (by decide), C04_agrees_with_enumeration]

/-- **C07 (model sources)** regenerated on every run: digests of the (comment-, hook- and whitespace-normalised) bodies of the
    functions that the hand-written model behind the theorems of this file mirrors.  An edit to one of
    them — harmless or not — breaks this obligation; the check then searches for a failing input
    with the correspondence streams (DESIGN.md section 2, step 5). -/
theorem C07_model_sources :
    Gen.modelSources.filter (fun e => e.1 ∈ ["nthPrime.nthPrime", "nthPrime.negativeNthPrime"]) =
     [("nthPrime.nthPrime", "0c3c71e817bf09a16b5a"),
      ("nthPrime.negativeNthPrime", "7eb8fa87daaeafd100a8")] := by decide

end Ps.Props
