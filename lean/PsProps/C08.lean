/-
  C08 — Results are independent of sieve size, threads, CPU dispatch and cache topology.
-/
import PsModel.Config
import PsProps.C03
import PsProps.C05
import PsProps.C15
import PsModel.Generated.Locks

namespace Ps.Props
open Ps Ps.Spec

/-- **C08 (clamp)** set_sieve_size / setSieveSize store a value in [16, 8192] for every int argument -/
theorem C08_setSieveSize_clamped (size : Int) : 16 ≤ setSieveSize size ∧ setSieveSize size ≤ 8192 := by
  unfold setSieveSize; split <;> (try split) <;> omega

/-- **C08 (clamp)** set_num_threads / setNumThreads store a value in [1, maxThreads] (maxThreads ≥ 1) -/
theorem C08_setNumThreads_clamped (threads maxThreads : Int) (h : 1 ≤ maxThreads) :
    1 ≤ setNumThreads threads maxThreads ∧ setNumThreads threads maxThreads ≤ maxThreads := by
  unfold setNumThreads; split <;> (try split) <;> omega

theorem inBetween_range {mn x mx : Nat} (h : mn ≤ mx) : mn ≤ inBetween mn x mx ∧ inBetween mn x mx ≤ mx := by
  unfold inBetween; split <;> (try split) <;> omega

/-- **C08 (cache topology)** for EVERY cache description the OS may report — missing (0), tiny, huge
    or garbage values, any sharing counts — get_sieve_size() returns a value in [16, 8192] KiB
    (the `maxSize - 1` underflow for a zero quotient included); a user setting is returned as is. -/
theorem C08_getSieveSize_range (c : CpuDesc) : 16 ≤ getSieveSize 0 c ∧ getSieveSize 0 c ≤ 8192 := by
  unfold getSieveSize
  simp only [ne_eq, not_true_eq_false, if_false]
  split
  · split <;> exact inBetween_range (by omega)
  · split <;> exact inBetween_range (by omega)

theorem C08_getSieveSize_user (user : Nat) (c : CpuDesc) (h : user ≠ 0) : getSieveSize user c = user := by
  unfold getSieveSize; simp [h]

/-- Erat's L1 size is always a plausible value: the reported one only if 4 KiB ≤ l1 ≤ 1 GiB -/
theorem C08_l1_range (c : CpuDesc) : 4096 ≤ getL1CacheSize c ∧ getL1CacheSize c ≤ 1073741824 := by
  unfold getL1CacheSize CpuDesc.hasL1
  split
  · rename_i h; simp at h; omega
  · decide

theorem roundUp8_mod (x : Nat) : roundUp8 x % 8 = 0 := by unfold roundUp8; omega

/-- **C08 (segment geometry)** for every L1 size, user sieve size, float factors and interval, whenever
    the sieve is initialised its size in bytes is a positive multiple of 8 (the counting and
    decoding loops read 64-bit words) unless EratBig is used, in which case it is a power of two. -/
theorem C08_sieveSize_mod8_or_pow2 (cfg : EratCfg) (start stop kib : Nat)
    (h : ¬ (start > stop ∨ start ≥ umax)) :
    (EratGeom.init cfg start stop kib).sieveSize % 8 = 0 ∨
    ∃ k, (EratGeom.init cfg start stop kib).sieveSize = 2 ^ k := by
  unfold EratGeom.init EratGeom.sizes EratGeom.baseSize
  simp only [h, if_false]
  split_ifs <;> first
    | exact Or.inl (roundUp8_mod _)
    | (unfold floorPow2
       split_ifs with h0
       · left; rfl
       · exact Or.inr ⟨_, rfl⟩)

/-- **C08 (threads)** counts do not depend on the number of threads or the piece length: two runs
    with different settings give the same counter (both equal the exact count — C04/C05). -/
theorem C08_counts_independent_of_threads {isP : Nat → Bool} (hP : IsPrimeOK isP)
    (start stop flags nt₁ md₁ nt₂ md₂ i : Nat) (hi : i < 6) (hf : isFlag flags (2 ^ i) = true)
    (hs : stop < umax)
    (h₁ : getThreadDistance start stop (idealNumThreads start stop nt₁ md₁) md₁ ≤ umax)
    (h₂ : getThreadDistance start stop (idealNumThreads start stop nt₂ md₂) md₂ ≤ umax) :
    (parallelCounts isP start stop flags nt₁ md₁).getD i 0 =
      (parallelCounts isP start stop flags nt₂ md₂).getD i 0 := by
  rw [parallelCounts_spec hP start stop flags nt₁ md₁ i hi hf (Nat.le_of_lt hs) h₁ (fun _ _ => Or.inl hs),
    parallelCounts_spec hP start stop flags nt₂ md₂ i hi hf (Nat.le_of_lt hs) h₂ (fun _ _ => Or.inl hs)]

/-- **C08 (iterator)** iterator results do not depend on the generator's block lengths (which derive
    from the sieve size), the stop hints or the floating-point sub-expressions: this is
    `C03_hint_independent`, restated. -/
theorem C08_iterator_independent (env₁ env₂ : Env) (h₁ : EnvOK env₁) (h₂ : EnvOK env₂)
    (s hint₁ hint₂ : Nat) (hs : s ≤ umax) (ops₁ ops₂ : List Op)
    (hw₁ : ∀ op ∈ ops₁, Op.WF op) (hw₂ : ∀ op ∈ ops₂, Op.WF op)
    (heq : ops₁.map eraseHints = ops₂.map eraseHints) :
    Iter.run env₁ (Iter.mk' s hint₁) ops₁ = Iter.run env₂ (Iter.mk' s hint₂) ops₂ :=
  C03_hint_independent env₁ env₂ h₁ h₂ s hint₁ hint₂ hs ops₁ ops₂ hw₁ hw₂ heq

/-- non-vacuity: a machine reporting no caches at all, and one reporting L2 = 0 sharing garbage -/
example : getSieveSize 0 ⟨0, 0, 0, 0⟩ = 256 ∧ getSieveSize 0 ⟨32768, 4096, 8, 0⟩ = 512 := by decide

/-- **C08 (model sources)** regenerated on every run: digests of the (comment-, hook- and whitespace-normalised) bodies of the
    functions that the hand-written model behind the theorems of this file mirrors.  An edit to one of
    them — harmless or not — breaks this obligation; the check then searches for a failing input
    with the correspondence streams (DESIGN.md section 2, step 5). -/
theorem C08_model_sources :
    Gen.modelSources.filter (fun e => e.1 ∈ ["api.get_sieve_size", "api.set_sieve_size", "api.set_num_threads", "PrimeGenerator_default.fillNextPrimes", "PrimeGenerator_default.fillPrevPrimes", "PrimeGenerator_avx512.fillNextPrimes", "PrimeGenerator_avx512.fillPrevPrimes", "Erat.initAlgorithms"]) =
     [("api.get_sieve_size", "4826eb7aec7e5c8e8bfb"),
      ("api.set_sieve_size", "541cf8dd390836f5d9de"),
      ("api.set_num_threads", "eaa404d0c1acb5afdfb3"),
      ("PrimeGenerator_default.fillNextPrimes", "0a69dc0049d71ebe96df"),
      ("PrimeGenerator_default.fillPrevPrimes", "0272d4b8fe4d0a8ef7e2"),
      ("PrimeGenerator_avx512.fillNextPrimes", "7df9e1d9dff83718d8d2"),
      ("PrimeGenerator_avx512.fillPrevPrimes", "37502b8750d9600d675d"),
      ("Erat.initAlgorithms", "f1a7ebe09c59958b8c39")] := by decide

end Ps.Props
