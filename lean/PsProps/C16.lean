/-
  C16 — Command line: same answers as the library; numeric arguments exact or rejected.
-/
import PsProofs.Calc
import PsProofs.Cli
import PsModel.Generated.Cli

namespace Ps.Props
open Ps Ps.Calc Ps.Cli

deriving instance DecidableEq for Except

/-- **C16 (numbers are exact or rejected)** whenever the parser instantiated at uint64_t (the type used
    for START, STOP, n and --dist) accepts a string, the SAME parser run over unbounded integers
    (`Arith.exact`: no overflow anywhere) accepts it with the same value, and that value lies in
    [0, 2^64).  Contrapositive: an expression whose exact value — or any intermediate result of
    its evaluation — leaves [0, 2^64) is never silently reinterpreted; it is rejected. -/
theorem C16_calc_exact_or_rejected (s : String) (v : Int) (h : evalU64 s = .ok v) :
    eval (Arith.exact u64) s = .ok v ∧ 0 ≤ v ∧ v < 2 ^ 64 := by
  have := eval_sim sim_u64 s v h
  have r := (u64_InR v).mp this.2
  have e : (2 : Int) ^ 64 = 18446744073709551616 := by decide
  refine ⟨this.1, r.1, ?_⟩
  rw [e]; omega

/-- **C16 (checked arithmetic)** at every integer type T with min ≤ 0 ≤ max (uint64_t, int, int64_t) the
    overflow tests of checkedAdd / checkedSub / checkedMul, as written in calculator.hpp, return the
    exact sum / difference / product when it fits T and report overflow otherwise. -/
theorem C16_checked_arith (t : Ty) (hmin : t.min ≤ 0) (hmax : 0 ≤ t.max) (x y : Int) (hx : t.InR x) (hy : t.InR y) :
    checkedAdd t x y = (if t.InR (x + y) then .ok (x + y) else .error .overflow) ∧
    checkedSub t x y = (if t.InR (x - y) then .ok (x - y) else .error .overflow) ∧
    checkedMul t x y = (if t.InR (x * y) then .ok (x * y) else .error .overflow) :=
  ⟨checkedAdd_spec t x y hx hy, checkedSub_spec t x y hx hy, checkedMul_spec t hmin hmax x y⟩

/-- **C16 (interval in range, no wrap)** for EVERY argument vector: the interval the program sieves and
    the (n, start) it passes to nth_prime lie below 2^64, and n·20 fits int64. -/
theorem C16_arguments_in_range (argv : List String) :
    (∀ a b f s t q tm, mainAction argv = .sieve a b f s t q tm → a < 2 ^ 64 ∧ b < 2 ^ 64) ∧
    (∀ n st q tm, mainAction argv = .nth n st q tm → n * 20 ≤ 9223372036854775807 ∧ st < 2 ^ 64) := by
  have h := mainAction_in_range argv
  refine ⟨fun a b f s t q tm e => ?_, fun n st q tm e => ?_⟩
  · have := h.1 a b f s t q tm e; omega
  · have := h.2 n st q tm e; omega

/-- **C16 (--dist)** an accepted `-d DIST` appends exactly START + DIST, where DIST is the exact value of
    the expression and START + DIST ≤ 2^64 - 1 (no wrap-around); it changes nothing else that
    selects the answer. -/
theorem C16_distance_exact (opts opts' : Opts) (o : Opt) (hn : NumbersOK opts)
    (h : optionDistance opts o = .ok opts') :
    ∃ v : Int, eval (Arith.exact u64) o.val = .ok v ∧ 0 ≤ v ∧
      opts'.numbers = opts.numbers ++ [opts.numbers.headD 0 + v.toNat] ∧
      opts.numbers.headD 0 + v.toNat ≤ 18446744073709551615 ∧
      opts'.flags = opts.flags ∧ opts'.option = opts.option :=
  optionDistance_ok opts opts' o hn h

/-- **C16 (negative numbers)** a bare argument starting with '-' that is not an option spelling
    ("-5", "-1e3", "-(3)") is rejected -/
theorem C16_negative_number_rejected (argv : Array String) (i : Nat)
    (hne : (argv.getD i "") ≠ "") (hl : lookup (argv.getD i "") = none)
    (hopt : isOption (argv.getD i "") = false) (hneg : (argv.getD i "").toList.getD 0 ' ' = '-') :
    ∃ m, parseOption argv i = .error m :=
  negative_number_rejected argv i hne hl hopt hneg

/-- **C16 (conflicting options)** a second main option (-n, -v, -h, --cpu-info, -S, -R, …) is rejected -/
theorem C16_conflicting_options (opts : Opts) (id str : String) (h : opts.optionStr ≠ "") :
    ∃ m, setMainOption opts id str = .error m :=
  setMainOption_conflict opts id str h

/-- the operator names of calculator.hpp -/
def opOfName : String → Op
  | "OPERATOR_BITWISE_OR" => .bor | "OPERATOR_BITWISE_AND" => .band | "OPERATOR_BITWISE_SHL" => .shl
  | "OPERATOR_BITWISE_SHR" => .shr | "OPERATOR_ADDITION" => .add | "OPERATOR_SUBTRACTION" => .sub
  | "OPERATOR_MULTIPLICATION" => .mul | "OPERATOR_DIVISION" => .div | "OPERATOR_MODULO" => .mod
  | "OPERATOR_POWER" => .pow | "OPERATOR_EXPONENT" => .exp | _ => .null

/-- the string on which a table row's operator is recognised: `<` and `>` must be doubled -/
def rowInput (c : String) : String := if c = "<" ∨ c = ">" then c ++ c else c

/-- **C16 (operator table)** regenerated from calculator.hpp on every run: for every `case` of parseOp the
    model's parseOp recognises the same operator with the same precedence and associativity, and
    consumes the whole token; the table has exactly the documented precedences. -/
theorem C16_operator_table :
    (Gen.calcOps.all (fun row =>
      let inp := (rowInput row.1).toList.toArray
      match parseOp inp 0 with
      | .ok (o, j) => o.op == opOfName row.2.1 && o.prec == row.2.2.1 && o.left == row.2.2.2.1 && j == inp.size
      | .error _ => false)) = true ∧
    Gen.calcOps.map (fun r => (r.1, r.2.2.1, r.2.2.2.1)) =
      [("|", 4, true), ("&", 6, true), ("<", 9, true), (">", 9, true), ("+", 10, true), ("-", 10, true),
       ("/", 20, true), ("%", 20, true), ("*", 20, true), ("^", 30, false), ("e", 40, false), ("E", 40, false),
       ("**", 30, false)] ∧
    Gen.calcOpsDefault = [("OPERATOR_NULL", 0, true)] := by decide

/-- **C16 (source lock)** the hand-written model of the checked arithmetic, literal parsing and `calculate`
    was written for exactly this source text (regenerated, whitespace-normalised, on every run) -/
theorem C16_calculator_source :
    Gen.calcSwitch = [("OPERATOR_BITWISE_OR", "v1 | v2"), ("OPERATOR_BITWISE_XOR", "v1 ^ v2"), ("OPERATOR_BITWISE_AND", "v1 & v2"),
      ("OPERATOR_BITWISE_SHL", "checkedShift(v1, v2, true)"), ("OPERATOR_BITWISE_SHR", "checkedShift(v1, v2, false)"),
      ("OPERATOR_ADDITION", "checkedAdd(v1, v2)"), ("OPERATOR_SUBTRACTION", "checkedSub(v1, v2)"),
      ("OPERATOR_MULTIPLICATION", "checkedMul(v1, v2)"), ("OPERATOR_DIVISION", "checkedDiv(v1, checkZero(v2))"),
      ("OPERATOR_MODULO", "checkedMod(v1, checkZero(v2))"), ("OPERATOR_POWER", "pow(v1, v2)"),
      ("OPERATOR_EXPONENT", "checkedMul(v1, pow(10, v2))")] ∧
    Gen.calcBodies = [
      ("checkedAdd", "if (y > 0 ? x > std::numeric_limits<T>::max() - y : x < std::numeric_limits<T>::min() - y) overflow(); return x + y;"),
      ("checkedSub", "if (y > 0 ? x < std::numeric_limits<T>::min() + y : x > std::numeric_limits<T>::max() + y) overflow(); return x - y;"),
      ("checkedMul", "T max = std::numeric_limits<T>::max(); T min = std::numeric_limits<T>::min(); if (x == 0 || y == 0) return 0; if (x > 0 ? (y > 0 ? x > max / y : y < min / x) : (y > 0 ? x < min / y : x < max / y)) overflow(); return x * y;"),
      ("checkedDiv", "if (y < 0 && y + 1 == 0 && x == std::numeric_limits<T>::min()) overflow(); return x / y;"),
      ("checkedMod", "if (y < 0 && y + 1 == 0) return 0; return x % y;"),
      ("checkedShift", "if (n < 0 || n >= (T) std::numeric_limits<T>::digits) overflow(); if (!left) return x >> n; if (x < 0 || x > (std::numeric_limits<T>::max() >> n)) overflow(); return x << n;"),
      ("pow", "T res = 1; while (n > 0) { if (n % 2 != 0) { res = checkedMul(res, x); n -= 1; } n /= 2; if (n > 0) x = checkedMul(x, x); } return res;"),
      ("parseDecimal", "T value = 0; for (T d; (d = getInteger()) <= 9; index_++) value = checkedAdd(checkedMul(value, 10), d); return value;"),
      ("parseHex", "index_ = index_ + 2; T value = 0; for (T h; (h = getInteger()) <= 0xf; index_++) value = checkedAdd(checkedMul(value, 0x10), h); return value;"),
      ("isHex", "if (index_ + 2 < expr_.size()) { char x = expr_[index_ + 1]; char h = expr_[index_ + 2]; return (std::tolower(x) == 'x' && toInteger(h) <= 0xf); } return false;"),
      ("toInteger", "if (c >= '0' && c <= '9') return c -'0'; if (c >= 'a' && c <= 'f') return c -'a' + 0xa; if (c >= 'A' && c <= 'F') return c -'A' + 0xa; T noDigit = 0xf + 1; return noDigit;")] :=
  ⟨rfl, rfl⟩

/-- **C16 (option grammar)** regenerated from CmdOptions.cpp / main.cpp on every run: which spellings exist and
    whether they take a value, which handler each option id runs, which element type every numeric
    argument is evaluated at (START, STOP, n and --dist at uint64_t, never a signed type), the two
    overflow guards, and main()'s dispatch. -/
theorem C16_option_grammar :
    Gen.optionMap.map (fun e => (e.1, e.2.2)) =
      [("-c", 2), ("--count", 2), ("--cpu-info", 0), ("-h", 0), ("--help", 0), ("-n", 0), ("--nthprime", 0),
       ("--nth-prime", 0), ("--no-status", 0), ("--number", 1), ("-d", 1), ("--dist", 1), ("-p", 2), ("--print", 2),
       ("-q", 0), ("--quiet", 0), ("-R", 0), ("--RiemannR", 0), ("--RiemannR-inverse", 0), ("-s", 1), ("--size", 1),
       ("-S", 2), ("--stress-test", 2), ("--test", 0), ("-t", 1), ("--threads", 1), ("--time", 0), ("--timeout", 1),
       ("-v", 0), ("--version", 0)] ∧
    (∀ e ∈ Gen.optionMap, ∀ e' ∈ Gen.optionMap, e.1 = e'.1 → e = e') ∧
    Gen.optionSwitch = [("OPTION_COUNT", "opts.optionCount(opt)"), ("OPTION_DISTANCE", "opts.optionDistance(opt)"),
      ("OPTION_PRINT", "opts.optionPrint(opt)"), ("OPTION_STRESS_TEST", "opts.optionStressTest(opt)"),
      ("OPTION_TIMEOUT", "opts.optionTimeout(opt)"), ("OPTION_SIZE", "opts.sieveSize = opt.getValue<int>()"),
      ("OPTION_THREADS", "opts.threads = opt.getValue<int>()"), ("OPTION_QUIET", "opts.quiet = true"),
      ("OPTION_NO_STATUS", "opts.status = false"), ("OPTION_TIME", "opts.time = true"),
      ("OPTION_NUMBER", "opts.numbers.push_back(opt.getValue<uint64_t>())")] ∧
    Gen.optionSwitchDefault = ["opts.setMainOption(optionID, opt.str)"] ∧
    (Gen.getValueSites.filter (fun s => s.1 = "val" ∨ s.1 = "opts.numbers.push_back")) =
      [("val", "uint64_t"), ("opts.numbers.push_back", "uint64_t")] ∧
    Gen.distanceGuard = ["val > std::numeric_limits<uint64_t>::max() - start"] ∧
    Gen.nthGuard = ["opts.numbers[0] > (uint64_t) std::numeric_limits<int64_t>::max() / 20"] ∧
    Gen.mainSwitch = [("OPTION_CPU_INFO", "cpuInfo()"), ("OPTION_HELP", "help( 0)"), ("OPTION_NTH_PRIME", "nthPrime(opts)"),
      ("OPTION_R", "RiemannR(opts)"), ("OPTION_R_INVERSE", "RiemannR_inverse(opts)"), ("OPTION_STRESS_TEST", "stressTest(opts)"),
      ("OPTION_TEST", "test()"), ("OPTION_VERSION", "version()")] ∧
    Gen.mainSwitchDefault = ["sieve(opts)"] := by decide

/-- non-vacuity: accepted and rejected inputs -/
example : evalU64 "1e10+2^32" = .ok 14294967296 ∧ evalU64 "2^64" = .error .overflow ∧
    evalU64 "0-5" = .error .overflow ∧ evalU64 "(0 + 0xDf234 - 1000)*3/2%999" = .ok 828 := by
  refine ⟨?_, ?_, ?_, ?_⟩ <;> decide +kernel

end Ps.Props
