/-
  C10 — Exact up to 2^64-1; requests beyond fail instead of wrapping.
-/
import PsProofs.IterRun
import PsProofs.MaxPrime
import PsModel.Generated.Locks
import PsProofs.Wheel

namespace Ps.Props
open Ps Ps.Spec

/-- **C10** 18446744073709551557 is prime (Lucas certificate, kernel-checked) -/
theorem C10_maxPrime64_prime : Nat.Prime 18446744073709551557 := maxPrime64_prime

/-- **C10** there is no prime p with 18446744073709551557 < p < 2^64 -/
theorem C10_no_prime_above (n : ℕ) (h1 : 18446744073709551557 < n) (h2 : n < 2 ^ 64) : ¬ n.Prime :=
  no_prime_above n h1 (by rw [U64_eq]; exact h2)

theorem maxPrime64_le_umax : maxPrime64 ≤ umax := by unfold maxPrime64 umax; omega
theorem maxPrime64_lt_U64 : maxPrime64 < U64 := by unfold maxPrime64 U64; omega

/-- the prime after the largest 64-bit prime does not fit in 64 bits -/
theorem nextPrime_above_max : U64 ≤ nextPrime (maxPrime64 + 1) := by
  by_contra h
  have h1 := le_nextPrime (maxPrime64 + 1)
  have h2 := nextPrime_prime (maxPrime64 + 1)
  exact no_prime_above (nextPrime (maxPrime64 + 1)) (by omega) (by omega) h2

/-- **C10 (iterator)** whatever the iterator returns is at most the largest 64-bit prime:
    every value of the forward enumeration that fits in 64 bits is ≤ 18446744073709551557. -/
theorem C10_forward_values_le_max (s j : Nat) (h : primeSeq s j < U64) : primeSeq s j ≤ maxPrime64 := by
  by_contra hgt
  exact no_prime_above _ (by omega) h (primeSeq_prime s j)

theorem primeSeq_max_zero : primeSeq maxPrime64 0 = maxPrime64 :=
  nextPrime_eq_of (Nat.le_refl _) maxPrime64_prime (by intro q h1 h2; omega)

theorem primeSeq_succ (s j : Nat) : primeSeq s (j + 1) = nextPrime (primeSeq s j + 1) := rfl

theorem primeSeq_max_one : U64 ≤ primeSeq maxPrime64 1 := by
  rw [primeSeq_succ, primeSeq_max_zero]; exact nextPrime_above_max

theorem primeSeq_max_big (j : Nat) (hj : 1 ≤ j) : U64 ≤ primeSeq maxPrime64 j := by
  induction j with
  | zero => exact absurd hj (by decide)
  | succ j ih =>
    by_cases hj0 : j = 0
    · subst hj0; exact primeSeq_max_one
    · have h1 := ih (Nat.one_le_iff_ne_zero.2 hj0)
      have h2 := primeSeq_lt_succ maxPrime64 j
      exact Nat.le_trans h1 (Nat.le_of_lt h2)

/-- **C10 (iterator)** an iterator positioned at the largest 64-bit prime returns it and then
    fails with primesieve_error on every further next_prime() call (no wrap-around, no
    garbage value), for every stop hint, block policy and float oracle. -/
theorem C10_iterator_top (env : Env) (henv : EnvOK env) (h : Nat) (ks : List Nat) :
    Iter.run env (Iter.mk' maxPrime64 h) (ks.map Op.next) =
      (List.range ks.length).map (fun j => if j = 0 then Out.val maxPrime64 else Out.err .overflow) := by
  have hrun := run_sim henv (ks.map Op.next) (Iter.mk' maxPrime64 h) _
    (R_mk' maxPrime64 h maxPrime64_le_umax true)
    (by intro op hop; obtain ⟨k, _, rfl⟩ := List.mem_map.1 hop; trivial)
  rw [hrun.trans (specRun_next maxPrime64 ks)]
  apply List.map_congr_left
  intro j _
  by_cases hj : j = 0
  · subst hj
    simp only [fwdOut, primeSeq_max_zero, maxPrime64_lt_U64, if_true]
  · have hb := primeSeq_max_big j (Nat.one_le_iff_ne_zero.2 hj)
    have hn : ¬ primeSeq maxPrime64 j < U64 := Nat.not_lt.2 hb
    simp only [fwdOut, hn, hj, if_false]

/-- **C10** `checkedAdd` saturates instead of wrapping -/
theorem C10_checkedAdd (x y : Nat) :
    checkedAdd x y = min (x + y) umax := by
  rcases checkedAdd_cases x y with h | h <;> omega

/-- **C10** `checkedSub` saturates at 0 instead of wrapping -/
theorem C10_checkedSub (x y : Nat) : checkedSub x y = x - y := by
  rcases checkedSub_cases x y with h | h <;> omega

/-- **C10 (sieve core: failure instead of wrap)** Wheel::addSievingPrime on the regenerated INIT tables, for EVERY sieving prime
    p < 2^32 coprime to 30 (sieving primes are ≤ √stop), every segment start L ≡ 0 (mod 30) with L + 6 < 2^64
    and every stop < 2^64 — in particular segments ending at 2^64 - 1, where p·q exceeds 2^64:
    (1) computed with wrapping uint64_t arithmetic it returns exactly what it returns over unbounded
    integers (the guard `multiple < segmentLow` catches every wrapped product, the second guard is only
    evaluated when it cannot underflow);
    (2) if it stores the prime, the stored state denotes p·q for the LEAST q ≥ max(p, ⌊(L+6)/p⌋+1) coprime
    to the wheel modulus, and p·q ≤ stop;
    (3) if it drops the prime, every admissible multiple of p above the segment start exceeds stop. -/
theorem C10_addSievingPrime_no_wrap (stop p L : Nat) (hp : Nat.gcd (p % 30) 30 = 1) (hp0 : 0 < p) (hp32 : p < 4294967296)
    (hL : L % 30 = 0) (hL6 : L + 6 < U64) (hstop : stop < U64) :
    (Wheel.addSievingPrime 30 8 Gen.wheel30Init stop p L = Wheel.addSievingPrimeExact 30 8 Gen.wheel30Init stop p L ∧
     Wheel.addSievingPrime 210 48 Gen.wheel210Init stop p L = Wheel.addSievingPrimeExact 210 48 Gen.wheel210Init stop p L) ∧
    (∀ s, Wheel.addSievingPrime 210 48 Gen.wheel210Init stop p L = some s →
      ∃ q, Wheel.Denotes 210 L s q ∧ max p ((L + 6) / p + 1) ≤ q ∧ p * q ≤ stop ∧
        (∀ x, max p ((L + 6) / p + 1) ≤ x → x < q → Nat.gcd x 210 ≠ 1)) ∧
    (∀ s, Wheel.addSievingPrime 30 8 Gen.wheel30Init stop p L = some s →
      ∃ q, Wheel.Denotes 30 L s q ∧ max p ((L + 6) / p + 1) ≤ q ∧ p * q ≤ stop ∧
        (∀ x, max p ((L + 6) / p + 1) ≤ x → x < q → Nat.gcd x 30 ≠ 1)) ∧
    (Wheel.addSievingPrime 210 48 Gen.wheel210Init stop p L = none →
      ∀ x, max p ((L + 6) / p + 1) ≤ x → Nat.gcd x 210 = 1 → stop < p * x) ∧
    (Wheel.addSievingPrime 30 8 Gen.wheel30Init stop p L = none →
      ∀ x, max p ((L + 6) / p + 1) ≤ x → Nat.gcd x 30 = 1 → stop < p * x) := by
  have e30 := Wheel.addSievingPrime_eq_exact 30 8 Gen.wheel30Init Wheel.init_le_10.1 stop p L hp0 hp32 hL6 hstop
  have e210 := Wheel.addSievingPrime_eq_exact 210 48 Gen.wheel210Init Wheel.init_le_10.2 stop p L hp0 hp32 hL6 hstop
  refine ⟨⟨e30, e210⟩, ?_, ?_, ?_, ?_⟩
  · intro s h
    rw [e210] at h
    obtain ⟨q, h1, h2, h3, h4, _⟩ := Wheel.addSievingPrimeExact_spec 210 48 Gen.wheel210Init (by decide) (by decide)
      Wheel.cls210_len (by decide) Wheel.wheel210Init_spec Wheel.init210_ok Wheel.bit210_ok stop p L hp hp0 hL s h
    exact ⟨q, h1, h2, h3, h4⟩
  · intro s h
    rw [e30] at h
    obtain ⟨q, h1, h2, h3, h4, _⟩ := Wheel.addSievingPrimeExact_spec 30 8 Gen.wheel30Init (by decide) (by decide)
      (by decide +kernel) (by decide) Wheel.wheel30Init_spec Wheel.init30_ok Wheel.bit30_ok stop p L hp hp0 hL s h
    exact ⟨q, h1, h2, h3, h4⟩
  · intro h x hx hg
    rw [e210] at h
    exact Wheel.addSievingPrimeExact_none 210 48 Gen.wheel210Init (by decide) Wheel.wheel210Init_spec Wheel.init210_ok stop p L h x hx hg
  · intro h x hx hg
    rw [e30] at h
    exact Wheel.addSievingPrimeExact_none 30 8 Gen.wheel30Init (by decide) Wheel.wheel30Init_spec Wheel.init30_ok stop p L h x hx hg

/-- **C10 (model sources)** regenerated on every run: digests of the (comment-, hook- and whitespace-normalised) bodies of the
    functions that the hand-written model behind the theorems of this file mirrors.  An edit to one of
    them — harmless or not — breaks this obligation; the check then searches for a failing input
    with the correspondence streams (DESIGN.md section 2, step 5). -/
theorem C10_model_sources :
    Gen.modelSources.filter (fun e => e.1 ∈ ["ParallelSieve.align", "pmath.checkedAdd", "pmath.checkedSub", "pmath.inBetween"]) =
     [("ParallelSieve.align", "60dc0866ae1c2879bdbc"),
      ("pmath.checkedAdd", "4fb81eb990b73946889d"),
      ("pmath.checkedSub", "fafc1440897134234d4b"),
      ("pmath.inBetween", "522b4f74f8bd12b4cba0")] := by decide

end Ps.Props
