/-
  C02 — Backward iteration yields exactly the primes ≤ start, then 0.
-/
import PsProofs.IterRun
import Mathlib.Tactic.NormNum.Prime
import Mathlib.Tactic.IntervalCases
import PsModel.Generated.Locks

namespace Ps.Props
open Ps Ps.Spec

/-- **C02** n successive prev_prime calls on an iterator positioned at `t` (any stop hint,
    any float oracle) return `prevSeq t 0, prevSeq t 1, …`.  Every call returns (total
    function; the do/while loop is defined by well-founded recursion). -/
theorem C02_backward (env : Env) (henv : EnvOK env) (t h : Nat) (ht : t ≤ umax) (n : Nat) :
    Iter.run env (Iter.mk' t h) (List.replicate n Op.prev) =
      (List.range n).map (fun j => Out.val (prevSeq t j)) := by
  have := run_sim henv (List.replicate n Op.prev) (Iter.mk' t h) _ (R_mk' t h ht true) (by
    intro op hop; rw [List.eq_of_mem_replicate hop]; trivial)
  exact this.trans (specRun_prev t n)

/-- `prevSeq t` enumerates exactly the primes ≤ t, strictly descending, then 0 forever. -/
theorem C02_sequence_exact (t : Nat) :
    (∀ j, prevSeq t j = 0 ∨ ((prevSeq t j).Prime ∧ prevSeq t j ≤ t)) ∧
    (∀ j, prevSeq t j ≠ 0 → prevSeq t (j + 1) < prevSeq t j) ∧
    (∀ j, prevSeq t j = 0 → prevSeq t (j + 1) = 0) ∧
    (∀ p, p.Prime → p ≤ t → ∃ j, prevSeq t j = p) :=
  ⟨fun j => (prevSeq_zero_or_prime t j).imp id (fun hp => ⟨hp, prevSeq_le t j⟩),
   fun j h => prevSeq_succ_lt t j h,
   fun j h => prevSeq_zero_sticky t j h,
   fun p hp hs => prevSeq_complete t p hp hs⟩

/-- non-vacuity: from 3 the outputs are 3, 2, 0, 0 -/
example : prevSeq 3 0 = 3 ∧ prevSeq 3 1 = 2 ∧ prevSeq 3 2 = 0 ∧ prevSeq 3 3 = 0 := by
  have h3 : prevPrime 3 = 3 := prevPrime_eq_of (by omega) (by norm_num) (by intro q h1 h2; omega)
  have h2 : prevPrime 2 = 2 := prevPrime_eq_of (by omega) (by norm_num) (by intro q h1 h2; omega)
  have h1 : prevPrime 1 = 0 := prevPrime_eq_zero (fun q hq => not_prime_le_one hq)
  have h0 : prevPrime 0 = 0 := prevPrime_eq_zero (fun q hq => not_prime_le_one (by omega))
  simp only [prevSeq, h3, h2, h1, h0, and_self]

/-- **C02 (model sources)** regenerated on every run: digests of the (comment-, hook- and whitespace-normalised) bodies of the
    functions that the hand-written model behind the theorems of this file mirrors.  An edit to one of
    them — harmless or not — breaks this obligation; the check then searches for a failing input
    with the correspondence streams (DESIGN.md section 2, step 5). -/
theorem C02_model_sources :
    Gen.modelSources.filter (fun e => e.1 ∈ ["iterator.generate_prev_primes", "iterator.hpp.prev_prime", "IteratorHelper.updatePrev", "IteratorHelper.getPrevDist", "PrimeGenerator.initPrevPrimes", "PrimeGenerator.sievePrevPrimes", "PrimeGenerator_default.fillPrevPrimes", "PrimeGenerator_avx512.fillPrevPrimes"]) =
     [("iterator.generate_prev_primes", "1784049c687ca3b8c7e8"),
      ("iterator.hpp.prev_prime", "57cdaf17aeb89aae2176"),
      ("IteratorHelper.updatePrev", "d669145275de3ba547da"),
      ("IteratorHelper.getPrevDist", "ccd93277a94283fb7359"),
      ("PrimeGenerator.initPrevPrimes", "c25f6557e8833fa27b53"),
      ("PrimeGenerator.sievePrevPrimes", "a0a1b531086492c7ee6c"),
      ("PrimeGenerator_default.fillPrevPrimes", "0272d4b8fe4d0a8ef7e2"),
      ("PrimeGenerator_avx512.fillPrevPrimes", "37502b8750d9600d675d")] := by decide

end Ps.Props
