/-
  C17 — Memory is bounded by sqrt(stop) and sieve size, not interval length; it is freed.
  What the model can carry: the lengths of the buffers the iterator asks for, and what
  jump_to / clear / a failed call leave behind.  Heap bytes are measured by the `mem` stream.
-/
import PsModel.Iterator
import PsProofs.IterSim
import PsModel.Generated.Locks

namespace Ps.Props
open Ps

theorem inBetween_le {mn x mx : Nat} (h : mn ≤ mx) : inBetween mn x mx ≤ mx := by
  unfold inBetween; split <;> (try split) <;> omega

theorem inBetween_le_max (mn x mx : Nat) : inBetween mn x mx ≤ max mn (min x mx) ∨ inBetween mn x mx ≤ max mn mx := by
  unfold inBetween; split <;> (try split) <;> omega

/-- **C17 (backward chunks)** the length of a backward chunk never depends on how long the iterator has
    been running (the `dist` of the previous chunk): whatever `dist` is, it is bounded by
    max(2·√stop, (MIN_CACHE_ITERATOR/8)·log stop) — O(√stop) — as long as that does not exceed the
    hard cap (MAX_CACHE_ITERATOR/8)·log stop and the tiny chunk 4·719 is below the soft cap. -/
theorem C17_prev_chunk_bounded (o : Oracle) (stop dist : Nat)
    (htiny : mul64 Gen.maxCachedPrime 4 ≤ mul64 (Gen.MIN_CACHE_ITERATOR / 8) (o.logU stop))
    (hcap : mul64 (Gen.MIN_CACHE_ITERATOR / 8) (o.logU stop) ≤ mul64 (Gen.MAX_CACHE_ITERATOR / 8) (o.logU stop)) :
    getPrevDist o stop dist ≤ max (o.sqrt2U stop) (mul64 (Gen.MIN_CACHE_ITERATOR / 8) (o.logU stop)) := by
  unfold getPrevDist
  simp only
  generalize mul64 (Gen.MIN_CACHE_ITERATOR / 8) (o.logU stop) = mn at *
  generalize mul64 (Gen.MAX_CACHE_ITERATOR / 8) (o.logU stop) = mx at *
  generalize mul64 Gen.maxCachedPrime 4 = tiny at *
  generalize mul64 dist 4 = d
  generalize o.sqrt2U stop = df
  have h1 : inBetween tiny d mn ≤ mn := inBetween_le htiny
  generalize inBetween tiny d mn = m' at *
  unfold inBetween
  split <;> (try split) <;> omega

/-- **C17 (forward chunks)** the forward chunk length is at most 2^60 and at least the cached-prime range -/
theorem C17_next_dist_range (o : Oracle) (start dist : Nat) :
    Gen.maxCachedPrime ≤ getNextDist o start dist ∨ getNextDist o start dist = 1152921504606846976 := by
  unfold getNextDist inBetween
  simp only
  split <;> (try split) <;> omega

/-- **C17 (clear / jump_to)** after jump_to, clear or skipto the iterator holds no prime buffer and no
    generator: only the fixed IteratorData block stays allocated -/
theorem C17_reset_releases (st : Iter) (s h : Nat) :
    (st.jumpTo s h).buf = [] ∧ (st.jumpTo s h).gen = none ∧ (st.jumpTo s h).size = 0 ∧
    st.clear.buf = [] ∧ st.clear.gen = none ∧ (st.skipTo s h).buf = [] ∧ (st.skipTo s h).gen = none :=
  ⟨rfl, rfl, rfl, rfl, rfl, rfl, rfl⟩

/-- **C17 (backward buffers are dropped)** a backward refill replaces the buffer (the previous one is
    released) and never keeps a generator alive -/
theorem C17_prev_keeps_no_generator (env : Env) (st : Iter) : (genPrevLoop env st).gen = none := by
  fun_induction genPrevLoop env st with
  | case1 st u blk hb h2 hm ih => exact ih
  | case2 st u blk hb => rfl

/-- **C17 (model sources)** regenerated on every run: digests of the (comment-, hook- and whitespace-normalised) bodies of the
    functions that the hand-written model behind the theorems of this file mirrors.  An edit to one of
    them — harmless or not — breaks this obligation; the check then searches for a failing input
    with the correspondence streams (DESIGN.md section 2, step 5). -/
theorem C17_model_sources :
    Gen.modelSources.filter (fun e => e.1 ∈ ["iterator.jump_to", "iterator.clear", "IteratorHelper.getNextDist", "IteratorHelper.getPrevDist", "iterator-c.clear", "iterator-c.free_iterator"]) =
     [("iterator.jump_to", "130c2420f114441dcb1e"),
      ("iterator.clear", "aa40e08e21600bb96ea4"),
      ("IteratorHelper.getNextDist", "fe0225e589ca1011db71"),
      ("IteratorHelper.getPrevDist", "ccd93277a94283fb7359"),
      ("iterator-c.clear", "0bfc2a109ad41a52c480"),
      ("iterator-c.free_iterator", "92349951134908b1f05a")] := by decide

end Ps.Props
