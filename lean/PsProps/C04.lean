/-
  C04 — count_primes equals pi(stop) - pi(start-1) exactly.
  Property theorems only (helper lemmas live in PsProofs).
-/
import PsProofs.CountSieve
import PsModel.Generated.Locks

namespace Ps.Props
open Ps Ps.Spec

/-- the primality test handed to the model decides `Nat.Prime` -/
def IsPrimeOK (isP : Nat → Bool) : Prop := ∀ n, isP n = true ↔ n.Prime

/-- **C04 (single thread)** for every start, stop: counter 0 of `PrimeSieve::sieve(start, stop, COUNT_PRIMES …)`
    — small-prime table rows 2, 3, 5 plus the popcount of every byte of the (ideal) sieve over
    [max(start,7), stop] — is the number of primes p with start ≤ p ≤ stop. -/
theorem C04_count_single {isP : Nat → Bool} (hP : IsPrimeOK isP) (start stop flags : Nat)
    (hf : isFlag flags 1 = true) :
    (primeSieveCounts isP start stop flags).getD 0 0 = primeCount start stop := by
  have := primeSieveCounts_spec hP start stop flags 0 (by omega) (by simpa using hf)
  simpa [kindCount] using this

/-- **C04 (ParallelSieve)** the same for `ParallelSieve::sieve` with any number of threads and any
    minimum piece length; `hnw` is the explicit no-wrap side condition of C09 (it is automatically
    true whenever stop < 2^64-1). -/
theorem C04_count_parallel {isP : Nat → Bool} (hP : IsPrimeOK isP)
    (start stop flags numThreads minDist : Nat) (hf : isFlag flags 1 = true) (hs : stop ≤ umax)
    (htdu : getThreadDistance start stop (idealNumThreads start stop numThreads minDist) minDist ≤ umax)
    (hnw : ∀ k, k < numPieces start stop
        (getThreadDistance start stop (idealNumThreads start stop numThreads minDist) minDist) →
      stop < umax ∨ start + getThreadDistance start stop (idealNumThreads start stop numThreads minDist) minDist * k
        + 32 < stop ∨ k = 0) :
    (parallelCounts isP start stop flags numThreads minDist).getD 0 0 = primeCount start stop := by
  have := parallelCounts_spec hP start stop flags numThreads minDist 0 (by omega) (by simpa using hf) hs htdu hnw
  simpa [kindCount] using this

/-- **C04** the count is 0 when start > stop -/
theorem C04_empty {start stop : Nat} (h : stop < start) : primeCount start stop = 0 :=
  countIn_empty _ h

/-- **C04** counts are additive over adjacent intervals -/
theorem C04_additive {a b c : Nat} (h1 : a ≤ b + 1) (h2 : b ≤ c) :
    primeCount a b + primeCount (b + 1) c = primeCount a c :=
  countIn_split _ h1 h2

/-- **C04** the count agrees with what the iterator / generate_primes enumerate for the interval:
    it is the length of the ascending list of primes of [start, stop] -/
theorem C04_agrees_with_enumeration (start stop : Nat) :
    primeCount start stop = (primesIn start stop).length :=
  (primesIn_length start stop).symm

/-- non-vacuity: a primality test satisfying the hypothesis exists, and COUNT_PRIMES = 1 is a flag of 63 -/
example : ∃ isP, IsPrimeOK isP := ⟨fun n => decide n.Prime, fun n => by simp⟩
example : isFlag 63 1 = true ∧ isFlag 1 1 = true := by decide
/-- non-vacuity: the model counts π(100) = 25 -/
example : (primeSieveCounts (fun n => decide n.Prime) 0 100 1).getD 0 0 = 25 := by decide

/-- **C04 (model sources)** regenerated on every run: digests of the (comment-, hook- and whitespace-normalised) bodies of the
    functions that the hand-written model behind the theorems of this file mirrors.  An edit to one of
    them — harmless or not — breaks this obligation; the check then searches for a failing input
    with the correspondence streams (DESIGN.md section 2, step 5). -/
theorem C04_model_sources :
    Gen.modelSources.filter (fun e => e.1 ∈ ["CountPrintPrimes.countPrimes", "PrimeSieve.sieve", "PrimeSieve.processSmallPrimes"]) =
     [("CountPrintPrimes.countPrimes", "54bb15a4166e97fe885b"),
      ("PrimeSieve.sieve", "aca790c07461bbada381"),
      ("PrimeSieve.processSmallPrimes", "aea93bdf6096ecdf2777")] := by decide

end Ps.Props
