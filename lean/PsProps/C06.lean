/-
  C06 — generate_primes / generate_n_primes store exactly the requested primes.
-/
import PsProofs.Store
import PsProofs.IterRun
import PsProofs.StoreN
import PsModel.Generated.Locks

namespace Ps.Props
open Ps Ps.Spec

/-- **C06 (generate_primes)** for every start, stop < 2^64, every element type (vmax = its largest value),
    every block-length policy `kf`, float oracle and stop hint behaviour: `store_primes` appends
    nothing for an empty request (start > stop, or start above the largest 64-bit prime), throws
    before storing anything when stop > vmax, and otherwise appends exactly the primes of
    [start, stop] in ascending order.  `fuel` bounds the number of generate_next_primes() calls of
    the block loop; stop + 2 - start always suffices, i.e. the loop terminates. -/
theorem C06_store_primes {env : Env} (h : EnvOK env) (kf : Nat → Nat) (fuel start stop vmax : Nat)
    (hstop : stop ≤ umax) (hfuel : stop + 2 ≤ fuel + start) :
    storePrimes env kf fuel start stop vmax = some (
      if start > stop ∨ start > storeMaxPrime then .ok []
      else if stop > vmax then .throw [] .invalid
      else .ok (primesIn start stop)) :=
  storePrimes_spec h kf fuel start stop vmax hstop hfuel

/-- **C06 (no truncation)** whatever `store_primes` appends fits the element type -/
theorem C06_no_truncation {env : Env} (h : EnvOK env) (kf : Nat → Nat) (fuel start stop vmax : Nat)
    (hstop : stop ≤ umax) (hfuel : stop + 2 ≤ fuel + start) (app : List Nat)
    (hr : storePrimes env kf fuel start stop vmax = some (.ok app)) : ∀ x ∈ app, x ≤ vmax := by
  rw [C06_store_primes h kf fuel start stop vmax hstop hfuel] at hr
  intro x hx
  split at hr
  · cases hr; cases hx
  · split at hr
    · cases hr
    · rename_i h1 h2
      cases hr
      have := (mem_primesHO.1 hx).2.1
      omega

/-- **C06 / C01 (blocks)** every `generate_next_primes()` on an iterator holding a block hands out a
    non-empty block of consecutive primes that starts with the prime following the last prime of
    the previous block — so the concatenated blocks are the primes in order, none skipped — or
    fails because that prime does not fit in 64 bits. -/
theorem C06_next_block {env : Env} (h : EnvOK env) (k : Nat) (st : Iter) (hinv : AtInv st) :
    match st.generateNext env k with
    | .error e => e = .overflow ∧ ¬ nextPrime (st.buf.getD (st.size - 1) 0 + 1) < U64
    | .ok st' => nextPrime (st.buf.getD (st.size - 1) 0 + 1) < U64 ∧ st'.i = 0 ∧
        st'.buf.getD 0 0 = nextPrime (st.buf.getD (st.size - 1) 0 + 1) ∧ AtInv st' ∧ st'.hint = st.hint :=
  generateNext_at h k st hinv

/-- **C06 (generate_n_primes)** for every n, start < 2^64, element type, block-length policy, stop hint and float oracle
    (fuel ≥ n bounds the refills: each block removes at least one prime from the count, so the loop
    terminates): `store_n_primes` appends exactly the first n primes ≥ start — `primeSeq start 0 … n-1`
    — when the n-th of them fits the element type and 64 bits; otherwise it throws, and what it has
    appended by then is an EXACT PREFIX of the requested primes (never a truncated value, never a
    gap).  It throws only in that case. -/
theorem C06_store_n_primes {env : Env} (h : EnvOK env) (kf : Nat → Nat) (fuel n start hintStop vmax : Nat)
    (hs : start ≤ umax) (hfuel : n ≤ fuel) :
    ∃ r, storeNPrimes env kf fuel n start hintStop vmax = some r ∧
      match r with
      | .ok app => app = firstN start n ∧ (n = 0 ∨ (primeSeq start (n - 1) ≤ vmax ∧ primeSeq start (n - 1) < U64))
      | .throw app _ => (∃ k, k < n ∧ app = firstN start k) ∧
          ¬ (primeSeq start (n - 1) ≤ vmax ∧ primeSeq start (n - 1) < U64) :=
  storeNPrimes_spec h kf fuel n start hintStop vmax hs hfuel

/-- the store constant is the largest 64-bit prime -/
theorem C06_storeMaxPrime : storeMaxPrime.Prime ∧ ∀ n, storeMaxPrime < n → n < U64 → ¬ n.Prime :=
  ⟨maxPrime64_prime, no_prime_above⟩

/-- non-vacuity: generate_primes(0, 30) into a uint8_t vector -/
example {env : Env} (h : EnvOK env) (kf : Nat → Nat) :
    storePrimes env kf 40 0 30 255 = some (.ok [2, 3, 5, 7, 11, 13, 17, 19, 23, 29]) := by
  rw [C06_store_primes h kf 40 0 30 255 (by decide) (by decide)]
  have : primesIn 0 30 = [2, 3, 5, 7, 11, 13, 17, 19, 23, 29] := by decide
  simp [this, storeMaxPrime]

/-- **C06 (model sources)** regenerated on every run: digests of the (comment-, hook- and whitespace-normalised) bodies of the
    functions that the hand-written model behind the theorems of this file mirrors.  An edit to one of
    them — harmless or not — breaks this obligation; the check then searches for a failing input
    with the correspondence streams (DESIGN.md section 2, step 5). -/
theorem C06_model_sources :
    Gen.modelSources.filter (fun e => e.1 ∈ ["StorePrimes.store_primes", "StorePrimes.store_n_primes"]) =
     [("StorePrimes.store_primes", "4822590d45cd97f2ec4e"),
      ("StorePrimes.store_n_primes", "a0d4fce611b25b96f3b9")] := by decide

end Ps.Props
