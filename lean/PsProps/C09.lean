/-
  C09 — Parallel sieving tiles the interval exactly, splits no k-tuplet, and its total does
  not depend on the schedule.
-/
import PsProofs.ParallelCount
import PsModel.Generated.Locks

namespace Ps.Props
open Ps Ps.Spec

/-- **C09** the 64-bit (wrapping / saturating) computation of piece i in ParallelSieve::sieve equals the
    exact-arithmetic piece, provided `align(start) + 1` does not wrap — which can only happen for
    stop = 2^64-1 when a piece starts within 32 of stop (excluded by `hnw`, see DESIGN.md C09). -/
theorem C09_piece_exact {start stop td i : Nat} (hlt : start < stop) (hs : stop ≤ umax)
    (htd : 0 < td) (htdu : td ≤ umax) (hi : i < numPieces start stop td)
    (hnw : stop < umax ∨ start + td * i + 32 < stop ∨ i = 0) :
    piece start stop td i = pieceN start stop td i :=
  piece_eq_pieceN hlt hs htd htdu hi hnw

/-- **C09 (tiling)** for every start < stop and every piece length td that is a positive multiple of 30:
    the first piece starts at start, the last ends at stop, consecutive pieces are adjacent
    (no gap, no overlap), no piece runs backwards, and every interior boundary b satisfies
    b % 30 = 2 and b ≥ 32. -/
theorem C09_tiling {start stop td : Nat} (hlt : start < stop) (htd30 : td % 30 = 0) (htd : 30 ≤ td) :
    (pieceN start stop td 0).1 = start ∧
    (pieceN start stop td (numPieces start stop td - 1)).2 = stop ∧
    (∀ i, (pieceN start stop td (i + 1)).1 = (pieceN start stop td i).2 + 1) ∧
    (∀ i, (pieceN start stop td i).1 ≤ (pieceN start stop td i).2 + 1) ∧
    (∀ i, (pieceN start stop td i).2 < stop →
      (pieceN start stop td i).2 % 30 = 2 ∧ 32 ≤ (pieceN start stop td i).2) :=
  ⟨pieceN_first _ _ _, pieceN_last hlt (by omega), pieceN_chain _ _ _,
   fun i => pieceN_ordered _ _ _ i htd30 (Nat.le_of_lt hlt),
   fun i h => pieceN_boundary _ _ _ i htd h⟩

/-- the piece length computed by getThreadDistance always has the shape `C09_tiling` needs -/
theorem C09_threadDistance_shape (start stop threads minDist : Nat) :
    getThreadDistance start stop threads minDist % 30 = 0 ∧
    30 ≤ getThreadDistance start stop threads minDist := by
  unfold getThreadDistance
  simp only
  omega

/-- **C09** the per-piece prime counts add up to the prime count of [start, stop] -/
theorem C09_primes_additive {start stop td : Nat} (hlt : start < stop) (htd30 : td % 30 = 0)
    (htd : 30 ≤ td) :
    (∑ i ∈ Finset.range (numPieces start stop td),
        primeCount (pieceN start stop td i).1 (pieceN start stop td i).2) = primeCount start stop := by
  rw [← sumPieces_eq_sum]; exact sumPieces_primeCount hlt htd30 htd

/-- **C09** the per-piece counts of every constellation add up to the count over [start, stop]:
    no constellation is lost or counted twice at a piece boundary -/
theorem C09_tuplets_additive {ds : List Nat} (hds : ds ∈ allPatterns) {start stop td : Nat}
    (hlt : start < stop) (htd30 : td % 30 = 0) (htd : 30 ≤ td) :
    (∑ i ∈ Finset.range (numPieces start stop td),
        tupletCount ds (pieceN start stop td i).1 (pieceN start stop td i).2) =
      tupletCount ds start stop := by
  rw [← sumPieces_eq_sum]; exact sumPieces_tupletCount hds hlt htd30 htd

/-- **C09 (no split)** no constellation has members on both sides of a boundary b ≡ 2 (mod 30), b ≥ 32 -/
theorem C09_no_split {ds : List Nat} (hds : ds ∈ allPatterns) {p b : Nat} (hb : b % 30 = 2)
    (hb32 : 32 ≤ b) (ht : tupletAt ds p) (hpb : p ≤ b) : p + span ds ≤ b :=
  no_split hds hb hb32 ht hpb

/-- **C09 (schedules)** for every assignment `owner` of piece indices to T workers (every possible
    outcome of the races on the shared counter) the sum of the workers' local totals equals the
    sum over all pieces. -/
theorem C09_schedule_independent (N T : Nat) (g : Nat → Nat) (owner : Nat → Fin T) :
    (∑ w : Fin T, ∑ i ∈ (Finset.range N).filter (fun i => owner i = w), g i) =
      ∑ i ∈ Finset.range N, g i :=
  schedule_independent N T g owner

/-- non-vacuity: [0, 100] in pieces of length 30 -/
example : (List.range (numPieces 0 100 30)).map (pieceN 0 100 30) = [(0, 62), (63, 92), (93, 100), (101, 100)] := by
  decide

/-- **C09 (model sources)** regenerated on every run: digests of the (comment-, hook- and whitespace-normalised) bodies of the
    functions that the hand-written model behind the theorems of this file mirrors.  An edit to one of
    them — harmless or not — breaks this obligation; the check then searches for a failing input
    with the correspondence streams (DESIGN.md section 2, step 5). -/
theorem C09_model_sources :
    Gen.modelSources.filter (fun e => e.1 ∈ ["ParallelSieve.align", "ParallelSieve.getThreadDistance", "ParallelSieve.idealNumThreads", "ParallelSieve.sieve"]) =
     [("ParallelSieve.align", "60dc0866ae1c2879bdbc"),
      ("ParallelSieve.getThreadDistance", "2c9fda697b82c39b7630"),
      ("ParallelSieve.idealNumThreads", "87d1bd984b0d89acf057"),
      ("ParallelSieve.sieve", "ec8cd71bc175a45e7127")] := by decide

end Ps.Props
