/-
  C01 — Forward iteration yields exactly the primes ≥ start, in order.
-/
import PsProofs.IterRun
import PsProofs.Wheel
import PsProofs.PreSieve
import PsProofs.Segments
import PsProofs.SegmentCorrect
import PsProofs.Feed
import PsProofs.TinySieve
import PsProofs.Schedule
import Mathlib.Tactic.NormNum.Prime
import Mathlib.Tactic.IntervalCases
import PsModel.Generated.Locks

namespace Ps.Props
open Ps Ps.Spec

/-- **C01** n successive next_prime calls on an iterator positioned at `s` (any stop hint `h`,
    any generator block lengths `ks`, any float oracle) return `primeSeq s 0, primeSeq s 1, …`
    as long as these are below 2^64 and `primesieve_error` afterwards.  Every call returns:
    `Iter.run` is a total function whose loops are defined by well-founded recursion. -/
theorem C01_forward (env : Env) (henv : EnvOK env) (s h : Nat) (hs : s ≤ umax) (ks : List Nat) :
    Iter.run env (Iter.mk' s h) (ks.map Op.next) = (List.range ks.length).map (fwdOut s) := by
  have := run_sim henv (ks.map Op.next) (Iter.mk' s h) _ (R_mk' s h hs true) (by
    intro op hop; obtain ⟨k, _, rfl⟩ := List.mem_map.1 hop; trivial)
  exact this.trans (specRun_next s ks)

/-- `primeSeq s` enumerates exactly the primes ≥ s, strictly ascending:
    no composite, no duplicate, no prime skipped. -/
theorem C01_sequence_exact (s : Nat) :
    (∀ j, (primeSeq s j).Prime ∧ s ≤ primeSeq s j) ∧
    (∀ i j, i < j → primeSeq s i < primeSeq s j) ∧
    (∀ p, p.Prime → s ≤ p → ∃ j, primeSeq s j = p) :=
  ⟨fun j => ⟨primeSeq_prime s j, primeSeq_ge s j⟩,
   fun _ _ h => primeSeq_strictMono s h,
   fun p hp hs => primeSeq_complete s p hp hs⟩

/-- **C01 (blocks)** every block handed out by `generate_next_primes` is non-empty. -/
theorem C01_blocks_nonempty (env : Env) (_henv : EnvOK env) (k : Nat) (st st' : Iter)
    (hs : st.stop ≤ umax) (hok : genNextFresh env k st = .ok st') :
    st'.size = st'.buf.length ∧ st'.buf ≠ [] := by
  have := genNextFresh_spec _henv k st hs
  rw [hok] at this
  exact ⟨this.size_eq, this.ne⟩

/-- non-vacuity: the first three outputs from 0 are 2, 3, 5 -/
example : primeSeq 0 0 = 2 ∧ primeSeq 0 1 = 3 ∧ primeSeq 0 2 = 5 := by
  have h2 : nextPrime 0 = 2 := nextPrime_eq_of (by omega) (by norm_num) (by
    intro q _ h2; interval_cases q <;> norm_num)
  have h3 : nextPrime 3 = 3 := nextPrime_eq_of (by omega) (by norm_num) (by intro q h1 h2; omega)
  have h5 : nextPrime 4 = 5 := nextPrime_eq_of (by omega) (by norm_num) (by
    intro q h1 h2; interval_cases q; norm_num)
  simp only [primeSeq, h2, h3, h5, and_self]

end Ps.Props

/-! ### the wheel layer of the sieve chain (regenerated tables, all sieving primes, all quotients) -/

namespace Ps.Props
open Ps Ps.Wheel

/-- **C01 (cross-off tables)** regenerated from EratSmall.cpp, EratMedium.cpp, EratBig.cpp, LookupTables.cpp, Wheel.hpp and
    bits.hpp on every run and compared by the kernel with their arithmetic specification: all 64
    single-step rows of EratSmall and of EratMedium, the 8 unrolled loops of EratSmall (= 8 steps),
    all 384 rows of wheel210, both INIT tables of addSievingPrime (30 + 210 entries), wheelOffsets_
    and the bit masks.  A single changed entry breaks this theorem. -/
theorem C01_crossoff_tables :
    Gen.eratMediumRows = (specRows 30).map (fun r => (r.1, r.2.1, r.2.2.1)) ∧
    Gen.eratSmallRows = (specRows 30).map (fun r => (r.1, r.2.1, r.2.2.1)) ∧
    Gen.wheel210 = specRows 210 ∧
    Gen.wheel30Init = (List.range 30).map (specInit 30) ∧
    Gen.wheel210Init = (List.range 210).map (specInit 210) ∧
    (∀ r, r < 8 → Gen.wheelOffsetUnits.getD (primeRes.getD r 0) 0 = r) ∧
    Gen.bitMasks = (List.range 8).map (fun k => 255 - 2 ^ k) ∧
    Gen.eratSmallUnrolled.map (fun u => u.2.2.2.2.2) = ((List.range 8).map unrolledSpec).map (fun u => u.2.2.2.2.2) ∧
    Gen.eratBigStepShape = true ∧ Gen.multipleIndexBits = 23 :=
  ⟨eratMediumRows_spec, eratSmallRows_spec, wheel210_spec, wheel30Init_spec, wheel210Init_spec, wheelOffsets_spec,
   bitMasks_spec, eratSmallUnrolled_spec.2, rfl, rfl⟩

/-- **C01 (one cross-off step)** for EVERY sieving prime p = 30·sp + pr and EVERY quotient q: if the stored state
    denotes the multiple p·q (at byte idx, bit b of the segment starting at L), then one step of
    EratMedium / EratSmall on the regenerated rows clears exactly bit b and the new state denotes
    p·q' where q' > q is the NEXT quotient coprime to 30 — no admissible multiple is skipped, no
    inadmissible one is visited.  The same holds for EratBig's wheel210 step modulo 210. -/
theorem C01_crossoff_step (L sp idx w q : Nat) :
    (w < 64 → Denotes 30 L ⟨sp, idx, w⟩ q →
      (step30 Gen.eratMediumRows ⟨sp, idx, w⟩).1 = (specRow 30 (w / 8) (w % 8)).1 ∧
      step30 Gen.eratSmallRows ⟨sp, idx, w⟩ = step30 Gen.eratMediumRows ⟨sp, idx, w⟩ ∧
      Denotes 30 L (step30 Gen.eratMediumRows ⟨sp, idx, w⟩).2 (q + (specRow 30 (w / 8) (w % 8)).2.1) ∧
      0 < (specRow 30 (w / 8) (w % 8)).2.1 ∧
      (∀ d, 0 < d → d < (specRow 30 (w / 8) (w % 8)).2.1 → Nat.gcd (q + d) 30 ≠ 1)) ∧
    (w < 384 → Denotes 210 L ⟨sp, idx, w⟩ q →
      (step210 ⟨sp, idx, w⟩).1 = (specRow 210 (w / 48) (w % 48)).1 ∧
      Denotes 210 L (step210 ⟨sp, idx, w⟩).2 (q + (specRow 210 (w / 48) (w % 48)).2.1) ∧
      0 < (specRow 210 (w / 48) (w % 48)).2.1 ∧
      (∀ d, 0 < d → d < (specRow 210 (w / 48) (w % 48)).2.1 → Nat.gcd (q + d) 210 ≠ 1)) := by
  constructor
  · intro hw h
    have hs := step_sound30 L ⟨sp, idx, w⟩ q h
    rw [step30_small_eq w hw, step30_medium_eq w hw]
    exact ⟨rfl, rfl, hs.1, hs.2.2.1, hs.2.1⟩
  · intro hw h
    have hs := step_sound210 L ⟨sp, idx, w⟩ q h
    rw [step210_eq w hw]
    exact ⟨rfl, hs.1, hs.2.2.1, hs.2.1⟩

/-- **C01 (walk)** n steps from a state denoting p·q₀ visit, in increasing order and without omission, exactly the
    quotients ≥ q₀ coprime to the wheel's modulus -/
theorem C01_crossoff_walk_exact (L n : Nat) (s : SP) (q : Nat) :
    (Denotes 30 L s q → Denotes 30 L (walk 30 n s q).1 (walk 30 n s q).2 ∧ q ≤ (walk 30 n s q).2 ∧
      (∀ x, q ≤ x → x < (walk 30 n s q).2 → Nat.gcd x 30 = 1 → ∃ j, j < n ∧ (walk 30 j s q).2 = x)) ∧
    (Denotes 210 L s q → Denotes 210 L (walk 210 n s q).1 (walk 210 n s q).2 ∧ q ≤ (walk 210 n s q).2 ∧
      (∀ x, q ≤ x → x < (walk 210 n s q).2 → Nat.gcd x 210 = 1 → ∃ j, j < n ∧ (walk 210 j s q).2 = x)) :=
  ⟨walk_exact30 L n s q, walk_exact210 L n s q⟩

/-- **C01 (first multiple)** Wheel::addSievingPrime on the regenerated INIT tables, products below 2^64: the prime
    is stored with a state denoting p·q for the LEAST q ≥ max(p, ⌊(L+6)/p⌋ + 1) coprime to the
    modulus (so nothing between the segment start and that multiple is missed), and p·q ≤ stop -/
theorem C01_first_multiple (stop p L : Nat) (hp : Nat.gcd (p % 30) 30 = 1) (hp0 : 0 < p) (hL : L % 30 = 0)
    (hnw : L + 6 < U64) (hnw2 : p * (max p ((L + 6) / p + 1) + 210) < U64) (hstop : stop < U64) (s : SP) :
    (addSievingPrime 30 8 Gen.wheel30Init stop p L = some s →
      ∃ q, Denotes 30 L s q ∧ max p ((L + 6) / p + 1) ≤ q ∧ p * q ≤ stop ∧
        (∀ x, max p ((L + 6) / p + 1) ≤ x → x < q → Nat.gcd x 30 ≠ 1) ∧ s.sp = p / 30) ∧
    (addSievingPrime 210 48 Gen.wheel210Init stop p L = some s →
      ∃ q, Denotes 210 L s q ∧ max p ((L + 6) / p + 1) ≤ q ∧ p * q ≤ stop ∧
        (∀ x, max p ((L + 6) / p + 1) ≤ x → x < q → Nat.gcd x 210 ≠ 1) ∧ s.sp = p / 30) := by
  constructor
  · intro h
    exact addSievingPrime30_denotes stop p L hp hp0 hL hnw
      (Nat.lt_of_le_of_lt (Nat.mul_le_mul_left p (by omega)) hnw2) hstop s h
  · exact addSievingPrime210_denotes stop p L hp hp0 hL hnw hnw2 hstop s

/-- **C01 (pre-sieve)** all 16 tables of PreSieveTables.hpp (126 330 bytes, regenerated on every run and compared byte
    for byte by the kernel with the table their prime group defines) ANDed the way
    PreSieve::preSieve combines them: for every segment start L ≡ 0 (mod 30), byte offset o and bit
    b, the pre-sieved bit is 1 iff NO prime from 7 to 163 divides the number L + 30·o + offs[b] -/
theorem C01_presieve_exact (L o b : Nat) (hL : L % 30 = 0) (hb : b < 8) :
    (PreSieve.preSieveByte PreSieve.allTables L o).testBit b = true ↔
      ∀ p, Nat.Prime p → 7 ≤ p → p ≤ 163 → ¬ p ∣ (L + 30 * o + PreSieve.offs.getD b 0) :=
  PreSieve.preSieve_bit_iff L o b hL hb

/-- **C01 (sieve principle)** why pre-sieve + cross-off compute primality: a number n > 163 that has a bit in the sieve
    (coprime to 30) and lies below the segment's upper bound H is prime iff no prime 7..163 divides
    it (what `C01_presieve_exact` shows the pre-sieve computes) and no sieving prime p ∈ (163, √H]
    crosses it off on its walk over the quotients q ≥ p coprime to 30 (EratSmall/EratMedium) resp.
    210 (EratBig) — whichever algorithm each prime is routed to -/
theorem C01_sieve_principle (M : Nat → Nat) (hM : ∀ p, M p = 30 ∨ M p = 210) (n H : Nat) (hn : 163 < n) (hnH : n ≤ H)
    (hc : Nat.gcd n 30 = 1) :
    n.Prime ↔ (∀ p, p.Prime → 7 ≤ p → p ≤ 163 → ¬ p ∣ n) ∧
              (∀ p, p.Prime → 163 < p → p * p ≤ H → ¬ ClearedBy (M p) p n) :=
  sieve_principle M hM n H hn hnH hc

/-- **C01 (cross-off covers the segment)** once addSievingPrime has stored a sieving prime p for the segment starting at L,
    the walk from the stored state reaches EVERY multiple p·x with x ≥ p coprime to the modulus
    that lies above L + 6 — exactly the `ClearedBy` numbers of the sieve principle — and the state
    reached denotes p·x, so the bit cleared at that step is the bit of p·x -/
theorem C01_crossoff_covers_segment (stop p L : Nat) (hp : Nat.gcd (p % 30) 30 = 1) (hp0 : 0 < p) (hL : L % 30 = 0)
    (hnw : L + 6 < U64) (hnw2 : p * (max p ((L + 6) / p + 1) + 210) < U64) (hstop : stop < U64) (s : SP) (x : Nat)
    (hpx : p ≤ x) (hn : L + 6 < p * x) :
    (addSievingPrime 30 8 Gen.wheel30Init stop p L = some s → Nat.gcd x 30 = 1 →
      ∃ q1 j, Denotes 30 L s q1 ∧ (walk 30 j s q1).2 = x ∧ Denotes 30 L (walk 30 j s q1).1 x) ∧
    (addSievingPrime 210 48 Gen.wheel210Init stop p L = some s → Nat.gcd x 210 = 1 →
      ∃ q1 j, Denotes 210 L s q1 ∧ (walk 210 j s q1).2 = x ∧ Denotes 210 L (walk 210 j s q1).1 x) :=
  ⟨fun h hg => crossoff_covers30 stop p L hp hp0 hL hnw
      (Nat.lt_of_le_of_lt (Nat.mul_le_mul_left p (by omega)) hnw2) hstop s h x hpx hg hn,
   fun h hg => crossoff_covers210 stop p L hp hp0 hL hnw hnw2 hstop s h x hpx hg hn⟩

/-- **C01 (segment correctness, number level)** the composition of the layers above, for EVERY segment start L ≡ 0 (mod 30), byte offset o,
    bit b, stop < 2^64 and EVERY routing of the sieving primes to the 30-wheel (EratSmall/EratMedium)
    or the 210-wheel (EratBig): the number n = L + 30·o + offs[b] (163 < n ≤ stop) is prime iff its bit
    after PreSieve::preSieve's AND of the 16 regenerated tables is 1 and no sieving prime p (163 < p,
    p² ≤ stop) crosses it off, where "crosses off" means: Wheel::addSievingPrime (real wrapping
    arithmetic, regenerated INIT tables) stores p and a walk over the regenerated cross-off rows
    reaches n.  What is left between this theorem and "the sieved byte array equals the primes" is
    scheduling only: that the three cross-off loops perform exactly these walks inside every segment
    and that every prime ≤ √segmentHigh has been handed to addSievingPrime before (tied by the
    segment / cross streams). -/
theorem C01_segment_numbers_correct (big : Nat → Bool) (stop L o b : Nat) (hL : L % 30 = 0) (hb : b < 8)
    (h163 : 163 < L + 30 * o + PreSieve.offs.getD b 0) (hns : L + 30 * o + PreSieve.offs.getD b 0 ≤ stop)
    (hstop : stop < U64) (hL6 : L + 6 < U64) :
    (L + 30 * o + PreSieve.offs.getD b 0).Prime ↔
      ((PreSieve.preSieveByte PreSieve.allTables L o).testBit b = true ∧
       ∀ p, p.Prime → 163 < p → p * p ≤ stop →
         ¬ (if big p then CrossedOff210 stop p L (L + 30 * o + PreSieve.offs.getD b 0)
            else CrossedOff30 stop p L (L + 30 * o + PreSieve.offs.getD b 0))) :=
  segment_number_correct big stop L o b hL hb h163 hns hstop hL6

/-- **C01 (segments tile the interval)** for every sieve interval 7 ≤ start ≤ stop < 2^64, every L1 size, sieve size setting and value
    of the floating-point factors (EratCfg): the segments (low, bytes) that Erat::init + repeated
    Erat::sieveSegment / sieveLastSegment produce are adjacent (each starts at low + 30·bytes of the
    previous one), the first one contains start in its first two bytes, and EVERY number of
    [start, stop] that has a bit in the sieve (residue mod 30 not in 2..6) lies in one of them — no gap
    at a segment edge, nothing beyond stop is needed.  64-bit saturation of checkedAdd is part of
    the model. -/
theorem C01_segments_tile (cfg : EratCfg) (start stop kib : Nat) (h7 : 7 ≤ start) (hss : start ≤ stop)
    (hst : stop ≤ umax) (hsu : start < umax) :
    let g := EratGeom.init cfg start stop kib
    (∀ n, start ≤ n → n ≤ stop → ¬ (2 ≤ n % 30 ∧ n % 30 ≤ 6) →
      ∃ seg ∈ g.segments (stop + 1), seg.1 + 7 ≤ n ∧ n ≤ seg.1 + 30 * seg.2 + 1) ∧
    Adjacent (g.segments (stop + 1)) ∧
    (g.segments (stop + 1)).head? = some (g.segmentLow, g.sieveSegment.2.1) ∧
    g.segmentLow + 7 ≤ start ∧ start ≤ g.segmentLow + 36 := by
  simp only
  obtain ⟨hinv, hlo, hhi, hstop⟩ := init_GInv cfg start stop kib h7 hss hst hsu
  have ht := segments_tile (stop + 1) _ hinv (by rw [hstop]; omega)
  refine ⟨?_, ht.2.2, ht.2.1, hlo, hhi⟩
  intro n h1 h2 h3
  exact ht.1 n (by omega) (by rw [hstop]; exact h2) h3

/-- **C01 (source lock, segment grid)** regenerated: the model EratGeom was written for exactly this text of
    Erat::sieveSegment, sieveLastSegment, byteRemainder, hasNextSegment and the segment set-up of initAlgorithms -/
theorem C01_segment_source : Gen.eratSegmentText = [
    ("sieveSegment", "if (segmentHigh_ < stop_) { preSieve(); crossOff(); uint64_t dist = sieve_.size() * 30; segmentLow_ = checkedAdd(segmentLow_, dist); segmentHigh_ = checkedAdd(segmentHigh_, dist); segmentHigh_ = std::min(segmentHigh_, stop_); } else sieveLastSegment();"),
    ("sieveLastSegment", "uint64_t rem = byteRemainder(stop_); uint64_t dist = (stop_ - rem) - segmentLow_; sieve_.resize(dist / 30 + 1); preSieve(); crossOff(); sieve_.back() &= unsetLarger[rem]; auto* sieve = sieve_.data(); auto i = sieve_.size(); ASSERT(sieve_.capacity() % sizeof(uint64_t) == 0); for (; i % sizeof(uint64_t); i++) sieve[i] = 0; segmentLow_ = stop_;"),
    ("byteRemainder", "ASSERT(n >= 7); return (n - 7) % 30 + 7;"),
    ("initAlgorithms.segments", "uint64_t rem = byteRemainder(start_); uint64_t dist = sieveSize * 30 + 6; segmentLow_ = start_ - rem; segmentHigh_ = checkedAdd(segmentLow_, dist); segmentHigh_ = std::min(segmentHigh_, stop_);"),
    ("hasNextSegment", "return segmentLow_ < stop_;")] := rfl

/-- **C01 (source lock)** the model of Wheel::addSievingPrime was written for exactly this text (regenerated,
    whitespace-normalised, on every run) -/
theorem C01_wheel_source : Gen.addSievingPrimeText =
    "ASSERT(segmentLow % 30 == 0); segmentLow += 6; uint64_t quotient = (segmentLow / prime) + 1; quotient = std::max(prime, quotient); uint64_t multiple = prime * quotient; if (multiple > stop_ || multiple < segmentLow) return; uint64_t nextMultipleFactor = INIT[quotient % MODULO].nextMultipleFactor; uint64_t nextMultiple = prime * nextMultipleFactor; if (nextMultiple > stop_ - multiple) return; multiple += nextMultiple; #if defined(ENABLE_ASSERT) if (MODULO >= 2) ASSERT(multiple % 2 != 0); if (MODULO >= 6) ASSERT(multiple % 3 != 0); if (MODULO >= 30) ASSERT(multiple % 5 != 0); if (MODULO >= 210) ASSERT(multiple % 7 != 0); if (MODULO >= 2310) ASSERT(multiple % 11 != 0); #endif uint64_t multipleIndex = (multiple - segmentLow) / 30; uint64_t wheelIndex = wheelOffsets_[prime % 30] + INIT[quotient % MODULO].wheelIndex; storeSievingPrime(prime, multipleIndex, wheelIndex);" :=
  rfl

/-- non-vacuity: the prime 7 at segment 0 starts at 7·7 = 49 = 0 + 30·1 + 19 (bit 4), wheel index 1 -/
example : addSievingPrime 30 8 Gen.wheel30Init 1000 7 0 = some ⟨0, 1, 1⟩ ∧
    (step30 Gen.eratMediumRows ⟨0, 1, 1⟩) = (4, ⟨0, 2, 2⟩) := by decide +kernel

/-- **C01 (model sources)** regenerated on every run: digests of the (comment-, hook- and whitespace-normalised) bodies of the
    functions that the hand-written model behind the theorems of this file mirrors.  An edit to one of
    them — harmless or not — breaks this obligation; the check then searches for a failing input
    with the correspondence streams (DESIGN.md section 2, step 5). -/
theorem C01_model_sources :
    Gen.modelSources.filter (fun e => e.1 ∈ ["iterator.generate_next_primes", "iterator.hpp.next_prime", "IteratorHelper.updateNext", "IteratorHelper.getNextDist", "PrimeGenerator.initErat", "PrimeGenerator.sieveNextPrimes", "PrimeGenerator.sieveSegment", "PrimeGenerator_default.fillNextPrimes", "PrimeGenerator_avx512.fillNextPrimes", "Erat.init", "Erat.initAlgorithms", "Erat.preSieve", "PreSieve.preSieve"]) =
     [("iterator.generate_next_primes", "2a13a14724829f92f5fe"),
      ("iterator.hpp.next_prime", "3ef2a1a42a787f93e2be"),
      ("IteratorHelper.updateNext", "4131a8a58e0e755d4fb9"),
      ("IteratorHelper.getNextDist", "fe0225e589ca1011db71"),
      ("PrimeGenerator.initErat", "e9abf2b828768ab0d322"),
      ("PrimeGenerator.sieveNextPrimes", "ebee29abba9b6db6af30"),
      ("PrimeGenerator.sieveSegment", "3639ea2a437c015b1ea1"),
      ("PrimeGenerator_default.fillNextPrimes", "0a69dc0049d71ebe96df"),
      ("PrimeGenerator_avx512.fillNextPrimes", "7df9e1d9dff83718d8d2"),
      ("Erat.init", "6050ef3bf0435ee43aae"),
      ("Erat.initAlgorithms", "f1a7ebe09c59958b8c39"),
      ("Erat.preSieve", "7341fc248d9a958b47cf"),
      ("PreSieve.preSieve", "4e4f4f3e84a651d27b42")] := by decide

/-- **C01 (sieving primes reach every segment in time — one segment)** for every source sequence that is positive,
    non-decreasing and strictly increasing below the sentinel ~0ull, every feed state reachable so far and every segment
    [low, high] with high < 2^64: after the loop of PrimeGenerator::sieveSegment() / CountPrintPrimes::sieve()
    (`while (prime_ <= isqrt(segmentHigh_)) { addSievingPrime(prime_); prime_ = next(); }`) EVERY source value
    ≤ isqrt(high) has been passed to addSievingPrime, the pending prime_ is beyond isqrt(high), and what this round added
    has its square ≤ high.  A `<` in place of `<=`, a skipped round or a lost look-ahead value falsifies it. -/
theorem C01_feed_complete (src : Nat → Nat) (h : Feed.SrcOk src) (low high : Nat) (hh : high ≤ umax) (s : Feed.St)
    (hs : s = {} ∨ Feed.FInv src s) :
    Feed.FInv src (Feed.feedSegment src low high s) ∧ Nat.sqrt high < (Feed.feedSegment src low high s).prime ∧
    (∀ i, src i ≤ Nat.sqrt high → src i ∈ (Feed.feedSegment src low high s).added.map Prod.fst) ∧
    ∃ extra, (Feed.feedSegment src low high s).added = extra ++ s.added ∧
      ∀ x ∈ extra, x.2 = low ∧ x.1 * x.1 ≤ high ∧ ∃ i, x.1 = src i :=
  Feed.feedSegment_spec src h low high hh s hs

/-- **C01 (the segment loop sieves correctly)**: composition of the segment grid (C01_segments_tile), the feed loop
    (C01_feed_complete), the first-multiple / walk theorems and the pre-sieve theorem.  Run `while (hasNextSegment())
    sieveSegment()` from Erat::init(start, stop) — any 7 ≤ start ≤ stop < 2^64, sieve size, cache configuration, routing of
    sieving primes to the three cross-off algorithms.  For EVERY segment reached and every number n of it with
    163 < n ≤ stop: n is prime iff its pre-sieved bit is set and none of the sieving primes that have been ADDED BY THE
    LOOP when the segment is sieved (each at the segment start where the loop added it) crosses it off.
    Assumed of SievingPrimes::next(): it delivers the primes of (163, isqrt(stop)] in increasing order, then ~0ull
    (validated by the `sp` operations of the segment stream, which drain the real SievingPrimes object; the inner sieve is the same Erat code one level down). -/
theorem C01_loop_segments_correct (big : Nat → Bool) (src : Nat → Nat) (hsrc : Feed.SrcOk src)
    (cfg : EratCfg) (start stop kib : Nat) (h7 : 7 ≤ start) (hss : start ≤ stop) (hst : stop ≤ umax) (hsu : start < umax)
    (hprimes : ∀ i, src i < umax → (src i).Prime ∧ 163 < src i)
    (hall : ∀ p, p.Prime → 163 < p → p * p ≤ stop → ∃ i, src i = p) :
    ∀ r ∈ Feed.run src (stop + 1) (EratGeom.init cfg start stop kib) {},
      ∀ o b, b < 8 → 163 < r.1 + 30 * o + PreSieve.offs.getD b 0 →
        r.1 + 30 * o + PreSieve.offs.getD b 0 ≤ r.1 + 30 * r.2.1 + 1 → r.1 + 30 * o + PreSieve.offs.getD b 0 ≤ stop →
        ((r.1 + 30 * o + PreSieve.offs.getD b 0).Prime ↔
          ((PreSieve.preSieveByte PreSieve.allTables r.1 o).testBit b = true ∧
           ∀ x ∈ r.2.2.2, ¬ (if big x.1 then Wheel.CrossedOff210 stop x.1 x.2 (r.1 + 30 * o + PreSieve.offs.getD b 0)
                             else Wheel.CrossedOff30 stop x.1 x.2 (r.1 + 30 * o + PreSieve.offs.getD b 0)))) :=
  Feed.loop_segments_correct big src hsrc cfg start stop kib h7 hss hst hsu hprimes hall

/-- **C01 (inner feed)** SievingPrimes::sieveSegment(): `for (i = tinyIdx_; i*i <= high; i += 2) if (tinySieve_[i])
    addSievingPrime(i)` adds exactly the j ≥ tinyIdx_ of tinyIdx_'s parity with j ≤ isqrt(high) and tinySieve_[j] set, and
    leaves tinyIdx_ at the first number of that parity beyond isqrt(high) — for every high, tinyIdx_ and table. -/
theorem C01_tiny_feed (tiny : Nat → Bool) (high tinyIdx : Nat) :
    Nat.sqrt high < (Feed.tinyFeed tiny high tinyIdx).1 ∧ tinyIdx ≤ (Feed.tinyFeed tiny high tinyIdx).1 ∧
    (Feed.tinyFeed tiny high tinyIdx).1 % 2 = tinyIdx % 2 ∧
    ∀ j, j ∈ (Feed.tinyFeed tiny high tinyIdx).2 ↔
      (tinyIdx ≤ j ∧ j ≤ Nat.sqrt high ∧ j % 2 = tinyIdx % 2 ∧ tiny j = true) :=
  Feed.tinyFeed_spec tiny high tinyIdx

/-- non-vacuity: a concrete source (167, 173, 179, then the sentinel) satisfies the hypotheses' shape, and two rounds of
    the loop behave as stated: isqrt(30000) = 173, so 167 and 173 are added at low 0 and 179 stays pending; the next
    segment (high 32100, isqrt 179) adds 179 at its own low -/
example :
    let src : Nat → Nat := fun k => [167, 173, 179].getD k umax
    let s1 := Feed.feedSegment src 0 30000 {}
    let s2 := Feed.feedSegment src 30000 32100 s1
    s1.added = [(173, 0), (167, 0)] ∧ s1.prime = 179 ∧ s2.added = [(179, 30000), (173, 0), (167, 0)] ∧ s2.prime = umax := by
  decide +kernel

example : Feed.tinyFeed (fun j => j % 3 ≠ 0) 200 5 = (15, [5, 7, 11, 13]) := by decide +kernel

/-- **C01 (feed sources)** regenerated on every run: the loops the feed model was written from -/
theorem C01_feed_source :
    Gen.modelSources.filter (fun e => e.1 ∈ ["PrimeGenerator.sieveSegment", "CountPrintPrimes.sieve", "SievingPrimes.init", "SievingPrimes.tinySieve", "SievingPrimes.sieveSegment", "SievingPrimes.next"]) =
     [("PrimeGenerator.sieveSegment", "3639ea2a437c015b1ea1"),
      ("CountPrintPrimes.sieve", "2d085e0366bff642d27e"),
      ("SievingPrimes.init", "c3b17f80866161ac42c5"),
      ("SievingPrimes.tinySieve", "113fa3fd72436a642e1b"),
      ("SievingPrimes.sieveSegment", "03e2ed93360f87098a63"),
      ("SievingPrimes.next", "44d200de44feb094f754")] := by decide

/-- **C01 (tinySieve is correct)** SievingPrimes::tinySieve(), the plain odd-only sieve of Eratosthenes over a Vector<bool>
    (`for (i = 3; i*i <= n; i += 2) if (t[i]) for (j = i*i; j <= n; j += 2*i) t[j] = false`): for EVERY n the table has
    n + 1 entries and for every odd k with 3 ≤ k ≤ n, entry k is true iff k is prime. -/
theorem C01_tiny_sieve (n : Nat) :
    (Feed.tinySieve n).length = n + 1 ∧
    ∀ k, 3 ≤ k → k ≤ n → k % 2 = 1 → ((Feed.tinySieve n).getD k false = true ↔ k.Prime) :=
  Feed.tinySieve_spec n

/-- **C01 (the inner feed adds exactly the primes)**: SievingPrimes::sieveSegment's loop over the table of tinySieve() —
    from any odd tinyIdx_ ≥ 3 and for every segment bound `high` with isqrt(high) inside the table — hands
    addSievingPrime exactly the primes of [tinyIdx_, isqrt(high)], each once, and leaves tinyIdx_ odd and beyond isqrt(high):
    the innermost level of the sieving-prime recursion is correct outright (no hypothesis about a source). -/
theorem C01_inner_feed_primes (n high tinyIdx : Nat) (hodd : tinyIdx % 2 = 1) (h3 : 3 ≤ tinyIdx) (hn : Nat.sqrt high ≤ n) :
    let r := Feed.tinyFeed (fun j => (Feed.tinySieve n).getD j false) high tinyIdx
    Nat.sqrt high < r.1 ∧ r.1 % 2 = 1 ∧
    ∀ j, j ∈ r.2 ↔ (tinyIdx ≤ j ∧ j ≤ Nat.sqrt high ∧ j.Prime) := by
  simp only
  obtain ⟨h1, _, h3', h4⟩ := Feed.tinyFeed_spec (fun j => (Feed.tinySieve n).getD j false) high tinyIdx
  refine ⟨h1, by omega, ?_⟩
  intro j
  rw [h4 j]
  constructor
  · rintro ⟨a, b, c, d⟩
    exact ⟨a, b, ((Feed.tinySieve_spec n).2 j (by omega) (by omega) (by omega)).mp d⟩
  · rintro ⟨a, b, c⟩
    have hjodd := Feed.prime_ge3_odd j c (by omega)
    exact ⟨a, b, by omega, ((Feed.tinySieve_spec n).2 j (by omega) (by omega) hjodd).mpr c⟩

/-- non-vacuity / test: the table for n = 40 and one round of the inner feed over it -/
example : ((List.range 41).filter (fun k => k % 2 = 1 ∧ 3 ≤ k ∧ (Feed.tinySieve 40).getD k false)) = [3, 5, 7, 11, 13, 17, 19, 23, 29, 31, 37] := by
  decide +kernel
example : Feed.tinyFeed (fun j => (Feed.tinySieve 40).getD j false) 1000 5 = (33, [5, 7, 11, 13, 17, 19, 23, 29, 31]) := by
  decide +kernel

/-- **C01 (one sieving prime, one segment)**: the loop shape of EratSmall / EratMedium / EratBig::crossOff for a stored sieving
    prime — `while (multipleIndex < sieveSize) { clear bit; multipleIndex += …; wheelIndex = next }  multipleIndex -= sieveSize` —
    started from a state that denotes the multiple p·q relative to the segment start L (what addSievingPrime establishes:
    C01_first_multiple): it performs the first n steps of the exact walk (C01_crossoff_walk_exact) where n is the first step
    whose byte index is ≥ S; the (byte, bit) pairs it clears are exactly those of the walk positions 0..n-1, all at bytes < S;
    and the state it stores denotes the n-th walk position relative to the NEXT segment start L + 30·S.
    For both wheels, every S, L and sieving prime ≥ 30. -/
theorem C01_crossoff_one_segment (big : Bool) (L S : Nat) (s : Wheel.SP) (q : Nat)
    (h : Wheel.Denotes (if big then 210 else 30) L s q) (hsp : 0 < s.sp) :
    let M := if big then 210 else 30
    ∃ n, (Wheel.crossSeg M S (S + 1) s []).1 = { (Wheel.walk M n s q).1 with idx := (Wheel.walk M n s q).1.idx - S } ∧
      S ≤ (Wheel.walk M n s q).1.idx ∧
      Wheel.Denotes M (L + 30 * S) (Wheel.crossSeg M S (S + 1) s []).1 (Wheel.walk M n s q).2 ∧
      (Wheel.crossSeg M S (S + 1) s []).2 =
        (List.range n).map (fun j => ((Wheel.walk M j s q).1.idx, Wheel.bitOf M (Wheel.walk M j s q).1)) ∧
      ∀ j, j < n → (Wheel.walk M j s q).1.idx < S := by
  cases big
  · simpa using Wheel.crossSeg_spec 30 L S (Wheel.hstep30 L) (S + 1) s q [] h hsp (by omega)
  · simpa using Wheel.crossSeg_spec 210 L S (Wheel.hstep210 L) (S + 1) s q [] h hsp (by omega)

/-- **C01 (one sieving prime across all segments)**: by induction over ANY list of segment sizes, the state stored after the
    last of them denotes a multiple of the same sieving prime relative to the start of the following segment, with a
    quotient not below the first one: the position of a sieving prime never falls behind the segment grid and never
    restarts, however the interval is cut into segments. -/
theorem C01_crossoff_across_segments (big : Bool) (Ss : List Nat) (L : Nat) (s : Wheel.SP) (q : Nat)
    (h : Wheel.Denotes (if big then 210 else 30) L s q) (hsp : 0 < s.sp) :
    let M := if big then 210 else 30
    ∃ q', q ≤ q' ∧ Wheel.Denotes M (L + 30 * Ss.sum) (Wheel.crossSegs M Ss s).2 q' ∧ 0 < (Wheel.crossSegs M Ss s).2.sp := by
  cases big
  · simpa using Wheel.crossSegs_inv 30 Wheel.hstep30 Ss L s q h hsp
  · simpa using Wheel.crossSegs_inv 210 Wheel.hstep210 Ss L s q h hsp

/-- non-vacuity: sieving prime 167 added at L = 0 (stop = 10^6; first multiple 167² at byte 929) and carried over three
    segments of 1000, 500 and 2000 bytes: 4 + 24 + 95 positions are cleared, each inside its segment, and processing
    segment-wise clears as many positions and ends in the same stored state as one segment of 3500 bytes -/
example :
    let s0 := (Wheel.addSievingPrime 30 8 Gen.wheel30Init 1000000 167 0).getD default
    let r := Wheel.crossSegs 30 [1000, 500, 2000] s0
    let one := Wheel.crossSeg 30 3500 3501 s0 []
    0 < s0.sp ∧ r.1.map List.length = [4, 24, 95] ∧ (r.1.map (fun c => c.all (fun e => e.1 < 2000))) = [true, true, true] ∧
    one.2.length = 123 ∧ r.2 = one.1 := by
  decide +kernel

/-- **C01 (a segment clears every multiple that lies in it, at byte level)**: from a stored state that denotes p·q relative to
    the segment start L (p ≥ 30), the cross-off loop over a segment of S bytes clears — at its own byte < S and its own bit —
    EVERY multiple p·x with x ≥ q coprime to the wheel that lies in the segment (p·x ≤ L + 30·S + 6).  With
    C01_crossoff_one_segment (nothing but walk positions is cleared, the stored state denotes the next one relative to
    L + 30·S) and C01_crossoff_across_segments this is the per-prime half of "bit = prime" for the real loop shape. -/
theorem C01_segment_clears_multiples (big : Bool) (L S : Nat) (s : Wheel.SP) (q : Nat)
    (h : Wheel.Denotes (if big then 210 else 30) L s q) (hsp : 0 < s.sp)
    (x : Nat) (hx : q ≤ x) (hg : Nat.gcd x (if big then 210 else 30) = 1)
    (hin : Wheel.primeOf (if big then 210 else 30) s * x ≤ L + 30 * S + 6) :
    ∃ e ∈ (Wheel.crossSeg (if big then 210 else 30) S (S + 1) s []).2, e.1 < S ∧ e.2 < 8 ∧
      Wheel.primeOf (if big then 210 else 30) s * x = L + 30 * e.1 + Wheel.offs.getD e.2 0 := by
  cases big
  · simp only [Bool.false_eq_true, if_false] at *
    exact Wheel.crossSeg_clears 30 L S (by decide +kernel) (Wheel.hstep30 L) (fun s q x => Wheel.walk_reaches30 L s q x)
      (by have e : (Wheel.cls 30).length = 8 := by decide +kernel
          rw [e]; exact Wheel.bit30_lt) s q h hsp x hx hg hin
  · simp only [if_true] at *
    exact Wheel.crossSeg_clears 210 L S (by rw [Wheel.cls210_len]; decide) (Wheel.hstep210 L) (fun s q x => Wheel.walk_reaches210 L s q x)
      (by rw [Wheel.cls210_len]; exact Wheel.bit210_lt) s q h hsp x hx hg hin

end Ps.Props
