/-
  C01 — Forward iteration yields exactly the primes ≥ start, in order.
-/
import PsProofs.IterRun
import Mathlib.Tactic.NormNum.Prime
import Mathlib.Tactic.IntervalCases

namespace Ps.Props
open Ps Ps.Spec

/-- **C01** n successive next_prime calls on an iterator positioned at `s` (any stop hint `h`,
    any generator block lengths `ks`, any float oracle) return `primeSeq s 0, primeSeq s 1, …`
    as long as these are below 2^64 and `primesieve_error` afterwards.  Every call returns:
    `Iter.run` is a total function whose loops are defined by well-founded recursion. -/
theorem C01_forward (env : Env) (henv : EnvOK env) (s h : Nat) (hs : s ≤ umax) (ks : List Nat) :
    Iter.run env (Iter.mk' s h) (ks.map Op.next) = (List.range ks.length).map (fwdOut s) := by
  have := run_sim henv (ks.map Op.next) (Iter.mk' s h) _ (R_mk' s h hs true) (by
    intro op hop; obtain ⟨k, _, rfl⟩ := List.mem_map.1 hop; trivial)
  exact this.trans (specRun_next s ks)

/-- `primeSeq s` enumerates exactly the primes ≥ s, strictly ascending:
    no composite, no duplicate, no prime skipped. -/
theorem C01_sequence_exact (s : Nat) :
    (∀ j, (primeSeq s j).Prime ∧ s ≤ primeSeq s j) ∧
    (∀ i j, i < j → primeSeq s i < primeSeq s j) ∧
    (∀ p, p.Prime → s ≤ p → ∃ j, primeSeq s j = p) :=
  ⟨fun j => ⟨primeSeq_prime s j, primeSeq_ge s j⟩,
   fun _ _ h => primeSeq_strictMono s h,
   fun p hp hs => primeSeq_complete s p hp hs⟩

/-- **C01 (blocks)** every block handed out by `generate_next_primes` is non-empty. -/
theorem C01_blocks_nonempty (env : Env) (_henv : EnvOK env) (k : Nat) (st st' : Iter)
    (hs : st.stop ≤ umax) (hok : genNextFresh env k st = .ok st') :
    st'.size = st'.buf.length ∧ st'.buf ≠ [] := by
  have := genNextFresh_spec _henv k st hs
  rw [hok] at this
  exact ⟨this.size_eq, this.ne⟩

/-- non-vacuity: the first three outputs from 0 are 2, 3, 5 -/
example : primeSeq 0 0 = 2 ∧ primeSeq 0 1 = 3 ∧ primeSeq 0 2 = 5 := by
  have h2 : nextPrime 0 = 2 := nextPrime_eq_of (by omega) (by norm_num) (by
    intro q _ h2; interval_cases q <;> norm_num)
  have h3 : nextPrime 3 = 3 := nextPrime_eq_of (by omega) (by norm_num) (by intro q h1 h2; omega)
  have h5 : nextPrime 4 = 5 := nextPrime_eq_of (by omega) (by norm_num) (by
    intro q h1 h2; interval_cases q; norm_num)
  simp only [primeSeq, h2, h3, h5, and_self]

end Ps.Props
