/-
  PsSpec.Cursor — the abstract specification of an iterator: a cursor in the
  sequence 0, 2, 3, 5, 7, … (0 counts as the element before 2).
-/
import PsSpec.Primes
import PsModel.Iterator

namespace Ps.Spec
open Ps

/-- `fresh t`: positioned at t, nothing returned yet (the next call is inclusive);
    `at v`: v was returned last (or skipto(v)): the next call is exclusive. -/
inductive Cursor where
  | fresh (t : Nat)
  | at (v : Nat)

noncomputable def specNext : Cursor → Out × Cursor
  | .fresh t => if nextPrime t < U64 then (.val (nextPrime t), .at (nextPrime t))
                else (.err .overflow, .fresh t)
  | .at v => if nextPrime (v + 1) < U64 then (.val (nextPrime (v + 1)), .at (nextPrime (v + 1)))
             else (.err .overflow, .at v)

noncomputable def specPrev : Cursor → Out × Cursor
  | .fresh t => (.val (prevPrime t), .at (prevPrime t))
  | .at v => (.val (prevPrime (v - 1)), .at (prevPrime (v - 1)))

/-- one operation on the abstract cursor; hints and block-length policy values are ignored;
    a failing call leaves the cursor where it was -/
noncomputable def specStep (c : Cursor) : Op → Out × Cursor
  | .next _ => specNext c
  | .prev => specPrev c
  | .jumpTo s _ => (.unit, .fresh s)
  | .skipTo s _ => (.unit, .at s)
  | .clear => (.unit, .fresh 0)
  | .moveIn => (.unit, c)
  | .moveOut => (.unit, .fresh 0)

noncomputable def specRun : Cursor → List Op → List Out
  | _, [] => []
  | c, op :: ops => (specStep c op).1 :: specRun (specStep c op).2 ops

/-- cursor after a history -/
noncomputable def specEnd : Cursor → List Op → Cursor
  | c, [] => c
  | c, op :: ops => specEnd (specStep c op).2 ops

theorem specRun_append (c : Cursor) (a b : List Op) :
    specRun c (a ++ b) = specRun c a ++ specRun (specEnd c a) b := by
  induction a generalizing c with
  | nil => rfl
  | cons op a ih => simp only [List.cons_append, specRun, specEnd, ih]

theorem specRun_length (c : Cursor) (a : List Op) : (specRun c a).length = a.length := by
  induction a generalizing c with
  | nil => rfl
  | cons op a ih => simp only [specRun, List.length_cons, ih]

/-- jump/skip targets are 64-bit values (stop hints are unconstrained) -/
def Op.WF : Op → Prop
  | .jumpTo s _ => s ≤ umax
  | .skipTo s _ => s ≤ umax
  | _ => True

end Ps.Spec
