/-
  PsSpec.Tuplets — prime k-tuplets (constellations) and counting over intervals.
-/
import PsSpec.Primes

namespace Ps.Spec

/-- offsets of the prime constellations primesieve counts, by kind (index 1..5 = twins .. sextuplets) -/
def patterns : Nat → List (List Nat)
  | 1 => [[0, 2]]
  | 2 => [[0, 2, 6], [0, 4, 6]]
  | 3 => [[0, 2, 6, 8]]
  | 4 => [[0, 2, 6, 8, 12], [0, 4, 6, 10, 12]]
  | 5 => [[0, 4, 6, 10, 12, 16]]
  | _ => []

def allPatterns : List (List Nat) :=
  [[0, 2], [0, 2, 6], [0, 4, 6], [0, 2, 6, 8], [0, 2, 6, 8, 12], [0, 4, 6, 10, 12], [0, 4, 6, 10, 12, 16]]

/-- all members p + d are prime -/
def tupletAt (ds : List Nat) (p : Nat) : Prop := ∀ d ∈ ds, (p + d).Prime

/-- largest offset of a pattern -/
def span (ds : List Nat) : Nat := ds.foldl max 0

open Classical in
/-- number of x in [lo, hi] with P x -/
noncomputable def countIn (P : Nat → Prop) (lo hi : Nat) : Nat :=
  ((List.range' lo (hi + 1 - lo)).filter (fun x => decide (P x))).length

/-- number of primes in [lo, hi] -/
noncomputable def primeCount (lo hi : Nat) : Nat := countIn Nat.Prime lo hi

/-- number of constellations of shape ds all of whose members lie in [lo, hi] -/
noncomputable def tupletCount (ds : List Nat) (lo hi : Nat) : Nat :=
  countIn (fun p => p + span ds ≤ hi ∧ tupletAt ds p) lo hi

open Classical in
/-- the constellations of kind `kind` inside [lo, hi], ordered by first member, each written out
    as the list of its members -/
noncomputable def tupletList (kind lo hi : Nat) : List (List Nat) :=
  (List.range' lo (hi + 1 - lo)).flatMap (fun p =>
    ((patterns kind).filter (fun ds => decide (p + span ds ≤ hi ∧ tupletAt ds p))).map
      (fun ds => ds.map (p + ·)))

/-- what the counter of kind i (0 = primes, 1 = twins, … 5 = sextuplets) must equal -/
noncomputable def kindCount (i lo hi : Nat) : Nat :=
  if i = 0 then primeCount lo hi else ((patterns i).map (fun ds => tupletCount ds lo hi)).sum

theorem countIn_empty (P : Nat → Prop) {lo hi : Nat} (h : hi < lo) : countIn P lo hi = 0 := by
  unfold countIn
  have : hi + 1 - lo = 0 := by omega
  rw [this]; rfl

theorem countIn_split (P : Nat → Prop) {lo mid hi : Nat} (h1 : lo ≤ mid + 1) (h2 : mid ≤ hi) :
    countIn P lo mid + countIn P (mid + 1) hi = countIn P lo hi := by
  unfold countIn
  obtain ⟨a, ha⟩ : ∃ a, mid + 1 = lo + a := ⟨mid + 1 - lo, by omega⟩
  obtain ⟨b, hb⟩ : ∃ b, hi + 1 = lo + a + b := ⟨hi + 1 - (mid + 1), by omega⟩
  have e1 : mid + 1 - lo = a := by omega
  have e2 : hi + 1 - (mid + 1) = b := by omega
  have e3 : hi + 1 - lo = a + b := by omega
  rw [e1, e2, e3, ha, ← List.range'_append_1, List.filter_append, List.length_append]

theorem countIn_congr {P Q : Nat → Prop} {lo hi : Nat} (h : ∀ x, lo ≤ x → x ≤ hi → (P x ↔ Q x)) :
    countIn P lo hi = countIn Q lo hi := by
  unfold countIn
  congr 1
  apply List.filter_congr
  intro x hx
  have := List.mem_range'_1.1 hx
  have hpq := h x this.1 (by omega)
  by_cases hp : P x
  · simp [hp, hpq.1 hp]
  · have : ¬ Q x := fun hq => hp (hpq.2 hq)
    simp [hp, this]

end Ps.Spec
