/-
  PsSpec.Primes — the mathematical specification primesieve is verified against,
  written with Mathlib's `Nat.Prime`.
-/
import Mathlib.Data.Nat.Prime.Basic
import Mathlib.Data.Nat.Prime.Infinite
import Mathlib.Data.Nat.Find
import Mathlib.Data.List.Range

namespace Ps.Spec

/-- least prime ≥ n -/
noncomputable def nextPrime (n : Nat) : Nat :=
  @Nat.find _ (Classical.decPred _) (Nat.exists_infinite_primes n)

/-- greatest prime ≤ n, or 0 when there is none (n < 2) -/
noncomputable def prevPrime (n : Nat) : Nat := @Nat.findGreatest Nat.Prime (Classical.decPred _) n

-- NB: both are defined with classical decidability on purpose, so that neither the kernel nor
-- `decide` ever tries to *compute* them by brute-force primality testing of 64-bit numbers.

/-- the primes of the half-open interval [a, p), ascending -/
noncomputable def primesHO (a p : Nat) : List Nat :=
  (List.range' a (p - a)).filter (fun n => decide n.Prime)

/-- the primes of the closed interval [a, b], ascending -/
noncomputable def primesIn (a b : Nat) : List Nat := primesHO a (b + 1)

theorem le_nextPrime (n : Nat) : n ≤ nextPrime n :=
  (@Nat.find_spec _ (Classical.decPred _) (Nat.exists_infinite_primes n)).1
theorem nextPrime_prime (n : Nat) : (nextPrime n).Prime :=
  (@Nat.find_spec _ (Classical.decPred _) (Nat.exists_infinite_primes n)).2
theorem nextPrime_min {n p : Nat} (h1 : n ≤ p) (h2 : p.Prime) : nextPrime n ≤ p :=
  @Nat.find_min' _ (Classical.decPred _) _ _ ⟨h1, h2⟩

theorem nextPrime_eq_of {n p : Nat} (h1 : n ≤ p) (h2 : p.Prime)
    (h3 : ∀ q, n ≤ q → q < p → ¬ q.Prime) : nextPrime n = p := by
  apply Nat.le_antisymm (nextPrime_min h1 h2)
  by_contra h
  exact h3 _ (le_nextPrime n) (Nat.lt_of_not_le h) (nextPrime_prime n)

theorem nextPrime_eq_nextPrime {x y : Nat} (hxy : x ≤ y)
    (h : ∀ q, x ≤ q → q < y → ¬ q.Prime) : nextPrime x = nextPrime y := by
  apply nextPrime_eq_of (Nat.le_trans hxy (le_nextPrime y)) (nextPrime_prime y)
  intro q h1 h2 hq
  by_cases hqy : q < y
  · exact h q h1 hqy hq
  · have := nextPrime_min (Nat.le_of_not_lt hqy) hq
    omega

theorem no_prime_lt_nextPrime {n q : Nat} (h1 : n ≤ q) (h2 : q < nextPrime n) : ¬ q.Prime := by
  intro hq; have := nextPrime_min h1 hq; omega

theorem prevPrime_le (n : Nat) : prevPrime n ≤ n :=
  @Nat.findGreatest_le Nat.Prime (Classical.decPred _) n

/-- nothing between prevPrime n and n is prime -/
theorem prevPrime_greatest {n k : Nat} (hk : prevPrime n < k) (hkn : k ≤ n) : ¬ k.Prime :=
  @Nat.findGreatest_is_greatest k Nat.Prime (Classical.decPred _) n hk hkn

theorem prevPrime_spec {n p : Nat} (h1 : p ≤ n) (h2 : p.Prime) : (prevPrime n).Prime :=
  @Nat.findGreatest_spec p Nat.Prime (Classical.decPred _) n h1 h2

theorem prevPrime_eq_zero {n : Nat} (h : ∀ q, q ≤ n → ¬ q.Prime) : prevPrime n = 0 := by
  unfold prevPrime
  rw [@Nat.findGreatest_eq_zero_iff n Nat.Prime (Classical.decPred _)]
  intro k _ hk; exact h k hk

theorem prevPrime_eq_of {n p : Nat} (h1 : p ≤ n) (h2 : p.Prime)
    (h3 : ∀ q, p < q → q ≤ n → ¬ q.Prime) : prevPrime n = p := by
  unfold prevPrime
  rw [@Nat.findGreatest_eq_iff p n Nat.Prime (Classical.decPred _)]
  refine ⟨h1, fun _ => h2, fun k hk hkn => h3 k hk hkn⟩

theorem prevPrime_eq_prevPrime {x y : Nat} (hxy : x ≤ y)
    (h : ∀ q, x < q → q ≤ y → ¬ q.Prime) : prevPrime y = prevPrime x := by
  by_cases hp : ∃ p, p ≤ x ∧ p.Prime
  · have hx : (prevPrime x).Prime := by
      obtain ⟨p, hp1, hp2⟩ := hp
      exact prevPrime_spec hp1 hp2
    apply prevPrime_eq_of (Nat.le_trans (prevPrime_le x) hxy) hx
    intro q h1 h2 hq
    by_cases hqx : q ≤ x
    · exact prevPrime_greatest h1 hqx hq
    · exact h q (Nat.lt_of_not_le hqx) h2 hq
  · have hx : prevPrime x = 0 := prevPrime_eq_zero (fun q hq hqp => hp ⟨q, hq, hqp⟩)
    rw [hx]
    apply prevPrime_eq_zero
    intro q hq hqp
    by_cases hqx : q ≤ x
    · exact hp ⟨q, hqx, hqp⟩
    · exact h q (Nat.lt_of_not_le hqx) hq hqp

theorem prevPrime_zero_or_prime (n : Nat) : prevPrime n = 0 ∨ (prevPrime n).Prime := by
  by_cases hp : ∃ p, p ≤ n ∧ p.Prime
  · obtain ⟨p, hp1, hp2⟩ := hp
    exact Or.inr (prevPrime_spec hp1 hp2)
  · exact Or.inl (prevPrime_eq_zero (fun q hq hqp => hp ⟨q, hq, hqp⟩))

theorem mem_primesHO {a p x : Nat} : x ∈ primesHO a p ↔ a ≤ x ∧ x < p ∧ x.Prime := by
  unfold primesHO
  simp only [List.mem_filter, List.mem_range'_1, decide_eq_true_eq]
  constructor
  · rintro ⟨⟨h1, h2⟩, h3⟩; exact ⟨h1, by omega, h3⟩
  · rintro ⟨h1, h2, h3⟩; exact ⟨⟨h1, by omega⟩, h3⟩

end Ps.Spec
