/-
  PsProofs.PrimeLists — facts about the list of primes of an interval that the
  iterator / generator refinement proofs use.
-/
import PsSpec.Primes

namespace Ps.Spec

/-- adjacent elements of a prime buffer: `y` is the prime after `x`, `x` the element
    before `y` (0 counts as the element before 2) -/
def Link (x y : Nat) : Prop := y = nextPrime (x + 1) ∧ x = prevPrime (y - 1)

/-- every two neighbours of the buffer are adjacent primes -/
def Consec (l : List Nat) : Prop :=
  ∀ j, j + 1 < l.length → Link (l.getD j 0) (l.getD (j + 1) 0)

theorem primesHO_nil_of_le {a p : Nat} (h : p ≤ a) : primesHO a p = [] := by
  unfold primesHO; rw [Nat.sub_eq_zero_of_le h]; rfl

theorem primesHO_unfold {a p : Nat} (h : a < p) :
    primesHO a p = if a.Prime then a :: primesHO (a + 1) p else primesHO (a + 1) p := by
  unfold primesHO
  have : p - a = (p - (a + 1)) + 1 := by omega
  rw [this, List.range'_succ, List.filter_cons]
  by_cases ha : a.Prime <;> simp [ha]

theorem primesHO_eq_nil_iff {a p : Nat} :
    primesHO a p = [] ↔ ∀ q, a ≤ q → q < p → ¬ q.Prime := by
  constructor
  · intro h q h1 h2 h3
    have : q ∈ primesHO a p := mem_primesHO.2 ⟨h1, h2, h3⟩
    rw [h] at this; cases this
  · intro h
    apply List.eq_nil_iff_forall_not_mem.2
    intro x hx
    obtain ⟨h1, h2, h3⟩ := mem_primesHO.1 hx
    exact h x h1 h2 h3

theorem primesHO_head {a p : Nat} (h : primesHO a p ≠ []) :
    (primesHO a p).getD 0 0 = nextPrime a := by
  induction hn : p - a generalizing a with
  | zero => exact absurd (primesHO_nil_of_le (by omega)) h
  | succ n ih =>
    have hap : a < p := by omega
    rw [primesHO_unfold hap] at h ⊢
    by_cases ha : a.Prime
    · simp only [ha, if_true, List.getD_cons_zero]
      exact (nextPrime_eq_of (Nat.le_refl a) ha (by intro q h1 h2; omega)).symm
    · simp only [ha, if_false] at h ⊢
      rw [ih h (by omega)]
      symm
      apply nextPrime_eq_nextPrime (Nat.le_succ a)
      intro q h1 h2
      have : q = a := by omega
      rw [this]; exact ha

theorem getD_mem {l : List Nat} {j : Nat} (h : j < l.length) : l.getD j 0 ∈ l := by
  simp [List.getD, List.getElem?_eq_getElem h]

theorem primesHO_le_last {a p : Nat} :
    ∀ x ∈ primesHO a p, x ≤ (primesHO a p).getD ((primesHO a p).length - 1) 0 := by
  induction hn : p - a generalizing a with
  | zero => rw [primesHO_nil_of_le (by omega)]; intro x hx; cases hx
  | succ n ih =>
    have hap : a < p := by omega
    rw [primesHO_unfold hap]
    by_cases ha : a.Prime
    · simp only [ha, if_true]
      intro x hx
      by_cases hr : primesHO (a + 1) p = []
      · rw [hr] at hx ⊢; simp at hx ⊢; omega
      · have hlen : 0 < (primesHO (a + 1) p).length := List.length_pos_iff.2 hr
        have e : (a :: primesHO (a + 1) p).length - 1 = ((primesHO (a + 1) p).length - 1) + 1 := by
          simp; omega
        rw [e, List.getD_cons_succ]
        have hlast := ih (a := a + 1) (by omega)
        rcases List.mem_cons.1 hx with rfl | hx'
        · have hm : (primesHO (x + 1) p).getD ((primesHO (x + 1) p).length - 1) 0 ∈ primesHO (x + 1) p :=
            getD_mem (by omega)
          have := (mem_primesHO.1 hm).1
          omega
        · exact hlast x hx'
    · simp only [ha, if_false]
      exact ih (a := a + 1) (by omega)

/-- no prime lies between the last element of `primesHO a p` and `p` -/
theorem primesHO_after_last {a p : Nat} (q : Nat)
    (h1 : (primesHO a p).getD ((primesHO a p).length - 1) 0 < q) (h2 : q < p) (ha : a ≤ q) :
    ¬ q.Prime := by
  intro hq
  have := primesHO_le_last q (mem_primesHO.2 ⟨ha, h2, hq⟩)
  omega

theorem link_of_prime_next {a : Nat} (ha : a.Prime) : Link a (nextPrime (a + 1)) := by
  refine ⟨rfl, ?_⟩
  symm
  apply prevPrime_eq_of _ ha
  · intro q h1 h2
    exact no_prime_lt_nextPrime (n := a + 1) (by omega) (by have := le_nextPrime (a+1); omega)
  · have := le_nextPrime (a + 1); omega

theorem consec_cons {x : Nat} {l : List Nat} (hl : Consec l)
    (hx : l ≠ [] → Link x (l.getD 0 0)) : Consec (x :: l) := by
  intro j hj
  cases j with
  | zero =>
    simp only [List.getD_cons_zero, List.getD_cons_succ]
    apply hx
    intro h; rw [h] at hj; simp at hj
  | succ j =>
    simp only [List.getD_cons_succ]
    apply hl
    simpa using hj

theorem consec_primesHO (a p : Nat) : Consec (primesHO a p) := by
  induction hn : p - a generalizing a with
  | zero => rw [primesHO_nil_of_le (by omega)]; intro j hj; simp at hj
  | succ n ih =>
    have hap : a < p := by omega
    rw [primesHO_unfold hap]
    by_cases ha : a.Prime
    · simp only [ha, if_true]
      apply consec_cons (ih (a := a + 1) (by omega))
      intro hne
      rw [primesHO_head hne]
      exact link_of_prime_next ha
    · simp only [ha, if_false]
      exact ih (a := a + 1) (by omega)

end Ps.Spec
