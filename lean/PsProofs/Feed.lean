/-
  PsProofs.Feed — the sieving-prime feed loops (PsModel.Feed): before a segment is sieved, every value that
  SievingPrimes::next() delivers and that is ≤ isqrt(segmentHigh_) has been handed to addSievingPrime — at
  the start of this or of an earlier segment — and nothing else has.  Composed with the segment grid
  (PsProofs.Segments) and the per-number correctness theorem (PsProofs.SegmentCorrect).
-/
import Mathlib.Data.Nat.Sqrt
import PsModel.Feed
import PsProofs.Segments
import PsProofs.SegmentCorrect
namespace Ps.Feed
open Ps Ps.Wheel Ps.PreSieve

/-- what the sequence of SievingPrimes::next() values has to satisfy: positive, non-decreasing, and
    strictly increasing until the end-of-primes sentinel ~0ull -/
structure SrcOk (src : Nat → Nat) : Prop where
  pos : ∀ i, 0 < src i
  mono : ∀ i j, i ≤ j → src i ≤ src j
  strict : ∀ i, src i < umax → src i < src (i + 1)

/-- invariant of the feed state: prime_ is the last value fetched, and the values added so far are
    exactly the ones fetched before it, in order -/
def FInv (src : Nat → Nat) (s : St) : Prop :=
  ∃ k, s.fetched = k + 1 ∧ s.prime = src k ∧ (s.added.map Prod.fst).reverse = (List.range k).map src

theorem loop_spec (src : Nat → Nat) (h : SrcOk src) (low B : Nat) (hB : B < umax) :
    ∀ (fuel : Nat) (s : St), FInv src s → B + 1 - s.prime < fuel →
      FInv src (loop src low B fuel s) ∧ B < (loop src low B fuel s).prime ∧
      ∃ extra, (loop src low B fuel s).added = extra ++ s.added ∧
        ∀ x ∈ extra, x.2 = low ∧ x.1 ≤ B ∧ ∃ i, x.1 = src i := by
  intro fuel
  induction fuel with
  | zero => intro s _ hf; omega
  | succ f ih =>
    intro s hinv hf
    obtain ⟨k, hk1, hk2, hk3⟩ := hinv
    unfold loop
    by_cases hle : s.prime ≤ B
    · rw [if_pos hle]
      have hst := h.strict k (by rw [← hk2]; omega)
      have hinv1 : FInv src { fetched := s.fetched + 1, prime := src s.fetched, added := (s.prime, low) :: s.added } := by
        refine ⟨k + 1, by simp [hk1], by simp [hk1], ?_⟩
        simp only [List.map_append, List.map_cons, List.map_nil, List.reverse_cons, hk3, List.range_succ, hk2]
      have hm : B + 1 - (src s.fetched) < f := by
        rw [hk1]; rw [hk2] at hf hle; omega
      obtain ⟨h1, h2, extra, h3, h4⟩ := ih _ hinv1 hm
      refine ⟨h1, h2, extra ++ [(s.prime, low)], ?_, ?_⟩
      · rw [h3]; simp
      · intro x hx
        rcases List.mem_append.mp hx with hx | hx
        · exact h4 x hx
        · rw [List.mem_singleton] at hx; subst hx
          exact ⟨rfl, hle, k, hk2⟩
    · rw [if_neg hle]
      exact ⟨⟨k, hk1, hk2, hk3⟩, by omega, [], by simp, by simp⟩

/-- **one segment**: after the feed loop of a segment with upper bound `high`, (1) the invariant holds again,
    (2) the pending prime_ is beyond isqrt(high), (3) EVERY value of the source that is ≤ isqrt(high) has
    been added, and (4) what was added in this round was added at this segment's low, is ≤ isqrt(high)
    (so its square is ≤ high) and is a value of the source -/
theorem feedSegment_spec (src : Nat → Nat) (h : SrcOk src) (low high : Nat) (hh : high ≤ umax) (s : St)
    (hs : s = {} ∨ FInv src s) :
    FInv src (feedSegment src low high s) ∧ Nat.sqrt high < (feedSegment src low high s).prime ∧
    (∀ i, src i ≤ Nat.sqrt high → src i ∈ (feedSegment src low high s).added.map Prod.fst) ∧
    ∃ extra, (feedSegment src low high s).added = extra ++ s.added ∧
      ∀ x ∈ extra, x.2 = low ∧ x.1 * x.1 ≤ high ∧ ∃ i, x.1 = src i := by
  have hB : Nat.sqrt high < umax := by
    rw [Nat.sqrt_lt]; unfold umax at *; omega
  -- the state after `if (!prime_) prime_ = next()`
  have hpre : ∃ s1, feedSegment src low high s = loop src low (Nat.sqrt high) (Nat.sqrt high + 2) s1 ∧ FInv src s1 ∧
      s1.added = s.added := by
    unfold feedSegment
    rcases hs with rfl | hinv
    · refine ⟨_, rfl, ?_, ?_⟩
      · exact ⟨0, by simp, by simp, by simp⟩
      · simp
    · obtain ⟨k, hk1, hk2, hk3⟩ := hinv
      have hp := h.pos k
      have hne : ¬ s.prime = 0 := by omega
      refine ⟨s, by simp only [hne, if_false], ⟨k, hk1, hk2, hk3⟩, rfl⟩
  obtain ⟨s1, he, hinv1, hadd1⟩ := hpre
  rw [he]
  obtain ⟨h1, h2, extra, h3, h4⟩ := loop_spec src h low (Nat.sqrt high) hB (Nat.sqrt high + 2) s1 hinv1 (by omega)
  refine ⟨h1, h2, ?_, extra, by rw [h3, hadd1], ?_⟩
  · intro i hi
    obtain ⟨k, _, hk2, hk3⟩ := h1
    rw [← List.mem_reverse, hk3]
    have hik : i < k := by
      by_contra hge
      have := h.mono k i (by omega)
      omega
    exact List.mem_map.mpr ⟨i, List.mem_range.mpr hik, rfl⟩
  · intro x hx
    obtain ⟨ha, hb, hc⟩ := h4 x hx
    exact ⟨ha, Nat.le_sqrt.mp hb, hc⟩

/-- what holds of every addSievingPrime call made so far -/
def AddedOk (src : Nat → Nat) (low stop : Nat) (added : List (Nat × Nat)) : Prop :=
  ∀ x ∈ added, x.2 % 30 = 0 ∧ x.2 ≤ low ∧ x.1 * x.1 ≤ stop ∧ ∃ i, x.1 = src i

theorem run_nil (src : Nat → Nat) (fuel : Nat) (g : EratGeom) (s : St) (h : g.hasNextSegment = false) :
    run src fuel g s = [] := by
  cases fuel <;> simp [run, h]

/-- **the whole segment loop**: for every segment (low, bytes, high, added) that the loop produces — for
    every interval, sieve size and source sequence — low ≡ 0 mod 30, high ≤ stop, every number of the
    segment that is ≤ stop is ≤ high, every source value ≤ isqrt(high) is among the added ones, and every
    added one was added at a segment start ≤ low (≡ 0 mod 30), has its square ≤ stop and is a source value -/
theorem run_spec (src : Nat → Nat) (h : SrcOk src) :
    ∀ (fuel : Nat) (g : EratGeom) (s : St), GInv g → (s = {} ∨ FInv src s) → AddedOk src g.segmentLow g.stop s.added →
      ∀ r ∈ run src fuel g s,
        r.1 % 30 = 0 ∧ r.2.2.1 ≤ g.stop ∧ g.segmentLow ≤ r.1 ∧
        (∀ n, n ≤ r.1 + 30 * r.2.1 + 1 → n ≤ g.stop → n ≤ r.2.2.1) ∧
        (∀ i, src i ≤ Nat.sqrt r.2.2.1 → src i ∈ r.2.2.2.map Prod.fst) ∧
        AddedOk src r.1 g.stop r.2.2.2 := by
  intro fuel
  induction fuel with
  | zero => intro g s _ _ _ r hr; simp [run] at hr
  | succ f ih =>
    intro g s hg hs hadd r hr
    unfold run at hr
    by_cases hn : g.hasNextSegment = true
    · rw [if_pos hn] at hr
      have hstep := sieveSegment_step g hg
      simp only at hstep
      obtain ⟨hlow, hpos, hcase⟩ := hstep
      have hhu : g.segmentHigh ≤ umax := Nat.le_trans hg.high_le hg.stop_le
      obtain ⟨f1, f2, f3, extra, f4, f5⟩ := feedSegment_spec src h g.segmentLow g.segmentHigh hhu s hs
      have hadd' : AddedOk src g.segmentLow g.stop (feedSegment src g.segmentLow g.segmentHigh s).added := by
        intro x hx
        rw [f4] at hx
        rcases List.mem_append.mp hx with hx | hx
        · obtain ⟨a, b, c⟩ := f5 x hx
          exact ⟨by rw [a]; exact hg.low30, by omega, Nat.le_trans b hg.high_le, c⟩
        · exact hadd x hx
      rcases List.mem_cons.mp hr with rfl | hr
      · refine ⟨by simp only; rw [hlow]; exact hg.low30, hg.high_le, by simp only; omega, ?_, f3, ?_⟩
        · intro n hn1 hn2
          simp only at hn1 ⊢
          rcases hcase with ⟨hlt, hsz, _, _, _, _⟩ | ⟨hge, _, _, _, _⟩
          · have := hg.high_eq hlt
            rw [hlow, hsz] at hn1; omega
          · omega
        · simp only; rw [hlow]; exact hadd'
      · rcases hcase with ⟨hlt, hsz, hlow', hstop', hinv', hlt'⟩ | ⟨hge, hlow', hstop', _, _⟩
        · have hadd2 : AddedOk src (g.sieveSegment).2.2.segmentLow (g.sieveSegment).2.2.stop
              (feedSegment src g.segmentLow g.segmentHigh s).added := by
            intro x hx
            obtain ⟨a, b, c, d⟩ := hadd' x hx
            exact ⟨a, by rw [hlow']; omega, by rw [hstop']; exact c, d⟩
          have := ih _ _ hinv' (Or.inr f1) hadd2 r hr
          rw [hstop', hlow'] at this
          obtain ⟨a, b, c, d, e, f'⟩ := this
          exact ⟨a, b, by omega, d, e, f'⟩
        · have hno : (g.sieveSegment).2.2.hasNextSegment = false := by
            unfold EratGeom.hasNextSegment; rw [hlow', hstop']; simp
          rw [run_nil src f _ _ hno] at hr
          simp at hr
    · rw [if_neg hn] at hr
      simp at hr

/-- **a fed segment decides primality**: let `added` be any list of addSievingPrime calls (p, low at which it was made)
    that (a) contains every source value ≤ isqrt(H) and (b) consists of source values with p² ≤ stop added at multiples of 30
    not beyond L; let the source deliver only primes > 163 below its sentinel, and every such prime with p² ≤ stop.
    Then a number n = L + 30·o + offs[b] of the segment (163 < n ≤ H ≤ stop < 2^64) is prime iff its pre-sieved bit
    is set and NONE OF THE ADDED sieving primes crosses it off (real addSievingPrime, real cross-off tables). -/
theorem fed_number_correct (big : Nat → Bool) (src : Nat → Nat)
    (stop H L o b : Nat) (added : List (Nat × Nat))
    (hprimes : ∀ i, src i < umax → (src i).Prime ∧ 163 < src i)
    (hall : ∀ p, p.Prime → 163 < p → p * p ≤ stop → ∃ i, src i = p)
    (hL : L % 30 = 0) (hb : b < 8)
    (hcomplete : ∀ i, src i ≤ Nat.sqrt H → src i ∈ added.map Prod.fst)
    (hadded : AddedOk src L stop added)
    (h163 : 163 < L + 30 * o + PreSieve.offs.getD b 0) (hnH : L + 30 * o + PreSieve.offs.getD b 0 ≤ H) (hHs : H ≤ stop)
    (hstop : stop < U64) (hL6 : L + 6 < U64) :
    (L + 30 * o + PreSieve.offs.getD b 0).Prime ↔
      ((preSieveByte allTables L o).testBit b = true ∧
       ∀ x ∈ added, ¬ (if big x.1 then CrossedOff210 stop x.1 x.2 (L + 30 * o + PreSieve.offs.getD b 0)
                       else CrossedOff30 stop x.1 x.2 (L + 30 * o + PreSieve.offs.getD b 0))) := by
  have hU : U64 = 18446744073709551616 := rfl
  constructor
  · intro hp
    -- every added p is a prime > 163 with p² ≤ stop: apply the general theorem with all primes placed at x.2
    have hbit := ((segment_number_correct_at big (fun _ => L) stop stop L o b hL hb (fun _ => ⟨hL, Nat.le_refl _⟩) h163
      (Nat.le_trans hnH hHs) (Nat.le_refl _) hstop hL6).mp hp).1
    refine ⟨hbit, ?_⟩
    intro x hx
    obtain ⟨a, b', c, i, hi⟩ := hadded x hx
    have hlt : x.1 < umax := by
      by_contra hge
      have : umax * umax ≤ x.1 * x.1 := Nat.mul_le_mul (by omega) (by omega)
      unfold umax at *; omega
    obtain ⟨hpr, h163p⟩ := hprimes i (by rw [← hi]; exact hlt)
    have := ((segment_number_correct_at big (fun _ => x.2) stop stop L o b hL hb (fun _ => ⟨a, b'⟩) h163
      (Nat.le_trans hnH hHs) (Nat.le_refl _) hstop hL6).mp hp).2 x.1 (by rw [hi]; exact hpr) (by rw [hi]; exact h163p) c
    exact this
  · rintro ⟨hbit, hno⟩
    -- place every prime at the low of its (first) entry in `added`
    let Lp : Nat → Nat := fun p => ((added.find? (fun x => x.1 == p)).map Prod.snd).getD L
    have hLp : ∀ p, Lp p % 30 = 0 ∧ Lp p ≤ L := by
      intro p
      show (((added.find? (fun x => x.1 == p)).map Prod.snd).getD L) % 30 = 0 ∧ (((added.find? (fun x => x.1 == p)).map Prod.snd).getD L) ≤ L
      cases hf : added.find? (fun x => x.1 == p) with
      | none => simp [hL]
      | some x =>
        have hx := List.mem_of_find?_eq_some hf
        obtain ⟨a, b', _, _⟩ := hadded x hx
        simp [a, b']
    refine (segment_number_correct_at big Lp stop H L o b hL hb hLp h163 hnH hHs hstop hL6).mpr ⟨hbit, ?_⟩
    intro p hp h163p hpH
    obtain ⟨i, hi⟩ := hall p hp h163p (Nat.le_trans hpH hHs)
    have hmem := hcomplete i (by rw [hi]; exact Nat.le_sqrt.mpr hpH)
    rw [hi] at hmem
    obtain ⟨y, hy, hy1⟩ := List.mem_map.mp hmem
    have hsome : (added.find? (fun x => x.1 == p)).isSome = true := by
      rw [List.find?_isSome]
      exact ⟨y, hy, by simp [hy1]⟩
    obtain ⟨x, hf⟩ := Option.isSome_iff_exists.mp hsome
    have hx := List.mem_of_find?_eq_some hf
    have hx1 : x.1 = p := by
      have := List.find?_some hf
      simpa using this
    have hLpx : Lp p = x.2 := by
      show ((added.find? (fun x => x.1 == p)).map Prod.snd).getD L = x.2
      rw [hf]; rfl
    have := hno x hx
    rw [hx1] at this
    rw [hLpx]
    exact this

/-- **the segment loop sieves correctly** (composition of the segment grid, the feed loop and the per-number theorem):
    run the loop of PrimeGenerator / CountPrintPrimes from Erat::init(start, stop) with a fresh feed state.  For EVERY
    segment it reaches and every number n of that segment with 163 < n ≤ stop: n is prime iff its pre-sieved bit is set
    and none of the sieving primes that HAVE BEEN ADDED when the segment is sieved crosses it off.  Holds for every
    interval 7 ≤ start ≤ stop < 2^64, sieve size, cache configuration and routing `big` of primes to EratSmall/Medium/Big;
    the source sequence is assumed to deliver the primes in (163, isqrt(stop)] in increasing order, then ~0ull. -/
theorem loop_segments_correct (big : Nat → Bool) (src : Nat → Nat) (hsrc : SrcOk src)
    (cfg : EratCfg) (start stop kib : Nat) (h7 : 7 ≤ start) (hss : start ≤ stop) (hst : stop ≤ umax) (hsu : start < umax)
    (hprimes : ∀ i, src i < umax → (src i).Prime ∧ 163 < src i)
    (hall : ∀ p, p.Prime → 163 < p → p * p ≤ stop → ∃ i, src i = p) :
    ∀ r ∈ run src (stop + 1) (EratGeom.init cfg start stop kib) {},
      ∀ o b, b < 8 → 163 < r.1 + 30 * o + PreSieve.offs.getD b 0 →
        r.1 + 30 * o + PreSieve.offs.getD b 0 ≤ r.1 + 30 * r.2.1 + 1 → r.1 + 30 * o + PreSieve.offs.getD b 0 ≤ stop →
        ((r.1 + 30 * o + PreSieve.offs.getD b 0).Prime ↔
          ((preSieveByte allTables r.1 o).testBit b = true ∧
           ∀ x ∈ r.2.2.2, ¬ (if big x.1 then CrossedOff210 stop x.1 x.2 (r.1 + 30 * o + PreSieve.offs.getD b 0)
                             else CrossedOff30 stop x.1 x.2 (r.1 + 30 * o + PreSieve.offs.getD b 0)))) := by
  intro r hr o b hb h163 hseg hns
  obtain ⟨hinv, _, _, hstop⟩ := init_GInv cfg start stop kib h7 hss hst hsu
  have hsp := run_spec src hsrc (stop + 1) _ {} hinv (Or.inl rfl) (by intro x hx; simp at hx) r hr
  rw [hstop] at hsp
  obtain ⟨a, b', _, d, e, f⟩ := hsp
  have hU : U64 = 18446744073709551616 := rfl
  have hum : umax = 18446744073709551615 := rfl
  have hoff := (offs_coprime b hb).2
  exact fed_number_correct big src stop r.2.2.1 r.1 o b r.2.2.2 hprimes hall a hb e f h163 (d _ hseg hns) b'
    (by omega) (by omega)

/-- **SievingPrimes::sieveSegment(), the tiny loop** `for (i = tinyIdx_; i*i <= high; i += 2) if (tinySieve_[i]) add(i)`:
    it stops at the first i of its parity with i² > high, and the numbers added are exactly the j of that parity with
    tinyIdx_ ≤ j, j² ≤ high and tinySieve_[j] set -/
theorem tinyLoop_spec (tiny : Nat → Bool) (high : Nat) :
    ∀ (fuel i : Nat) (acc : List Nat), Nat.sqrt high + 2 ≤ fuel + i →
      high < (tinyLoop tiny high fuel i acc).1 * (tinyLoop tiny high fuel i acc).1 ∧
      i ≤ (tinyLoop tiny high fuel i acc).1 ∧ (tinyLoop tiny high fuel i acc).1 % 2 = i % 2 ∧
      ((tinyLoop tiny high fuel i acc).1 = i ∨
        ((tinyLoop tiny high fuel i acc).1 - 2) * ((tinyLoop tiny high fuel i acc).1 - 2) ≤ high ∧ i + 2 ≤ (tinyLoop tiny high fuel i acc).1) ∧
      ∀ j, j ∈ (tinyLoop tiny high fuel i acc).2 ↔
        (j ∈ acc ∨ (i ≤ j ∧ j < (tinyLoop tiny high fuel i acc).1 ∧ j % 2 = i % 2 ∧ tiny j = true)) := by
  intro fuel
  induction fuel with
  | zero =>
    intro i acc hf
    have : Nat.sqrt high < i := by omega
    rw [Nat.sqrt_lt] at this
    refine ⟨this, Nat.le_refl _, rfl, Or.inl rfl, ?_⟩
    intro j; simp only [tinyLoop]; constructor
    · intro h; exact Or.inl h
    · rintro (h | ⟨h1, h2, _⟩)
      · exact h
      · omega
  | succ f ih =>
    intro i acc hf
    unfold tinyLoop
    by_cases hle : i * i ≤ high
    · rw [if_pos hle]
      have hi : i ≤ Nat.sqrt high := Nat.le_sqrt.mpr hle
      by_cases ht : tiny i = true
      · simp only [ht, if_true]
        obtain ⟨h1, h2, h3, h4, h5⟩ := ih (i + 2) (acc ++ [i]) (by omega)
        refine ⟨h1, by omega, by omega, Or.inr ?_, ?_⟩
        · rcases h4 with h4 | ⟨h4, h4'⟩
          · rw [h4]; exact ⟨by simpa using hle, Nat.le_refl _⟩
          · exact ⟨h4, by omega⟩
        · intro j
          rw [h5 j]
          simp only [List.mem_append, List.mem_singleton]
          constructor
          · rintro ((h | rfl) | ⟨a, b, c, d⟩)
            · exact Or.inl h
            · exact Or.inr ⟨Nat.le_refl _, by omega, rfl, ht⟩
            · exact Or.inr ⟨by omega, b, by omega, d⟩
          · rintro (h | ⟨a, b, c, d⟩)
            · exact Or.inl (Or.inl h)
            · by_cases hji : j = i
              · exact Or.inl (Or.inr hji)
              · exact Or.inr ⟨by omega, b, by omega, d⟩
      · simp only [ht, Bool.false_eq_true, if_false]
        obtain ⟨h1, h2, h3, h4, h5⟩ := ih (i + 2) acc (by omega)
        refine ⟨h1, by omega, by omega, Or.inr ?_, ?_⟩
        · rcases h4 with h4 | ⟨h4, h4'⟩
          · rw [h4]; exact ⟨by simpa using hle, Nat.le_refl _⟩
          · exact ⟨h4, by omega⟩
        · intro j
          rw [h5 j]
          constructor
          · rintro (h | ⟨a, b, c, d⟩)
            · exact Or.inl h
            · exact Or.inr ⟨by omega, b, by omega, d⟩
          · rintro (h | ⟨a, b, c, d⟩)
            · exact Or.inl h
            · by_cases hji : j = i
              · subst hji; exact absurd d ht
              · exact Or.inr ⟨by omega, b, by omega, d⟩
    · rw [if_neg hle]
      refine ⟨by show high < i * i; omega, Nat.le_refl _, rfl, Or.inl rfl, ?_⟩
      intro j; constructor
      · intro h; exact Or.inl h
      · rintro (h | ⟨h1, h2, _⟩)
        · exact h
        · omega

/-- the call made for one segment: from an odd (or even) tinyIdx_, exactly the j ≥ tinyIdx_ of that parity with
    j ≤ isqrt(high) and tinySieve_[j] are added, and the new tinyIdx_ is the first one of that parity beyond isqrt(high) -/
theorem tinyFeed_spec (tiny : Nat → Bool) (high tinyIdx : Nat) :
    Nat.sqrt high < (tinyFeed tiny high tinyIdx).1 ∧ tinyIdx ≤ (tinyFeed tiny high tinyIdx).1 ∧
    (tinyFeed tiny high tinyIdx).1 % 2 = tinyIdx % 2 ∧
    ∀ j, j ∈ (tinyFeed tiny high tinyIdx).2 ↔
      (tinyIdx ≤ j ∧ j ≤ Nat.sqrt high ∧ j % 2 = tinyIdx % 2 ∧ tiny j = true) := by
  unfold tinyFeed
  obtain ⟨h1, h2, h3, h4, h5⟩ := tinyLoop_spec tiny high (Nat.sqrt high + 2) tinyIdx [] (by omega)
  refine ⟨Nat.sqrt_lt.mpr h1, h2, h3, ?_⟩
  intro j
  rw [h5 j]
  constructor
  · rintro (h | ⟨a, b, c, d⟩)
    · simp at h
    · refine ⟨a, ?_, c, d⟩
      rcases h4 with h4 | ⟨h4, _⟩
      · omega
      · have : j ≤ (tinyLoop tiny high (Nat.sqrt high + 2) tinyIdx []).1 - 2 := by omega
        exact Nat.le_sqrt.mpr (Nat.le_trans (Nat.mul_le_mul this this) h4)
  · rintro ⟨a, b, c, d⟩
    refine Or.inr ⟨a, ?_, c, d⟩
    have := Nat.sqrt_lt.mpr h1
    omega

end Ps.Feed
