/-
  PsProofs.PreSieveT14 — table 14 of PreSieveTables.hpp (regenerated, 9167 bytes) equals the table its
  generator program describes for the primes [89, 103]: kernel-checked, every byte.
-/
import PsModel.PreSieve
import PsModel.Generated.PreSieve14

namespace Ps.PreSieve

theorem table14_spec : Gen.preSieve14 = specNat (Gen.preSievePrimes.getD 14 []) Gen.preSieve14Len 0 ∧
    Gen.preSieve14Len = (Gen.preSievePrimes.getD 14 []).foldl (· * ·) 1 := by
  constructor <;> decide +kernel

end Ps.PreSieve
