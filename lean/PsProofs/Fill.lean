/-
  PsProofs.Fill — index arithmetic of PrimeGenerator's buffer handling (C12 obligations).
-/
import PsModel.FillPrimes
namespace Ps.Fill

theorem primePi_len : Gen.primePi720.length = 720 := by decide +kernel
theorem smallPrimes_len : Gen.smallPrimes128.length = 128 := by decide +kernel

/-- adjacent entries of primePi are non-decreasing and every entry is ≤ 128 -/
theorem primePi_adj : ∀ k, k < 719 → Gen.primePi720.getD k 0 ≤ Gen.primePi720.getD (k + 1) 0 := by
  decide +kernel
theorem primePi_le_128 : ∀ k, k < 720 → Gen.primePi720.getD k 0 ≤ 128 := by decide +kernel

theorem primePi_mono {i j : Nat} (hij : i ≤ j) (hj : j < 720) :
    Gen.primePi720.getD i 0 ≤ Gen.primePi720.getD j 0 := by
  induction j with
  | zero => have : i = 0 := by omega
            subst this; exact Nat.le_refl _
  | succ j ih =>
    by_cases h : i = j + 1
    · subst h; exact Nat.le_refl _
    · exact Nat.le_trans (ih (by omega) (by omega)) (primePi_adj j (by omega))

/-- **table lookups in bounds**: getStartIdx reads primePi[start-1] only for 1 < start ≤ 719,
    getStopIdx reads primePi[stop] only for stop < 719 -/
theorem startIdx_index_ok (start : Nat) (h : start ≤ Gen.maxCachedPrime) (h1 : start > 1) :
    start - 1 < Gen.primePi720.length := by
  rw [primePi_len]; have : Gen.maxCachedPrime = 719 := rfl; omega

theorem stopIdx_index_ok (stop : Nat) (h : stop < Gen.maxCachedPrime) : stop < Gen.primePi720.length := by
  rw [primePi_len]; have : Gen.maxCachedPrime = 719 := rfl; omega

/-- a ≤ b ≤ 128: the copy `smallPrimes[a, b)` stays inside the table and `b - a` does not wrap -/
theorem idx_order (start stop : Nat) (h : start ≤ Gen.maxCachedPrime) (hss : start ≤ stop) :
    getStartIdx start ≤ getStopIdx stop ∧ getStopIdx stop ≤ Gen.smallPrimes128.length := by
  have hm : Gen.maxCachedPrime = 719 := rfl
  unfold getStartIdx getStopIdx
  rw [smallPrimes_len]
  by_cases h1 : start > 1
  · rw [if_pos h1]
    by_cases h2 : stop < Gen.maxCachedPrime
    · rw [if_pos h2]
      exact ⟨primePi_mono (by omega) (by omega), primePi_le_128 _ (by omega)⟩
    · rw [if_neg h2]
      exact ⟨primePi_le_128 _ (by omega), Nat.le_refl _⟩
  · rw [if_neg h1]
    by_cases h2 : stop < Gen.maxCachedPrime
    · rw [if_pos h2]; exact ⟨Nat.zero_le _, primePi_le_128 _ (by omega)⟩
    · rw [if_neg h2]; exact ⟨Nat.zero_le _, Nat.le_refl _⟩

theorem growTo_ge (old req : Nat) : req ≤ growTo old req ∧ old ≤ growTo old req := by
  unfold growTo; split <;> omega

/-- **buffer sizing**: after initNextPrimes the buffer holds the *size cached primes, and whenever the
    sieve is going to run (stop ≥ 721) there are at least 64 more slots — for EVERY value of the
    floating-point prime-count estimate and every previous buffer size -/
theorem initNext_slack (old start stop pixU : Nat) (hss : start ≤ stop) :
    (initNextSizes old start stop pixU).2 ≤ (initNextSizes old start stop pixU).1 ∧
    (stop ≥ Gen.maxCachedPrime + 2 →
      (initNextSizes old start stop pixU).2 + 64 ≤ (initNextSizes old start stop pixU).1) ∧
    (initNextSizes old start stop pixU).2 ≤ 128 := by
  have hm : Gen.maxCachedPrime = 719 := rfl
  unfold initNextSizes
  simp only
  by_cases h : start ≤ Gen.maxCachedPrime
  · rw [if_pos h]
    have ho := idx_order start stop h hss
    rw [smallPrimes_len] at ho
    by_cases h2 : stop < Gen.maxCachedPrime + 2
    · rw [if_pos h2]
      have := growTo_ge old (getStopIdx stop - getStartIdx start)
      exact ⟨this.1, fun hc => by omega, by omega⟩
    · rw [if_neg h2]
      simp only
      have g := growTo_ge old (max (getStopIdx stop - getStartIdx start)
        (inBetween (getStopIdx stop - getStartIdx start + 64) (pixU + 64) 1024))
      have hb : getStopIdx stop - getStartIdx start + 64 ≤
          inBetween (getStopIdx stop - getStartIdx start + 64) (pixU + 64) 1024 := by
        unfold inBetween; split <;> (try split) <;> omega
      refine ⟨by omega, fun _ => by omega, by omega⟩
  · rw [if_neg h]
    have g := growTo_ge old (inBetween 64 (pixU + 64) 1024)
    have hb : 64 ≤ inBetween 64 (pixU + 64) 1024 := by
      unfold inBetween; split <;> (try split) <;> omega
    exact ⟨Nat.zero_le _, fun _ => by simpa using Nat.le_trans hb g.1, Nat.zero_le _⟩

theorem writesDefault_lt (i pc k : Nat) (hpc : pc ≤ 64) (hk : k ∈ writesDefault i pc) : i ≤ k ∧ k < i + 64 := by
  unfold writesDefault at hk
  rw [List.mem_range'_1] at hk
  have : 4 * max 1 ((pc + 3) / 4) ≤ 64 := by
    have : (pc + 3) / 4 ≤ 16 := by omega
    omega
  omega

theorem writesAvx_lt (i pc k : Nat) (hk : k ∈ writesAvx i pc) : i ≤ k ∧ k < i + max 8 (pc + 7) := by
  unfold writesAvx at hk
  rw [List.mem_range'_1] at hk
  have : 8 * max 1 ((pc + 7) / 8) ≤ max 8 (pc + 7) := by omega
  omega

/-- **default fill loop**: started with i + 64 ≤ maxSize (the ASSERT), every slot written lies inside
    the buffer and the returned size is at most the buffer size -/
theorem fillDefault_in_bounds (maxSize : Nat) : ∀ (pcs : List Nat) (i : Nat), (∀ pc ∈ pcs, pc ≤ 64) →
    i + 64 ≤ maxSize →
    (∀ k ∈ (fillDefault maxSize pcs i).1, k < maxSize) ∧ (fillDefault maxSize pcs i).2 ≤ maxSize := by
  intro pcs
  induction pcs with
  | nil => intro i _ hi; simp [fillDefault]; omega
  | cons pc rest ih =>
    intro i hpc hi
    have hpc0 : pc ≤ 64 := hpc pc List.mem_cons_self
    simp only [fillDefault]
    by_cases hc : i + pc ≤ maxSize - 64
    · rw [if_pos hc]
      have := ih (i + pc) (fun p hp => hpc p (List.mem_cons_of_mem _ hp)) (by omega)
      refine ⟨?_, this.2⟩
      intro k hk
      rcases List.mem_append.mp hk with hk | hk
      · have := writesDefault_lt i pc k hpc0 hk; omega
      · exact this.1 k hk
    · rw [if_neg hc]
      refine ⟨?_, by omega⟩
      intro k hk
      have := writesDefault_lt i pc k hpc0 hk; omega

/-- **AVX512 fill loop**: every 8-lane store lies inside the buffer (maxSize ≥ 8) -/
theorem fillAvx_in_bounds (maxSize : Nat) (hm : 8 ≤ maxSize) : ∀ (pcs : List Nat) (i : Nat), i ≤ maxSize →
    (∀ k ∈ (fillAvx maxSize pcs i).1, k < maxSize) ∧ (fillAvx maxSize pcs i).2 ≤ maxSize := by
  intro pcs
  induction pcs with
  | nil => intro i hi; simp [fillAvx]; omega
  | cons pc rest ih =>
    intro i hi
    simp only [fillAvx]
    by_cases hc : i + pc > maxSize - 8
    · rw [if_pos hc]; simp; omega
    · rw [if_neg hc]
      have := ih (i + pc) (by omega)
      refine ⟨?_, this.2⟩
      intro k hk
      rcases List.mem_append.mp hk with hk | hk
      · have := writesAvx_lt i pc k hk; omega
      · exact this.1 k hk

/-- **backward fill**: every slot written lies inside the (grown) buffer -/
theorem fillPrevDefault_in_bounds : ∀ (pcs : List Nat) (i cap : Nat), (∀ pc ∈ pcs, pc ≤ 64) →
    ∀ w ∈ (fillPrevDefault pcs i cap).1, w.1 < w.2 := by
  intro pcs
  induction pcs with
  | nil => intro i cap _ w hw; simp [fillPrevDefault] at hw
  | cons pc rest ih =>
    intro i cap hpc w hw
    have hpc0 : pc ≤ 64 := hpc pc List.mem_cons_self
    simp only [fillPrevDefault] at hw
    rcases List.mem_append.mp hw with hw | hw
    · obtain ⟨k, hk, rfl⟩ := List.mem_map.mp hw
      have := writesDefault_lt i pc k hpc0 hk
      simp only
      split <;> omega
    · exact ih _ _ (fun p hp => hpc p (List.mem_cons_of_mem _ hp)) w hw

/-- bitValues has 65 entries: index ctz64(bits) ≤ 64 is in bounds even for bits = 0 (the unrolled
    loop calls nextPrime on exhausted words) -/
theorem ctz64_le (bits : Nat) : ctz64 bits ≤ 64 := by
  unfold ctz64
  split
  · exact Nat.le_refl _
  · cases h : (List.range 64).find? (fun k => bits.testBit k) with
    | none => simp
    | some k =>
      have := List.mem_of_find?_eq_some h
      simp at this ⊢; omega

end Ps.Fill
