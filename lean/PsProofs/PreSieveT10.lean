/-
  PsProofs.PreSieveT10 — table 10 of PreSieveTables.hpp (regenerated, 9017 bytes) equals the table its
  generator program describes for the primes [71, 127]: kernel-checked, every byte.
-/
import PsModel.PreSieve
import PsModel.Generated.PreSieve10

namespace Ps.PreSieve

theorem table10_spec : Gen.preSieve10 = specNat (Gen.preSievePrimes.getD 10 []) Gen.preSieve10Len 0 ∧
    Gen.preSieve10Len = (Gen.preSievePrimes.getD 10 []).foldl (· * ·) 1 := by
  constructor <;> decide +kernel

end Ps.PreSieve
