/-
  PsProofs.Cli — invariants of the command-line model: every collected number is the exact value
  of its expression and lies below 2^64; START+DIST cannot wrap; n*20 fits int64.
-/
import PsProofs.Calc
import PsModel.CmdLine
import Mathlib.Tactic.SplitIfs
namespace Ps.Cli
open Ps.Calc

theorem bind_ok' {α β : Type} {e : Except String α} {f : α → Except String β} {b : β}
    (h : (e >>= f) = .ok b) : ∃ a, e = .ok a ∧ f a = .ok b := by
  cases e with
  | error err => simp [bind, Except.bind] at h
  | ok a => exact ⟨a, rfl, h⟩

/-- getValue<uint64_t>: an accepted value is the exact value of the expression and fits 64 bits -/
theorem getValue_u64 (o : Opt) (v : Int) (h : getValue u64 o = .ok v) :
    eval (Arith.exact u64) o.val = .ok v ∧ 0 ≤ v ∧ v ≤ 18446744073709551615 := by
  unfold getValue at h
  cases he : eval (Arith.ofTy u64) o.val with
  | error e => rw [he] at h; cases h
  | ok w =>
    rw [he] at h
    injection h with h; subst h
    have := eval_sim sim_u64 _ _ he
    exact ⟨this.1, (u64_InR _).mp this.2⟩

def NumbersOK (o : Opts) : Prop := ∀ x ∈ o.numbers, x ≤ 18446744073709551615

theorem headD_ok (o : Opts) (h : NumbersOK o) : o.numbers.headD 0 ≤ 18446744073709551615 := by
  cases hn : o.numbers with
  | nil => simp
  | cons a l => simp only [List.headD_cons]; exact h a (by rw [hn]; exact List.mem_cons_self)

theorem optionDistance_ok (opts opts' : Opts) (o : Opt) (hn : NumbersOK opts) (h : optionDistance opts o = .ok opts') :
    ∃ v : Int, eval (Arith.exact u64) o.val = .ok v ∧ 0 ≤ v ∧
      opts'.numbers = opts.numbers ++ [opts.numbers.headD 0 + v.toNat] ∧
      opts.numbers.headD 0 + v.toNat ≤ 18446744073709551615 ∧
      opts'.flags = opts.flags ∧ opts'.option = opts.option := by
  unfold optionDistance at h
  obtain ⟨v, hv, h⟩ := bind_ok' h
  have hv' := getValue_u64 _ _ hv
  simp only at h
  split_ifs at h with hc
  injection h with h
  subst h
  have := headD_ok opts hn
  exact ⟨v, hv'.1, hv'.2.1, rfl, by omega, rfl, rfl⟩

theorem setMainOption_conflict (opts : Opts) (id str : String) (h : opts.optionStr ≠ "") :
    ∃ m, setMainOption opts id str = .error m := by
  unfold setMainOption
  have : (!opts.optionStr.isEmpty) = true := by
    simpa [String.isEmpty_iff] using h
  rw [if_pos this]
  exact ⟨_, rfl⟩

theorem getValue_ok {t : Ty} {o : Opt} {v : Int} (_ : getValue t o = .ok v) : True := trivial

theorem optionCount_numbers (opts opts' : Opts) (o : Opt) (h : optionCount opts o = .ok opts') :
    opts'.numbers = opts.numbers := by
  unfold optionCount at h
  obtain ⟨n, _, h⟩ := bind_ok' h
  by_cases hc : n ≤ 0
  · rw [if_pos hc] at h; cases h
  · rw [if_neg hc] at h
    split at h
    · injection h with h; subst h; rfl
    · cases h

theorem optionPrint_numbers (opts opts' : Opts) (o : Opt) (h : optionPrint opts o = .ok opts') :
    opts'.numbers = opts.numbers := by
  unfold optionPrint at h
  obtain ⟨n, _, h⟩ := bind_ok' h
  by_cases hc : 1 ≤ n ∧ n ≤ 6
  · rw [if_pos hc] at h; injection h with h; subst h; rfl
  · rw [if_neg hc] at h; cases h

theorem setMainOption_numbers (opts opts' : Opts) (id str : String) (h : setMainOption opts id str = .ok opts') :
    opts'.numbers = opts.numbers := by
  unfold setMainOption at h
  by_cases hc : (!opts.optionStr.isEmpty) = true
  · rw [if_pos hc] at h; cases h
  · rw [if_neg hc] at h; injection h with h; subst h; rfl

theorem optionStressTest_numbers (opts opts' : Opts) (o : Opt) (h : optionStressTest opts o = .ok opts') :
    opts'.numbers = opts.numbers := by
  unfold optionStressTest at h
  obtain ⟨o2, h2, h⟩ := bind_ok' h
  simp only at h
  have := setMainOption_numbers _ _ _ _ h2
  by_cases hc : (toUpper o.val).isEmpty = true ∨ toUpper o.val = "CPU" ∨ toUpper o.val = "RAM"
  · rw [if_pos hc] at h; injection h with h; subst h; exact this
  · rw [if_neg hc] at h; cases h

theorem optionTimeout_numbers (opts opts' : Opts) (o : Opt) (h : optionTimeout opts o = .ok opts') :
    opts'.numbers = opts.numbers := by
  unfold optionTimeout at h
  cases hg : getValue i64 { o with val := timeoutBody o.val } with
  | error e => rw [hg] at h; cases h
  | ok v =>
    rw [hg] at h
    have : opts = opts' := by injection h
    rw [this]

/-- every handler keeps all collected numbers below 2^64 -/
theorem handle_numbers (opts opts' : Opts) (o : Opt) (hn : NumbersOK opts) (h : handle opts o = .ok opts') :
    NumbersOK opts' := by
  unfold handle at h
  split at h
  · cases h
  · rename_i id _ _
    by_cases c1 : id = "OPTION_COUNT"
    · rw [if_pos c1] at h; rw [NumbersOK, optionCount_numbers _ _ _ h]; exact hn
    rw [if_neg c1] at h
    by_cases c2 : id = "OPTION_DISTANCE"
    · rw [if_pos c2] at h
      obtain ⟨v, _, _, hnum, hle, _, _⟩ := optionDistance_ok _ _ _ hn h
      intro x hx
      rw [hnum] at hx
      rcases List.mem_append.mp hx with hx | hx
      · exact hn x hx
      · have := List.mem_singleton.mp hx; omega
    rw [if_neg c2] at h
    by_cases c3 : id = "OPTION_PRINT"
    · rw [if_pos c3] at h; rw [NumbersOK, optionPrint_numbers _ _ _ h]; exact hn
    rw [if_neg c3] at h
    by_cases c4 : id = "OPTION_STRESS_TEST"
    · rw [if_pos c4] at h; rw [NumbersOK, optionStressTest_numbers _ _ _ h]; exact hn
    rw [if_neg c4] at h
    by_cases c5 : id = "OPTION_TIMEOUT"
    · rw [if_pos c5] at h; rw [NumbersOK, optionTimeout_numbers _ _ _ h]; exact hn
    rw [if_neg c5] at h
    by_cases c6 : id = "OPTION_SIZE"
    · rw [if_pos c6] at h; obtain ⟨_, _, h⟩ := bind_ok' h; injection h with h; subst h; exact hn
    rw [if_neg c6] at h
    by_cases c7 : id = "OPTION_THREADS"
    · rw [if_pos c7] at h; obtain ⟨_, _, h⟩ := bind_ok' h; injection h with h; subst h; exact hn
    rw [if_neg c7] at h
    by_cases c8 : id = "OPTION_QUIET"
    · rw [if_pos c8] at h; injection h with h; subst h; exact hn
    rw [if_neg c8] at h
    by_cases c9 : id = "OPTION_NO_STATUS"
    · rw [if_pos c9] at h; injection h with h; subst h; exact hn
    rw [if_neg c9] at h
    by_cases c10 : id = "OPTION_TIME"
    · rw [if_pos c10] at h; injection h with h; subst h; exact hn
    rw [if_neg c10] at h
    by_cases c11 : id = "OPTION_NUMBER"
    · rw [if_pos c11] at h
      obtain ⟨v, hv, h⟩ := bind_ok' h
      have hv' := getValue_u64 _ _ hv
      injection h with h; subst h
      intro x hx
      rcases List.mem_append.mp hx with hx | hx
      · exact hn x hx
      · have := List.mem_singleton.mp hx; omega
    rw [if_neg c11] at h
    rw [NumbersOK, setMainOption_numbers _ _ _ _ h]; exact hn

theorem parseLoop_numbers (argv : Array String) : ∀ fuel i opts opts', NumbersOK opts →
    parseLoop argv fuel i opts = .ok opts' → NumbersOK opts' := by
  intro fuel
  induction fuel with
  | zero => intro i opts opts' hn h; simp only [parseLoop] at h; injection h with h; subst h; exact hn
  | succ fuel ih =>
    intro i opts opts' hn h
    unfold parseLoop at h
    split_ifs at h
    · obtain ⟨⟨o, i'⟩, _, h⟩ := bind_ok' h
      obtain ⟨opts2, h2, h⟩ := bind_ok' h
      exact ih _ _ _ (handle_numbers _ _ _ hn h2) h
    · injection h with h; subst h; exact hn

theorem parseOptions_numbers (argv : List String) (o : Opts) (h : parseOptions argv = .ok o) : NumbersOK o := by
  unfold parseOptions at h
  obtain ⟨o1, h1, h⟩ := bind_ok' h
  have := parseLoop_numbers _ _ _ _ _ (by intro x hx; simp at hx) h1
  simp only at h
  injection h with h; subst h
  split_ifs <;> exact this

/-- whatever interval / n the program ends up working on lies below 2^64; n·20 fits int64 -/
theorem mainAction_in_range (argv : List String) :
    (∀ a b f s t q tm, mainAction argv = .sieve a b f s t q tm → a ≤ 18446744073709551615 ∧ b ≤ 18446744073709551615) ∧
    (∀ n st q tm, mainAction argv = .nth n st q tm →
      n * 20 ≤ 9223372036854775807 ∧ st ≤ 18446744073709551615) := by
  unfold mainAction
  split_ifs with he
  · exact ⟨by intros; contradiction, by intros; contradiction⟩
  · cases hp : parseOptions argv with
    | error m => exact ⟨by intros; contradiction, by intros; contradiction⟩
    | ok o =>
      have hn := parseOptions_numbers argv o hp
      simp only
      split_ifs with h1 h2 h3
      · -- nth
        cases hnum : o.numbers with
        | nil => exact ⟨by intros; contradiction, by intros; contradiction⟩
        | cons n rest =>
          simp only
          split_ifs with hg
          · exact ⟨by intros; contradiction, by intros; contradiction⟩
          · refine ⟨by intros; contradiction, ?_⟩
            intro n' st q tm h
            injection h with e1 e2 _ _
            subst e1; subst e2
            refine ⟨by unfold int64MaxDiv20 at hg; omega, ?_⟩
            cases rest with
            | nil => simp
            | cons b _ => simp only [List.headD_cons]; exact hn b (by rw [hnum]; simp)
      · -- sieve
        cases hnum : o.numbers with
        | nil => exact ⟨by intros; contradiction, by intros; contradiction⟩
        | cons a rest =>
          cases rest with
          | nil =>
            refine ⟨?_, by intros; contradiction⟩
            intro a' b' f s t q tm h
            injection h with e1 e2
            subst e1; subst e2
            exact ⟨by omega, hn a (by rw [hnum]; simp)⟩
          | cons b rest2 =>
            refine ⟨?_, by intros; contradiction⟩
            intro a' b' f s t q tm h
            injection h with e1 e2
            subst e1; subst e2
            exact ⟨hn a (by rw [hnum]; simp), hn b (by rw [hnum]; simp)⟩
      · exact ⟨by intros; contradiction, by intros; contradiction⟩
      · exact ⟨by intros; contradiction, by intros; contradiction⟩

/-- a bare argument that starts with '-' and is not an option spelling (e.g. "-5", "-1e3") is
    rejected: there are no negative prime numbers -/
theorem negative_number_rejected (argv : Array String) (i : Nat)
    (hne : (argv.getD i "") ≠ "") (hl : lookup (argv.getD i "") = none)
    (hopt : isOption (argv.getD i "") = false) (hneg : (argv.getD i "").toList.getD 0 ' ' = '-') :
    ∃ m, parseOption argv i = .error m := by
  unfold parseOption
  simp only
  have : (argv.getD i "").isEmpty = false := by
    simpa [String.isEmpty_iff] using hne
  rw [this]
  simp only [Bool.false_eq_true, if_false, hl, hopt]
  split_ifs
  · exact ⟨_, rfl⟩
  · exact ⟨_, rfl⟩

end Ps.Cli
