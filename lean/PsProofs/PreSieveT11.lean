/-
  PsProofs.PreSieveT11 — table 11 of PreSieveTables.hpp (regenerated, 8249 bytes) equals the table its
  generator program describes for the primes [73, 113]: kernel-checked, every byte.
-/
import PsModel.PreSieve
import PsModel.Generated.PreSieve11

namespace Ps.PreSieve

theorem table11_spec : Gen.preSieve11 = specNat (Gen.preSievePrimes.getD 11 []) Gen.preSieve11Len 0 ∧
    Gen.preSieve11Len = (Gen.preSievePrimes.getD 11 []).foldl (· * ·) 1 := by
  constructor <;> decide +kernel

end Ps.PreSieve
