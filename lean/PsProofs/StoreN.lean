/-
  PsProofs.StoreN — store_n_primes appends exactly the first n primes ≥ start, or throws with an
  exact prefix when the n-th does not fit the element type / 64 bits.
-/
import PsProofs.Store
import PsProofs.NthPrime
namespace Ps
open Ps.Spec Ps.Nth

/-- the primes of [a, b] are the first `length` elements of the enumeration from a -/
theorem primesIn_eq_map : ∀ (m a b : Nat), (primesIn a b).length = m →
    primesIn a b = (List.range m).map (primeSeq a) := by
  intro m
  induction m with
  | zero => intro a b h; simpa using List.eq_nil_of_length_eq_zero h
  | succ m ih =>
    intro a b h
    rw [primesIn_unfold] at h ⊢
    by_cases hle : nextPrime a ≤ b
    · rw [if_pos hle] at h ⊢
      simp only [List.length_cons, Nat.add_right_cancel_iff] at h
      rw [ih _ _ h, List.range_succ_eq_map, List.map_cons, List.map_map]
      congr 1
      apply List.map_congr_left
      intro j _
      simp only [Function.comp]
      exact (primeSeq_shift a j).symm
    · rw [if_neg hle] at h; simp at h

theorem primesHO_eq_map (a c : Nat) :
    primesHO a c = (List.range (primesHO a c).length).map (primeSeq a) := by
  by_cases hc : c = 0
  · subst hc; rw [primesHO_nil_of_le (Nat.zero_le _)]; rfl
  · have : primesHO a c = primesIn a (c - 1) := by unfold primesIn; rw [show c - 1 + 1 = c by omega]
    rw [this]
    exact primesIn_eq_map _ a (c - 1) rfl

end Ps

namespace Ps
open Ps.Spec Ps.Nth

noncomputable def firstN (start n : Nat) : List Nat := (List.range n).map (primeSeq start)

theorem firstN_length (start n : Nat) : (firstN start n).length = n := by simp [firstN]

theorem firstN_getD (start n j : Nat) (hj : j < n) : (firstN start n).getD j 0 = primeSeq start j := by
  simp [firstN, List.getD_eq_getElem?_getD, hj]

theorem firstN_take (start n m : Nat) (h : m ≤ n) : (firstN start n).take m = firstN start m := by
  unfold firstN
  rw [← List.map_take, List.take_range, Nat.min_eq_left h]

theorem primeSeq_mono (s : Nat) {i j : Nat} (h : i ≤ j) : primeSeq s i ≤ primeSeq s j := by
  rcases Nat.lt_or_eq_of_le h with h | h
  · exact Nat.le_of_lt (primeSeq_strictMono s h)
  · rw [h]

structure NInv (start n : Nat) (it : Iter) (acc : List Nat) (c rem : Nat) : Prop where
  b : BInv start 0 it acc c
  cnt : acc.length + rem = n
  pos : 1 ≤ rem

/-- what the invariant says about the stored prefix and the block held by the iterator -/
theorem ninv_facts {start n : Nat} {it : Iter} {acc : List Nat} {c rem : Nat} (h : NInv start n it acc c rem) :
    acc = firstN start acc.length ∧ acc ++ it.buf = firstN start (acc.length + it.size) ∧ 1 ≤ it.size ∧
    it.size = it.buf.length ∧
    (∀ j, j < it.size → it.buf.getD j 0 = primeSeq start (acc.length + j)) ∧
    acc ++ it.buf = primesHO start (it.buf.getD (it.size - 1) 0 + 1) ∧ start ≤ it.buf.getD (it.size - 1) 0 + 1 := by
  obtain ⟨hbuf, hhl, hch⟩ := bInv_buf h.b
  obtain ⟨hne, hsz⟩ := atInv_buf h.b.inv
  have hall : acc ++ it.buf = primesHO start (it.buf.getD (it.size - 1) 0 + 1) := by
    rw [h.b.acc_eq]
    conv => lhs; rw [hbuf]
    exact primesHO_append h.b.le (by omega)
  have hlen : (acc ++ it.buf).length = acc.length + it.size := by rw [List.length_append, hsz]
  have hallN : acc ++ it.buf = firstN start (acc.length + it.size) := by
    have := primesHO_eq_map start (it.buf.getD (it.size - 1) 0 + 1)
    rw [← hall, hlen] at this
    exact this
  have hpos : 1 ≤ it.size := by rw [hsz]; exact List.length_pos_iff.2 hne
  refine ⟨?_, hallN, hpos, hsz, ?_, hall, by have := h.b.le; omega⟩
  · have := congrArg (List.take acc.length) hallN
    rw [List.take_left', firstN_take _ _ _ (by omega)] at this
    · exact this
    · rfl
  · intro j hj
    have e1 : (acc ++ it.buf).getD (acc.length + j) 0 = it.buf.getD j 0 := by
      simp [List.getD_eq_getElem?_getD, List.getElem?_append_right]
    rw [← e1, hallN, firstN_getD _ _ _ (by omega)]

theorem storeNBlocks_spec {env : Env} (h : EnvOK env) (start n vmax : Nat) (kf : Nat → Nat) :
    ∀ (fuel j rem : Nat) (it : Iter) (acc : List Nat) (c : Nat), NInv start n it acc c rem → rem ≤ fuel →
      ∃ r, storeNBlocks env vmax kf fuel j rem it acc = some r ∧
        match r with
        | .error (acc', _) => (∃ k, k < n ∧ acc' = firstN start k) ∧
            ¬ (primeSeq start (n - 1) ≤ vmax ∧ primeSeq start (n - 1) < U64)
        | .ok (rem', it', acc') =>
            (rem' = 0 ∧ acc' = firstN start n ∧ primeSeq start (n - 1) ≤ vmax ∧ primeSeq start (n - 1) < U64) ∨
            (1 ≤ rem' ∧ rem' < it'.size ∧ ∃ c', NInv start n it' acc' c' rem') := by
  intro fuel
  induction fuel with
  | zero => intro j rem it acc c hi hf; have := hi.pos; omega
  | succ f ih =>
    intro j rem it acc c hi hf
    obtain ⟨haccN, hallN, hpos, hsz, hget, hall, hstart⟩ := ninv_facts hi
    unfold storeNBlocks
    by_cases hge : rem ≥ it.size
    · simp only [hge, if_true]
      have hlast : it.buf.getD (it.size - 1) 0 = primeSeq start (acc.length + (it.size - 1)) := hget _ (by omega)
      have hidx : acc.length + (it.size - 1) ≤ n - 1 := by have := hi.cnt; omega
      by_cases hv : it.buf.getD (it.size - 1) 0 > vmax
      · simp only [hv, if_true]
        refine ⟨_, rfl, ⟨acc.length, by have := hi.cnt; have := hi.pos; omega, haccN⟩, ?_⟩
        intro hc
        have := primeSeq_mono start hidx
        rw [← hlast] at this
        omega
      · simp only [hv, if_false]
        by_cases hz : rem - it.size = 0
        · simp only [hz, if_true]
          have e : acc.length + (it.size - 1) = n - 1 := by have := hi.cnt; omega
          refine ⟨_, rfl, Or.inl ⟨rfl, ?_, ?_, ?_⟩⟩
          · rw [hallN]; congr 1; have := hi.cnt; omega
          · rw [← e, ← hlast]; omega
          · have hb := hi.b.inv.bound (it.buf.getD (it.size - 1) 0) (getD_mem (by rw [← hsz]; omega))
            rw [← e, ← hlast, U64_eq_succ]; omega
        · simp only [hz, if_false]
          have hg := generateNext_at h (kf j) it hi.b.inv
          cases hr : it.generateNext env (kf j) with
          | error e =>
            rw [hr] at hg
            simp only
            refine ⟨_, rfl, ⟨acc.length + it.size, by have := hi.cnt; omega, hallN⟩, ?_⟩
            intro hc
            -- the prime after the block does not fit 64 bits, and it is among the requested ones
            have hnext : primeSeq start (acc.length + (it.size - 1) + 1) = nextPrime (it.buf.getD (it.size - 1) 0 + 1) := by
              simp only [primeSeq]; rw [hlast]
            have hle : acc.length + (it.size - 1) + 1 ≤ n - 1 := by have := hi.cnt; omega
            have := primeSeq_mono start hle
            rw [hnext] at this
            exact hg.2 (by omega)
          | ok it' =>
            rw [hr] at hg
            obtain ⟨hlt, _, hhead, hinv', _⟩ := hg
            simp only
            have hb' : BInv start 0 it' (acc ++ it.buf) (it.buf.getD (it.size - 1) 0 + 1) :=
              { inv := hinv', acc_eq := hall, le := hstart, head := hhead }
            have hi' : NInv start n it' (acc ++ it.buf) (it.buf.getD (it.size - 1) 0 + 1) (rem - it.size) :=
              { b := hb', cnt := by rw [List.length_append, ← hsz]; have := hi.cnt; omega, pos := by omega }
            exact ih (j + 1) (rem - it.size) it' _ _ hi' (by omega)
    · simp only [hge, if_false]
      exact ⟨_, rfl, Or.inr ⟨hi.pos, by omega, c, hi⟩⟩

end Ps

namespace Ps
open Ps.Spec Ps.Nth

/-- **store_n_primes**: n primes ≥ start are appended when the n-th of them fits the element type and 64 bits;
    otherwise the call throws and what has been appended is an exact prefix of the requested primes -/
theorem storeNPrimes_spec {env : Env} (h : EnvOK env) (kf : Nat → Nat) (fuel n start hintStop vmax : Nat)
    (hs : start ≤ umax) (hfuel : n ≤ fuel) :
    ∃ r, storeNPrimes env kf fuel n start hintStop vmax = some r ∧
      match r with
      | .ok app => app = firstN start n ∧ (n = 0 ∨ (primeSeq start (n - 1) ≤ vmax ∧ primeSeq start (n - 1) < U64))
      | .throw app _ => (∃ k, k < n ∧ app = firstN start k) ∧
          ¬ (primeSeq start (n - 1) ≤ vmax ∧ primeSeq start (n - 1) < U64) := by
  unfold storeNPrimes
  by_cases hn : n = 0
  · subst hn; exact ⟨_, rfl, rfl, Or.inl rfl⟩
  simp only [hn, if_false]
  -- the first block
  have hs' := genNextFresh_spec h (kf 0) (Iter.mk' start hintStop) hs
  simp only [Iter.mk', if_true] at hs'
  simp only [Iter.generateNext, Iter.mk']
  cases hr : genNextFresh env (kf 0)
      { i := 0, size := 0, start := start, hint := hintStop, buf := [], stop := start, dist := 0, incl := true, gen := none } with
  | error e =>
    rw [hr] at hs'
    simp only
    refine ⟨_, rfl, ⟨0, by omega, rfl⟩, ?_⟩
    intro hc
    have h0 : primeSeq start 0 ≤ primeSeq start (n - 1) := primeSeq_mono start (by omega)
    simp only [primeSeq] at h0
    have := hs'.2
    omega
  | ok it =>
    rw [hr] at hs'
    simp only
    have hinv := atInv_of_fwdPost hs'
    have hb : BInv start 0 it [] start :=
      { inv := hinv, acc_eq := (primesHO_nil_of_le (Nat.le_refl _)).symm, le := Nat.le_refl _, head := hs'.head }
    have hi : NInv start n it [] start n := { b := hb, cnt := by simp, pos := by omega }
    obtain ⟨r, hsb, hspec⟩ := storeNBlocks_spec h start n vmax kf fuel 1 n it [] start hi hfuel
    rw [hsb]
    rcases r with ⟨acc', e⟩ | ⟨rem', it', acc'⟩
    · simp only at hspec ⊢
      exact ⟨_, rfl, hspec.1, hspec.2⟩
    · simp only at hspec ⊢
      rcases hspec with ⟨h0, hacc, hv, hU⟩ | ⟨h1, hlt, c', hi'⟩
      · simp only [h0, if_true]
        exact ⟨_, rfl, hacc, Or.inr ⟨hv, hU⟩⟩
      · have hne : ¬ rem' = 0 := by omega
        simp only [hne, if_false]
        obtain ⟨haccN, hallN, hpos, hsz, hget, hall, hstart⟩ := ninv_facts hi'
        have hel : it'.buf.getD (rem' - 1) 0 = primeSeq start (n - 1) := by
          rw [hget _ (by omega)]; congr 1; have := hi'.cnt; omega
        by_cases hv : it'.buf.getD (rem' - 1) 0 > vmax
        · simp only [hv, if_true]
          refine ⟨_, rfl, ⟨acc'.length, by have := hi'.cnt; omega, haccN⟩, ?_⟩
          intro hc; rw [hel] at hv; omega
        · simp only [hv, if_false]
          refine ⟨_, rfl, ?_, Or.inr ⟨by rw [← hel]; omega, ?_⟩⟩
          · have := congrArg (List.take (acc'.length + rem')) hallN
            rw [List.take_append, firstN_take _ _ _ (by omega)] at this
            simp only [Nat.add_sub_cancel_left] at this
            rw [List.take_of_length_le (by omega)] at this
            rw [this]; congr 1; exact hi'.cnt
          · have hb := hi'.b.inv.bound (it'.buf.getD (rem' - 1) 0) (getD_mem (by rw [← hsz]; omega))
            rw [hel] at hb
            rw [U64_eq_succ]; omega

end Ps
