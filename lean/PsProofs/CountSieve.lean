/-
  PsProofs.CountSieve — CountPrintPrimes over the ideal sieve prints / counts exactly the primes
  and constellations of [max(start,7), stop]; PrimeSieve::sieve adds the small ones.
-/
import PsProofs.ByteSieve
import Mathlib.Tactic.NormNum.Prime
import Mathlib.Tactic.IntervalCases
set_option linter.unnecessarySeqFocus false
namespace Ps
open Ps.Spec

theorem primesIn_empty {a b : Nat} (h : b < a) : primesIn a b = [] := by
  unfold primesIn primesHO
  have : b + 1 - a = 0 := by omega
  rw [this]; rfl

open Classical in
/-- **printPrimes**: the numbers decoded from all bytes are the primes of [max(start,7), stop] -/
theorem sievePrimeNumbers_eq {isP : Nat → Bool} (hP : ∀ n, isP n = true ↔ n.Prime) (start stop : Nat) :
    sievePrimeNumbers isP start stop = primesIn (max start 7) stop := by
  unfold sievePrimeNumbers
  split
  · rename_i h; rw [primesIn_empty h]
  · rename_i h
    have hse : max start 7 ≤ stop := Nat.le_of_not_lt h
    obtain ⟨hB, hlo, hhi⟩ := grid_facts hse
    have hmap : ∀ m, byteNumbers (idealByte isP (max start 7) stop (gridBase start) m) (gridBase start + 30 * m)
        = (List.range' (gridBase start + 7 + 30 * m) 30).filter
            (fun n => decide (max start 7 ≤ n ∧ n ≤ stop ∧ n.Prime)) := by
      intro m
      rw [byteNumbers_ideal hP _ _ _ _ hB]
      congr 2; omega
    rw [List.map_congr_left (fun m _ => hmap m), flatten_blocks_filter, filter_eq_flatMap,
      flatMap_restrict (e := stop) _ hlo (Nat.le_succ_of_le hse) hhi, ← filter_eq_flatMap]
    · unfold primesIn primesHO
      apply List.filter_congr
      intro x hx
      have := List.mem_range'_1.1 hx
      rw [Bool.eq_iff_iff, decide_eq_true_eq, decide_eq_true_eq]
      constructor
      · exact fun h => h.2.2
      · exact fun h => ⟨this.1, by omega, h⟩
    · intro x hx
      have : ¬ (max start 7 ≤ x ∧ x ≤ stop ∧ x.Prime) := by rintro ⟨h1, h2, _⟩; omega
      show (if _ then [x] else []) = []
      rw [if_neg]
      intro hc
      exact this (of_decide_eq_true hc)

theorem tupletList_empty (kind : Nat) {a b : Nat} (h : b < a) : tupletList kind a b = [] := by
  unfold tupletList
  have : b + 1 - a = 0 := by omega
  rw [this]; rfl

open Classical in
/-- **printkTuplets**: the constellations decoded from all bytes are those of [max(start,7), stop] -/
theorem sieveTuplets_eq {isP : Nat → Bool} (hP : ∀ n, isP n = true ↔ n.Prime) (start stop kind : Nat)
    (hk1 : 1 ≤ kind) (hk6 : kind < 6) :
    sieveTuplets isP start stop kind = tupletList kind (max start 7) stop := by
  unfold sieveTuplets
  split
  · rename_i h; rw [tupletList_empty kind h]
  · rename_i h
    have hse : max start 7 ≤ stop := Nat.le_of_not_lt h
    obtain ⟨hB, hlo, hhi⟩ := grid_facts hse
    let G : Nat → List (List Nat) := fun p =>
        ((patterns kind).filter (fun ds =>
          decide (max start 7 ≤ p ∧ p + span ds ≤ stop ∧ tupletAt ds p))).map
          (fun ds => ds.map (p + ·))
    have hmap : ∀ m, byteTuplets (Gen.bitmasks.getD kind [])
          (idealByte isP (max start 7) stop (gridBase start) m) (gridBase start + 30 * m)
        = (List.range' (gridBase start + 7 + 30 * m) 30).flatMap G := by
      intro m
      rw [byteTuplets_ideal hP _ _ _ _ _ hB hk1 hk6]
      congr 2; omega
    rw [List.map_congr_left (fun m _ => hmap m), flatten_blocks_flatMap,
      flatMap_restrict (e := stop) _ hlo (Nat.le_succ_of_le hse) hhi]
    · unfold tupletList
      apply List.flatMap_congr
      intro p hp
      have := List.mem_range'_1.1 hp
      show G p = _
      simp only [G]
      congr 1
      apply List.filter_congr
      intro ds _
      rw [Bool.eq_iff_iff, decide_eq_true_eq, decide_eq_true_eq]
      constructor
      · exact fun h => h.2
      · exact fun h => ⟨this.1, h⟩
    · intro x hx
      show G x = []
      simp only [G]
      have : ∀ ds ∈ patterns kind, ¬ (max start 7 ≤ x ∧ x + span ds ≤ stop ∧ tupletAt ds x) := by
        rintro ds _ ⟨h1, h2, _⟩; omega
      rw [List.map_eq_nil_iff, List.filter_eq_nil_iff]
      intro ds hds
      simpa using this ds hds

theorem filter_length_eq_sum {α : Type} (p : α → Bool) (l : List α) :
    (l.filter p).length = (l.map (fun x => if p x then 1 else 0)).sum := by
  induction l with
  | nil => rfl
  | cons x l ih => simp only [List.filter_cons, List.map_cons, List.sum_cons]; split <;> simp [ih]; omega

theorem sum_map_add' {α : Type} (f g : α → Nat) (l : List α) :
    (l.map (fun x => f x + g x)).sum = (l.map f).sum + (l.map g).sum := by
  induction l with
  | nil => rfl
  | cons x l ih => simp only [List.map_cons, List.sum_cons, ih]; omega

theorem sum_filter_swap {α β : Type} (l : List α) (ps : List β) (Q : α → β → Bool) :
    (l.map (fun x => (ps.filter (Q x)).length)).sum =
      (ps.map (fun d => (l.filter (fun x => Q x d)).length)).sum := by
  induction ps with
  | nil => simp
  | cons d ps ih =>
    have : ∀ x, ((d :: ps).filter (Q x)).length = (if Q x d then 1 else 0) + (ps.filter (Q x)).length := by
      intro x; simp only [List.filter_cons]; split <;> simp; omega
    simp only [this, sum_map_add', ih, List.map_cons, List.sum_cons, filter_length_eq_sum (fun x => Q x d)]

theorem primesIn_length (a b : Nat) : (primesIn a b).length = primeCount a b := by
  unfold primesIn primesHO primeCount countIn
  have : b + 1 - a = b + 1 - a := rfl
  congr 1
  apply List.filter_congr
  intro x _
  exact decide_eq_decide.2 Iff.rfl

open Classical in
theorem tupletList_length (kind a b : Nat) :
    (tupletList kind a b).length = ((patterns kind).map (fun ds => tupletCount ds a b)).sum := by
  unfold tupletList tupletCount countIn
  rw [List.length_flatMap]
  simp only [List.length_map]
  refine (sum_filter_swap _ (patterns kind) (fun p ds => decide (p + span ds ≤ b ∧ tupletAt ds p))).trans ?_
  congr 1
  apply List.map_congr_left
  intro ds _
  congr 1
  apply List.filter_congr
  intro x _
  exact decide_eq_decide.2 Iff.rfl

theorem length_byteNumbers {byte : Nat} (B : Nat) (h : byte < 256) :
    (byteNumbers byte B).length = popcount8 byte := by
  rw [byteNumbers_shift, List.length_map, popcount8_fin byte h]

theorem length_byteTuplets (row : List Nat) (byte B : Nat) :
    (byteTuplets row byte B).length = kCount row byte := by
  simp [byteTuplets, kCount]

theorem getD_map_range (g : Nat → Nat) {i n : Nat} (h : i < n) :
    ((List.range n).map g).getD i 0 = g i := by
  simp [List.getD_eq_getElem?_getD, h]

/-- spec value of the sieve part: primes / constellations of [max(start,7), stop] -/
theorem sieveCounts_spec {isP : Nat → Bool} (hP : ∀ n, isP n = true ↔ n.Prime) (start stop flags i : Nat)
    (hi : i < 6) (hf : isFlag flags (2 ^ i) = true) :
    (sieveCounts isP start stop flags).getD i 0 = kindCount i (max start 7) stop := by
  unfold sieveCounts
  split
  · rename_i h
    have : (List.replicate 6 0).getD i 0 = 0 := by
      have h6 : i = 0 ∨ i = 1 ∨ i = 2 ∨ i = 3 ∨ i = 4 ∨ i = 5 := by omega
      rcases h6 with rfl | rfl | rfl | rfl | rfl | rfl <;> rfl
    rw [this]
    unfold kindCount
    split
    · rw [← primesIn_length, primesIn_empty h]; rfl
    · rw [← tupletList_length, tupletList_empty _ h]; rfl
  · rename_i h
    simp only
    rw [getD_map_range _ hi]
    simp only [hf, Bool.not_true, Bool.false_eq_true, if_false]
    unfold kindCount sieveBytes
    rw [List.map_map]
    by_cases hi0 : i = 0
    · subst hi0
      simp only [if_true]
      rw [← primesIn_length, ← sievePrimeNumbers_eq hP]
      unfold sievePrimeNumbers
      rw [if_neg h, List.length_flatten, List.map_map]
      congr 1
      apply List.map_congr_left
      intro m _
      simp only [Function.comp_def, byteCount, if_true]
      rw [length_byteNumbers _ (idealByte_lt ..)]
    · simp only [hi0, if_false]
      rw [← tupletList_length, ← sieveTuplets_eq hP start stop i (by omega) hi]
      unfold sieveTuplets
      rw [if_neg h, List.length_flatten, List.map_map]
      congr 1
      apply List.map_congr_left
      intro m _
      simp only [Function.comp_def, byteCount, hi0, if_false]
      rw [length_byteTuplets]

open Classical in
theorem countIn_zero {P : Nat → Prop} {lo hi : Nat} (h : ∀ x, lo ≤ x → x ≤ hi → ¬ P x) : countIn P lo hi = 0 := by
  unfold countIn
  rw [List.length_eq_zero_iff, List.filter_eq_nil_iff]
  intro x hx
  have := List.mem_range'_1.1 hx
  simpa using h x this.1 (by omega)

/-- splitting a count at the 6 | 7 seam between the small-prime table and the sieve -/
theorem countIn_split6 {P : Nat → Prop} {start stop : Nat} (hP : ∀ x, P x → x ≤ stop) :
    countIn P start stop = countIn P start 6 + countIn P (max start 7) stop := by
  by_cases h7 : 7 ≤ start
  · rw [countIn_empty P (show 6 < start by omega), Nat.max_eq_left h7]; omega
  · have hm : max start 7 = 7 := by omega
    rw [hm]
    by_cases h6 : 6 ≤ stop
    · exact (countIn_split P (by omega) h6).symm
    · rw [countIn_empty P (show stop < 7 by omega)]
      by_cases hs : start ≤ stop + 1
      · rw [← countIn_split P hs (show stop ≤ 6 by omega),
          countIn_zero (P := P) (lo := stop + 1) (hi := 6) (fun x h1 _ hx => by have := hP x hx; omega)]
        omega
      · rw [countIn_empty P (show stop < start by omega),
          countIn_zero (P := P) (lo := start) (hi := 6) (fun x h1 _ hx => by have := hP x hx; omega)]

open Classical in
/-- a count over [lo, 6] as a guarded count over 0..6 -/
theorem countIn_le6 (P : Nat → Prop) (lo : Nat) :
    countIn P lo 6 = ([0, 1, 2, 3, 4, 5, 6].map (fun p => if lo ≤ p ∧ P p then 1 else 0)).sum := by
  unfold countIn
  rw [filter_length_eq_sum]
  have h : lo = 0 ∨ lo = 1 ∨ lo = 2 ∨ lo = 3 ∨ lo = 4 ∨ lo = 5 ∨ lo = 6 ∨ 7 ≤ lo := by omega
  rcases h with rfl | rfl | rfl | rfl | rfl | rfl | rfl | h
  iterate 7 simp [List.range']
  have e : 6 + 1 - lo = 0 := by omega
  have h0 : ¬ lo = 0 := by omega
  have h1 : ¬ lo ≤ 1 := by omega
  have h2 : ¬ lo ≤ 2 := by omega
  have h3 : ¬ lo ≤ 3 := by omega
  have h4 : ¬ lo ≤ 4 := by omega
  have h5 : ¬ lo ≤ 5 := by omega
  have h6 : ¬ lo ≤ 6 := by omega
  simp [e, h0, h1, h2, h3, h4, h5, h6]

/-- count of kind i over [lo, hi] where members must fit below `stop` -/
noncomputable def kindCountP (i lo hi stop : Nat) : Nat :=
  if i = 0 then countIn (fun p => p ≤ stop ∧ p.Prime) lo hi
  else ((patterns i).map (fun ds => countIn (fun p => p + span ds ≤ stop ∧ tupletAt ds p) lo hi)).sum

theorem kindCount_eq_P (i lo hi : Nat) : kindCount i lo hi = kindCountP i lo hi hi := by
  unfold kindCount kindCountP
  split
  · unfold primeCount
    apply countIn_congr
    intro x _ hx
    exact ⟨fun h => ⟨hx, h⟩, fun h => h.2⟩
  · rfl

theorem kindCountP_split (i start stop : Nat) :
    kindCountP i start stop stop = kindCountP i start 6 stop + kindCountP i (max start 7) stop stop := by
  unfold kindCountP
  split
  · exact countIn_split6 (fun x h => h.1)
  · rw [← sum_map_add']
    congr 1
    apply List.map_congr_left
    intro ds _
    exact countIn_split6 (fun x h => by omega)

theorem not_prime_zero' : ¬ Nat.Prime 0 := by norm_num
theorem small_prime_facts :
    ¬ Nat.Prime 0 ∧ ¬ Nat.Prime 1 ∧ Nat.Prime 2 ∧ Nat.Prime 3 ∧ ¬ Nat.Prime 4 ∧ Nat.Prime 5 ∧ ¬ Nat.Prime 6 ∧
    Nat.Prime 7 ∧ ¬ Nat.Prime 8 ∧ ¬ Nat.Prime 9 ∧ ¬ Nat.Prime 10 ∧ Nat.Prime 11 ∧ ¬ Nat.Prime 12 ∧ Nat.Prime 13 ∧
    ¬ Nat.Prime 14 ∧ ¬ Nat.Prime 15 ∧ ¬ Nat.Prime 16 ∧ Nat.Prime 17 ∧ ¬ Nat.Prime 18 ∧ Nat.Prime 19 ∧
    ¬ Nat.Prime 20 ∧ ¬ Nat.Prime 21 ∧ ¬ Nat.Prime 22 := by norm_num

theorem smallCounts_spec (start stop flags i : Nat) (hi : i < 6) (hf : isFlag flags (2 ^ i) = true) :
    (if start ≤ 5 then smallCounts start stop flags else List.replicate 6 0).getD i 0 =
      kindCountP i start 6 stop := by
  obtain ⟨p0, p1, p2, p3, p4, p5, p6, p7, p8, p9, p10, p11, p12, p13, p14, p15, p16, p17, p18, p19, p20, p21, p22⟩ :=
    small_prime_facts
  have h6 : i = 0 ∨ i = 1 ∨ i = 2 ∨ i = 3 ∨ i = 4 ∨ i = 5 := by omega
  rcases h6 with rfl | rfl | rfl | rfl | rfl | rfl
  · unfold kindCountP
    simp only [if_true]
    rw [countIn_le6]
    simp [p0, p1, p2, p3, p4, p5, p6]
    by_cases hs : start ≤ 5
    · have hf' : isFlag flags 1 = true := by simpa using hf
      simp [hs, smallCounts, Gen.psSmallPrimes, List.filter_cons, hf', List.range_succ]
      split_ifs <;> simp
    · have h1 : ¬ start ≤ 2 := by omega
      have h2 : ¬ start ≤ 3 := by omega
      simp [hs, h1, h2]
  all_goals
    unfold kindCountP
    simp only [patterns, List.map_cons, List.map_nil, List.sum_cons, List.sum_nil]
    simp only [countIn_le6]
    simp [tupletAt, span, p0, p1, p2, p3, p4, p5, p6, p7, p8, p9, p10, p11, p12, p13, p14, p15, p16, p17,
      p18, p19, p20, p21, p22]
    by_cases hs : start ≤ 5
    · have hf' := hf
      simp at hf'
      simp [hs, smallCounts, Gen.psSmallPrimes, List.filter_cons, hf', List.range_succ]
      try (split_ifs <;> simp)
    · have h1 : ¬ start ≤ 2 := by omega
      have h2 : ¬ start ≤ 3 := by omega
      simp [hs, h1, h2]

theorem getD_zipWith_add (a b : List Nat) (i : Nat) (ha : i < a.length) (hb : i < b.length) :
    (List.zipWith (· + ·) a b).getD i 0 = a.getD i 0 + b.getD i 0 := by
  simp [List.getD_eq_getElem?_getD, List.getElem?_zipWith, List.getElem?_eq_getElem ha,
    List.getElem?_eq_getElem hb]

theorem smallCounts_length (start stop flags : Nat) : (smallCounts start stop flags).length = 6 := by
  simp [smallCounts]

theorem sieveCounts_length (isP : Nat → Bool) (start stop flags : Nat) :
    (sieveCounts isP start stop flags).length = 6 := by
  unfold sieveCounts; split <;> simp

theorem kindCount_empty (i : Nat) {lo hi : Nat} (h : hi < lo) : kindCount i lo hi = 0 := by
  unfold kindCount
  split
  · exact countIn_empty _ h
  · have : ∀ ds ∈ patterns i, tupletCount ds lo hi = 0 := fun ds _ => countIn_empty _ h
    rw [List.map_congr_left this]
    simp

theorem replicate_getD (i : Nat) (hi : i < 6) : (List.replicate 6 0).getD i 0 = 0 := by
  have h6 : i = 0 ∨ i = 1 ∨ i = 2 ∨ i = 3 ∨ i = 4 ∨ i = 5 := by omega
  rcases h6 with rfl | rfl | rfl | rfl | rfl | rfl <;> rfl

/-- **PrimeSieve::sieve, counting**: counter i of a single-threaded run over the ideal sieve is
    the number of primes (i = 0) / constellations of kind i in [start, stop] -/
theorem primeSieveCounts_spec {isP : Nat → Bool} (hP : ∀ n, isP n = true ↔ n.Prime)
    (start stop flags i : Nat) (hi : i < 6) (hf : isFlag flags (2 ^ i) = true) :
    (primeSieveCounts isP start stop flags).getD i 0 = kindCount i start stop := by
  unfold primeSieveCounts
  split
  · rename_i h
    rw [replicate_getD i hi, kindCount_empty i h]
  · simp only
    rw [getD_zipWith_add _ _ _ (by split <;> simp [smallCounts_length, hi])
      (by split <;> simp [sieveCounts_length, hi])]
    rw [smallCounts_spec start stop flags i hi hf, kindCount_eq_P i start stop, kindCountP_split]
    congr 1
    rw [← kindCount_eq_P]
    split
    · exact sieveCounts_spec hP start stop flags i hi hf
    · rename_i h7
      rw [replicate_getD i hi, kindCount_empty]
      omega

theorem primeSieveCounts_length (isP : Nat → Bool) (start stop flags : Nat) :
    (primeSieveCounts isP start stop flags).length = 6 := by
  unfold primeSieveCounts
  split
  · simp
  · simp only [List.length_zipWith]
    have h1 : (if start ≤ 5 then smallCounts start stop flags else List.replicate 6 0).length = 6 := by
      split <;> simp [smallCounts_length]
    have h2 : (if stop ≥ 7 then sieveCounts isP start stop flags else List.replicate 6 0).length = 6 := by
      split <;> simp [sieveCounts_length]
    rw [h1, h2]; rfl

theorem foldl_counts (f : Nat × Nat → Counts) (hf : ∀ p, (f p).length = 6) (l : List (Nat × Nat))
    (acc : Counts) (hacc : acc.length = 6) (i : Nat) (hi : i < 6) :
    (l.foldl (fun acc p => List.zipWith (· + ·) acc (f p)) acc).length = 6 ∧
    (l.foldl (fun acc p => List.zipWith (· + ·) acc (f p)) acc).getD i 0 =
      acc.getD i 0 + (l.map (fun p => (f p).getD i 0)).sum := by
  induction l generalizing acc with
  | nil => simp [hacc]
  | cons p l ih =>
    simp only [List.foldl_cons, List.map_cons, List.sum_cons]
    have hl : (List.zipWith (· + ·) acc (f p)).length = 6 := by simp [hacc, hf p]
    obtain ⟨h1, h2⟩ := ih _ hl
    refine ⟨h1, ?_⟩
    rw [h2, getD_zipWith_add _ _ _ (by omega) (by rw [hf p]; exact hi)]
    omega

theorem kindCount_split (i : Nat) (hi : i < 6) {lo b hi' : Nat} (hb : b % 30 = 2 ∧ 32 ≤ b)
    (h1 : lo ≤ b + 1) (h2 : b ≤ hi') :
    kindCount i lo b + kindCount i (b + 1) hi' = kindCount i lo hi' := by
  unfold kindCount
  split
  · exact countIn_split _ h1 h2
  · rw [← sum_map_add']
    congr 1
    apply List.map_congr_left
    intro ds hds
    exact tupletCount_split (patterns_sub i ds hds) h1 h2 hb.1 hb.2

theorem sumPieces_kindCount (i : Nat) (hi : i < 6) {start stop td : Nat} (hlt : start < stop)
    (htd30 : td % 30 = 0) (htd : 30 ≤ td) :
    sumPieces (kindCount i) start stop td (numPieces start stop td) = kindCount i start stop := by
  have hN : numPieces start stop td = (numPieces start stop td - 1) + 1 :=
    (Nat.sub_add_cancel (Nat.succ_pos _)).symm
  rw [hN, sumPieces_eq (kindCount i) start stop td (Nat.le_of_lt hlt) htd30 htd ?_, pieceN_last hlt (by omega)]
  intro b h' hb h1 h2 h3
  rcases hb with hb | hb
  · subst hb
    have : h' = b := by omega
    subst this
    rw [kindCount_empty i (show h' < h' + 1 by omega)]; rfl
  · exact kindCount_split i hi hb h1 h2

theorem sumPieces_eq_list (f : Nat → Nat → Nat) (start stop td k : Nat) :
    sumPieces f start stop td k =
      ((List.range k).map (fun j => f (pieceN start stop td j).1 (pieceN start stop td j).2)).sum := by
  induction k with
  | zero => rfl
  | succ k ih => rw [sumPieces, ih, List.range_succ, List.map_append, List.sum_append]; simp

/-- **ParallelSieve::sieve, counting** -/
theorem parallelCounts_spec {isP : Nat → Bool} (hP : ∀ n, isP n = true ↔ n.Prime)
    (start stop flags numThreads minDist i : Nat) (hi : i < 6) (hf : isFlag flags (2 ^ i) = true)
    (hs : stop ≤ umax)
    (htdu : getThreadDistance start stop (idealNumThreads start stop numThreads minDist) minDist ≤ umax)
    (hnw : ∀ k, k < numPieces start stop
        (getThreadDistance start stop (idealNumThreads start stop numThreads minDist) minDist) →
      stop < umax ∨ start + getThreadDistance start stop (idealNumThreads start stop numThreads minDist) minDist * k
        + 32 < stop ∨ k = 0) :
    (parallelCounts isP start stop flags numThreads minDist).getD i 0 = kindCount i start stop := by
  unfold parallelCounts
  split
  · rename_i h
    rw [replicate_getD i hi, kindCount_empty i h]
  · rename_i h
    simp only
    split
    · exact primeSieveCounts_spec hP start stop flags i hi hf
    · rename_i hth
      generalize htd : getThreadDistance start stop (idealNumThreads start stop numThreads minDist) minDist = td at *
      have hshape : td % 30 = 0 ∧ 30 ≤ td := by
        rw [← htd]; unfold getThreadDistance; simp only; omega
      have hlt : start < stop := by
        by_contra hc
        have : start = stop := by omega
        subst this
        apply hth
        simp [idealNumThreads, inBetween]
      have hpieces : pieces start stop td = (List.range (numPieces start stop td)).map (pieceN start stop td) := by
        unfold pieces
        apply List.map_congr_left
        intro k hk
        exact piece_eq_pieceN hlt hs (by omega) htdu (List.mem_range.1 hk) (hnw k (List.mem_range.1 hk))
      rw [hpieces]
      obtain ⟨_, h2⟩ := foldl_counts (fun p => primeSieveCounts isP p.1 p.2 flags)
        (fun p => primeSieveCounts_length isP p.1 p.2 flags)
        ((List.range (numPieces start stop td)).map (pieceN start stop td)) (List.replicate 6 0) (by simp) i hi
      rw [h2, replicate_getD i hi, Nat.zero_add, List.map_map, ← sumPieces_kindCount i hi hlt hshape.1 hshape.2,
        sumPieces_eq_list]
      congr 1
      apply List.map_congr_left
      intro k _
      exact primeSieveCounts_spec hP _ _ flags i hi hf

theorem primesIn_split {a m b : Nat} (h1 : a ≤ m + 1) (h2 : m ≤ b) :
    primesIn a b = primesIn a m ++ primesIn (m + 1) b := by
  unfold primesIn primesHO
  obtain ⟨k1, hk1⟩ : ∃ k, m + 1 = a + k := ⟨m + 1 - a, by omega⟩
  obtain ⟨k2, hk2⟩ : ∃ k, b + 1 = a + k1 + k := ⟨b + 1 - (a + k1), by omega⟩
  have e1 : m + 1 - a = k1 := by omega
  have e2 : b + 1 - (m + 1) = k2 := by omega
  have e3 : b + 1 - a = k1 + k2 := by omega
  rw [e1, e2, e3, hk1, ← List.range'_append_1, List.filter_append]

theorem primesIn_small : ∀ start ≤ 6, primesIn start 6 = [2, 3, 5].filter (fun p => decide (start ≤ p)) := by
  decide

theorem primesIn_small2 : ∀ stop < 7, ∀ start ≤ stop,
    (primesIn start stop).map toString = smallLines start stop 64 := by
  decide

theorem smallLines_primes (start stop : Nat) (hs : start ≤ 5) (h7 : 7 ≤ stop) :
    smallLines start stop 64 = (primesIn start 6).map toString := by
  rw [primesIn_small start (by omega)]
  have h2 : 2 ≤ stop := by omega
  have h3 : 3 ≤ stop := by omega
  have h5 : 5 ≤ stop := by omega
  interval_cases start <;> simp [smallLines, Gen.psSmallPrimes, isFlag, h2, h3, h5] <;> decide

/-- **print_primes** -/
theorem primeSievePrint_primes {isP : Nat → Bool} (hP : ∀ n, isP n = true ↔ n.Prime) (start stop : Nat) :
    primeSievePrint isP start stop 64 = (primesIn start stop).map toString := by
  unfold primeSievePrint
  split
  · rename_i h; rw [primesIn_empty h]; rfl
  · rename_i hle
    have hflag : isFlag 64 64 = true := by decide
    simp only [hflag, if_true]
    by_cases h7 : 7 ≤ stop
    · simp only [ge_iff_le, h7, if_true]
      rw [sievePrimeNumbers_eq hP]
      by_cases hs : start ≤ 5
      · simp only [hs, if_true]
        have e : primesIn start stop = primesIn start 6 ++ primesIn 7 stop :=
          primesIn_split (by omega) (by omega)
        have e7 : max start 7 = 7 := by omega
        rw [smallLines_primes start stop hs h7, e, e7, List.map_append]
      · simp only [hs, if_false, List.nil_append]
        by_cases h6 : start = 6
        · subst h6
          have e : primesIn 6 stop = primesIn 6 6 ++ primesIn 7 stop := primesIn_split (by omega) (by omega)
          have : primesIn 6 6 = [] := by decide
          rw [e, this]; rfl
        · congr 2; omega
    · simp only [ge_iff_le, h7, if_false, List.append_nil]
      by_cases hs : start ≤ 5
      · simp only [hs, if_true]
        exact (primesIn_small2 stop (by omega) start (by omega)).symm
      · have : start = 6 ∧ stop = 6 := by omega
        obtain ⟨rfl, rfl⟩ := this
        decide


/-- **print_twins … print_sextuplets**, intervals starting at 7 or above (the five small
    constellations are printed from the table rows, see `smallRows_strings`) -/
theorem primeSievePrint_tuplets {isP : Nat → Bool} (hP : ∀ n, isP n = true ↔ n.Prime) (start stop kind : Nat)
    (hk1 : 1 ≤ kind) (hk6 : kind < 6) (h7 : 7 ≤ start) :
    primeSievePrint isP start stop (64 * 2 ^ kind) = (tupletList kind start stop).map tupleStr := by
  unfold primeSievePrint
  split
  · rename_i h; rw [tupletList_empty kind h]; rfl
  · rename_i hle
    have hs : ¬ start ≤ 5 := by omega
    have h7' : stop ≥ 7 := by omega
    have hk : kind = 1 ∨ kind = 2 ∨ kind = 3 ∨ kind = 4 ∨ kind = 5 := by omega
    have hflag : isFlag (64 * 2 ^ kind) 64 = false := by
      rcases hk with rfl | rfl | rfl | rfl | rfl <;> decide
    have hpk : printKind (64 * 2 ^ kind) = kind := by
      rcases hk with rfl | rfl | rfl | rfl | rfl <;> decide
    simp only [hs, h7', hflag, hpk, if_true, if_false, List.nil_append, Bool.false_eq_true]
    rw [if_pos hk1, sieveTuplets_eq hP start stop kind hk1 hk6, Nat.max_eq_left h7]

/-- the strings of the small-constellation rows are the rendering of their members, and the
    members are the constellation of the row's kind starting at `first` -/
theorem smallRows_strings :
    Gen.psSmallPrimes.map (fun r => r.2.2.2) =
      ["2", "3", "5", tupleStr [3, 5], tupleStr [5, 7], tupleStr [5, 7, 11], tupleStr [5, 7, 11, 13],
       tupleStr [5, 7, 11, 13, 17]] := by decide

end Ps
