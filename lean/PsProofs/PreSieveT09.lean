/-
  PsProofs.PreSieveT09 — table 9 of PreSieveTables.hpp (regenerated, 8777 bytes) equals the table its
  generator program describes for the primes [67, 131]: kernel-checked, every byte.
-/
import PsModel.PreSieve
import PsModel.Generated.PreSieve09

namespace Ps.PreSieve

theorem table09_spec : Gen.preSieve09 = specNat (Gen.preSievePrimes.getD 9 []) Gen.preSieve09Len 0 ∧
    Gen.preSieve09Len = (Gen.preSievePrimes.getD 9 []).foldl (· * ·) 1 := by
  constructor <;> decide +kernel

end Ps.PreSieve
