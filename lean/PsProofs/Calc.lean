/-
  PsProofs.Calc — the checked arithmetic of calculator.hpp computes the exact integer result or
  reports overflow; the bounded parser refines the same parser over unbounded integers.
-/
import PsModel.Calculator
import Mathlib.Tactic.SplitIfs

namespace Ps.Calc


theorem checkedAdd_spec (t : Ty) (x y : Int) (hx : t.InR x) (hy : t.InR y) :
    checkedAdd t x y = if t.InR (x + y) then .ok (x + y) else .error .overflow := by
  unfold checkedAdd Ty.InR at *
  by_cases h : y > 0
  · simp only [h, if_true]
    by_cases h2 : x > t.max - y
    · have : ¬ (t.min ≤ x + y ∧ x + y ≤ t.max) := by omega
      simp [h2, this]
    · have : (t.min ≤ x + y ∧ x + y ≤ t.max) := by omega
      simp [h2, this]
  · simp only [h, if_false]
    by_cases h2 : x < t.min - y
    · have : ¬ (t.min ≤ x + y ∧ x + y ≤ t.max) := by omega
      simp [h2, this]
    · have : (t.min ≤ x + y ∧ x + y ≤ t.max) := by omega
      simp [h2, this]

theorem checkedSub_spec (t : Ty) (x y : Int) (hx : t.InR x) (hy : t.InR y) :
    checkedSub t x y = if t.InR (x - y) then .ok (x - y) else .error .overflow := by
  unfold checkedSub Ty.InR at *
  by_cases h : y > 0
  · simp only [h, if_true]
    by_cases h2 : x < t.min + y
    · have : ¬ (t.min ≤ x - y ∧ x - y ≤ t.max) := by omega
      simp [h2, this]
    · have : (t.min ≤ x - y ∧ x - y ≤ t.max) := by omega
      simp [h2, this]
  · simp only [h, if_false]
    by_cases h2 : x > t.max + y
    · have : ¬ (t.min ≤ x - y ∧ x - y ≤ t.max) := by omega
      simp [h2, this]
    · have : (t.min ≤ x - y ∧ x - y ≤ t.max) := by omega
      simp [h2, this]

/-- unsigned multiplication: exact product or overflow -/
theorem checkedMul_spec_unsigned (t : Ty) (ht : t.min = 0) (hm : 0 ≤ t.max) (x y : Int) (hx : t.InR x) (hy : t.InR y) :
    checkedMul t x y = if t.InR (x * y) then .ok (x * y) else .error .overflow := by
  unfold checkedMul Ty.InR at *
  simp only [ht] at hx hy ⊢
  by_cases h0 : x = 0 ∨ y = 0
  · have : x * y = 0 := by rcases h0 with h | h <;> simp [h]
    simp [h0, this, hm]
  · have hx0 : x > 0 := by omega
    have hy0 : y > 0 := by omega
    simp only [h0, if_false, hx0, hy0, if_true]
    have hp : 0 ≤ x * y := Int.mul_nonneg (by omega) (by omega)
    rw [Int.tdiv_eq_ediv_of_nonneg hm]
    have key : t.max / y < x ↔ t.max < x * y := Int.ediv_lt_iff_lt_mul hy0
    by_cases h2 : x > t.max / y
    · have : ¬ (0 ≤ x * y ∧ x * y ≤ t.max) := by have := key.mp h2; omega
      simp [h2, this]
    · have : (0 ≤ x * y ∧ x * y ≤ t.max) := by
        refine ⟨hp, ?_⟩
        have : ¬ t.max < x * y := fun h => h2 (key.mpr h)
        omega
      simp [h2, this]

theorem tdiv_key {a b c : Int} (ha : 0 ≤ a) (hb : 0 < b) : a.tdiv b < c ↔ a < c * b := by
  rw [Int.tdiv_eq_ediv_of_nonneg ha]; exact Int.ediv_lt_iff_lt_mul hb

/-- multiplication at any type with min ≤ 0 ≤ max: exact product or overflow -/
theorem checkedMul_spec (t : Ty) (hmin : t.min ≤ 0) (hmax : 0 ≤ t.max) (x y : Int) :
    checkedMul t x y = if t.InR (x * y) then .ok (x * y) else .error .overflow := by
  unfold checkedMul Ty.InR
  by_cases h0 : x = 0 ∨ y = 0
  · have : x * y = 0 := by rcases h0 with h | h <;> simp [h]
    simp [h0, this, hmin, hmax]
  · simp only [h0, if_false]
    have hx : x ≠ 0 := fun h => h0 (Or.inl h)
    have hy : y ≠ 0 := fun h => h0 (Or.inr h)
    by_cases hxp : x > 0
    · by_cases hyp : y > 0
      · simp only [hxp, hyp, if_true]
        have hp : 0 < x * y := Int.mul_pos hxp hyp
        have key : t.max.tdiv y < x ↔ t.max < x * y := tdiv_key hmax hyp
        by_cases h2 : x > t.max.tdiv y
        · have := key.mp h2
          have h3 : ¬ (t.min ≤ x * y ∧ x * y ≤ t.max) := by omega
          simp [h2, h3]
        · have : ¬ t.max < x * y := fun h => h2 (key.mpr h)
          have h3 : (t.min ≤ x * y ∧ x * y ≤ t.max) := by omega
          simp [h2, h3]
      · have hyn : y < 0 := by omega
        simp only [hxp, hyp, if_true, if_false]
        have hp : x * y < 0 := Int.mul_neg_of_pos_of_neg hxp hyn
        -- min.tdiv x = -((-min).tdiv x)
        have e : t.min.tdiv x = -((-t.min).tdiv x) := by rw [Int.neg_tdiv, Int.neg_neg]
        have key : (-t.min).tdiv x < -y ↔ -t.min < (-y) * x := tdiv_key (by omega) hxp
        have e2 : (-y) * x = -(x * y) := by rw [Int.neg_mul, Int.mul_comm]
        by_cases h2 : y < t.min.tdiv x
        · have : (-t.min).tdiv x < -y := by omega
          have := key.mp this
          have h3 : ¬ (t.min ≤ x * y ∧ x * y ≤ t.max) := by omega
          simp [h2, h3]
        · have : ¬ (-t.min).tdiv x < -y := by omega
          have : ¬ -t.min < (-y) * x := fun h => this (key.mpr h)
          have h3 : (t.min ≤ x * y ∧ x * y ≤ t.max) := by omega
          simp [h2, h3]
    · have hxn : x < 0 := by omega
      by_cases hyp : y > 0
      · simp only [hxp, hyp, if_true, if_false]
        have hp : x * y < 0 := Int.mul_neg_of_neg_of_pos hxn hyp
        have e : t.min.tdiv y = -((-t.min).tdiv y) := by rw [Int.neg_tdiv, Int.neg_neg]
        have key : (-t.min).tdiv y < -x ↔ -t.min < (-x) * y := tdiv_key (by omega) hyp
        have e2 : (-x) * y = -(x * y) := Int.neg_mul x y
        by_cases h2 : x < t.min.tdiv y
        · have : (-t.min).tdiv y < -x := by omega
          have := key.mp this
          have h3 : ¬ (t.min ≤ x * y ∧ x * y ≤ t.max) := by omega
          simp [h2, h3]
        · have : ¬ (-t.min).tdiv y < -x := by omega
          have : ¬ -t.min < (-x) * y := fun h => this (key.mpr h)
          have h3 : (t.min ≤ x * y ∧ x * y ≤ t.max) := by omega
          simp [h2, h3]
      · have hyn : y < 0 := by omega
        simp only [hxp, hyp, if_false]
        have hp : 0 < x * y := Int.mul_pos_of_neg_of_neg hxn hyn
        -- max.tdiv y = -(max.tdiv (-y))
        have e : t.max.tdiv y = -(t.max.tdiv (-y)) := by
          have : y = -(-y) := by omega
          rw [this, Int.tdiv_neg, Int.neg_neg]
        have key : t.max.tdiv (-y) < -x ↔ t.max < (-x) * (-y) := tdiv_key hmax (by omega)
        have e2 : (-x) * (-y) = x * y := Int.neg_mul_neg x y
        by_cases h2 : x < t.max.tdiv y
        · have : t.max.tdiv (-y) < -x := by omega
          have := key.mp this
          have h3 : ¬ (t.min ≤ x * y ∧ x * y ≤ t.max) := by omega
          simp [h2, h3]
        · have : ¬ t.max.tdiv (-y) < -x := by omega
          have : ¬ t.max < (-x) * (-y) := fun h => this (key.mpr h)
          have h3 : (t.min ≤ x * y ∧ x * y ≤ t.max) := by omega
          simp [h2, h3]

/-! ### refinement: a parser over arithmetic `A` is simulated by the parser over arithmetic `B` -/

/-- `B` simulates `A` on values satisfying `P` (and `P` is preserved) -/
structure Sim (A B : Arith) (P : Int → Prop) : Prop where
  add : ∀ x y v, P x → P y → A.add x y = .ok v → B.add x y = .ok v ∧ P v
  sub : ∀ x y v, P x → P y → A.sub x y = .ok v → B.sub x y = .ok v ∧ P v
  mul : ∀ x y v, P x → P y → A.mul x y = .ok v → B.mul x y = .ok v ∧ P v
  div : ∀ x y v, P x → P y → y ≠ 0 → A.div x y = .ok v → B.div x y = .ok v ∧ P v
  mod : ∀ x y v, P x → P y → y ≠ 0 → A.mod x y = .ok v → B.mod x y = .ok v ∧ P v
  shl : ∀ x y v, P x → P y → A.shl x y = .ok v → B.shl x y = .ok v ∧ P v
  shr : ∀ x y v, P x → P y → A.shr x y = .ok v → B.shr x y = .ok v ∧ P v
  compl : ∀ x, P x → A.compl x = B.compl x ∧ P (A.compl x)
  lor : ∀ x y, P x → P y → A.lor x y = B.lor x y ∧ P (A.lor x y)
  land : ∀ x y, P x → P y → A.land x y = B.land x y ∧ P (A.land x y)
  small : ∀ n : Nat, n ≤ 16 → P n

variable {A B : Arith} {P : Int → Prop}

theorem bind_ok {α β : Type} {e : Except CErr α} {f : α → Except CErr β} {b : β}
    (h : (e >>= f) = .ok b) : ∃ a, e = .ok a ∧ f a = .ok b := by
  cases e with
  | error err => simp [bind, Except.bind] at h
  | ok a => exact ⟨a, rfl, h⟩

theorem powLoop_sim (S : Sim A B P) : ∀ fuel x n res v, P x → P res →
    powLoop A fuel x n res = .ok v → powLoop B fuel x n res = .ok v ∧ P v := by
  intro fuel
  induction fuel with
  | zero => intro x n res v _ hr h; simp [powLoop] at h ⊢; exact ⟨h, h ▸ hr⟩
  | succ fuel ih =>
    intro x n res v hx hr h
    unfold powLoop at h ⊢
    by_cases hn : n > 0
    · simp only [hn, if_true] at h ⊢
      obtain ⟨res', h1, h⟩ := bind_ok h
      obtain ⟨x', h2, h⟩ := bind_ok h
      have hres' : (if n % 2 ≠ 0 then B.mul res x else .ok res) = .ok res' ∧ P res' := by
        by_cases hodd : n % 2 ≠ 0
        · rw [if_pos hodd] at h1 ⊢; exact S.mul _ _ _ hr hx h1
        · rw [if_neg hodd] at h1 ⊢
          have : res = res' := by injection h1
          exact ⟨by rw [this], this ▸ hr⟩
      have hx' : (if (if n % 2 ≠ 0 then n - 1 else n) / 2 > 0 then B.mul x x else .ok x) = .ok x' ∧ P x' := by
        by_cases hpos : (if n % 2 ≠ 0 then n - 1 else n) / 2 > 0
        · rw [if_pos hpos] at h2 ⊢; exact S.mul _ _ _ hx hx h2
        · rw [if_neg hpos] at h2 ⊢
          have : x = x' := by injection h2
          exact ⟨by rw [this], this ▸ hx⟩
      have := ih _ _ _ _ hx'.2 hres'.2 h
      rw [hres'.1, hx'.1]
      exact this
    · simp only [hn, if_false] at h ⊢
      have : res = v := by injection h
      exact ⟨by rw [this], this ▸ hr⟩

theorem pow_sim (S : Sim A B P) (x n v : Int) (hx : P x) (h : pow A x n = .ok v) :
    pow B x n = .ok v ∧ P v := by
  unfold pow at *
  exact powLoop_sim S _ _ _ _ _ hx (by simpa using S.small 1 (by omega)) h

theorem calculate_sim (S : Sim A B P) (v1 v2 v : Int) (o : Op) (h1 : P v1) (h2 : P v2)
    (h : calculate A v1 v2 o = .ok v) : calculate B v1 v2 o = .ok v ∧ P v := by
  cases o <;> simp only [calculate] at h ⊢
  · injection h with h; subst h; exact ⟨rfl, by simpa using S.small 0 (by omega)⟩
  · injection h with h; subst h; have := S.lor v1 v2 h1 h2; exact ⟨by rw [this.1], this.2⟩
  · injection h with h; subst h; have := S.land v1 v2 h1 h2; exact ⟨by rw [this.1], this.2⟩
  · exact S.shl _ _ _ h1 h2 h
  · exact S.shr _ _ _ h1 h2 h
  · exact S.add _ _ _ h1 h2 h
  · exact S.sub _ _ _ h1 h2 h
  · exact S.mul _ _ _ h1 h2 h
  · by_cases hz : v2 = 0
    · simp [hz] at h
    · simp only [hz, if_false] at h ⊢; exact S.div _ _ _ h1 h2 hz h
  · by_cases hz : v2 = 0
    · simp [hz] at h
    · simp only [hz, if_false] at h ⊢; exact S.mod _ _ _ h1 h2 hz h
  · exact pow_sim S _ _ _ h1 h
  · obtain ⟨p, hp, h⟩ := bind_ok h
    have h10 : P 10 := by simpa using S.small 10 (by omega)
    have := pow_sim S _ _ _ h10 hp
    rw [this.1]
    exact S.mul _ _ _ h1 this.2 h

theorem digitLoop_sim (S : Sim A B P) (s : Str) (base : Nat) (hb : base ≤ 16) : ∀ fuel i v r, P v →
    digitLoop A s base fuel i v = .ok r → digitLoop B s base fuel i v = .ok r ∧ P r.1 := by
  intro fuel
  induction fuel with
  | zero => intro i v r hv h; simp [digitLoop] at h ⊢; exact ⟨h, h ▸ hv⟩
  | succ fuel ih =>
    intro i v r hv h
    unfold digitLoop at h ⊢
    by_cases hd : toInteger (getCh s i) < base
    · simp only [hd, if_true] at h ⊢
      obtain ⟨m, hm, h⟩ := bind_ok h
      obtain ⟨v', hv', h⟩ := bind_ok h
      have hB := S.mul _ _ _ hv (S.small base hb) hm
      have hA := S.add _ _ _ hB.2 (S.small _ (by omega)) hv'
      rw [hB.1]; simp only [bind, Except.bind]; rw [hA.1]
      exact ih _ _ _ hA.2 h
    · simp only [hd, if_false] at h ⊢
      have : (v, i) = r := by injection h
      exact ⟨by rw [this], this ▸ hv⟩

theorem reduce_sim (S : Sim A B P) (op : Operator) : ∀ (stack : List (Operator × Int)) v r,
    (∀ e ∈ stack, P e.2) → P v → reduce A op stack v = .ok r →
    reduce B op stack v = .ok r ∧ (∀ e ∈ r.1, P e.2) ∧ P r.2.1 := by
  intro stack
  induction stack with
  | nil =>
    intro v r _ hv h
    simp only [reduce] at h ⊢
    have : ([], v, true) = r := by injection h
    subst this
    exact ⟨rfl, by simp, hv⟩
  | cons top rest ih =>
    intro v r hs hv h
    obtain ⟨top, tv⟩ := top
    simp only [reduce] at h ⊢
    by_cases hc : op.prec < top.prec ∨ (op.prec = top.prec ∧ op.left)
    · simp only [hc, if_true] at h ⊢
      by_cases hn : top.op = .null
      · simp only [hn, if_true] at h ⊢
        have : (rest, v, true) = r := by injection h
        subst this
        exact ⟨rfl, fun e he => hs e (List.mem_cons_of_mem _ he), hv⟩
      · simp only [hn, if_false] at h ⊢
        obtain ⟨v', hv', h⟩ := bind_ok h
        have hc' := calculate_sim S _ _ _ _ (hs (top, tv) (List.mem_cons_self)) hv hv'
        rw [hc'.1]
        exact ih _ _ (fun e he => hs e (List.mem_cons_of_mem _ he)) hc'.2 h
    · simp only [hc, if_false] at h ⊢
      have : ((top, tv) :: rest, v, false) = r := by injection h
      subst this
      exact ⟨rfl, hs, hv⟩

/-- the three mutually recursive parser functions, simultaneously, by induction on the fuel -/
theorem parse_sim (S : Sim A B P) (s : Str) : ∀ fuel,
    (∀ i r, parseValue A s fuel i = .ok r → parseValue B s fuel i = .ok r ∧ P r.1) ∧
    (∀ i r, parseExpr A s fuel i = .ok r → parseExpr B s fuel i = .ok r ∧ P r.1) ∧
    (∀ stack v i r, (∀ e ∈ stack, P e.2) → P v → exprLoop A s fuel stack v i = .ok r →
      exprLoop B s fuel stack v i = .ok r ∧ P r.1) := by
  intro fuel
  induction fuel with
  | zero =>
    refine ⟨?_, ?_, ?_⟩
    · intro i r h; simp [parseValue] at h
    · intro i r h; simp [parseExpr] at h
    · intro st v i r _ _ h; simp [exprLoop] at h
  | succ fuel ih =>
    obtain ⟨ihV, ihE, ihL⟩ := ih
    have h0 : P 0 := by simpa using S.small 0 (by omega)
    refine ⟨?_, ?_, ?_⟩
    · intro i0 r h
      unfold parseValue at h ⊢
      simp only at h ⊢
      split_ifs at h ⊢ with c1 c2 c3 c4 c5 c6 c7
      · exact digitLoop_sim S s 16 (by omega) _ _ _ _ h0 h
      · exact digitLoop_sim S s 10 (by omega) _ _ _ _ h0 h
      · exact digitLoop_sim S s 10 (by omega) _ _ _ _ h0 h
      · obtain ⟨⟨v, j⟩, he, h⟩ := bind_ok h
        have := ihE _ _ he
        rw [this.1]
        simp only [bind, Except.bind] at h ⊢
        split_ifs at h ⊢
        have : (v, eatSpaces s s.size j + 1) = r := by injection h
        subst this
        exact ⟨rfl, this.2⟩
      · obtain ⟨⟨v, j⟩, he, h⟩ := bind_ok h
        have := ihV _ _ he
        rw [this.1]
        simp only [bind, Except.bind] at h ⊢
        have hc := S.compl v this.2
        have : (A.compl v, j) = r := by injection h
        subst this
        exact ⟨by rw [hc.1], hc.2⟩
      · exact ihV _ _ h
      · obtain ⟨⟨v, j⟩, he, h⟩ := bind_ok h
        have hv := ihV _ _ he
        rw [hv.1]
        obtain ⟨v', hs, h⟩ := bind_ok h
        have hs' := S.sub _ _ _ h0 hv.2 hs
        simp only [bind, Except.bind] at h ⊢
        rw [hs'.1]
        have : (v', j) = r := by injection h
        subst this
        exact ⟨rfl, hs'.2⟩
    · intro i r h
      unfold parseExpr at h ⊢
      obtain ⟨⟨v, j⟩, hv, h⟩ := bind_ok h
      have hv' := ihV _ _ hv
      rw [hv'.1]
      exact ihL _ _ _ _ (by intro e he; simp at he; subst he; exact h0) hv'.2 h
    · intro stack v i r hs hv h
      unfold exprLoop at h ⊢
      obtain ⟨⟨op, j⟩, hop, h⟩ := bind_ok h
      rw [hop]
      obtain ⟨⟨stack', value', fin⟩, hr, h⟩ := bind_ok h
      have hr' := reduce_sim S op _ _ _ hs hv hr
      simp only [bind, Except.bind] at h ⊢
      rw [hr'.1]
      simp only at h ⊢
      by_cases hf : fin = true
      · simp only [hf, if_true] at h ⊢
        have : (value', j) = r := by injection h
        subst this
        exact ⟨rfl, hr'.2.2⟩
      · simp only [hf] at h ⊢
        have h' : (parseValue A s fuel j >>= fun x => exprLoop A s fuel ((op, value') :: stack') x.1 x.2) = .ok r := h
        obtain ⟨⟨v2, k⟩, hv2, h⟩ := bind_ok h'
        have hv2' := ihV _ _ hv2
        show (parseValue B s fuel j >>= fun x => exprLoop B s fuel ((op, value') :: stack') x.1 x.2) = .ok r ∧ _
        rw [hv2'.1]
        refine ihL _ _ _ _ ?_ hv2'.2 h
        intro e he
        rcases List.mem_cons.mp he with rfl | he
        · exact hr'.2.2
        · exact hr'.2.1 e he

theorem eval_sim (S : Sim A B P) (str : String) (v : Int) (h : eval A str = .ok v) :
    eval B str = .ok v ∧ P v := by
  unfold eval at h ⊢
  simp only at h ⊢
  obtain ⟨⟨v', i⟩, hp, h⟩ := bind_ok h
  have := (parse_sim S _ _).2.1 _ _ hp
  rw [this.1]
  simp only [bind, Except.bind] at h ⊢
  split_ifs at h ⊢
  have : v' = v := by injection h
  subst this
  exact ⟨rfl, this.2⟩

/-! ### the instance: uint64_t arithmetic refines exact integer arithmetic -/


theorem u64_InR (z : Int) : u64.InR z ↔ 0 ≤ z ∧ z ≤ 18446744073709551615 := Iff.rfl

theorem u64_min : u64.min = 0 := rfl
theorem u64_max : u64.max = 18446744073709551615 := rfl

theorem ok_of_spec {t : Ty} {z v : Int} (h : (if t.InR z then (Except.ok z : Except CErr Int) else .error .overflow) = .ok v) :
    z = v ∧ t.InR v := by
  by_cases hz : t.InR z
  · rw [if_pos hz] at h; injection h with h; exact ⟨h, h ▸ hz⟩
  · rw [if_neg hz] at h; cases h

theorem natAbs_le_of_nonneg {a b : Int} (ha : 0 ≤ a) (hb : 0 ≤ b) (h : a.natAbs ≤ b.natAbs) : a ≤ b := by omega

theorem sim_u64 : Sim (Arith.ofTy u64) (Arith.exact u64) u64.InR where
  add := fun x y v hx hy h => by
    have h' : checkedAdd u64 x y = .ok v := h
    rw [checkedAdd_spec u64 x y hx hy] at h'
    have := ok_of_spec h'
    exact ⟨by show Except.ok (x + y) = _; rw [this.1], this.2⟩
  sub := fun x y v hx hy h => by
    have h' : checkedSub u64 x y = .ok v := h
    rw [checkedSub_spec u64 x y hx hy] at h'
    have := ok_of_spec h'
    exact ⟨by show Except.ok (x - y) = _; rw [this.1], this.2⟩
  mul := fun x y v _ _ h => by
    have h' : checkedMul u64 x y = .ok v := h
    rw [checkedMul_spec u64 (by decide) (by decide) x y] at h'
    have := ok_of_spec h'
    exact ⟨by show Except.ok (x * y) = _; rw [this.1], this.2⟩
  div := fun x y v hx hy hy0 h => by
    have hyn : ¬ y < 0 := by have := ((u64_InR y).mp hy).1; omega
    have h' : checkedDiv u64 x y = .ok v := h
    unfold checkedDiv at h'
    simp only [hyn, false_and, if_false] at h'
    injection h' with h'
    refine ⟨by show Except.ok (x.tdiv y) = _; rw [h'], ?_⟩
    subst h'
    have h1 : 0 ≤ x := hx.1
    have h2 : 0 ≤ y := hy.1
    exact ⟨Int.tdiv_nonneg h1 h2, Int.le_trans (Int.tdiv_le_self y h1) hx.2⟩
  mod := fun x y v hx hy hy0 h => by
    have hyn : ¬ y < 0 := by have := ((u64_InR y).mp hy).1; omega
    have h' : checkedMod u64 x y = .ok v := h
    unfold checkedMod at h'
    simp only [hyn, false_and, if_false] at h'
    injection h' with h'
    refine ⟨by show Except.ok (x.tmod y) = _; rw [h'], ?_⟩
    subst h'
    have h1 : 0 ≤ x := hx.1
    have hn := Int.tmod_nonneg y h1
    refine ⟨hn, Int.le_trans (natAbs_le_of_nonneg hn h1 ?_) hx.2⟩
    rw [Int.natAbs_tmod]; exact Nat.mod_le _ _
  shl := fun x n v hx hn h => by
    have h' : checkedShift u64 x n true = .ok v := h
    unfold checkedShift at h'
    show (if n < 0 ∨ n ≥ ((u64.digits : Nat) : Int) then _ else _) = _ ∧ _
    by_cases hc : n < 0 ∨ n ≥ ((u64.digits : Nat) : Int)
    · rw [if_pos hc] at h'; cases h'
    · rw [if_neg hc] at h' ⊢
      simp only [Bool.not_true, Bool.false_eq_true, if_false] at h'
      by_cases hc2 : x < 0 ∨ x > u64.max >>> n.toNat
      · rw [if_pos hc2] at h'; cases h'
      · rw [if_neg hc2] at h'
        injection h' with h'
        rw [Int.shiftLeft_eq] at h'
        refine ⟨by rw [h'], ?_⟩
        subst h'
        have hx0 : 0 ≤ x := hx.1
        have hle : x ≤ u64.max >>> n.toNat := by omega
        rw [Int.shiftRight_eq_div_pow] at hle
        have hpos : (0 : Int) < ((2 ^ n.toNat : Nat) : Int) := by
          have := Nat.pow_pos (n := n.toNat) (show 0 < 2 by decide)
          omega
        have := (Int.le_ediv_iff_mul_le hpos).mp hle
        refine ⟨Int.mul_nonneg hx0 (Int.le_of_lt (by simpa using hpos)), ?_⟩
        simpa using this
  shr := fun x n v hx hn h => by
    have h' : checkedShift u64 x n false = .ok v := h
    unfold checkedShift at h'
    show (if n < 0 ∨ n ≥ ((u64.digits : Nat) : Int) then _ else _) = _ ∧ _
    by_cases hc : n < 0 ∨ n ≥ ((u64.digits : Nat) : Int)
    · rw [if_pos hc] at h'; cases h'
    · rw [if_neg hc] at h' ⊢
      simp only [Bool.not_false, if_true] at h'
      injection h' with h'
      rw [Int.shiftRight_eq_div_pow] at h'
      have e : ((2 ^ n.toNat : Nat) : Int) = 2 ^ n.toNat := by simp
      rw [e] at h'
      refine ⟨by rw [h'], ?_⟩
      subst h'
      have hx0 : 0 ≤ x := hx.1
      have hpos : (0 : Int) < 2 ^ n.toNat := Int.pow_pos (by decide)
      exact ⟨Int.ediv_nonneg hx0 (Int.le_of_lt hpos), Int.le_trans (Int.ediv_le_self _ hx0) hx.2⟩
  compl := fun x hx => by
    refine ⟨rfl, ?_⟩
    show u64.InR (complT u64 x)
    unfold complT
    have : ¬ u64.min < 0 := by decide
    rw [if_neg this]
    have h1 := ((u64_InR x).mp hx).1; have h2 := ((u64_InR x).mp hx).2
    rw [u64_max]
    exact (u64_InR _).mpr ⟨by omega, by omega⟩
  lor := fun x y hx hy => by
    refine ⟨rfl, ?_⟩
    show u64.InR (lorT u64 x y)
    unfold lorT ofU
    have : ¬ (u64.min < 0 ∧ toU u64 x ||| toU u64 y ≥ 2 ^ (u64.bits - 1)) := by
      intro h; exact absurd h.1 (by decide)
    rw [if_neg this]
    have hb : ∀ z, toU u64 z < 2 ^ 64 := by
      intro z; unfold toU
      have : (z % (2 ^ u64.bits : Int)) < 2 ^ u64.bits := Int.emod_lt_of_pos _ (Int.pow_pos (by decide))
      have h0 : 0 ≤ (z % (2 ^ u64.bits : Int)) := Int.emod_nonneg _ (Int.ne_of_gt (Int.pow_pos (by decide)))
      have e : u64.bits = 64 := by decide
      rw [e] at this h0 ⊢
      omega
    have := Nat.or_lt_two_pow (hb x) (hb y)
    exact (u64_InR _).mpr ⟨by omega, by omega⟩
  land := fun x y hx hy => by
    refine ⟨rfl, ?_⟩
    show u64.InR (landT u64 x y)
    unfold landT ofU
    have : ¬ (u64.min < 0 ∧ toU u64 x &&& toU u64 y ≥ 2 ^ (u64.bits - 1)) := by
      intro h; exact absurd h.1 (by decide)
    rw [if_neg this]
    have hb : ∀ z, toU u64 z < 2 ^ 64 := by
      intro z; unfold toU
      have : (z % (2 ^ u64.bits : Int)) < 2 ^ u64.bits := Int.emod_lt_of_pos _ (Int.pow_pos (by decide))
      have h0 : 0 ≤ (z % (2 ^ u64.bits : Int)) := Int.emod_nonneg _ (Int.ne_of_gt (Int.pow_pos (by decide)))
      have e : u64.bits = 64 := by decide
      rw [e] at this h0 ⊢
      omega
    have := Nat.and_lt_two_pow (toU u64 x) (hb y)
    exact (u64_InR _).mpr ⟨by omega, by omega⟩
  small := fun n hn => by
    show (0 : Int) ≤ (n : Int) ∧ (n : Int) ≤ 18446744073709551615
    omega



end Ps.Calc
