/-
  PsProofs.PreSieveT02 — table 2 of PreSieveTables.hpp (regenerated, 6409 bytes) equals the table its
  generator program describes for the primes [13, 17, 29]: kernel-checked, every byte.
-/
import PsModel.PreSieve
import PsModel.Generated.PreSieve02

namespace Ps.PreSieve

theorem table02_spec : Gen.preSieve02 = specNat (Gen.preSievePrimes.getD 2 []) Gen.preSieve02Len 0 ∧
    Gen.preSieve02Len = (Gen.preSievePrimes.getD 2 []).foldl (· * ·) 1 := by
  constructor <;> decide +kernel

end Ps.PreSieve
