/-
  PsProofs.PreSieve — what the AND of the 16 pre-sieve tables computes: bit b of the sieve byte at
  offset o of a segment starting at L is 1 iff no prime in 7..163 divides L + 30·o + offs[b].
-/
import PsModel.PreSieveTables
import Mathlib.Tactic.Set
import Mathlib.Tactic.Conv
import Mathlib.Data.Nat.Prime.Basic
import PsProofs.PreSieveT00
import PsProofs.PreSieveT01
import PsProofs.PreSieveT02
import PsProofs.PreSieveT03
import PsProofs.PreSieveT04
import PsProofs.PreSieveT05
import PsProofs.PreSieveT06
import PsProofs.PreSieveT07
import PsProofs.PreSieveT08
import PsProofs.PreSieveT09
import PsProofs.PreSieveT10
import PsProofs.PreSieveT11
import PsProofs.PreSieveT12
import PsProofs.PreSieveT13
import PsProofs.PreSieveT14
import PsProofs.PreSieveT15

namespace Ps.PreSieve


theorem specByte_lt (G : List Nat) (j : Nat) : specByte G j < 256 := by
  unfold specByte
  repeat' split
  all_goals omega

theorem specNat_byte (G : List Nat) : ∀ k n j, k < n → byteAt (specNat G n j) k = specByte G (j + k) := by
  intro k
  induction k with
  | zero =>
    intro n j hn
    obtain ⟨m, rfl⟩ : ∃ m, n = m + 1 := ⟨n - 1, by omega⟩
    have := specByte_lt G j
    simp only [byteAt, specNat, Nat.pow_zero, Nat.div_one, Nat.add_zero]
    omega
  | succ k ih =>
    intro n j hn
    obtain ⟨m, rfl⟩ : ∃ m, n = m + 1 := ⟨n - 1, by omega⟩
    have hb := specByte_lt G j
    have := ih m (j + 1) (by omega)
    unfold byteAt at this ⊢
    simp only [specNat]
    have e : (specByte G j + 256 * specNat G m (j + 1)) / 256 ^ (k + 1) = specNat G m (j + 1) / 256 ^ k := by
      rw [Nat.pow_succ, Nat.mul_comm (256 ^ k) 256, ← Nat.div_div_eq_div_mul]
      congr 1
      omega
    rw [e, this]
    congr 1
    omega

/-- bit b of a table byte is the `keeps` predicate of the number it stands for -/
theorem specByte_testBit (G : List Nat) (j b : Nat) (hb : b < 8) :
    (specByte G j).testBit b = keeps G (30 * j + offs.getD b 0) := by
  have hb' : b = 0 ∨ b = 1 ∨ b = 2 ∨ b = 3 ∨ b = 4 ∨ b = 5 ∨ b = 6 ∨ b = 7 := by omega
  rcases hb' with rfl | rfl | rfl | rfl | rfl | rfl | rfl | rfl
  · show (specByte G j).testBit 0 = keeps G (30 * j + 7)
    unfold specByte
    generalize keeps G (30 * j + 7) = k0
    generalize keeps G (30 * j + 11) = k1
    generalize keeps G (30 * j + 13) = k2
    generalize keeps G (30 * j + 17) = k3
    generalize keeps G (30 * j + 19) = k4
    generalize keeps G (30 * j + 23) = k5
    generalize keeps G (30 * j + 29) = k6
    generalize keeps G (30 * j + 31) = k7
    cases k0 <;> cases k1 <;> cases k2 <;> cases k3 <;> cases k4 <;> cases k5 <;> cases k6 <;> cases k7 <;> rfl
  · show (specByte G j).testBit 1 = keeps G (30 * j + 11)
    unfold specByte
    generalize keeps G (30 * j + 7) = k0
    generalize keeps G (30 * j + 11) = k1
    generalize keeps G (30 * j + 13) = k2
    generalize keeps G (30 * j + 17) = k3
    generalize keeps G (30 * j + 19) = k4
    generalize keeps G (30 * j + 23) = k5
    generalize keeps G (30 * j + 29) = k6
    generalize keeps G (30 * j + 31) = k7
    cases k0 <;> cases k1 <;> cases k2 <;> cases k3 <;> cases k4 <;> cases k5 <;> cases k6 <;> cases k7 <;> rfl
  · show (specByte G j).testBit 2 = keeps G (30 * j + 13)
    unfold specByte
    generalize keeps G (30 * j + 7) = k0
    generalize keeps G (30 * j + 11) = k1
    generalize keeps G (30 * j + 13) = k2
    generalize keeps G (30 * j + 17) = k3
    generalize keeps G (30 * j + 19) = k4
    generalize keeps G (30 * j + 23) = k5
    generalize keeps G (30 * j + 29) = k6
    generalize keeps G (30 * j + 31) = k7
    cases k0 <;> cases k1 <;> cases k2 <;> cases k3 <;> cases k4 <;> cases k5 <;> cases k6 <;> cases k7 <;> rfl
  · show (specByte G j).testBit 3 = keeps G (30 * j + 17)
    unfold specByte
    generalize keeps G (30 * j + 7) = k0
    generalize keeps G (30 * j + 11) = k1
    generalize keeps G (30 * j + 13) = k2
    generalize keeps G (30 * j + 17) = k3
    generalize keeps G (30 * j + 19) = k4
    generalize keeps G (30 * j + 23) = k5
    generalize keeps G (30 * j + 29) = k6
    generalize keeps G (30 * j + 31) = k7
    cases k0 <;> cases k1 <;> cases k2 <;> cases k3 <;> cases k4 <;> cases k5 <;> cases k6 <;> cases k7 <;> rfl
  · show (specByte G j).testBit 4 = keeps G (30 * j + 19)
    unfold specByte
    generalize keeps G (30 * j + 7) = k0
    generalize keeps G (30 * j + 11) = k1
    generalize keeps G (30 * j + 13) = k2
    generalize keeps G (30 * j + 17) = k3
    generalize keeps G (30 * j + 19) = k4
    generalize keeps G (30 * j + 23) = k5
    generalize keeps G (30 * j + 29) = k6
    generalize keeps G (30 * j + 31) = k7
    cases k0 <;> cases k1 <;> cases k2 <;> cases k3 <;> cases k4 <;> cases k5 <;> cases k6 <;> cases k7 <;> rfl
  · show (specByte G j).testBit 5 = keeps G (30 * j + 23)
    unfold specByte
    generalize keeps G (30 * j + 7) = k0
    generalize keeps G (30 * j + 11) = k1
    generalize keeps G (30 * j + 13) = k2
    generalize keeps G (30 * j + 17) = k3
    generalize keeps G (30 * j + 19) = k4
    generalize keeps G (30 * j + 23) = k5
    generalize keeps G (30 * j + 29) = k6
    generalize keeps G (30 * j + 31) = k7
    cases k0 <;> cases k1 <;> cases k2 <;> cases k3 <;> cases k4 <;> cases k5 <;> cases k6 <;> cases k7 <;> rfl
  · show (specByte G j).testBit 6 = keeps G (30 * j + 29)
    unfold specByte
    generalize keeps G (30 * j + 7) = k0
    generalize keeps G (30 * j + 11) = k1
    generalize keeps G (30 * j + 13) = k2
    generalize keeps G (30 * j + 17) = k3
    generalize keeps G (30 * j + 19) = k4
    generalize keeps G (30 * j + 23) = k5
    generalize keeps G (30 * j + 29) = k6
    generalize keeps G (30 * j + 31) = k7
    cases k0 <;> cases k1 <;> cases k2 <;> cases k3 <;> cases k4 <;> cases k5 <;> cases k6 <;> cases k7 <;> rfl
  · show (specByte G j).testBit 7 = keeps G (30 * j + 31)
    unfold specByte
    generalize keeps G (30 * j + 7) = k0
    generalize keeps G (30 * j + 11) = k1
    generalize keeps G (30 * j + 13) = k2
    generalize keeps G (30 * j + 17) = k3
    generalize keeps G (30 * j + 19) = k4
    generalize keeps G (30 * j + 23) = k5
    generalize keeps G (30 * j + 29) = k6
    generalize keeps G (30 * j + 31) = k7
    cases k0 <;> cases k1 <;> cases k2 <;> cases k3 <;> cases k4 <;> cases k5 <;> cases k6 <;> cases k7 <;> rfl


/-- all 16 regenerated tables equal their specification and have the size ∏ group -/
theorem allTables_spec : ∀ i, i < 16 →
    (allTables.getD i (0, 0)).1 = specNat (Gen.preSievePrimes.getD i []) (allTables.getD i (0, 0)).2 0 ∧
    (allTables.getD i (0, 0)).2 = (Gen.preSievePrimes.getD i []).foldl (· * ·) 1 := by
  intro i hi
  have h : i = 0 ∨ i = 1 ∨ i = 2 ∨ i = 3 ∨ i = 4 ∨ i = 5 ∨ i = 6 ∨ i = 7 ∨ i = 8 ∨ i = 9 ∨ i = 10 ∨ i = 11 ∨
      i = 12 ∨ i = 13 ∨ i = 14 ∨ i = 15 := by omega
  rcases h with rfl | rfl | rfl | rfl | rfl | rfl | rfl | rfl | rfl | rfl | rfl | rfl | rfl | rfl | rfl | rfl
  · exact table00_spec
  · exact table01_spec
  · exact table02_spec
  · exact table03_spec
  · exact table04_spec
  · exact table05_spec
  · exact table06_spec
  · exact table07_spec
  · exact table08_spec
  · exact table09_spec
  · exact table10_spec
  · exact table11_spec
  · exact table12_spec
  · exact table13_spec
  · exact table14_spec
  · exact table15_spec



theorem foldl_and_testBit {α : Type} (f : α → Nat) (b : Nat) : ∀ (l : List α) (a : Nat),
    (l.foldl (fun acc t => acc &&& f t) a).testBit b = (a.testBit b && l.all (fun t => (f t).testBit b)) := by
  intro l
  induction l with
  | nil => intro a; simp
  | cons x xs ih =>
    intro a
    simp only [List.foldl_cons, List.all_cons]
    rw [ih, Nat.testBit_and, Bool.and_assoc]

theorem keeps_congr (G : List Nat) (n m : Nat) (h : ∀ p ∈ G, n % p = m % p) : keeps G n = keeps G m := by
  unfold keeps
  induction G with
  | nil => rfl
  | cons x xs ih =>
    simp only [List.all_cons]
    rw [h x List.mem_cons_self, ih (fun p hp => h p (List.mem_cons_of_mem _ hp))]

/-- the table position stands for the same residue as the sieve position, modulo every prime of the group -/
theorem tablePos_congr (size L o off p : Nat) (hL : L % 30 = 0) (hp : size % p = 0) (hs : 0 < size) :
    (30 * tablePos size L o + off) % p = (L + 30 * o + off) % p := by
  unfold tablePos
  obtain ⟨A, rfl⟩ : ∃ A, L = 30 * A := ⟨L / 30, by omega⟩
  have e1 : (30 * A) % (size * 30) = 30 * (A % size) := by
    rw [Nat.mul_comm size 30, Nat.mul_mod_mul_left]
  rw [e1, Nat.mul_div_cancel_left _ (by decide : 0 < 30), Nat.mod_add_mod]
  -- (A + o) = size * t + r
  have hdm := Nat.div_add_mod (A + o) size
  obtain ⟨c, hc⟩ : ∃ c, size = p * c := ⟨size / p, by have := Nat.div_add_mod size p; omega⟩
  generalize (A + o) / size = t at hdm
  generalize (A + o) % size = r at hdm ⊢
  have h3 : 30 * (size * t) = p * (30 * c * t) := by
    rw [hc]; simp only [Nat.mul_assoc, Nat.mul_left_comm, Nat.mul_comm]
  have : 30 * A + 30 * o + off = (30 * r + off) + p * (30 * c * t) := by
    have h2 : 30 * A + 30 * o = 30 * (size * t) + 30 * r := by rw [← Nat.mul_add, ← Nat.mul_add, hdm]
    omega
  rw [this, Nat.add_mul_mod_self_left]

/-- every prime of group i divides the size of table i -/
theorem group_divides : ∀ i, i < 16 → ∀ p ∈ Gen.preSievePrimes.getD i [],
    (Gen.preSievePrimes.getD i []).foldl (· * ·) 1 % p = 0 ∧ 0 < (Gen.preSievePrimes.getD i []).foldl (· * ·) 1 := by
  decide +kernel

theorem allTables_len : allTables.length = 16 := rfl

/-- **pre-sieve exactness**: for a segment starting at L ≡ 0 (mod 30), bit b of the byte at offset o after
    ANDing the 16 tables is 1 iff no prime of the 16 groups divides the number L + 30·o + offs[b] -/
theorem preSieveByte_testBit (L o b : Nat) (hL : L % 30 = 0) (hb : b < 8) :
    (preSieveByte allTables L o).testBit b =
      Gen.preSievePrimes.all (fun G => keeps G (L + 30 * o + offs.getD b 0)) := by
  unfold preSieveByte
  rw [foldl_and_testBit]
  have h255 : (255 : Nat).testBit b = true := by
    have : b = 0 ∨ b = 1 ∨ b = 2 ∨ b = 3 ∨ b = 4 ∨ b = 5 ∨ b = 6 ∨ b = 7 := by omega
    rcases this with rfl | rfl | rfl | rfl | rfl | rfl | rfl | rfl <;> rfl
  rw [h255, Bool.true_and]
  -- compare the two `all`s index by index
  have key : ∀ i, i < 16 →
      (byteAt (allTables.getD i (0, 0)).1 (tablePos (allTables.getD i (0, 0)).2 L o)).testBit b =
        keeps (Gen.preSievePrimes.getD i []) (L + 30 * o + offs.getD b 0) := by
    intro i hi
    obtain ⟨h1, h2⟩ := allTables_spec i hi
    have hdiv := group_divides i hi
    set G := Gen.preSievePrimes.getD i [] with hG
    set n := (allTables.getD i (0, 0)).2 with hn
    have hnpos : 0 < n := by
      rw [h2]
      by_cases hne : G = []
      · rw [hne]; decide
      · obtain ⟨p, hp⟩ := List.exists_mem_of_ne_nil G hne
        exact (hdiv p hp).2
    have hpos : tablePos n L o < n := Nat.mod_lt _ hnpos
    rw [h1, specNat_byte G _ n 0 hpos, Nat.zero_add, specByte_testBit G _ b hb]
    apply keeps_congr
    intro p hp
    have := (hdiv p hp).1
    rw [← h2] at this
    exact tablePos_congr n L o (offs.getD b 0) p hL this hnpos
  have hl1 : allTables = (List.range 16).map (fun i => allTables.getD i (0, 0)) := by decide +kernel
  have hl2 : Gen.preSievePrimes = (List.range 16).map (fun i => Gen.preSievePrimes.getD i []) := by decide
  rw [hl2]
  conv_lhs => rw [hl1]
  rw [List.all_map, List.all_map]
  rw [Bool.eq_iff_iff, List.all_eq_true, List.all_eq_true]
  constructor
  · intro h i hi
    have hi' : i < 16 := List.mem_range.mp hi
    have := h i hi
    simp only [Function.comp] at this ⊢
    rw [← key i hi']; exact this
  · intro h i hi
    have hi' : i < 16 := List.mem_range.mp hi
    have := h i hi
    simp only [Function.comp] at this ⊢
    rw [key i hi']; exact this


/-- the 16 groups together are exactly the primes from 7 to 163 -/
theorem groups_are_primes : ∀ p, p ≤ 163 →
    (p ∈ Gen.preSievePrimes.flatten ↔ (Nat.Prime p ∧ 7 ≤ p)) := by decide +kernel

theorem groups_le : ∀ p ∈ Gen.preSievePrimes.flatten, p ≤ 163 := by decide +kernel

/-- **pre-sieve exactness, number-theoretic form** -/
theorem preSieve_bit_iff (L o b : Nat) (hL : L % 30 = 0) (hb : b < 8) :
    (preSieveByte allTables L o).testBit b = true ↔
      ∀ p, Nat.Prime p → 7 ≤ p → p ≤ 163 → ¬ p ∣ (L + 30 * o + offs.getD b 0) := by
  rw [preSieveByte_testBit L o b hL hb, List.all_eq_true]
  constructor
  · intro h p hp h7 h163 hdvd
    obtain ⟨G, hG, hpG⟩ := List.mem_flatten.mp ((groups_are_primes p h163).mpr ⟨hp, h7⟩)
    have := h G hG
    unfold keeps at this
    have := List.all_eq_true.mp this p hpG
    simp only [ne_eq, decide_eq_true_eq] at this
    exact this (Nat.mod_eq_zero_of_dvd hdvd)
  · intro h G hG
    unfold keeps
    rw [List.all_eq_true]
    intro p hpG
    have hpf : p ∈ Gen.preSievePrimes.flatten := List.mem_flatten.mpr ⟨G, hG, hpG⟩
    have h163 := groups_le p hpf
    have hp := (groups_are_primes p h163).mp hpf
    simp only [ne_eq, decide_eq_true_eq]
    intro hmod
    exact h p hp.1 hp.2 h163 (Nat.dvd_of_mod_eq_zero hmod)

end Ps.PreSieve
