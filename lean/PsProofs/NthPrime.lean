/-
  PsProofs.NthPrime — the correction walks of nthPrime return the n-th prime after / before start
  for every value of the approximations.
-/
import PsModel.NthPrime
import PsProps.C01
import PsProps.C02

namespace Ps.Nth
open Ps Ps.Spec Ps.Props

/-! ### the loops of nthPrime as folds over the iterator's output stream -/

/-- first error, else the last value -/
def foldNext : Nat → List Out → Except Err Nat
  | last, [] => .ok last
  | _, .val v :: r => foldNext v r
  | _, .err e :: _ => .error e
  | last, .unit :: r => foldNext last r

theorem iterNextN_eq (env : Env) (kf : Nat → Nat) : ∀ k j it last,
    iterNextN env kf k j it last =
      foldNext last (Iter.run env it ((List.range' j k).map (fun i => Op.next (kf i)))) := by
  intro k
  induction k with
  | zero => intro j it last; rfl
  | succ k ih =>
    intro j it last
    simp only [iterNextN, List.range'_succ, List.map_cons, Iter.run, Iter.step]
    cases hn : it.next env (kf j) with
    | mk r it' =>
      cases r with
      | ok v => simp only [foldNext]; exact ih (j + 1) it' v
      | error e => simp only [foldNext]

/-- first zero is an error, else the last value -/
def foldPrev : Nat → List Out → Except Err Nat
  | last, [] => .ok last
  | _, .val v :: r => if v = 0 then .error .invalid else foldPrev v r
  | _, .err e :: _ => .error e
  | last, .unit :: r => foldPrev last r

theorem iterPrevN_eq (env : Env) : ∀ k it last,
    iterPrevN env k it last = foldPrev last (Iter.run env it (List.replicate k Op.prev)) := by
  intro k
  induction k with
  | zero => intro it last; rfl
  | succ k ih =>
    intro it last
    simp only [iterPrevN, List.replicate_succ, Iter.run, Iter.step, foldPrev]
    by_cases h0 : (it.prev env).1 = 0
    · simp [h0]
    · simp only [h0, if_false]; exact ih _ _

theorem foldNext_fwd (s : Nat) : ∀ k j last,
    foldNext last ((List.range' j k).map (fwdOut s)) =
      if k = 0 then .ok last
      else if primeSeq s (j + k - 1) < U64 then .ok (primeSeq s (j + k - 1)) else .error .overflow := by
  intro k
  induction k with
  | zero => intro j last; rfl
  | succ k ih =>
    intro j last
    simp only [List.range'_succ, List.map_cons, Nat.succ_ne_zero, if_false]
    rw [show j + (k + 1) - 1 = j + k by omega]
    by_cases h : primeSeq s j < U64
    · have hv : fwdOut s j = Out.val (primeSeq s j) := by unfold fwdOut; rw [if_pos h]
      rw [hv]
      simp only [foldNext]
      rw [ih (j + 1) (primeSeq s j)]
      by_cases hk : k = 0
      · subst hk; simp [h]
      · simp only [hk, if_false]
        rw [show j + 1 + k - 1 = j + k by omega]
    · have hv : fwdOut s j = Out.err .overflow := by unfold fwdOut; rw [if_neg h]
      rw [hv]
      simp only [foldNext]
      have : ¬ primeSeq s (j + k) < U64 := by
        by_cases hk : k = 0
        · subst hk; simpa using h
        · have := primeSeq_strictMono s (show j < j + k by omega)
          omega
      rw [if_neg this]

theorem iterNextN_value {env : Env} (henv : EnvOK env) (kf : Nat → Nat) (s h : Nat) (hs : s ≤ umax) (k : Nat)
    (hk : 1 ≤ k) :
    iterNextN env kf k 0 (Iter.mk' s h) 0 =
      if primeSeq s (k - 1) < U64 then .ok (primeSeq s (k - 1)) else .error .overflow := by
  rw [iterNextN_eq]
  have e : (List.range' 0 k).map (fun i => Op.next (kf i)) = ((List.range' 0 k).map kf).map Op.next := by
    rw [List.map_map]; rfl
  rw [e, C01_forward env henv s h hs]
  simp only [List.length_map, List.length_range']
  rw [List.range_eq_range', foldNext_fwd s k 0 0]
  have : k ≠ 0 := by omega
  simp [this]

theorem foldPrev_bwd (t : Nat) : ∀ k j last,
    foldPrev last ((List.range' j k).map (fun i => Out.val (prevSeq t i))) =
      if k = 0 then .ok last
      else if prevSeq t (j + k - 1) = 0 then .error .invalid else .ok (prevSeq t (j + k - 1)) := by
  intro k
  induction k with
  | zero => intro j last; rfl
  | succ k ih =>
    intro j last
    simp only [List.range'_succ, List.map_cons, Nat.succ_ne_zero, if_false, foldPrev]
    rw [show j + (k + 1) - 1 = j + k by omega]
    by_cases h : prevSeq t j = 0
    · simp only [h, if_true]
      have : prevSeq t (j + k) = 0 := by
        have hz : ∀ d, prevSeq t (j + d) = 0 := by
          intro d; induction d with
          | zero => exact h
          | succ d ihd => exact prevSeq_zero_sticky t (j + d) ihd
        exact hz k
      rw [if_pos this]
    · simp only [h, if_false]
      rw [ih (j + 1) (prevSeq t j)]
      by_cases hk : k = 0
      · subst hk; simp [h]
      · simp only [hk, if_false]
        rw [show j + 1 + k - 1 = j + k by omega]

theorem iterPrevN_value {env : Env} (henv : EnvOK env) (t h : Nat) (ht : t ≤ umax) (k : Nat) (hk : 1 ≤ k) :
    iterPrevN env k (Iter.mk' t h) 0 =
      if prevSeq t (k - 1) = 0 then .error .invalid else .ok (prevSeq t (k - 1)) := by
  rw [iterPrevN_eq, C02_backward env henv t h ht k, List.range_eq_range', foldPrev_bwd t k 0 0]
  have : k ≠ 0 := by omega
  simp [this]

end Ps.Nth

namespace Ps.Nth
open Ps Ps.Spec Ps.Props

/-! ### counting primes along primeSeq / prevSeq -/

theorem primesHO_skip (p : Nat) : ∀ d a a', a' - a = d → a ≤ a' → (∀ q, a ≤ q → q < a' → ¬ q.Prime) →
    primesHO a p = primesHO a' p := by
  intro d
  induction d with
  | zero => intro a a' hd hle _; have : a = a' := by omega
            rw [this]
  | succ d ih =>
    intro a a' hd hle h
    by_cases hap : a < p
    · rw [primesHO_unfold hap]
      have hna : ¬ a.Prime := h a (Nat.le_refl a) (by omega)
      simp only [hna, if_false]
      exact ih (a + 1) a' (by omega) (by omega) (fun q h1 h2 => h q (by omega) h2)
    · rw [primesHO_nil_of_le (by omega), primesHO_nil_of_le (by omega)]

theorem primesIn_unfold (a b : Nat) :
    primesIn a b = if nextPrime a ≤ b then nextPrime a :: primesIn (nextPrime a + 1) b else [] := by
  unfold primesIn
  rw [primesHO_skip (b + 1) _ a (nextPrime a) rfl (le_nextPrime a) (fun q h1 h2 => no_prime_lt_nextPrime h1 h2)]
  by_cases h : nextPrime a ≤ b
  · rw [if_pos h, primesHO_unfold (by omega)]
    simp [nextPrime_prime a]
  · rw [if_neg h, primesHO_nil_of_le (by omega)]

theorem primeSeq_shift (a : Nat) : ∀ j, primeSeq a (j + 1) = primeSeq (nextPrime a + 1) j := by
  intro j
  induction j with
  | zero => rfl
  | succ j ih => simp only [primeSeq] at ih ⊢; rw [ih]

/-- the j-th prime ≥ a is ≤ b exactly when j is below the number of primes in [a, b] -/
theorem primeSeq_le_iff : ∀ j a b, primeSeq a j ≤ b ↔ j < (primesIn a b).length := by
  intro j
  induction j with
  | zero =>
    intro a b
    rw [primesIn_unfold]
    by_cases h : nextPrime a ≤ b
    · simp [primeSeq, h]
    · simp [primeSeq, h]
  | succ j ih =>
    intro a b
    rw [primeSeq_shift, ih, primesIn_unfold a b]
    by_cases h : nextPrime a ≤ b
    · simp [h]
    · simp only [h, if_false, List.length_nil, Nat.not_lt_zero, iff_false, Nat.not_lt]
      rw [primesIn_unfold]
      have : ¬ nextPrime (nextPrime a + 1) ≤ b := by
        have := le_nextPrime (nextPrime a + 1); omega
      simp [this]

/-- after the primes of [a, b] the enumeration continues with the primes > b -/
theorem primeSeq_after (a b : Nat) (hab : a ≤ b + 1) : ∀ i,
    primeSeq (b + 1) i = primeSeq a ((primesIn a b).length + i) := by
  intro i
  induction i with
  | zero =>
    simp only [primeSeq, Nat.add_zero]
    cases hc : (primesIn a b).length with
    | zero =>
      -- no prime in [a, b]
      simp only [primeSeq]
      symm
      apply nextPrime_eq_nextPrime hab
      intro q h1 h2 hq
      have : primeSeq a 0 ≤ b := by
        have := nextPrime_min h1 hq
        simp only [primeSeq]; omega
      rw [primeSeq_le_iff, hc] at this
      omega
    | succ c =>
      simp only [primeSeq]
      have hle : primeSeq a c ≤ b := by rw [primeSeq_le_iff, hc]; omega
      have hgt : ¬ primeSeq a (c + 1) ≤ b := by rw [primeSeq_le_iff, hc]; omega
      symm
      apply nextPrime_eq_nextPrime (by omega)
      intro q h1 h2 hq
      have := nextPrime_min h1 hq
      simp only [primeSeq] at hgt
      omega
  | succ i ih =>
    simp only [primeSeq]
    rw [ih]
    rfl

/-- walking down from b visits the primes of [a, b] in reverse order -/
theorem prevSeq_before (a b : Nat) : ∀ i, i < (primesIn a b).length →
    prevSeq b i = primeSeq a ((primesIn a b).length - 1 - i) := by
  intro i
  induction i with
  | zero =>
    intro hi
    obtain ⟨c, hc⟩ : ∃ c, (primesIn a b).length = c + 1 := ⟨(primesIn a b).length - 1, by omega⟩
    rw [hc]
    simp only [prevSeq, Nat.add_sub_cancel, Nat.sub_zero]
    have hle : primeSeq a c ≤ b := by rw [primeSeq_le_iff, hc]; omega
    have hgt : ¬ primeSeq a (c + 1) ≤ b := by rw [primeSeq_le_iff, hc]; omega
    apply prevPrime_eq_of hle (primeSeq_prime a c)
    intro q h1 h2 hq
    have := nextPrime_min (show primeSeq a c + 1 ≤ q by omega) hq
    simp only [primeSeq] at hgt
    omega
  | succ i ih =>
    intro hi
    have := ih (by omega)
    simp only [prevSeq]
    rw [this]
    obtain ⟨d, hd⟩ : ∃ d, (primesIn a b).length - 1 - i = d + 1 := ⟨(primesIn a b).length - 1 - i - 1, by omega⟩
    rw [hd, show (primesIn a b).length - 1 - (i + 1) = d by omega]
    have hlt := primeSeq_lt_succ a d
    apply prevPrime_eq_of (by omega) (primeSeq_prime a d)
    intro q h1 h2 hq
    have := nextPrime_min (show primeSeq a d + 1 ≤ q by omega) hq
    simp only [primeSeq] at h2
    omega

end Ps.Nth

namespace Ps.Nth
open Ps Ps.Spec Ps.Props

theorem nextPrime_umax : nextPrime umax = nextPrime (umax + 1) :=
  nextPrime_eq_nextPrime (Nat.le_succ _) (fun q h1 h2 => by
    have : q = umax := by omega
    rw [this]; exact umax_not_prime)

/-- the saturating `checkedAdd(x, 1)` does not change what the iterator enumerates -/
theorem primeSeq_checkedAdd_one (x : Nat) (hx : x ≤ umax) : ∀ i, primeSeq (checkedAdd x 1) i = primeSeq (x + 1) i := by
  have hc : checkedAdd x 1 = x + 1 ∨ (x = umax ∧ checkedAdd x 1 = umax) := by
    unfold checkedAdd; split <;> omega
  rcases hc with h | ⟨h1, h2⟩
  · intro i; rw [h]
  · intro i
    rw [h2, h1]
    induction i with
    | zero => exact nextPrime_umax
    | succ i ih => simp only [primeSeq]; rw [ih]

theorem checkedAdd_one_le (x : Nat) (hx : x ≤ umax) : checkedAdd x 1 ≤ umax := by
  unfold checkedAdd; split <;> omega

/-- **nth prime after start** (n ≥ 1): whatever the approximations return (as long as they are 64-bit values),
    whatever block lengths the generator uses, nthPrime returns the n-th prime > start, or
    reports an error when that prime is not below 2^64 -/
theorem nthPrimePos_value {env : Env} (henv : EnvOK env) (kf : Nat → Nat) (cnt : Nat → Nat → Nat)
    (hcnt : ∀ a b, cnt a b = (primesIn a b).length) (o : NthOracle) (ho : ∀ x, o.nthA x ≤ umax)
    (n start : Nat) (hn1 : 1 ≤ n) (hn : n ≤ max_n) (hs : start ≤ umax) :
    nthPrimePos env kf cnt o n start =
      if primeSeq (start + 1) (n - 1) < U64 then .ok (primeSeq (start + 1) (n - 1)) else .error .overflow := by
  unfold nthPrimePos
  have hn' : ¬ n > max_n := by omega
  simp only [hn', if_false]
  generalize hpa0 : max (o.nthA (min (checkedAdd (o.piA start) n) max_n)) start = pa0
  have hpa0le : pa0 ≤ umax := by rw [← hpa0]; have := ho (min (checkedAdd (o.piA start) n) max_n); omega
  have hpa0ge : start ≤ pa0 := by rw [← hpa0]; omega
  by_cases hcounted : pa0 - start > o.isqrt pa0 / 10
  · -- the bulk count ran
    simp only [hcounted, decide_true, if_true]
    generalize hs1 : checkedAdd start 1 = s1
    have hs1le : s1 ≤ umax := by rw [← hs1]; exact checkedAdd_one_le start hs
    generalize hpa : max s1 pa0 = pa
    have hpale : pa ≤ umax := by rw [← hpa]; omega
    have hs1pa : s1 ≤ pa := by rw [← hpa]; omega
    rw [hcnt]
    -- primes in [s1, pa] are the primes in [start+1, pa]
    have hseq : ∀ i, primeSeq s1 i = primeSeq (start + 1) i := by
      intro i; rw [← hs1]; exact primeSeq_checkedAdd_one start hs i
    have hlen : (primesIn s1 pa).length = (primesIn (start + 1) pa).length := by
      have h1 : ∀ j, j < (primesIn s1 pa).length ↔ j < (primesIn (start + 1) pa).length := by
        intro j; rw [← primeSeq_le_iff, ← primeSeq_le_iff, hseq]
      have := h1 (primesIn s1 pa).length
      have := h1 (primesIn (start + 1) pa).length
      omega
    rw [hlen]
    have hstart1 : start + 1 ≤ pa + 1 := by
      have : s1 = start + 1 ∨ s1 = umax := by rw [← hs1]; unfold checkedAdd; split <;> omega
      omega
    generalize hc : (primesIn (start + 1) pa).length = c
    by_cases hlt : c < n
    · simp only [hlt, if_true]
      rw [iterNextN_value henv kf _ _ (checkedAdd_one_le pa hpale) _ (by omega)]
      have e : primeSeq (checkedAdd pa 1) (n - c - 1) = primeSeq (start + 1) (n - 1) := by
        rw [primeSeq_checkedAdd_one pa hpale, primeSeq_after (start + 1) pa hstart1, hc]
        congr 1; omega
      rw [e]
    · simp only [hlt, if_false]
      rw [iterPrevN_value henv _ _ hpale _ (by omega)]
      have hi : c - n + 1 - 1 < (primesIn (start + 1) pa).length := by rw [hc]; omega
      rw [prevSeq_before (start + 1) pa _ hi, hc]
      have e : c - 1 - (c - n + 1 - 1) = n - 1 := by omega
      rw [e]
      have hp := primeSeq_prime (start + 1) (n - 1)
      have hne : primeSeq (start + 1) (n - 1) ≠ 0 := fun h0 => by rw [h0] at hp; exact Nat.not_prime_zero hp
      have hle : primeSeq (start + 1) (n - 1) ≤ pa := by rw [primeSeq_le_iff, hc]; omega
      have hU : primeSeq (start + 1) (n - 1) < U64 := by rw [U64_eq_succ]; omega
      simp [hne, hU]
  · simp only [hcounted, decide_false, Bool.false_eq_true, if_false]
    have h0n : 0 < n := by omega
    simp only [h0n, if_true, Nat.sub_zero]
    rw [iterNextN_value henv kf _ _ (checkedAdd_one_le start hs) _ hn1, primeSeq_checkedAdd_one start hs]

end Ps.Nth

namespace Ps.Nth
open Ps Ps.Spec Ps.Props

/-- below the primes of [a, b] the downward enumeration continues with the primes < a -/
theorem prevSeq_after (a b : Nat) (hab : a ≤ b + 1) : ∀ i,
    prevSeq b ((primesIn a b).length + i) = prevSeq (a - 1) i := by
  intro i
  induction i with
  | zero =>
    simp only [Nat.add_zero]
    cases hc : (primesIn a b).length with
    | zero =>
      simp only [prevSeq]
      apply prevPrime_eq_prevPrime (by omega)
      intro q h1 h2 hq
      have hle : primeSeq a 0 ≤ b := by
        have := nextPrime_min (show a ≤ q by omega) hq
        simp only [primeSeq]; omega
      rw [primeSeq_le_iff, hc] at hle
      omega
    | succ c =>
      simp only [prevSeq]
      have := prevSeq_before a b c (by omega)
      rw [this, hc, show c + 1 - 1 - c = 0 by omega]
      simp only [primeSeq]
      apply prevPrime_eq_prevPrime (by have := le_nextPrime a; omega)
      intro q h1 h2 hq
      exact no_prime_lt_nextPrime (show a ≤ q by omega) (by omega) hq
  | succ i ih =>
    rw [← Nat.add_assoc]
    simp only [prevSeq]
    rw [ih]

theorem checkedSub_one_le (x : Nat) (hx : x ≤ umax) : checkedSub x 1 ≤ umax := by
  rw [checkedSub_one]; omega

/-- **nth prime before start** (m = -n ≥ 1) -/
theorem nthPrimeNeg_value {env : Env} (henv : EnvOK env) (kf : Nat → Nat) (cnt : Nat → Nat → Nat)
    (hcnt : ∀ a b, cnt a b = (primesIn a b).length) (o : NthOracle)
    (m start : Nat) (hm1 : 1 ≤ m) (hm : m ≤ max_n) (hs : start ≤ umax) :
    nthPrimeNeg env kf cnt o m start =
      if m ≥ start ∨ prevSeq (start - 1) (m - 1) = 0 then .error .invalid
      else .ok (prevSeq (start - 1) (m - 1)) := by
  unfold nthPrimeNeg
  have hm' : ¬ m > max_n := by omega
  simp only [hm', if_false]
  by_cases hms : m ≥ start
  · simp [hms]
  · simp only [hms, if_false, false_or]
    generalize hpa0 : min (o.nthA (min (checkedSub (o.piA start) m) max_n)) start = pa0
    have hpa0le : pa0 ≤ start := by rw [← hpa0]; omega
    by_cases hcounted : start - pa0 > o.isqrt start / 10
    · simp only [hcounted, decide_true, if_true]
      rw [checkedSub_one]
      generalize hpa : min pa0 (start - 1) = pa
      have hpale : pa ≤ start - 1 := by rw [← hpa]; omega
      rw [hcnt]
      generalize hc : (primesIn pa (start - 1)).length = c
      by_cases hge : c ≥ m
      · simp only [hge, if_true]
        rw [iterNextN_value henv kf _ _ (by omega) _ (by omega)]
        have hi : m - 1 < (primesIn pa (start - 1)).length := by rw [hc]; omega
        have e := prevSeq_before pa (start - 1) (m - 1) hi
        rw [hc, show c - 1 - (m - 1) = c - m + 1 - 1 by omega] at e
        rw [← e]
        have hle : prevSeq (start - 1) (m - 1) ≤ start - 1 := prevSeq_le _ _
        have hp : (prevSeq (start - 1) (m - 1)).Prime := by rw [e]; exact primeSeq_prime _ _
        have hne : prevSeq (start - 1) (m - 1) ≠ 0 := fun h0 => by rw [h0] at hp; exact Nat.not_prime_zero hp
        have hU : prevSeq (start - 1) (m - 1) < U64 := by rw [U64_eq_succ]; omega
        simp [hne, hU]
      · simp only [hge, if_false]
        rw [checkedSub_one, iterPrevN_value henv _ _ (by omega) _ (by omega)]
        have e := prevSeq_after pa (start - 1) (by omega) (m - c - 1)
        rw [hc, show c + (m - c - 1) = m - 1 by omega] at e
        rw [e]
    · simp only [hcounted, decide_false, Bool.false_eq_true, if_false]
      have h0 : ¬ (0 ≥ m) := by omega
      simp only [h0, if_false, Nat.sub_zero]
      rw [checkedSub_one, iterPrevN_value henv _ _ (by omega) _ hm1]

theorem nextPrime_zero_one : nextPrime 0 = nextPrime 1 :=
  nextPrime_eq_nextPrime (by omega) (fun q h1 h2 => by
    have : q = 0 := by omega
    rw [this]; exact Nat.not_prime_zero)

end Ps.Nth
