/-
  PsProofs.TinySieve — SievingPrimes::tinySieve() (PsModel.Feed.tinySieve): the plain odd-only sieve of Eratosthenes over a
  Vector<bool> of n + 1 entries marks exactly the odd primes: for every n and every odd 3 ≤ k ≤ n, entry k is true iff k is prime.
-/
import Mathlib.Data.Nat.Prime.Basic
import Mathlib.Tactic.Ring
import PsModel.Feed
namespace Ps.Feed

theorem getD_set_false (t : List Bool) (j k : Nat) :
    (t.set j false).getD k false = if k = j then false else t.getD k false := by
  simp only [List.getD_eq_getElem?_getD, List.getElem?_set]
  by_cases h : j = k
  · subst h
    by_cases hl : j < t.length <;> simp [hl]
  · have : ¬ k = j := fun e => h e.symm
    simp [h, this]

/-- the inner loop clears exactly the entries j, j + 2i, j + 4i, … ≤ n -/
theorem tinyInner_spec (n i : Nat) (hi : 1 ≤ i) :
    ∀ (fuel j : Nat) (t : List Bool), n + 1 ≤ fuel + j →
      (tinyInner n i fuel j t).length = t.length ∧
      ∀ k, k ≤ n → (tinyInner n i fuel j t).getD k false =
        (t.getD k false && !(decide (j ≤ k ∧ (k - j) % (2 * i) = 0))) := by
  intro fuel
  induction fuel with
  | zero =>
    intro j t hf
    refine ⟨rfl, ?_⟩
    intro k hk
    have : ¬ (j ≤ k ∧ (k - j) % (2 * i) = 0) := by omega
    simp [tinyInner, this]
  | succ f ih =>
    intro j t hf
    unfold tinyInner
    by_cases hj : j ≤ n
    · rw [if_pos hj]
      obtain ⟨h1, h2⟩ := ih (j + 2 * i) (t.set j false) (by omega)
      refine ⟨by rw [h1, List.length_set], ?_⟩
      intro k hk
      rw [h2 k hk, getD_set_false]
      have hd : 2 ≤ 2 * i := by omega
      generalize 2 * i = d at *
      by_cases hkj : k = j
      · subst hkj
        simp
      · rw [if_neg hkj]
        congr 2
        rw [decide_eq_decide]
        constructor
        · rintro ⟨a, b⟩
          refine ⟨by omega, ?_⟩
          have : k - j = (k - (j + d)) + d := by omega
          rw [this, Nat.add_mod_right]; exact b
        · rintro ⟨a, b⟩
          have hne : k - j ≠ 0 := by omega
          have hge : d ≤ k - j := by
            by_contra hlt
            rw [Nat.mod_eq_of_lt (by omega)] at b
            exact hne b
          refine ⟨by omega, ?_⟩
          have : k - (j + d) = (k - j) - d := by omega
          rw [this, ← Nat.mod_eq_sub_mod hge]; exact b
    · rw [if_neg hj]
      refine ⟨rfl, ?_⟩
      intro k hk
      have : ¬ (j ≤ k ∧ (k - j) % (2 * i) = 0) := by omega
      simp [this]

/-- for odd p, k: the entries the inner loop of p clears (p², p² + 2p, …) are the odd multiples p·c with c ≥ p -/
theorem odd_cross (p k : Nat) (hp : p % 2 = 1) (hk : k % 2 = 1) :
    (p * p ≤ k ∧ (k - p * p) % (2 * p) = 0) ↔ (p * p ≤ k ∧ p ∣ k) := by
  have hp0 : 0 < p := by omega
  constructor
  · rintro ⟨a, b⟩
    refine ⟨a, ?_⟩
    obtain ⟨m, hm⟩ := Nat.dvd_of_mod_eq_zero b
    have : k = p * (p + 2 * m) := by
      have h1 : k = p * p + 2 * p * m := by omega
      rw [h1]; ring
    exact ⟨_, this⟩
  · rintro ⟨a, ⟨c, rfl⟩⟩
    refine ⟨a, ?_⟩
    have hc : c % 2 = 1 := by
      have := Nat.mul_mod p c 2
      rw [hp] at this
      rcases Nat.mod_two_eq_zero_or_one c with h0 | h1
      · rw [h0] at this; omega
      · exact h1
    have hpc : p ≤ c := Nat.le_of_mul_le_mul_left a hp0
    obtain ⟨m, hm⟩ : ∃ m, c - p = 2 * m := ⟨(c - p) / 2, by omega⟩
    have : p * c - p * p = 2 * p * m := by
      rw [← Nat.mul_sub, hm]; ring
    rw [this]; exact Nat.mul_mod_right _ _

theorem prime_ge3_odd (p : Nat) (hp : p.Prime) (h3 : 3 ≤ p) : p % 2 = 1 := by
  rcases hp.eq_two_or_odd with h | h
  · omega
  · exact h

/-- an odd k ≥ 3 is prime iff no odd prime p with p² ≤ k divides it -/
theorem odd_prime_iff (k : Nat) (hk : k % 2 = 1) (h3 : 3 ≤ k) :
    k.Prime ↔ ∀ p, p.Prime → 3 ≤ p → p * p ≤ k → ¬ p ∣ k := by
  constructor
  · intro hkp p hp h3p hpp hd
    have := (Nat.prime_dvd_prime_iff_eq hp hkp).mp hd
    subst this
    have : 3 * p ≤ p * p := Nat.mul_le_mul_right p h3p
    omega
  · intro h
    by_contra hnp
    have hmp := Nat.minFac_prime (n := k) (by omega)
    have hmd := Nat.minFac_dvd k
    have hsq := Nat.minFac_sq_le_self (n := k) (by omega) hnp
    have h2 : k.minFac ≠ 2 := by
      intro e
      rw [e] at hmd
      obtain ⟨c, hc⟩ := hmd
      omega
    have hge := hmp.two_le
    exact h k.minFac hmp (by omega) (by rw [← Nat.pow_two]; exact hsq) hmd

/-- invariant of the outer loop: entry k (odd, 3 ≤ k ≤ n) is still true iff no odd prime p < i with p² ≤ k divides k -/
def OInv (n i : Nat) (t : List Bool) : Prop :=
  t.length = n + 1 ∧ ∀ k, 3 ≤ k → k ≤ n → k % 2 = 1 →
    (t.getD k false = true ↔ ∀ p, p.Prime → 3 ≤ p → p < i → p * p ≤ k → ¬ p ∣ k)

theorem OInv_step (n i : Nat) (t : List Bool) (h : OInv n i t) (hi : i % 2 = 1) (h3 : 3 ≤ i) (hin : i * i ≤ n) :
    OInv n (i + 2) (if t.getD i false then tinyInner n i (n + 1) (i * i) t else t) := by
  obtain ⟨hlen, hinv⟩ := h
  have hile : i ≤ n := Nat.le_trans (Nat.le_mul_self i) hin
  -- the flag of i says whether i is prime
  have hflag : t.getD i false = true ↔ i.Prime := by
    rw [hinv i h3 hile hi, odd_prime_iff i hi h3]
    constructor
    · intro hh p hp h3p hpp
      have : 2 * p ≤ p * p := Nat.mul_le_mul_right p (by omega)
      exact hh p hp h3p (by omega) hpp
    · intro hh p hp h3p _ hpp
      exact hh p hp h3p hpp
  by_cases hf : t.getD i false = true
  · rw [if_pos hf]
    have hip := hflag.mp hf
    obtain ⟨h1, h2⟩ := tinyInner_spec n i (by omega) (n + 1) (i * i) t (by omega)
    refine ⟨by rw [h1, hlen], ?_⟩
    intro k hk3 hkn hk
    rw [h2 k hkn]
    simp only [Bool.and_eq_true, Bool.not_eq_true', decide_eq_false_iff_not]
    rw [hinv k hk3 hkn hk, odd_cross i k hi hk]
    constructor
    · rintro ⟨a, b⟩ p hp h3p hpi hpp hd
      have hpodd := prime_ge3_odd p hp h3p
      by_cases hlt : p < i
      · exact a p hp h3p hlt hpp hd
      · have : p = i := by omega
        subst this
        exact b ⟨hpp, hd⟩
    · intro hh
      refine ⟨fun p hp h3p hpi hpp => hh p hp h3p (by omega) hpp, ?_⟩
      rintro ⟨a, b⟩
      exact hh i hip h3 (by omega) a b
  · rw [if_neg hf]
    have hnp : ¬ i.Prime := fun hp => hf (hflag.mpr hp)
    refine ⟨hlen, ?_⟩
    intro k hk3 hkn hk
    rw [hinv k hk3 hkn hk]
    constructor
    · intro a p hp h3p hpi hpp
      have hpodd := prime_ge3_odd p hp h3p
      by_cases hlt : p < i
      · exact a p hp h3p hlt hpp
      · have : p = i := by omega
        subst this
        exact absurd hp hnp
    · intro hh p hp h3p hpi hpp
      exact hh p hp h3p (by omega) hpp

theorem OInv_final (n i : Nat) (t : List Bool) (h : OInv n i t) (hin : n < i * i) :
    t.length = n + 1 ∧ ∀ k, 3 ≤ k → k ≤ n → k % 2 = 1 → (t.getD k false = true ↔ k.Prime) := by
  obtain ⟨hlen, hinv⟩ := h
  refine ⟨hlen, ?_⟩
  intro k hk3 hkn hk
  rw [hinv k hk3 hkn hk, odd_prime_iff k hk hk3]
  constructor
  · intro hh p hp h3p hpp
    refine hh p hp h3p ?_ hpp
    by_contra hge
    have : i * i ≤ p * p := Nat.mul_le_mul (by omega) (by omega)
    omega
  · intro hh p hp h3p _ hpp
    exact hh p hp h3p hpp

theorem tinyOuter_spec (n : Nat) :
    ∀ (fuel i : Nat) (t : List Bool), OInv n i t → i % 2 = 1 → 3 ≤ i → n + 4 ≤ fuel + i →
      (tinyOuter n fuel i t).length = n + 1 ∧
      ∀ k, 3 ≤ k → k ≤ n → k % 2 = 1 → ((tinyOuter n fuel i t).getD k false = true ↔ k.Prime) := by
  intro fuel
  induction fuel with
  | zero =>
    intro i t h _ _ hf
    have : n < i * i := Nat.lt_of_lt_of_le (by omega) (Nat.le_mul_self i)
    exact OInv_final n i t h this
  | succ f ih =>
    intro i t h hi h3 hf
    unfold tinyOuter
    by_cases hin : i * i ≤ n
    · rw [if_pos hin]
      exact ih (i + 2) _ (OInv_step n i t h hi h3 hin) (by omega) (by omega) (by omega)
    · rw [if_neg hin]
      exact OInv_final n i t h (by omega)

/-- **SievingPrimes::tinySieve() is correct**: for every n, the table has n + 1 entries and for every odd k with
    3 ≤ k ≤ n its entry is true iff k is prime -/
theorem tinySieve_spec (n : Nat) :
    (tinySieve n).length = n + 1 ∧
    ∀ k, 3 ≤ k → k ≤ n → k % 2 = 1 → ((tinySieve n).getD k false = true ↔ k.Prime) := by
  unfold tinySieve
  apply tinyOuter_spec n (n + 1) 3 _ _ (by decide) (by omega) (by omega)
  refine ⟨by simp, ?_⟩
  intro k _ hkn _
  have : (List.replicate (n + 1) true).getD k false = true := by
    have hlt : k < n + 1 := by omega
    simp [List.getD_eq_getElem?_getD, List.getElem?_replicate, hlt]
  rw [this]
  constructor
  · intro _ p _ h3p hp3; omega
  · intro _; trivial

end Ps.Feed
