/-
  PsProofs.PreSieveT08 — table 8 of PreSieveTables.hpp (regenerated, 8357 bytes) equals the table its
  generator program describes for the primes [61, 137]: kernel-checked, every byte.
-/
import PsModel.PreSieve
import PsModel.Generated.PreSieve08

namespace Ps.PreSieve

theorem table08_spec : Gen.preSieve08 = specNat (Gen.preSievePrimes.getD 8 []) Gen.preSieve08Len 0 ∧
    Gen.preSieve08Len = (Gen.preSievePrimes.getD 8 []).foldl (· * ·) 1 := by
  constructor <;> decide +kernel

end Ps.PreSieve
