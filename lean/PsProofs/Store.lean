/-
  PsProofs.Store — store_primes over the iterator model stores exactly the primes of [start, stop].
-/
import PsProofs.IterSim
import PsProofs.MaxPrime
import PsModel.Store
set_option linter.unnecessarySeqFocus false
namespace Ps
open Ps.Spec

theorem primesHO_append {a b c : Nat} (h1 : a ≤ b) (h2 : b ≤ c) :
    primesHO a b ++ primesHO b c = primesHO a c := by
  unfold primesHO
  obtain ⟨k1, rfl⟩ : ∃ k, b = a + k := ⟨b - a, by omega⟩
  obtain ⟨k2, rfl⟩ : ∃ k, c = a + k1 + k := ⟨c - (a + k1), by omega⟩
  have e1 : a + k1 - a = k1 := by omega
  have e2 : a + k1 + k2 - (a + k1) = k2 := by omega
  have e3 : a + k1 + k2 - a = k1 + k2 := by omega
  rw [e1, e2, e3, ← List.range'_append_1, List.filter_append]

/-- the primes of [c, nextPrime c] -/
theorem primesHO_to_next (c : Nat) : primesHO c (nextPrime c + 1) = [nextPrime c] := by
  induction hn : nextPrime c - c generalizing c with
  | zero =>
    have hle := le_nextPrime c
    have e : nextPrime c = c := by omega
    have hp : c.Prime := by rw [← e]; exact nextPrime_prime c
    rw [e, primesHO_unfold (by omega), if_pos hp, primesHO_nil_of_le (Nat.le_refl _)]
  | succ n ih =>
    have hle := le_nextPrime c
    have hnp : ¬ c.Prime := by
      intro hp
      have := nextPrime_min (Nat.le_refl c) hp
      omega
    have e : nextPrime c = nextPrime (c + 1) := by
      apply nextPrime_eq_nextPrime (Nat.le_succ c)
      intro q h1 h2
      have : q = c := by omega
      rw [this]; exact hnp
    rw [primesHO_unfold (by omega), if_neg hnp, e]
    exact ih (c + 1) (by omega)

theorem consec_tail {x : Nat} {l : List Nat} (h : Consec (x :: l)) : Consec l := by
  intro j hj
  have := h (j + 1) (by simpa using hj)
  simpa using this

/-- a run of consecutive primes starting at the first prime ≥ c is the list of all primes between
    c and its last element -/
theorem consec_eq_primesHO (l : List Nat) (c : Nat) (hne : l ≠ []) (hc : Consec l)
    (hh : l.getD 0 0 = nextPrime c) : l = primesHO c (l.getD (l.length - 1) 0 + 1) := by
  induction l generalizing c with
  | nil => exact absurd rfl hne
  | cons x r ih =>
    simp only [List.getD_cons_zero] at hh
    cases r with
    | nil =>
      simp only [List.length_cons, List.length_nil, Nat.zero_add, Nat.sub_self, List.getD_cons_zero]
      rw [hh, primesHO_to_next]
    | cons y r =>
      have hl := hc 0 (by simp)
      simp only [List.getD_cons_zero, List.getD_cons_succ] at hl
      have ih' := ih (x + 1) (by simp) (consec_tail hc) (by simpa using hl.1)
      have elast : (x :: y :: r).getD ((x :: y :: r).length - 1) 0 = (y :: r).getD ((y :: r).length - 1) 0 := by
        simp
      rw [elast]
      have hmem : (y :: r).getD ((y :: r).length - 1) 0 ∈ primesHO (x + 1) ((y :: r).getD ((y :: r).length - 1) 0 + 1) := by
        rw [← ih']; exact getD_mem (by simp)
      have hge := (mem_primesHO.1 hmem).1
      have hcx : c ≤ x := by rw [hh]; exact le_nextPrime c
      rw [← primesHO_append (a := c) (b := x + 1) (by omega) (by omega), ← ih', hh, primesHO_to_next]
      rfl

theorem storeMaxPrime_eq : storeMaxPrime = maxPrime64 := rfl

theorem takeWhile_primesHO (m : Nat) {a p : Nat} (hmp : m + 1 ≤ p) :
    (primesHO a p).takeWhile (· ≤ m) = primesHO a (m + 1) := by
  induction hn : p - a generalizing a with
  | zero =>
    rw [primesHO_nil_of_le (show p ≤ a by omega), primesHO_nil_of_le (show m + 1 ≤ a by omega)]; rfl
  | succ n ih =>
    have hap : a < p := by omega
    rw [primesHO_unfold hap]
    by_cases ha : a.Prime
    · simp only [ha, if_true]
      by_cases ham : a ≤ m
      · rw [List.takeWhile_cons_of_pos (by simpa using ham), ih (by omega),
          primesHO_unfold (show a < m + 1 by omega), if_pos ha]
      · rw [List.takeWhile_cons_of_neg (by simpa using ham), primesHO_nil_of_le (show m + 1 ≤ a by omega)]
    · simp only [ha, if_false]
      rw [ih (by omega)]
      by_cases ham : a < m + 1
      · rw [primesHO_unfold ham, if_neg ha]
      · rw [primesHO_nil_of_le (show m + 1 ≤ a by omega), primesHO_nil_of_le (show m + 1 ≤ a + 1 by omega)]

/-- invariant of the block loops: everything below position c has been stored, the buffer starts
    with the first prime ≥ c -/
structure BInv (start limit : Nat) (it : Iter) (acc : List Nat) (c : Nat) : Prop where
  inv : AtInv it
  acc_eq : acc = primesHO start c
  le : start ≤ c
  head : it.buf.getD 0 0 = nextPrime c

theorem atInv_buf {it : Iter} (h : AtInv it) : it.buf ≠ [] ∧ it.size = it.buf.length := by
  refine ⟨?_, h.size_eq⟩
  intro hn
  have := h.i_lt
  rw [h.size_eq, hn] at this
  simp at this

theorem bInv_buf {start limit : Nat} {it : Iter} {acc : List Nat} {c : Nat} (h : BInv start limit it acc c) :
    it.buf = primesHO c (it.buf.getD (it.size - 1) 0 + 1) ∧ it.buf.getD 0 0 ≤ it.buf.getD (it.size - 1) 0 ∧
    c ≤ it.buf.getD 0 0 := by
  obtain ⟨hne, hsz⟩ := atInv_buf h.inv
  have e := consec_eq_primesHO it.buf c hne h.inv.consec h.head
  rw [← hsz] at e
  refine ⟨e, ?_, by rw [h.head]; exact le_nextPrime c⟩
  have hlen : 0 < it.buf.length := List.length_pos_iff.2 hne
  have hm : it.buf.getD 0 0 ∈ it.buf := getD_mem hlen
  have hm' : it.buf.getD 0 0 ∈ primesHO c (it.buf.getD (it.size - 1) 0 + 1) := by rw [← e]; exact hm
  have := (mem_primesHO.1 hm').2.1
  omega

theorem nextPrime_lt_U64 {x : Nat} (h : x ≤ maxPrime64) : nextPrime x < U64 := by
  have := nextPrime_min h maxPrime64_prime
  unfold maxPrime64 at *; unfold U64; omega

theorem storeBlocks_spec {env : Env} (h : EnvOK env) (start limit : Nat) (kf : Nat → Nat)
    (hlim : limit < maxPrime64) :
    ∀ (fuel j : Nat) (it : Iter) (acc : List Nat) (c : Nat), BInv start limit it acc c →
      1 ≤ fuel → limit + 2 ≤ fuel + it.buf.getD 0 0 → c ≤ limit + 1 →
      ∃ it' acc' c', storeBlocks env limit kf fuel j it acc = some (.ok it', acc') ∧
        BInv start limit it' acc' c' ∧ limit < it'.buf.getD (it'.size - 1) 0 ∧ c' ≤ limit + 1 := by
  intro fuel
  induction fuel with
  | zero => intro j it acc c _ h1; omega
  | succ f ih =>
    intro j it acc c hb _ hf hcl
    obtain ⟨hbuf, hhl, hch⟩ := bInv_buf hb
    unfold storeBlocks
    by_cases hl : it.buf.getD (it.size - 1) 0 ≤ limit
    · simp only [hl, if_true]
      have hg := generateNext_at h (kf j) it hb.inv
      have hacc : acc ++ it.buf = primesHO start (it.buf.getD (it.size - 1) 0 + 1) := by
        rw [hb.acc_eq]
        conv => lhs; rw [hbuf]
        exact primesHO_append hb.le (by omega)
      cases hr : it.generateNext env (kf j) with
      | error e =>
        rw [hr] at hg
        exact absurd (nextPrime_lt_U64 (by omega)) hg.2
      | ok it' =>
        rw [hr] at hg
        obtain ⟨hlt, _, hhead, hinv', _⟩ := hg
        simp only
        have hb' : BInv start limit it' (acc ++ it.buf) (it.buf.getD (it.size - 1) 0 + 1) :=
          { inv := hinv', acc_eq := hacc, le := by have := hb.le; omega, head := hhead }
        have hh' : it.buf.getD (it.size - 1) 0 + 1 ≤ it'.buf.getD 0 0 := by rw [hhead]; exact le_nextPrime _
        have g1 : 1 ≤ f := by omega
        have g2 : limit + 2 ≤ f + it'.buf.getD 0 0 := by omega
        exact ih (j + 1) it' _ _ hb' g1 g2 (by omega)
    · simp only [hl, if_false]
      exact ⟨it, acc, c, rfl, hb, by omega, hcl⟩


/-- the primes of [maxPrime64, stop] for maxPrime64 ≤ stop < 2^64 -/
theorem primesHO_top {stop : Nat} (h1 : maxPrime64 ≤ stop) (h2 : stop ≤ umax) :
    primesHO maxPrime64 (stop + 1) = [maxPrime64] := by
  rw [← primesHO_append (b := maxPrime64 + 1) (by omega) (by omega),
    primesHO_unfold (by omega), if_pos maxPrime64_prime, primesHO_nil_of_le (Nat.le_refl _)]
  have : primesHO (maxPrime64 + 1) (stop + 1) = [] := by
    rw [primesHO_eq_nil_iff]
    intro q hq1 hq2
    exact no_prime_above q (by omega) (by unfold U64; unfold umax at h2; omega)
  rw [this]; rfl

/-- first `generate_next_primes()` of a fresh iterator(start, hint) with start ≤ maxPrime64 -/
theorem generateNext_fresh {env : Env} (h : EnvOK env) (k start hint : Nat) (hs : start ≤ maxPrime64) :
    ∃ it, (Iter.mk' start hint).generateNext env k = .ok it ∧ AtInv it ∧ it.buf.getD 0 0 = nextPrime start := by
  have hsu : start ≤ umax := by unfold maxPrime64 at hs; unfold umax; omega
  have hs' := genNextFresh_spec h k (Iter.mk' start hint) hsu
  simp only [Iter.mk', if_true] at hs'
  simp only [Iter.generateNext, Iter.mk']
  cases hr : genNextFresh env k
      { i := 0, size := 0, start := start, hint := hint, buf := [], stop := start, dist := 0, incl := true, gen := none } with
  | error e =>
    rw [hr] at hs'
    have := nextPrime_lt_U64 hs
    have := hs'.2
    omega
  | ok it =>
    rw [hr] at hs'
    exact ⟨it, rfl, atInv_of_fwdPost hs', hs'.head⟩

/-- **store_primes** -/
theorem storePrimes_spec {env : Env} (h : EnvOK env) (kf : Nat → Nat) (fuel start stop vmax : Nat)
    (hstop : stop ≤ umax) (hfuel : stop + 2 ≤ fuel + start) :
    storePrimes env kf fuel start stop vmax = some (
      if start > stop ∨ start > storeMaxPrime then .ok []
      else if stop > vmax then .throw [] .invalid
      else .ok (primesIn start stop)) := by
  have hsm : storeMaxPrime = maxPrime64 := rfl
  have hv : storeMaxPrime = 18446744073709551557 := rfl
  unfold storePrimes
  by_cases h1 : start > stop
  · simp [h1]
  simp only [h1, if_false, false_or]
  by_cases h2 : start > storeMaxPrime
  · simp [h2]
  simp only [h2, if_false]
  by_cases h3 : stop > vmax
  · simp [h3]
  simp only [h3, if_false]
  obtain ⟨it, hgen, hinv, hhead⟩ := generateNext_fresh h (kf 0) start stop (by rw [← hsm]; omega)
  rw [hgen]
  simp only
  have hlim : min stop (storeMaxPrime - 1) < maxPrime64 := by rw [← hsm]; omega
  have hb : BInv start (min stop (storeMaxPrime - 1)) it [] start :=
    { inv := hinv, acc_eq := (primesHO_nil_of_le (Nat.le_refl _)).symm, le := Nat.le_refl _, head := hhead }
  have hle := le_nextPrime start
  obtain ⟨it', acc', c', hsb, hb', hlast, hc'⟩ :=
    storeBlocks_spec h start (min stop (storeMaxPrime - 1)) kf hlim fuel 1 it [] start hb (by omega)
      (by rw [hhead]; omega) (by omega)
  rw [hsb]
  simp only
  obtain ⟨hbuf, _, _⟩ := bInv_buf hb'
  have htw : it'.buf.takeWhile (· ≤ min stop (storeMaxPrime - 1)) = primesHO c' (min stop (storeMaxPrime - 1) + 1) := by
    conv => lhs; rw [hbuf]
    exact takeWhile_primesHO _ (by omega)
  have hall : acc' ++ it'.buf.takeWhile (· ≤ min stop (storeMaxPrime - 1)) =
      primesHO start (min stop (storeMaxPrime - 1) + 1) := by
    rw [htw, hb'.acc_eq]
    exact primesHO_append hb'.le hc'
  rw [hall]
  refine congrArg some (congrArg StoreRes.ok ?_)
  by_cases h4 : stop ≥ storeMaxPrime
  · rw [if_pos h4]
    have e : min stop (storeMaxPrime - 1) + 1 = storeMaxPrime := by omega
    rw [e]
    unfold primesIn
    rw [← primesHO_append (a := start) (b := storeMaxPrime) (c := stop + 1) (by omega) (by omega), hsm,
      primesHO_top (by rw [← hsm]; exact h4) hstop]
  · rw [if_neg h4]
    have e : min stop (storeMaxPrime - 1) = stop := by omega
    rw [e]
    rfl

end Ps
