/-
  PsProofs.PreSieveT13 — table 13 of PreSieveTables.hpp (regenerated, 8881 bytes) equals the table its
  generator program describes for the primes [83, 107]: kernel-checked, every byte.
-/
import PsModel.PreSieve
import PsModel.Generated.PreSieve13

namespace Ps.PreSieve

theorem table13_spec : Gen.preSieve13 = specNat (Gen.preSievePrimes.getD 13 []) Gen.preSieve13Len 0 ∧
    Gen.preSieve13Len = (Gen.preSievePrimes.getD 13 []).foldl (· * ·) 1 := by
  constructor <;> decide +kernel

end Ps.PreSieve
