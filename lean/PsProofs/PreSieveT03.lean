/-
  PsProofs.PreSieveT03 — table 3 of PreSieveTables.hpp (regenerated, 6683 bytes) equals the table its
  generator program describes for the primes [41, 163]: kernel-checked, every byte.
-/
import PsModel.PreSieve
import PsModel.Generated.PreSieve03

namespace Ps.PreSieve

theorem table03_spec : Gen.preSieve03 = specNat (Gen.preSievePrimes.getD 3 []) Gen.preSieve03Len 0 ∧
    Gen.preSieve03Len = (Gen.preSievePrimes.getD 3 []).foldl (· * ·) 1 := by
  constructor <;> decide +kernel

end Ps.PreSieve
