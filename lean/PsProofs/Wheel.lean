/-
  PsProofs.Wheel — the regenerated wheel / cross-off tables equal their arithmetic specification
  (kernel-checked over all rows), and the consequences for every sieving prime and quotient:
  one step moves from p·q to p·q' with q' the next quotient coprime to the modulus, clearing the
  bit of p·q; a walk visits exactly the admissible quotients.
-/
import Mathlib.Tactic.Set
import Mathlib.Tactic.SplitIfs
import Mathlib.Data.Nat.Prime.Basic
import Mathlib.Tactic.IntervalCases
import PsModel.Wheel
namespace Ps.Wheel

theorem cls30 : cls 30 = [1, 7, 11, 13, 17, 19, 23, 29] := by decide +kernel
theorem cls210_len : (cls 210).length = 48 := by decide +kernel

/-- **EratMedium / EratSmall rows** = the specification, all 64 rows -/
theorem eratMediumRows_spec : Gen.eratMediumRows = (specRows 30).map (fun r => (r.1, r.2.1, r.2.2.1)) := by
  decide +kernel
theorem eratSmallRows_spec : Gen.eratSmallRows = (specRows 30).map (fun r => (r.1, r.2.1, r.2.2.1)) := by
  decide +kernel
/-- **EratBig wheel210** = the specification, all 384 rows (bit, factor, correct, next) -/
theorem wheel210_spec : Gen.wheel210 = specRows 210 := by decide +kernel

/-- the masks: BITk clears exactly bit k -/
theorem bitMasks_spec : Gen.bitMasks = (List.range 8).map (fun k => 255 - 2 ^ k) := by decide

/-- **INIT tables** of addSievingPrime = the specification -/
theorem wheel30Init_spec : Gen.wheel30Init = (List.range 30).map (specInit 30) := by decide +kernel
theorem wheel210Init_spec : Gen.wheel210Init = (List.range 210).map (specInit 210) := by decide +kernel

/-- wheelOffsets_[p % 30] = r·SIZE for the class r of p -/
theorem wheelOffsets_spec : ∀ r, r < 8 → Gen.wheelOffsetUnits.getD (primeRes.getD r 0) 0 = r := by decide

theorem wheelTypes_spec : Gen.wheelTypes = [("Wheel30_t", 30, 8, 6, "wheel30Init"), ("Wheel210_t", 210, 48, 10, "wheel210Init")] := by
  decide

/-- the arithmetic content of a row: off(b) + pr·F = 30·C + off(b'), F > 0, nothing coprime is skipped,
    and the bits are the bits of pr·c and pr·c' -/
def RowOK (M r k : Nat) : Bool :=
  let pr := primeRes.getD r 0
  let c := clsAt M k
  let c' := clsAt M (k + 1)
  let row := specRow M r k
  decide (c < c') &&
  decide (offs.getD row.1 0 + pr * row.2.1 = 30 * row.2.2.1 + offs.getD (specRow M r (k + 1)).1 0) &&
  decide (row.1 < 8) && decide (offs.getD row.1 0 % 30 = (pr * c) % 30) &&
  (List.range (c' - c)).all (fun d => d = 0 || Nat.gcd (c + d) M ≠ 1) &&
  decide (Nat.gcd c M = 1) && decide (c' - c ≤ 10)

theorem rows30_ok : ∀ r, r < 8 → ∀ k, k < 8 → RowOK 30 r k = true := by decide +kernel
theorem rows210_ok : ∀ r, r < 8 → ∀ k, k < 48 → RowOK 210 r k = true := by decide +kernel

/-- the unrolled loops of EratSmall are 8 consecutive single steps: store j uses the partial sums
    of the factors and corrections of rows 8g .. 8g+j-1, the stride is the full sum, maxOffset the
    last store -/
def unrolledSpec (g : Nat) : Nat × Nat × Nat × Nat × Nat × List (Nat × Nat × Nat) :=
  let rows := (List.range 8).map (fun k => specRow 30 g k)
  let pre := fun j => ((rows.take j).map (fun r => r.2.1)).sum
  let prc := fun j => ((rows.take j).map (fun r => r.2.2.1)).sum
  (8 * g, pre 7, prc 7, pre 8, prc 8, (List.range 8).map (fun j => (pre j, prc j, (rows.getD j (0,0,0,0)).1)))

theorem eratSmallUnrolled_spec :
    Gen.eratSmallUnrolled.map (fun u => (u.1, u.2.1, u.2.2.1, u.2.2.2.1, u.2.2.2.2.1)) =
      ((List.range 8).map unrolledSpec).map (fun u => (u.1, u.2.1, u.2.2.1, u.2.2.2.1, u.2.2.2.2.1)) ∧
    Gen.eratSmallUnrolled.map (fun u => u.2.2.2.2.2) = ((List.range 8).map unrolledSpec).map (fun u => u.2.2.2.2.2) := by
  constructor <;> decide +kernel

end Ps.Wheel

namespace Ps.Wheel

/-- a stored sieving prime `s` denotes the multiple p·q at position L + 30·idx + off(bit) -/
structure Denotes (M L : Nat) (s : SP) (q : Nat) : Prop where
  r_lt : s.w / (cls M).length < 8
  q_cls : q % M = (cls M).getD (s.w % (cls M).length) 0
  pos : (30 * s.sp + primeRes.getD (s.w / (cls M).length) 0) * q =
        L + 30 * s.idx + offs.getD (specRow M (s.w / (cls M).length) (s.w % (cls M).length)).1 0

/-- the step prescribed by the specification row -/
def specStep (M : Nat) (s : SP) : SP :=
  let row := specRow M (s.w / (cls M).length) (s.w % (cls M).length)
  { sp := s.sp, idx := s.idx + s.sp * row.2.1 + row.2.2.1, w := row.2.2.2 }

/-- extra table facts needed for the wrap-around of the class index -/
def WrapOK (M r k : Nat) : Bool :=
  decide ((specRow M r ((k + 1) % (cls M).length)).1 = (specRow M r (k + 1)).1) &&
  decide (clsAt M (k + 1) % M = (cls M).getD ((k + 1) % (cls M).length) 0) &&
  decide (clsAt M k = (cls M).getD k 0)

theorem wrap30_ok : ∀ r, r < 8 → ∀ k, k < 8 → WrapOK 30 r k = true := by decide +kernel
theorem wrap210_ok : ∀ r, r < 8 → ∀ k, k < 48 → WrapOK 210 r k = true := by decide +kernel

theorem step_sound_aux (M size : Nat) (hsize : (cls M).length = size) (hpos : 0 < size) (hM : 0 < M)
    (hrow : ∀ r, r < 8 → ∀ k, k < size → RowOK M r k = true)
    (hwrap : ∀ r, r < 8 → ∀ k, k < size → WrapOK M r k = true)
    (L : Nat) (s : SP) (q : Nat) (h : Denotes M L s q) :
    Denotes M L (specStep M s) (q + (specRow M (s.w / size) (s.w % size)).2.1) ∧
    (∀ d, 0 < d → d < (specRow M (s.w / size) (s.w % size)).2.1 → Nat.gcd (q + d) M ≠ 1) ∧
    0 < (specRow M (s.w / size) (s.w % size)).2.1 ∧ Nat.gcd q M = 1 := by
  obtain ⟨hr, hq, hp⟩ := h
  rw [hsize] at hr hq hp
  have hk : s.w % size < size := Nat.mod_lt _ hpos
  have R := hrow _ hr _ hk
  have W := hwrap _ hr _ hk
  simp only [RowOK, WrapOK, Bool.and_eq_true, decide_eq_true_eq, hsize] at R W
  obtain ⟨⟨⟨⟨⟨⟨hlt, heq⟩, hb8⟩, hbit⟩, hskip⟩, hgcd⟩, hF10⟩ := R
  obtain ⟨⟨hw1, hw2⟩, hw3⟩ := W
  set r := s.w / size with hr_def
  set k := s.w % size with hk_def
  -- the factor of the row
  have hF : (specRow M r k).2.1 = clsAt M (k + 1) - clsAt M k := rfl
  have hFpos : 0 < (specRow M r k).2.1 := by rw [hF]; omega
  have hqc : q % M = clsAt M k := by rw [hw3]; exact hq
  -- q = c + M·t
  have hqdecomp : q = clsAt M k + M * (q / M) := by
    have := Nat.mod_add_div q M
    rw [hqc] at this; omega
  refine ⟨⟨?_, ?_, ?_⟩, ?_, hFpos, ?_⟩
  · -- class of p unchanged
    show (specStep M s).w / (cls M).length < 8
    simp only [specStep, specRow, hsize]
    rw [Nat.mul_comm, Nat.mul_add_div hpos]
    have : (s.w % size + 1) % size / size = 0 := Nat.div_eq_of_lt (Nat.mod_lt _ hpos)
    rw [this]; simpa using hr
  · -- class of the new quotient
    show (q + (specRow M r k).2.1) % M = (cls M).getD ((specStep M s).w % (cls M).length) 0
    have hwk : (specStep M s).w % (cls M).length = (k + 1) % size := by
      simp only [specStep, specRow, hsize]
      rw [Nat.mul_comm, Nat.mul_add_mod]
      exact Nat.mod_mod _ _
    rw [hwk, ← hw2, hF]
    have : q + (clsAt M (k + 1) - clsAt M k) = clsAt M (k + 1) + M * (q / M) := by omega
    rw [this, Nat.add_mul_mod_self_left]
  · -- position of the new multiple
    show (30 * (specStep M s).sp + primeRes.getD ((specStep M s).w / (cls M).length) 0) * (q + (specRow M r k).2.1) = _
    have hwr : (specStep M s).w / (cls M).length = r := by
      simp only [specStep, specRow, hsize]
      rw [Nat.mul_comm, Nat.mul_add_div hpos]
      have : (s.w % size + 1) % size / size = 0 := Nat.div_eq_of_lt (Nat.mod_lt _ hpos)
      rw [this]; rfl
    have hwk : (specStep M s).w % (cls M).length = (k + 1) % size := by
      simp only [specStep, specRow, hsize]
      rw [Nat.mul_comm, Nat.mul_add_mod]
      exact Nat.mod_mod _ _
    rw [hwr, hwk, hw1]
    have hsp : (specStep M s).sp = s.sp := rfl
    have hidx : (specStep M s).idx = s.idx + s.sp * (specRow M r k).2.1 + (specRow M r k).2.2.1 := by
      simp only [specStep, hsize, hr_def, hk_def]
    rw [hsp, hidx, Nat.mul_add, hp]
    -- (30 sp + pr)·F = 30·sp·F + pr·F and off + pr·F = 30·C + off'
    have e1 : (30 * s.sp + primeRes.getD r 0) * (specRow M r k).2.1 =
        30 * (s.sp * (specRow M r k).2.1) + primeRes.getD r 0 * (specRow M r k).2.1 := by
      rw [Nat.add_mul, Nat.mul_assoc]
    rw [e1]
    omega
  · -- nothing coprime to M is skipped
    intro d hd0 hdF
    have := List.all_eq_true.mp hskip d (List.mem_range.mpr (by rw [hF] at hdF; exact hdF))
    simp only [Bool.or_eq_true, decide_eq_true_eq] at this
    rcases this with h0 | hne
    · omega
    · have e : (q + d) = (clsAt M k + d) + M * (q / M) := by omega
      rw [e, Nat.gcd_comm, Nat.gcd_add_mul_left_right, Nat.gcd_comm]
      simpa using hne
  · rw [hqdecomp, Nat.gcd_comm, Nat.gcd_add_mul_left_right, Nat.gcd_comm]
    exact hgcd

end Ps.Wheel

namespace Ps.Wheel

theorem step_sound30 (L : Nat) (s : SP) (q : Nat) (h : Denotes 30 L s q) :
    Denotes 30 L (specStep 30 s) (q + (specRow 30 (s.w / 8) (s.w % 8)).2.1) ∧
    (∀ d, 0 < d → d < (specRow 30 (s.w / 8) (s.w % 8)).2.1 → Nat.gcd (q + d) 30 ≠ 1) ∧
    0 < (specRow 30 (s.w / 8) (s.w % 8)).2.1 ∧ Nat.gcd q 30 = 1 :=
  step_sound_aux 30 8 (by decide +kernel) (by decide) (by decide) rows30_ok wrap30_ok L s q h

theorem step_sound210 (L : Nat) (s : SP) (q : Nat) (h : Denotes 210 L s q) :
    Denotes 210 L (specStep 210 s) (q + (specRow 210 (s.w / 48) (s.w % 48)).2.1) ∧
    (∀ d, 0 < d → d < (specRow 210 (s.w / 48) (s.w % 48)).2.1 → Nat.gcd (q + d) 210 ≠ 1) ∧
    0 < (specRow 210 (s.w / 48) (s.w % 48)).2.1 ∧ Nat.gcd q 210 = 1 :=
  step_sound_aux 210 48 cls210_len (by decide) (by decide) rows210_ok wrap210_ok L s q h

/-- the concrete steps on the regenerated tables ARE the specification steps -/
theorem step30_medium_eq : ∀ w, w < 64 → ∀ sp idx,
    step30 Gen.eratMediumRows ⟨sp, idx, w⟩ =
      ((specRow 30 (w / 8) (w % 8)).1, specStep 30 ⟨sp, idx, w⟩) := by
  have key : ∀ w, w < 64 →
      (Gen.eratMediumRows.getD w (0, 0, 0)).1 = (specRow 30 (w / 8) (w % 8)).1 ∧
      (Gen.eratMediumRows.getD w (0, 0, 0)).2.1 = (specRow 30 (w / 8) (w % 8)).2.1 ∧
      (Gen.eratMediumRows.getD w (0, 0, 0)).2.2 = (specRow 30 (w / 8) (w % 8)).2.2.1 ∧
      w / 8 * 8 + (w + 1) % 8 = (specRow 30 (w / 8) (w % 8)).2.2.2 ∧ (cls 30).length = 8 := by decide +kernel
  intro w hw sp idx
  obtain ⟨h1, h2, h3, h4, h5⟩ := key w hw
  simp only [step30, specStep, h5, h1, h2, h3, h4]

theorem step30_small_eq : ∀ w, w < 64 → ∀ sp idx,
    step30 Gen.eratSmallRows ⟨sp, idx, w⟩ =
      ((specRow 30 (w / 8) (w % 8)).1, specStep 30 ⟨sp, idx, w⟩) := by
  have key : ∀ w, w < 64 →
      (Gen.eratSmallRows.getD w (0, 0, 0)).1 = (specRow 30 (w / 8) (w % 8)).1 ∧
      (Gen.eratSmallRows.getD w (0, 0, 0)).2.1 = (specRow 30 (w / 8) (w % 8)).2.1 ∧
      (Gen.eratSmallRows.getD w (0, 0, 0)).2.2 = (specRow 30 (w / 8) (w % 8)).2.2.1 ∧
      w / 8 * 8 + (w + 1) % 8 = (specRow 30 (w / 8) (w % 8)).2.2.2 ∧ (cls 30).length = 8 := by decide +kernel
  intro w hw sp idx
  obtain ⟨h1, h2, h3, h4, h5⟩ := key w hw
  simp only [step30, specStep, h5, h1, h2, h3, h4]

theorem step210_eq : ∀ w, w < 384 → ∀ sp idx,
    step210 ⟨sp, idx, w⟩ = ((specRow 210 (w / 48) (w % 48)).1, specStep 210 ⟨sp, idx, w⟩) := by
  have key : ∀ w, w < 384 →
      (Gen.wheel210.getD w (0, 0, 0, 0)) = specRow 210 (w / 48) (w % 48) ∧ (cls 210).length = 48 := by decide +kernel
  intro w hw sp idx
  obtain ⟨h1, h5⟩ := key w hw
  simp only [step210, specStep, h5, h1, Nat.mul_comm]

/-- iterate the specification step n times, collecting the quotient reached -/
def walk (M : Nat) : Nat → SP → Nat → SP × Nat
  | 0, s, q => (s, q)
  | n + 1, s, q => walk M n (specStep M s) (q + (specRow M (s.w / (cls M).length) (s.w % (cls M).length)).2.1)

/-- **walk exactness**: from a state denoting p·q₀, n cross-off steps visit — in increasing order and
    without omission — exactly the quotients q ≥ q₀ coprime to the wheel's modulus, and the state
    always denotes p·q for the quotient reached -/
theorem walk_exact30 (L : Nat) : ∀ n s q, Denotes 30 L s q →
    Denotes 30 L (walk 30 n s q).1 (walk 30 n s q).2 ∧ q ≤ (walk 30 n s q).2 ∧
    (∀ x, q ≤ x → x < (walk 30 n s q).2 → Nat.gcd x 30 = 1 →
      ∃ j, j < n ∧ (walk 30 j s q).2 = x) := by
  intro n
  induction n with
  | zero => intro s q h; exact ⟨h, Nat.le_refl _, fun x h1 h2 _ => absurd h2 (by simp [walk]; omega)⟩
  | succ n ih =>
    intro s q h
    have hs := step_sound30 L s q h
    have e8 : (cls 30).length = 8 := by decide +kernel
    have ih' := ih (specStep 30 s) (q + (specRow 30 (s.w / 8) (s.w % 8)).2.1) hs.1
    simp only [walk, e8]
    refine ⟨ih'.1, by omega, ?_⟩
    intro x hx1 hx2 hg
    by_cases hxq : x = q
    · exact ⟨0, by omega, by simp [walk, hxq]⟩
    · by_cases hlt : x < q + (specRow 30 (s.w / 8) (s.w % 8)).2.1
      · exact absurd hg (by have := hs.2.1 (x - q) (by omega) (by omega); rwa [show q + (x - q) = x by omega] at this)
      · obtain ⟨j, hj, hjx⟩ := ih'.2.2 x (by omega) hx2 hg
        exact ⟨j + 1, by omega, by simp only [walk, e8]; exact hjx⟩

theorem walk_exact210 (L : Nat) : ∀ n s q, Denotes 210 L s q →
    Denotes 210 L (walk 210 n s q).1 (walk 210 n s q).2 ∧ q ≤ (walk 210 n s q).2 ∧
    (∀ x, q ≤ x → x < (walk 210 n s q).2 → Nat.gcd x 210 = 1 →
      ∃ j, j < n ∧ (walk 210 j s q).2 = x) := by
  intro n
  induction n with
  | zero => intro s q h; exact ⟨h, Nat.le_refl _, fun x h1 h2 _ => absurd h2 (by simp [walk]; omega)⟩
  | succ n ih =>
    intro s q h
    have hs := step_sound210 L s q h
    have e8 : (cls 210).length = 48 := cls210_len
    have ih' := ih (specStep 210 s) (q + (specRow 210 (s.w / 48) (s.w % 48)).2.1) hs.1
    simp only [walk, e8]
    refine ⟨ih'.1, by omega, ?_⟩
    intro x hx1 hx2 hg
    by_cases hxq : x = q
    · exact ⟨0, by omega, by simp [walk, hxq]⟩
    · by_cases hlt : x < q + (specRow 210 (s.w / 48) (s.w % 48)).2.1
      · exact absurd hg (by have := hs.2.1 (x - q) (by omega) (by omega); rwa [show q + (x - q) = x by omega] at this)
      · obtain ⟨j, hj, hjx⟩ := ih'.2.2 x (by omega) hx2 hg
        exact ⟨j + 1, by omega, by simp only [walk, e8]; exact hjx⟩

end Ps.Wheel

namespace Ps.Wheel


/-- facts about INIT[x]: x + d is the next residue coprime to M, class index e.2 -/
def InitOK (M x : Nat) : Bool :=
  let e := specInit M x
  decide (Nat.gcd (x + e.1) M = 1) && (List.range e.1).all (fun d => Nat.gcd (x + d) M ≠ 1) &&
  decide (e.2 < (cls M).length) && decide ((cls M).getD e.2 0 = (x + e.1) % M)

theorem init30_ok : ∀ x, x < 30 → InitOK 30 x = true := by decide +kernel
theorem init210_ok : ∀ x, x < 210 → InitOK 210 x = true := by decide +kernel

/-- bit facts: for every prime class r and quotient class k the spec bit is < 8, its offset is
    congruent to pr·c and is one of 7..31 (never 30) -/
def BitOK (M r k : Nat) : Bool :=
  let b := (specRow M r k).1
  decide (b < 8) && decide (offs.getD b 0 % 30 = (primeRes.getD r 0 * (cls M).getD k 0) % 30) &&
  decide (7 ≤ offs.getD b 0) && decide (offs.getD b 0 ≤ 31) && decide (offs.getD b 0 ≠ 30)

theorem bit30_ok : ∀ r, r < 8 → ∀ k, k < 8 → BitOK 30 r k = true := by decide +kernel
theorem bit210_ok : ∀ r, r < 8 → ∀ k, k < 48 → BitOK 210 r k = true := by decide +kernel

theorem primeRes_cover : ∀ x, x < 30 → Nat.gcd x 30 = 1 →
    ∃ r, r < 8 ∧ primeRes.getD r 0 = x ∧ Gen.wheelOffsetUnits.getD x 0 = r := by decide +kernel

theorem mod30_of_mod210 (q : Nat) : q % 210 % 30 = q % 30 := by omega

/-- **first multiple** (no-wrap case): for a prime p coprime to 30, a segment start L ≡ 0 (mod 30) and products
    below 2^64, Wheel::addSievingPrime either drops the prime (its first admissible multiple is
    beyond `stop`) or stores a state that denotes p·q for the LEAST q ≥ max(p, ⌊(L+6)/p⌋+1)
    coprime to the modulus -/
theorem addSievingPrime_denotes (M size : Nat) (init : List (Nat × Nat))
    (hM30 : M % 30 = 0) (hMpos : 0 < M) (hsize : (cls M).length = size) (hspos : 0 < size)
    (hinit : init = (List.range M).map (specInit M))
    (hinitok : ∀ x, x < M → InitOK M x = true)
    (hbit : ∀ r, r < 8 → ∀ k, k < size → BitOK M r k = true)
    (stop p L : Nat) (hp : Nat.gcd (p % 30) 30 = 1) (hp0 : 0 < p) (hL : L % 30 = 0)
    (hnw : L + 6 < U64)
    (hnw2 : p * (max p ((L + 6) / p + 1) + M) < U64) (hstop : stop < U64)
    (s : SP) (h : addSievingPrime M size init stop p L = some s) :
    ∃ q, Denotes M L s q ∧ max p ((L + 6) / p + 1) ≤ q ∧ p * q ≤ stop ∧
      (∀ x, max p ((L + 6) / p + 1) ≤ x → x < q → Nat.gcd x M ≠ 1) ∧ s.sp = p / 30 := by
  unfold addSievingPrime at h
  have e6 : add64 L 6 = L + 6 := by unfold add64; exact Nat.mod_eq_of_lt hnw
  simp only [e6] at h
  set q0 := max p ((L + 6) / p + 1) with hq0
  have hxM : q0 % M < M := Nat.mod_lt _ hMpos
  have I := hinitok _ hxM
  simp only [InitOK, Bool.and_eq_true, decide_eq_true_eq] at I
  obtain ⟨⟨⟨hg, hskip⟩, hk⟩, hcls⟩ := I
  have hget : init.getD (q0 % M) (0, 0) = specInit M (q0 % M) := by
    rw [hinit, List.getD_eq_getElem?_getD, List.getElem?_map, List.getElem?_range hxM]; rfl
  rw [hget] at h
  set e := specInit M (q0 % M) with he
  have hdM : e.1 < M ∨ e.1 = 0 := by
    -- d comes from a search below M
    simp only [he, specInit]
    cases hf : (List.range M).find? (fun d => Nat.gcd (q0 % M + d) M = 1) with
    | none => right; rfl
    | some d => left; have := List.mem_of_find?_eq_some hf; simpa using this
  have hdlt : e.1 ≤ M := by rcases hdM with h1 | h1 <;> omega
  have hm1 : mul64 p q0 = p * q0 := by
    unfold mul64; apply Nat.mod_eq_of_lt
    exact Nat.lt_of_le_of_lt (Nat.mul_le_mul_left p (by omega)) hnw2
  have hm2 : mul64 p e.1 = p * e.1 := by
    unfold mul64; apply Nat.mod_eq_of_lt
    exact Nat.lt_of_le_of_lt (Nat.mul_le_mul_left p (by omega)) hnw2
  rw [hm1, hm2] at h
  split_ifs at h with c1 c2
  injection h with h
  subst h
  -- the multiple p·q0 lies above L + 6
  have hq0gt : L + 6 < p * q0 := by
    have h1 : (L + 6) / p + 1 ≤ q0 := by omega
    have h2 : L + 6 < p * ((L + 6) / p + 1) := Nat.lt_mul_div_succ (L + 6) hp0
    exact Nat.lt_of_lt_of_le h2 (Nat.mul_le_mul_left p h1)
  refine ⟨q0 + e.1, ?_, by omega, ?_, ?_, rfl⟩
  · -- Denotes
    obtain ⟨r, hr8, hrp, hru⟩ := primeRes_cover (p % 30) (Nat.mod_lt _ (by decide)) hp
    have hw : (Gen.wheelOffsetUnits.getD (p % 30) 0 * size + e.2) / size = r := by
      rw [hru, Nat.mul_comm, Nat.mul_add_div hspos, Nat.div_eq_of_lt (by rw [← hsize]; exact hk)]; rfl
    have hwk : (Gen.wheelOffsetUnits.getD (p % 30) 0 * size + e.2) % size = e.2 := by
      rw [hru, Nat.mul_comm, Nat.mul_add_mod, Nat.mod_eq_of_lt (by rw [← hsize]; exact hk)]
    have hqcls : (q0 + e.1) % M = (cls M).getD e.2 0 := by
      rw [hcls, Nat.mod_add_mod]
    have B := hbit r hr8 e.2 (by rw [← hsize]; exact hk)
    simp only [BitOK, Bool.and_eq_true, decide_eq_true_eq] at B
    obtain ⟨⟨⟨⟨hb8, hbmod⟩, hb7⟩, hb31⟩, hb30⟩ := B
    refine ⟨?_, ?_, ?_⟩
    · show _ / (cls M).length < 8
      rw [hsize, hw]; exact hr8
    · show (q0 + e.1) % M = (cls M).getD (_ % (cls M).length) 0
      rw [hsize, hwk]; exact hqcls
    · show (30 * (p / 30) + primeRes.getD (_ / (cls M).length) 0) * (q0 + e.1) =
        L + 30 * ((p * q0 + p * e.1 - (L + 6)) / 30) + offs.getD (specRow M (_ / (cls M).length) (_ % (cls M).length)).1 0
      rw [hsize, hw, hwk, hrp]
      have hpdec : 30 * (p / 30) + p % 30 = p := Nat.div_add_mod p 30
      rw [hpdec, Nat.mul_add]
      -- the offset is congruent to the multiple
      set o := offs.getD (specRow M r e.2).1 0 with ho
      have hmm : (p * q0 + p * e.1) % 30 = o % 30 := by
        rw [hbmod, hrp, ← Nat.mul_add]
        have h1 : (q0 + e.1) % 30 = ((cls M).getD e.2 0) % 30 := by
          rw [← hqcls]
          have : M = 30 * (M / 30) := by omega
          rw [this, Nat.mod_mul_right_mod]
        rw [Nat.mul_mod, h1, ← Nat.mul_mod]
        rw [Nat.mul_mod p, Nat.mul_mod (p % 30) ((cls M).getD e.2 0), Nat.mod_mod]
      have hgt : L + 6 < p * q0 + p * e.1 := by omega
      omega
  · rw [Nat.mul_add]; omega
  · intro x hx1 hx2 hgx
    -- x = q0 + d with d < e.1
    have hd : x - q0 < e.1 := by omega
    have := List.all_eq_true.mp hskip (x - q0) (List.mem_range.mpr hd)
    simp only [decide_eq_true_eq] at this
    apply this
    have e1 : q0 % M + (x - q0) + M * (q0 / M) = x := by
      have := Nat.mod_add_div q0 M; omega
    rw [← e1, Nat.gcd_comm, Nat.gcd_add_mul_left_right, Nat.gcd_comm] at hgx
    exact hgx


theorem addSievingPrime30_denotes (stop p L : Nat) (hp : Nat.gcd (p % 30) 30 = 1) (hp0 : 0 < p) (hL : L % 30 = 0)
    (hnw : L + 6 < U64) (hnw2 : p * (max p ((L + 6) / p + 1) + 30) < U64) (hstop : stop < U64)
    (s : SP) (h : addSievingPrime 30 8 Gen.wheel30Init stop p L = some s) :
    ∃ q, Denotes 30 L s q ∧ max p ((L + 6) / p + 1) ≤ q ∧ p * q ≤ stop ∧
      (∀ x, max p ((L + 6) / p + 1) ≤ x → x < q → Nat.gcd x 30 ≠ 1) ∧ s.sp = p / 30 :=
  addSievingPrime_denotes 30 8 Gen.wheel30Init (by decide) (by decide) (by decide +kernel) (by decide)
    wheel30Init_spec init30_ok bit30_ok stop p L hp hp0 hL hnw hnw2 hstop s h

theorem addSievingPrime210_denotes (stop p L : Nat) (hp : Nat.gcd (p % 30) 30 = 1) (hp0 : 0 < p) (hL : L % 30 = 0)
    (hnw : L + 6 < U64) (hnw2 : p * (max p ((L + 6) / p + 1) + 210) < U64) (hstop : stop < U64)
    (s : SP) (h : addSievingPrime 210 48 Gen.wheel210Init stop p L = some s) :
    ∃ q, Denotes 210 L s q ∧ max p ((L + 6) / p + 1) ≤ q ∧ p * q ≤ stop ∧
      (∀ x, max p ((L + 6) / p + 1) ≤ x → x < q → Nat.gcd x 210 ≠ 1) ∧ s.sp = p / 30 :=
  addSievingPrime_denotes 210 48 Gen.wheel210Init (by decide) (by decide) cls210_len (by decide)
    wheel210Init_spec init210_ok bit210_ok stop p L hp hp0 hL hnw hnw2 hstop s h

end Ps.Wheel

namespace Ps.Wheel


/-- n is one of the multiples p·q (q ≥ p, q coprime to the wheel modulus M) that the walk of the
    sieving prime p crosses off -/
def ClearedBy (M p n : Nat) : Prop := ∃ q, p ≤ q ∧ Nat.gcd q M = 1 ∧ n = p * q

/-- **sieve principle** behind Erat::sieveSegment: a number n > 163 coprime to 30 (i.e. a number that has a bit in
    the sieve array) with n ≤ H is prime iff (a) no prime from 7 to 163 divides it — the pre-sieve —
    and (b) no sieving prime p in (163, √H] crosses it off, where every sieving prime walks the
    quotients q ≥ p coprime to 30 (EratSmall / EratMedium) or coprime to 210 (EratBig), `M p` being
    the modulus of the algorithm p is routed to -/
theorem sieve_principle (M : Nat → Nat) (hM : ∀ p, M p = 30 ∨ M p = 210) (n H : Nat) (hn : 163 < n) (hnH : n ≤ H)
    (hc : Nat.gcd n 30 = 1) :
    n.Prime ↔ (∀ p, p.Prime → 7 ≤ p → p ≤ 163 → ¬ p ∣ n) ∧
              (∀ p, p.Prime → 163 < p → p * p ≤ H → ¬ ClearedBy (M p) p n) := by
  constructor
  · intro hp
    refine ⟨?_, ?_⟩
    · intro p hpp _ h163 hdvd
      have := (Nat.prime_dvd_prime_iff_eq hpp hp).mp hdvd
      omega
    · rintro p hpp h163 _ ⟨q, hpq, _, rfl⟩
      have h1 : p ∣ p * q := Dvd.intro _ rfl
      have := (Nat.prime_dvd_prime_iff_eq hpp hp).mp h1
      -- p = p * q forces q = 1 < p
      have hq : q = 1 := by
        have hp0 : 0 < p := hpp.pos
        have : p * 1 = p * q := by rw [Nat.mul_one]; exact this
        exact (Nat.eq_of_mul_eq_mul_left hp0 this).symm
      have := hpp.two_le
      omega
  · rintro ⟨hpre, hcross⟩
    by_contra hnp
    have hn1 : n ≠ 1 := by omega
    set p := n.minFac with hpdef
    have hpp : p.Prime := Nat.minFac_prime hn1
    have hpd : p ∣ n := Nat.minFac_dvd n
    have hsq : p * p ≤ n := by
      have := Nat.minFac_sq_le_self (by omega : 0 < n) hnp
      simpa [Nat.pow_two] using this
    -- p is not 2, 3, 5
    have hp7 : 7 ≤ p := by
      have h2 : ¬ 2 ∣ n := fun h => by
        have : 2 ∣ Nat.gcd n 30 := Nat.dvd_gcd h (by decide)
        rw [hc] at this; omega
      have h3 : ¬ 3 ∣ n := fun h => by
        have : 3 ∣ Nat.gcd n 30 := Nat.dvd_gcd h (by decide)
        rw [hc] at this; omega
      have h5 : ¬ 5 ∣ n := fun h => by
        have : 5 ∣ Nat.gcd n 30 := Nat.dvd_gcd h (by decide)
        rw [hc] at this; omega
      by_contra hlt
      have hp2 := hpp.two_le
      have hlt' : p < 7 := by omega
      interval_cases p
      · exact h2 hpd
      · exact h3 hpd
      · exact absurd hpp (by decide)
      · exact h5 hpd
      · exact absurd hpp (by decide)
    by_cases h163 : p ≤ 163
    · exact hpre p hpp hp7 h163 hpd
    · obtain ⟨q, hq⟩ := hpd
      have hpq : p ≤ q := by
        by_contra hlt
        have : p * q < p * p := (Nat.mul_lt_mul_left hpp.pos).mpr (by omega)
        omega
      have hq30 : Nat.gcd q 30 = 1 := by
        have : Nat.gcd q 30 ∣ Nat.gcd n 30 := Nat.gcd_dvd_gcd_of_dvd_left 30 (Dvd.intro_left p hq.symm)
        rw [hc] at this
        exact Nat.eq_one_of_dvd_one this
      refine hcross p hpp (by omega) (by omega) ⟨q, hpq, ?_, hq⟩
      rcases hM p with h30 | h210
      · rw [h30]; exact hq30
      · rw [h210]
        -- 210 = 30 · 7 and 7 ∤ q (else 7 ∣ n, excluded by the pre-sieve)
        have h7 : ¬ 7 ∣ q := fun h => hpre 7 (by decide) (by omega) (by omega) (hq ▸ Dvd.dvd.mul_left h p)
        have hcop7 : Nat.Coprime q 7 := (Nat.Prime.coprime_iff_not_dvd (by decide : Nat.Prime 7)).mpr h7 |>.symm
        have : Nat.Coprime q (30 * 7) := Nat.Coprime.mul_right hq30 hcop7
        simpa using this

theorem walk_ge30 (L : Nat) : ∀ N s q, Denotes 30 L s q → q + N ≤ (walk 30 N s q).2 := by
  intro N
  induction N with
  | zero => intro s q _; simp [walk]
  | succ N ih =>
    intro s q h
    have hs := step_sound30 L s q h
    have e8 : (cls 30).length = 8 := (by decide +kernel)
    have := ih _ _ hs.1
    simp only [walk, e8]
    have hF := hs.2.2.1
    omega

/-- every admissible multiple p·x with x at or above the starting quotient is reached by the walk, and the
    state reached denotes exactly that multiple (so the bit cleared there is the bit of p·x) -/
theorem walk_reaches30 (L : Nat) (s : SP) (q x : Nat) (h : Denotes 30 L s q) (hx : q ≤ x) (hg : Nat.gcd x 30 = 1) :
    ∃ j, (walk 30 j s q).2 = x ∧ Denotes 30 L (walk 30 j s q).1 x := by
  have hN := walk_ge30 L (x - q + 1) s q h
  obtain ⟨j, _, hj⟩ := (walk_exact30 L (x - q + 1) s q h).2.2 x hx (by omega) hg
  refine ⟨j, hj, ?_⟩
  have := (walk_exact30 L j s q h).1
  rw [hj] at this
  exact this

theorem walk_ge210 (L : Nat) : ∀ N s q, Denotes 210 L s q → q + N ≤ (walk 210 N s q).2 := by
  intro N
  induction N with
  | zero => intro s q _; simp [walk]
  | succ N ih =>
    intro s q h
    have hs := step_sound210 L s q h
    have e8 : (cls 210).length = 48 := cls210_len
    have := ih _ _ hs.1
    simp only [walk, e8]
    have hF := hs.2.2.1
    omega

/-- every admissible multiple p·x with x at or above the starting quotient is reached by the walk, and the
    state reached denotes exactly that multiple (so the bit cleared there is the bit of p·x) -/
theorem walk_reaches210 (L : Nat) (s : SP) (q x : Nat) (h : Denotes 210 L s q) (hx : q ≤ x) (hg : Nat.gcd x 210 = 1) :
    ∃ j, (walk 210 j s q).2 = x ∧ Denotes 210 L (walk 210 j s q).1 x := by
  have hN := walk_ge210 L (x - q + 1) s q h
  obtain ⟨j, _, hj⟩ := (walk_exact210 L (x - q + 1) s q h).2.2 x hx (by omega) hg
  refine ⟨j, hj, ?_⟩
  have := (walk_exact210 L j s q h).1
  rw [hj] at this
  exact this

/-- a multiple p·x inside a segment (above L + 6) has a quotient at or above the first quotient
    addSievingPrime considers -/
theorem quotient_ge_first (p L x : Nat) (hp0 : 0 < p) (hpx : p ≤ x) (hn : L + 6 < p * x) :
    max p ((L + 6) / p + 1) ≤ x := by
  have : (L + 6) / p < x := by
    rw [Nat.div_lt_iff_lt_mul hp0, Nat.mul_comm]; exact hn
  omega


/-- once a sieving prime has been stored, the walk from the stored state reaches every admissible multiple
    p·x (x ≥ p coprime to the modulus) that lies above the segment start, and the state reached
    denotes it -/
theorem crossoff_covers30 (stop p L : Nat) (hp : Nat.gcd (p % 30) 30 = 1) (hp0 : 0 < p) (hL : L % 30 = 0)
    (hnw : L + 6 < U64) (hnw2 : p * (max p ((L + 6) / p + 1) + 30) < U64) (hstop : stop < U64)
    (s : SP) (h : addSievingPrime 30 8 Gen.wheel30Init stop p L = some s)
    (x : Nat) (hpx : p ≤ x) (hg : Nat.gcd x 30 = 1) (hn : L + 6 < p * x) :
    ∃ q1 j, Denotes 30 L s q1 ∧ (walk 30 j s q1).2 = x ∧ Denotes 30 L (walk 30 j s q1).1 x := by
  obtain ⟨q1, hd, _, _, hleast, _⟩ := addSievingPrime30_denotes stop p L hp hp0 hL hnw hnw2 hstop s h
  have hq0 := quotient_ge_first p L x hp0 hpx hn
  have hq1 : q1 ≤ x := by
    by_contra hlt
    exact hleast x hq0 (by omega) hg
  obtain ⟨j, hj, hdj⟩ := walk_reaches30 L s q1 x hd hq1 hg
  exact ⟨q1, j, hd, hj, hdj⟩

theorem crossoff_covers210 (stop p L : Nat) (hp : Nat.gcd (p % 30) 30 = 1) (hp0 : 0 < p) (hL : L % 30 = 0)
    (hnw : L + 6 < U64) (hnw2 : p * (max p ((L + 6) / p + 1) + 210) < U64) (hstop : stop < U64)
    (s : SP) (h : addSievingPrime 210 48 Gen.wheel210Init stop p L = some s)
    (x : Nat) (hpx : p ≤ x) (hg : Nat.gcd x 210 = 1) (hn : L + 6 < p * x) :
    ∃ q1 j, Denotes 210 L s q1 ∧ (walk 210 j s q1).2 = x ∧ Denotes 210 L (walk 210 j s q1).1 x := by
  obtain ⟨q1, hd, _, _, hleast, _⟩ := addSievingPrime210_denotes stop p L hp hp0 hL hnw hnw2 hstop s h
  have hq0 := quotient_ge_first p L x hp0 hpx hn
  have hq1 : q1 ≤ x := by
    by_contra hlt
    exact hleast x hq0 (by omega) hg
  obtain ⟨j, hj, hdj⟩ := walk_reaches210 L s q1 x hd hq1 hg
  exact ⟨q1, j, hd, hj, hdj⟩

end Ps.Wheel

namespace Ps.Wheel


/-- **the two overflow guards make 64-bit wrap-around invisible**: for every sieving prime p < 2^32 (sieving primes are
    ≤ √stop), every segment start and every stop below 2^64, Wheel::addSievingPrime computed with wrapping
    uint64_t arithmetic returns exactly what the same function returns over unbounded integers: a product
    p·q that exceeds 2^64 wraps to a value below p ≤ segmentLow and is caught by `multiple < segmentLow`;
    p·nextMultipleFactor never wraps; `nextMultiple > stop - multiple` is evaluated only when multiple ≤ stop -/
theorem addSievingPrime_eq_exact (M size : Nat) (init : List (Nat × Nat)) (hinit : ∀ x, (init.getD x (0, 0)).1 ≤ 10)
    (stop p L : Nat) (hp0 : 0 < p) (hp : p < 4294967296) (hL : L + 6 < U64) (hstop : stop < U64) :
    addSievingPrime M size init stop p L = addSievingPrimeExact M size init stop p L := by
  unfold addSievingPrime addSievingPrimeExact
  have hU : U64 = 18446744073709551616 := rfl
  have e6 : add64 L 6 = L + 6 := by unfold add64; exact Nat.mod_eq_of_lt hL
  simp only [e6]
  generalize hq : max p ((L + 6) / p + 1) = q0
  have hq0 : (L + 6) / p + 1 ≤ q0 := by omega
  have hgt : L + 6 < p * q0 := by
    have h2 : L + 6 < p * ((L + 6) / p + 1) := Nat.lt_mul_div_succ (L + 6) hp0
    exact Nat.lt_of_lt_of_le h2 (Nat.mul_le_mul_left p hq0)
  have hnm : ∀ x, mul64 p (init.getD x (0, 0)).1 = p * (init.getD x (0, 0)).1 := by
    intro x
    unfold mul64; apply Nat.mod_eq_of_lt
    have := hinit x
    have : p * (init.getD x (0, 0)).1 ≤ p * 10 := Nat.mul_le_mul_left p this
    omega
  by_cases hP : p * q0 < U64
  · have hm : mul64 p q0 = p * q0 := by unfold mul64; exact Nat.mod_eq_of_lt hP
    rw [hm]
    by_cases c1 : p * q0 > stop
    · have : p * q0 > stop ∨ p * q0 < L + 6 := Or.inl c1
      rw [if_pos this, if_pos c1]
    · have : ¬ (p * q0 > stop ∨ p * q0 < L + 6) := by omega
      rw [if_neg this, if_neg c1]
      simp only [hnm]
      by_cases c2 : p * (init.getD (q0 % M) (0, 0)).1 > stop - p * q0
      · rw [if_pos c2, if_pos (by omega)]
      · rw [if_neg c2, if_neg (by omega)]
  · -- the product exceeds 2^64: the exact function sees multiple > stop, the wrapped value is below p ≤ L + 6
    have hbig : p * q0 > stop := by omega
    rw [if_pos hbig]
    -- q0 is not p (p·p < 2^64), so q0 = (L+6)/p + 1
    have hpp : p * p < U64 := by
      have : p * p ≤ 4294967295 * 4294967295 := Nat.mul_le_mul (by omega) (by omega)
      omega
    have hqne : q0 = (L + 6) / p + 1 := by
      rcases Nat.le_total p ((L + 6) / p + 1) with h | h
      · rw [← hq]; exact Nat.max_eq_right h
      · have : q0 = p := by rw [← hq]; exact Nat.max_eq_left h
        rw [this] at hP; exact absurd hpp hP
    have hle : p * q0 ≤ L + 6 + p := by
      rw [hqne, Nat.mul_add, Nat.mul_one]
      have := Nat.mul_div_le (L + 6) p
      omega
    have hpL : p ≤ L + 6 := by
      -- (L+6)/p + 1 > p  (else q0 = p)
      have hqp : p < q0 := by
        by_contra hnot
        have : q0 = p := by omega
        rw [this] at hP; exact absurd hpp hP
      have h1 : p ≤ (L + 6) / p := by omega
      have h2 : p * ((L + 6) / p) ≤ L + 6 := Nat.mul_div_le (L + 6) p
      have h3 : p * 1 ≤ p * ((L + 6) / p) := Nat.mul_le_mul_left p (by omega)
      omega
    have hwrap : mul64 p q0 < L + 6 := by
      unfold mul64
      have : p * q0 % U64 = p * q0 - U64 := by
        rw [Nat.mod_eq_sub_mod (by omega)]
        exact Nat.mod_eq_of_lt (by omega)
      rw [this]; omega
    rw [if_pos (Or.inr hwrap)]



theorem addSievingPrimeExact_spec (M size : Nat) (init : List (Nat × Nat))
    (hM30 : M % 30 = 0) (hMpos : 0 < M) (hsize : (cls M).length = size) (hspos : 0 < size)
    (hinit : init = (List.range M).map (specInit M))
    (hinitok : ∀ x, x < M → InitOK M x = true)
    (hbit : ∀ r, r < 8 → ∀ k, k < size → BitOK M r k = true)
    (stop p L : Nat) (hp : Nat.gcd (p % 30) 30 = 1) (hp0 : 0 < p) (hL : L % 30 = 0)
    (s : SP) (h : addSievingPrimeExact M size init stop p L = some s) :
    ∃ q, Denotes M L s q ∧ max p ((L + 6) / p + 1) ≤ q ∧ p * q ≤ stop ∧
      (∀ x, max p ((L + 6) / p + 1) ≤ x → x < q → Nat.gcd x M ≠ 1) ∧ s.sp = p / 30 := by
  unfold addSievingPrimeExact at h
  simp only at h
  set q0 := max p ((L + 6) / p + 1) with hq0
  have hxM : q0 % M < M := Nat.mod_lt _ hMpos
  have I := hinitok _ hxM
  simp only [InitOK, Bool.and_eq_true, decide_eq_true_eq] at I
  obtain ⟨⟨⟨hg, hskip⟩, hk⟩, hcls⟩ := I
  have hget : init.getD (q0 % M) (0, 0) = specInit M (q0 % M) := by
    rw [hinit, List.getD_eq_getElem?_getD, List.getElem?_map, List.getElem?_range hxM]; rfl
  rw [hget] at h
  set e := specInit M (q0 % M) with he
  have hdM : e.1 < M ∨ e.1 = 0 := by
    -- d comes from a search below M
    simp only [he, specInit]
    cases hf : (List.range M).find? (fun d => Nat.gcd (q0 % M + d) M = 1) with
    | none => right; rfl
    | some d => left; have := List.mem_of_find?_eq_some hf; simpa using this
  have hdlt : e.1 ≤ M := by rcases hdM with h1 | h1 <;> omega
  split_ifs at h with c1 c2
  injection h with h
  subst h
  -- the multiple p·q0 lies above L + 6
  have hq0gt : L + 6 < p * q0 := by
    have h1 : (L + 6) / p + 1 ≤ q0 := by omega
    have h2 : L + 6 < p * ((L + 6) / p + 1) := Nat.lt_mul_div_succ (L + 6) hp0
    exact Nat.lt_of_lt_of_le h2 (Nat.mul_le_mul_left p h1)
  refine ⟨q0 + e.1, ?_, by omega, ?_, ?_, rfl⟩
  · -- Denotes
    obtain ⟨r, hr8, hrp, hru⟩ := primeRes_cover (p % 30) (Nat.mod_lt _ (by decide)) hp
    have hw : (Gen.wheelOffsetUnits.getD (p % 30) 0 * size + e.2) / size = r := by
      rw [hru, Nat.mul_comm, Nat.mul_add_div hspos, Nat.div_eq_of_lt (by rw [← hsize]; exact hk)]; rfl
    have hwk : (Gen.wheelOffsetUnits.getD (p % 30) 0 * size + e.2) % size = e.2 := by
      rw [hru, Nat.mul_comm, Nat.mul_add_mod, Nat.mod_eq_of_lt (by rw [← hsize]; exact hk)]
    have hqcls : (q0 + e.1) % M = (cls M).getD e.2 0 := by
      rw [hcls, Nat.mod_add_mod]
    have B := hbit r hr8 e.2 (by rw [← hsize]; exact hk)
    simp only [BitOK, Bool.and_eq_true, decide_eq_true_eq] at B
    obtain ⟨⟨⟨⟨hb8, hbmod⟩, hb7⟩, hb31⟩, hb30⟩ := B
    refine ⟨?_, ?_, ?_⟩
    · show _ / (cls M).length < 8
      rw [hsize, hw]; exact hr8
    · show (q0 + e.1) % M = (cls M).getD (_ % (cls M).length) 0
      rw [hsize, hwk]; exact hqcls
    · show (30 * (p / 30) + primeRes.getD (_ / (cls M).length) 0) * (q0 + e.1) =
        L + 30 * ((p * q0 + p * e.1 - (L + 6)) / 30) + offs.getD (specRow M (_ / (cls M).length) (_ % (cls M).length)).1 0
      rw [hsize, hw, hwk, hrp]
      have hpdec : 30 * (p / 30) + p % 30 = p := Nat.div_add_mod p 30
      rw [hpdec, Nat.mul_add]
      -- the offset is congruent to the multiple
      set o := offs.getD (specRow M r e.2).1 0 with ho
      have hmm : (p * q0 + p * e.1) % 30 = o % 30 := by
        rw [hbmod, hrp, ← Nat.mul_add]
        have h1 : (q0 + e.1) % 30 = ((cls M).getD e.2 0) % 30 := by
          rw [← hqcls]
          have : M = 30 * (M / 30) := by omega
          rw [this, Nat.mod_mul_right_mod]
        rw [Nat.mul_mod, h1, ← Nat.mul_mod]
        rw [Nat.mul_mod p, Nat.mul_mod (p % 30) ((cls M).getD e.2 0), Nat.mod_mod]
      have hgt : L + 6 < p * q0 + p * e.1 := by omega
      omega
  · rw [Nat.mul_add]; omega
  · intro x hx1 hx2 hgx
    -- x = q0 + d with d < e.1
    have hd : x - q0 < e.1 := by omega
    have := List.all_eq_true.mp hskip (x - q0) (List.mem_range.mpr hd)
    simp only [decide_eq_true_eq] at this
    apply this
    have e1 : q0 % M + (x - q0) + M * (q0 / M) = x := by
      have := Nat.mod_add_div q0 M; omega
    rw [← e1, Nat.gcd_comm, Nat.gcd_add_mul_left_right, Nat.gcd_comm] at hgx
    exact hgx



/-- when addSievingPrime drops a prime, no admissible multiple of it lies at or below stop -/
theorem addSievingPrimeExact_none (M size : Nat) (init : List (Nat × Nat))
    (hMpos : 0 < M) (hinit : init = (List.range M).map (specInit M))
    (hinitok : ∀ x, x < M → InitOK M x = true)
    (stop p L : Nat) (h : addSievingPrimeExact M size init stop p L = none)
    (x : Nat) (hx : max p ((L + 6) / p + 1) ≤ x) (hg : Nat.gcd x M = 1) : stop < p * x := by
  unfold addSievingPrimeExact at h
  simp only at h
  set q0 := max p ((L + 6) / p + 1) with hq0
  have hxM : q0 % M < M := Nat.mod_lt _ hMpos
  have I := hinitok _ hxM
  simp only [InitOK, Bool.and_eq_true, decide_eq_true_eq] at I
  obtain ⟨⟨⟨_, hskip⟩, _⟩, _⟩ := I
  have hget : init.getD (q0 % M) (0, 0) = specInit M (q0 % M) := by
    rw [hinit, List.getD_eq_getElem?_getD, List.getElem?_map, List.getElem?_range hxM]; rfl
  rw [hget] at h
  have hmono : p * q0 ≤ p * x := Nat.mul_le_mul_left p hx
  split_ifs at h with c1 c2
  · omega
  · -- x is at least q0 + d: everything in [q0, q0 + d) shares a factor with M
    have hge : q0 + (specInit M (q0 % M)).1 ≤ x := by
      by_contra hlt
      have hd : x - q0 < (specInit M (q0 % M)).1 := by omega
      have := List.all_eq_true.mp hskip (x - q0) (List.mem_range.mpr hd)
      simp only [decide_eq_true_eq] at this
      apply this
      have e1 : q0 % M + (x - q0) + M * (q0 / M) = x := by
        have := Nat.mod_add_div q0 M; omega
      rw [← e1, Nat.gcd_comm, Nat.gcd_add_mul_left_right, Nat.gcd_comm] at hg
      exact hg
    have : p * (q0 + (specInit M (q0 % M)).1) ≤ p * x := Nat.mul_le_mul_left p hge
    rw [Nat.mul_add] at this
    omega


theorem init_le_10 : (∀ x, (Gen.wheel30Init.getD x (0, 0)).1 ≤ 10) ∧ (∀ x, (Gen.wheel210Init.getD x (0, 0)).1 ≤ 10) := by
  have l30 : Gen.wheel30Init.length = 30 := by decide
  have l210 : Gen.wheel210Init.length = 210 := by decide +kernel
  have h30 : ∀ y, y < 30 → (Gen.wheel30Init.getD y (0, 0)).1 ≤ 10 := by decide
  have h210 : ∀ y, y < 210 → (Gen.wheel210Init.getD y (0, 0)).1 ≤ 10 := by decide +kernel
  constructor
  · intro x
    by_cases h : x < 30
    · exact h30 x h
    · have hn : Gen.wheel30Init[x]? = none := List.getElem?_eq_none (by omega)
      rw [List.getD_eq_getElem?_getD, hn]; decide
  · intro x
    by_cases h : x < 210
    · exact h210 x h
    · have hn : Gen.wheel210Init[x]? = none := List.getElem?_eq_none (by omega)
      rw [List.getD_eq_getElem?_getD, hn]; decide

end Ps.Wheel

namespace Ps.Wheel


/-- every store of an unrolled loop of EratSmall uses an offset ≤ the loop's maxOffset, componentwise
    (sievingPrime·A + B with A ≤ A_max, B ≤ B_max), and maxOffset is the offset of the last store -/
theorem unrolled_offsets_ok : ∀ u ∈ Gen.eratSmallUnrolled,
    (∀ st ∈ u.2.2.2.2.2, st.1 ≤ u.2.1 ∧ st.2.1 ≤ u.2.2.1 ∧ st.2.2 < 8) ∧ u.2.2.2.2.2.length = 8 := by decide +kernel

/-- **EratSmall unrolled loop in bounds**: the loop runs while i < limit = max(sieveSize, maxOffset) - maxOffset; then each of the
    8 stores sieve[i + sievingPrime·A + B] addresses a byte inside [0, sieveSize) -/
theorem unrolled_in_bounds (u : Nat × Nat × Nat × Nat × Nat × List (Nat × Nat × Nat)) (hu : u ∈ Gen.eratSmallUnrolled)
    (sp i sieveSize : Nat) (hi : i < max sieveSize (sp * u.2.1 + u.2.2.1) - (sp * u.2.1 + u.2.2.1)) :
    ∀ st ∈ u.2.2.2.2.2, i + sp * st.1 + st.2.1 < sieveSize := by
  intro st hst
  obtain ⟨h1, h2, _⟩ := (unrolled_offsets_ok u hu).1 st hst
  have : sp * st.1 ≤ sp * u.2.1 := Nat.mul_le_mul_left sp h1
  omega


end Ps.Wheel
