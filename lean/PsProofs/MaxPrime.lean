/-
  PsProofs.MaxPrime — 18446744073709551557 is the largest prime below 2^64.
  Lucas/Pratt certificate (two levels) checked by the kernel through Mathlib's
  `lucas_primality` and the `reduce_mod_char` modular-exponentiation evaluator
  (no native_decide), plus an explicit factor for each of the 58 numbers above it.
-/
import Mathlib.NumberTheory.LucasPrimality
import Mathlib.Tactic.ReduceModChar
import Mathlib.Tactic.NormNum.Prime
import Mathlib.Data.List.Prime
import Mathlib.Tactic.IntervalCases
import PsModel.Basic

namespace Ps

theorem prime_of_mem_factors {q : ℕ} (hq : q.Prime) (L : List ℕ) (hL : ∀ r ∈ L, r.Prime)
    (h : q ∣ L.prod) : q ∈ L :=
  mem_list_primes_of_dvd_prod (Nat.prime_iff.1 hq) (fun r hr => Nat.prime_iff.1 (hL r hr)) h

theorem prime_5594472617641 : Nat.Prime 5594472617641 := by
  apply lucas_primality 5594472617641 13
  · reduce_mod_char
  · intro q hq hd
    have hmem := prime_of_mem_factors hq [2, 2, 2, 3, 5, 1427, 2131, 15331]
      (by intro r hr; simp only [List.mem_cons, List.not_mem_nil, or_false] at hr
          rcases hr with rfl | rfl | rfl | rfl | rfl | rfl | rfl | rfl <;> norm_num)
      (by norm_num at hd ⊢; exact hd)
    simp only [List.mem_cons, List.not_mem_nil, or_false] at hmem
    rcases hmem with rfl | rfl | rfl | rfl | rfl | rfl | rfl | rfl <;> reduce_mod_char <;> decide

/-- the largest 64-bit prime -/
def maxPrime64 : ℕ := 18446744073709551557

theorem maxPrime64_prime : Nat.Prime maxPrime64 := by
  unfold maxPrime64
  apply lucas_primality 18446744073709551557 2
  · reduce_mod_char
  · intro q hq hd
    have hmem := prime_of_mem_factors hq [2, 2, 11, 137, 547, 5594472617641]
      (by intro r hr; simp only [List.mem_cons, List.not_mem_nil, or_false] at hr
          rcases hr with rfl | rfl | rfl | rfl | rfl | rfl
          · norm_num
          · norm_num
          · norm_num
          · norm_num
          · norm_num
          · exact prime_5594472617641)
      (by norm_num at hd ⊢; exact hd)
    simp only [List.mem_cons, List.not_mem_nil, or_false] at hmem
    rcases hmem with rfl | rfl | rfl | rfl | rfl | rfl <;> reduce_mod_char <;> decide

theorem not_prime_above_1 : ¬ Nat.Prime 18446744073709551558 :=
  Nat.not_prime_of_mul_eq (by norm_num : 2 * 9223372036854775779 = 18446744073709551558) (by norm_num) (by norm_num)
theorem not_prime_above_2 : ¬ Nat.Prime 18446744073709551559 :=
  Nat.not_prime_of_mul_eq (by norm_num : 41 * 449920587163647599 = 18446744073709551559) (by norm_num) (by norm_num)
theorem not_prime_above_3 : ¬ Nat.Prime 18446744073709551560 :=
  Nat.not_prime_of_mul_eq (by norm_num : 2 * 9223372036854775780 = 18446744073709551560) (by norm_num) (by norm_num)
theorem not_prime_above_4 : ¬ Nat.Prime 18446744073709551561 :=
  Nat.not_prime_of_mul_eq (by norm_num : 3 * 6148914691236517187 = 18446744073709551561) (by norm_num) (by norm_num)
theorem not_prime_above_5 : ¬ Nat.Prime 18446744073709551562 :=
  Nat.not_prime_of_mul_eq (by norm_num : 2 * 9223372036854775781 = 18446744073709551562) (by norm_num) (by norm_num)
theorem not_prime_above_6 : ¬ Nat.Prime 18446744073709551563 :=
  Nat.not_prime_of_mul_eq (by norm_num : 29 * 636094623231363847 = 18446744073709551563) (by norm_num) (by norm_num)
theorem not_prime_above_7 : ¬ Nat.Prime 18446744073709551564 :=
  Nat.not_prime_of_mul_eq (by norm_num : 2 * 9223372036854775782 = 18446744073709551564) (by norm_num) (by norm_num)
theorem not_prime_above_8 : ¬ Nat.Prime 18446744073709551565 :=
  Nat.not_prime_of_mul_eq (by norm_num : 5 * 3689348814741910313 = 18446744073709551565) (by norm_num) (by norm_num)
theorem not_prime_above_9 : ¬ Nat.Prime 18446744073709551566 :=
  Nat.not_prime_of_mul_eq (by norm_num : 2 * 9223372036854775783 = 18446744073709551566) (by norm_num) (by norm_num)
theorem not_prime_above_10 : ¬ Nat.Prime 18446744073709551567 :=
  Nat.not_prime_of_mul_eq (by norm_num : 3 * 6148914691236517189 = 18446744073709551567) (by norm_num) (by norm_num)
theorem not_prime_above_11 : ¬ Nat.Prime 18446744073709551568 :=
  Nat.not_prime_of_mul_eq (by norm_num : 2 * 9223372036854775784 = 18446744073709551568) (by norm_num) (by norm_num)
theorem not_prime_above_12 : ¬ Nat.Prime 18446744073709551569 :=
  Nat.not_prime_of_mul_eq (by norm_num : 31 * 595056260442243599 = 18446744073709551569) (by norm_num) (by norm_num)
theorem not_prime_above_13 : ¬ Nat.Prime 18446744073709551570 :=
  Nat.not_prime_of_mul_eq (by norm_num : 2 * 9223372036854775785 = 18446744073709551570) (by norm_num) (by norm_num)
theorem not_prime_above_14 : ¬ Nat.Prime 18446744073709551571 :=
  Nat.not_prime_of_mul_eq (by norm_num : 11071 * 1666222028155501 = 18446744073709551571) (by norm_num) (by norm_num)
theorem not_prime_above_15 : ¬ Nat.Prime 18446744073709551572 :=
  Nat.not_prime_of_mul_eq (by norm_num : 2 * 9223372036854775786 = 18446744073709551572) (by norm_num) (by norm_num)
theorem not_prime_above_16 : ¬ Nat.Prime 18446744073709551573 :=
  Nat.not_prime_of_mul_eq (by norm_num : 3 * 6148914691236517191 = 18446744073709551573) (by norm_num) (by norm_num)
theorem not_prime_above_17 : ¬ Nat.Prime 18446744073709551574 :=
  Nat.not_prime_of_mul_eq (by norm_num : 2 * 9223372036854775787 = 18446744073709551574) (by norm_num) (by norm_num)
theorem not_prime_above_18 : ¬ Nat.Prime 18446744073709551575 :=
  Nat.not_prime_of_mul_eq (by norm_num : 5 * 3689348814741910315 = 18446744073709551575) (by norm_num) (by norm_num)
theorem not_prime_above_19 : ¬ Nat.Prime 18446744073709551576 :=
  Nat.not_prime_of_mul_eq (by norm_num : 2 * 9223372036854775788 = 18446744073709551576) (by norm_num) (by norm_num)
theorem not_prime_above_20 : ¬ Nat.Prime 18446744073709551577 :=
  Nat.not_prime_of_mul_eq (by norm_num : 139646831 * 132095686967 = 18446744073709551577) (by norm_num) (by norm_num)
theorem not_prime_above_21 : ¬ Nat.Prime 18446744073709551578 :=
  Nat.not_prime_of_mul_eq (by norm_num : 2 * 9223372036854775789 = 18446744073709551578) (by norm_num) (by norm_num)
theorem not_prime_above_22 : ¬ Nat.Prime 18446744073709551579 :=
  Nat.not_prime_of_mul_eq (by norm_num : 3 * 6148914691236517193 = 18446744073709551579) (by norm_num) (by norm_num)
theorem not_prime_above_23 : ¬ Nat.Prime 18446744073709551580 :=
  Nat.not_prime_of_mul_eq (by norm_num : 2 * 9223372036854775790 = 18446744073709551580) (by norm_num) (by norm_num)
theorem not_prime_above_24 : ¬ Nat.Prime 18446744073709551581 :=
  Nat.not_prime_of_mul_eq (by norm_num : 17 * 1085102592571150093 = 18446744073709551581) (by norm_num) (by norm_num)
theorem not_prime_above_25 : ¬ Nat.Prime 18446744073709551582 :=
  Nat.not_prime_of_mul_eq (by norm_num : 2 * 9223372036854775791 = 18446744073709551582) (by norm_num) (by norm_num)
theorem not_prime_above_26 : ¬ Nat.Prime 18446744073709551583 :=
  Nat.not_prime_of_mul_eq (by norm_num : 827 * 22305615566758829 = 18446744073709551583) (by norm_num) (by norm_num)
theorem not_prime_above_27 : ¬ Nat.Prime 18446744073709551584 :=
  Nat.not_prime_of_mul_eq (by norm_num : 2 * 9223372036854775792 = 18446744073709551584) (by norm_num) (by norm_num)
theorem not_prime_above_28 : ¬ Nat.Prime 18446744073709551585 :=
  Nat.not_prime_of_mul_eq (by norm_num : 3 * 6148914691236517195 = 18446744073709551585) (by norm_num) (by norm_num)
theorem not_prime_above_29 : ¬ Nat.Prime 18446744073709551586 :=
  Nat.not_prime_of_mul_eq (by norm_num : 2 * 9223372036854775793 = 18446744073709551586) (by norm_num) (by norm_num)
theorem not_prime_above_30 : ¬ Nat.Prime 18446744073709551587 :=
  Nat.not_prime_of_mul_eq (by norm_num : 13 * 1418980313362273199 = 18446744073709551587) (by norm_num) (by norm_num)
theorem not_prime_above_31 : ¬ Nat.Prime 18446744073709551588 :=
  Nat.not_prime_of_mul_eq (by norm_num : 2 * 9223372036854775794 = 18446744073709551588) (by norm_num) (by norm_num)
theorem not_prime_above_32 : ¬ Nat.Prime 18446744073709551589 :=
  Nat.not_prime_of_mul_eq (by norm_num : 11 * 1676976733973595599 = 18446744073709551589) (by norm_num) (by norm_num)
theorem not_prime_above_33 : ¬ Nat.Prime 18446744073709551590 :=
  Nat.not_prime_of_mul_eq (by norm_num : 2 * 9223372036854775795 = 18446744073709551590) (by norm_num) (by norm_num)
theorem not_prime_above_34 : ¬ Nat.Prime 18446744073709551591 :=
  Nat.not_prime_of_mul_eq (by norm_num : 3 * 6148914691236517197 = 18446744073709551591) (by norm_num) (by norm_num)
theorem not_prime_above_35 : ¬ Nat.Prime 18446744073709551592 :=
  Nat.not_prime_of_mul_eq (by norm_num : 2 * 9223372036854775796 = 18446744073709551592) (by norm_num) (by norm_num)
theorem not_prime_above_36 : ¬ Nat.Prime 18446744073709551593 :=
  Nat.not_prime_of_mul_eq (by norm_num : 7 * 2635249153387078799 = 18446744073709551593) (by norm_num) (by norm_num)
theorem not_prime_above_37 : ¬ Nat.Prime 18446744073709551594 :=
  Nat.not_prime_of_mul_eq (by norm_num : 2 * 9223372036854775797 = 18446744073709551594) (by norm_num) (by norm_num)
theorem not_prime_above_38 : ¬ Nat.Prime 18446744073709551595 :=
  Nat.not_prime_of_mul_eq (by norm_num : 5 * 3689348814741910319 = 18446744073709551595) (by norm_num) (by norm_num)
theorem not_prime_above_39 : ¬ Nat.Prime 18446744073709551596 :=
  Nat.not_prime_of_mul_eq (by norm_num : 2 * 9223372036854775798 = 18446744073709551596) (by norm_num) (by norm_num)
theorem not_prime_above_40 : ¬ Nat.Prime 18446744073709551597 :=
  Nat.not_prime_of_mul_eq (by norm_num : 3 * 6148914691236517199 = 18446744073709551597) (by norm_num) (by norm_num)
theorem not_prime_above_41 : ¬ Nat.Prime 18446744073709551598 :=
  Nat.not_prime_of_mul_eq (by norm_num : 2 * 9223372036854775799 = 18446744073709551598) (by norm_num) (by norm_num)
theorem not_prime_above_42 : ¬ Nat.Prime 18446744073709551599 :=
  Nat.not_prime_of_mul_eq (by norm_num : 19 * 970881267037344821 = 18446744073709551599) (by norm_num) (by norm_num)
theorem not_prime_above_43 : ¬ Nat.Prime 18446744073709551600 :=
  Nat.not_prime_of_mul_eq (by norm_num : 2 * 9223372036854775800 = 18446744073709551600) (by norm_num) (by norm_num)
theorem not_prime_above_44 : ¬ Nat.Prime 18446744073709551601 :=
  Nat.not_prime_of_mul_eq (by norm_num : 53 * 348051774975651917 = 18446744073709551601) (by norm_num) (by norm_num)
theorem not_prime_above_45 : ¬ Nat.Prime 18446744073709551602 :=
  Nat.not_prime_of_mul_eq (by norm_num : 2 * 9223372036854775801 = 18446744073709551602) (by norm_num) (by norm_num)
theorem not_prime_above_46 : ¬ Nat.Prime 18446744073709551603 :=
  Nat.not_prime_of_mul_eq (by norm_num : 3 * 6148914691236517201 = 18446744073709551603) (by norm_num) (by norm_num)
theorem not_prime_above_47 : ¬ Nat.Prime 18446744073709551604 :=
  Nat.not_prime_of_mul_eq (by norm_num : 2 * 9223372036854775802 = 18446744073709551604) (by norm_num) (by norm_num)
theorem not_prime_above_48 : ¬ Nat.Prime 18446744073709551605 :=
  Nat.not_prime_of_mul_eq (by norm_num : 5 * 3689348814741910321 = 18446744073709551605) (by norm_num) (by norm_num)
theorem not_prime_above_49 : ¬ Nat.Prime 18446744073709551606 :=
  Nat.not_prime_of_mul_eq (by norm_num : 2 * 9223372036854775803 = 18446744073709551606) (by norm_num) (by norm_num)
theorem not_prime_above_50 : ¬ Nat.Prime 18446744073709551607 :=
  Nat.not_prime_of_mul_eq (by norm_num : 7 * 2635249153387078801 = 18446744073709551607) (by norm_num) (by norm_num)
theorem not_prime_above_51 : ¬ Nat.Prime 18446744073709551608 :=
  Nat.not_prime_of_mul_eq (by norm_num : 2 * 9223372036854775804 = 18446744073709551608) (by norm_num) (by norm_num)
theorem not_prime_above_52 : ¬ Nat.Prime 18446744073709551609 :=
  Nat.not_prime_of_mul_eq (by norm_num : 3 * 6148914691236517203 = 18446744073709551609) (by norm_num) (by norm_num)
theorem not_prime_above_53 : ¬ Nat.Prime 18446744073709551610 :=
  Nat.not_prime_of_mul_eq (by norm_num : 2 * 9223372036854775805 = 18446744073709551610) (by norm_num) (by norm_num)
theorem not_prime_above_54 : ¬ Nat.Prime 18446744073709551611 :=
  Nat.not_prime_of_mul_eq (by norm_num : 11 * 1676976733973595601 = 18446744073709551611) (by norm_num) (by norm_num)
theorem not_prime_above_55 : ¬ Nat.Prime 18446744073709551612 :=
  Nat.not_prime_of_mul_eq (by norm_num : 2 * 9223372036854775806 = 18446744073709551612) (by norm_num) (by norm_num)
theorem not_prime_above_56 : ¬ Nat.Prime 18446744073709551613 :=
  Nat.not_prime_of_mul_eq (by norm_num : 13 * 1418980313362273201 = 18446744073709551613) (by norm_num) (by norm_num)
theorem not_prime_above_57 : ¬ Nat.Prime 18446744073709551614 :=
  Nat.not_prime_of_mul_eq (by norm_num : 2 * 9223372036854775807 = 18446744073709551614) (by norm_num) (by norm_num)
theorem not_prime_above_58 : ¬ Nat.Prime 18446744073709551615 :=
  Nat.not_prime_of_mul_eq (by norm_num : 3 * 6148914691236517205 = 18446744073709551615) (by norm_num) (by norm_num)

/-- there is no prime in (maxPrime64, 2^64) -/
theorem no_prime_above (n : ℕ) (h1 : maxPrime64 < n) (h2 : n < U64) : ¬ n.Prime := by
  unfold maxPrime64 at h1
  unfold U64 at h2
  interval_cases n
  all_goals first | exact not_prime_above_1 | exact not_prime_above_2 | exact not_prime_above_3 | exact not_prime_above_4 | exact not_prime_above_5 | exact not_prime_above_6 | exact not_prime_above_7 | exact not_prime_above_8 | exact not_prime_above_9 | exact not_prime_above_10 | exact not_prime_above_11 | exact not_prime_above_12 | exact not_prime_above_13 | exact not_prime_above_14 | exact not_prime_above_15 | exact not_prime_above_16 | exact not_prime_above_17 | exact not_prime_above_18 | exact not_prime_above_19 | exact not_prime_above_20 | exact not_prime_above_21 | exact not_prime_above_22 | exact not_prime_above_23 | exact not_prime_above_24 | exact not_prime_above_25 | exact not_prime_above_26 | exact not_prime_above_27 | exact not_prime_above_28 | exact not_prime_above_29 | exact not_prime_above_30 | exact not_prime_above_31 | exact not_prime_above_32 | exact not_prime_above_33 | exact not_prime_above_34 | exact not_prime_above_35 | exact not_prime_above_36 | exact not_prime_above_37 | exact not_prime_above_38 | exact not_prime_above_39 | exact not_prime_above_40 | exact not_prime_above_41 | exact not_prime_above_42 | exact not_prime_above_43 | exact not_prime_above_44 | exact not_prime_above_45 | exact not_prime_above_46 | exact not_prime_above_47 | exact not_prime_above_48 | exact not_prime_above_49 | exact not_prime_above_50 | exact not_prime_above_51 | exact not_prime_above_52 | exact not_prime_above_53 | exact not_prime_above_54 | exact not_prime_above_55 | exact not_prime_above_56 | exact not_prime_above_57 | exact not_prime_above_58

end Ps
