/-
  PsProofs.PreSieveT15 — table 15 of PreSieveTables.hpp (regenerated, 9797 bytes) equals the table its
  generator program describes for the primes [97, 101]: kernel-checked, every byte.
-/
import PsModel.PreSieve
import PsModel.Generated.PreSieve15

namespace Ps.PreSieve

theorem table15_spec : Gen.preSieve15 = specNat (Gen.preSievePrimes.getD 15 []) Gen.preSieve15Len 0 ∧
    Gen.preSieve15Len = (Gen.preSievePrimes.getD 15 []).foldl (· * ·) 1 := by
  constructor <;> decide +kernel

end Ps.PreSieve
