/-
  PsProofs.Segments — the segment grid of Erat (init, sieveSegment, sieveLastSegment): the segments tile
  [start, stop], each starts where the previous one ended, the first one contains start.
-/
import PsModel.Erat
namespace Ps

/-- the segments (low, bytes) produced by repeated Erat::sieveSegment while hasNextSegment() -/
def EratGeom.segments : Nat → EratGeom → List (Nat × Nat)
  | 0, _ => []
  | fuel + 1, g =>
    if g.hasNextSegment then
      let r := g.sieveSegment
      (r.1, r.2.1) :: EratGeom.segments fuel r.2.2
    else []

/-- invariant of the segment loop -/
structure GInv (g : EratGeom) : Prop where
  low30 : g.segmentLow % 30 = 0
  size_pos : 0 < g.sieveSize
  low_stop : g.segmentLow + 7 ≤ g.stop
  stop_le : g.stop ≤ umax
  high_eq : g.segmentHigh < g.stop → g.segmentHigh = g.segmentLow + 30 * g.sieveSize + 6
  high_le : g.segmentHigh ≤ g.stop

theorem checkedAdd_min (x y : Nat) : checkedAdd x y = min (x + y) umax ∨ (y > umax ∧ checkedAdd x y = umax) := by
  unfold checkedAdd; split <;> omega

theorem byteRemainder_range (n : Nat) : 7 ≤ byteRemainder n ∧ byteRemainder n ≤ 36 := by
  unfold byteRemainder; omega

theorem byteRemainder_mod (n : Nat) (h : 7 ≤ n) : (n - byteRemainder n) % 30 = 0 ∧ byteRemainder n ≤ n := by
  unfold byteRemainder; omega

/-- one step of the loop: the segment just sieved is [low, low + 30·bytes), and either the loop goes on
    with the next segment starting exactly where this one ended (invariant preserved), or this was
    the last segment and it reaches stop (up to the 5 numbers ≡ 2..6 mod 30 that have no bit) -/
theorem sieveSegment_step (g : EratGeom) (h : GInv g) :
    let r := g.sieveSegment
    r.1 = g.segmentLow ∧ 0 < r.2.1 ∧
    ((g.segmentHigh < g.stop ∧ r.2.1 = g.sieveSize ∧ r.2.2.segmentLow = g.segmentLow + 30 * g.sieveSize ∧
        r.2.2.stop = g.stop ∧ GInv r.2.2 ∧ r.2.2.segmentLow < g.stop) ∨
     (g.stop ≤ g.segmentHigh ∧ r.2.2.segmentLow = g.stop ∧ r.2.2.stop = g.stop ∧
        g.stop ≤ g.segmentLow + 30 * r.2.1 + 6 ∧ g.segmentLow + 30 * r.2.1 + 1 < g.stop + 30)) := by
  simp only
  unfold EratGeom.sieveSegment
  by_cases hlt : g.segmentHigh < g.stop
  · rw [if_pos hlt]
    have he := h.high_eq hlt
    have hs := h.stop_le
    have hu : umax = 18446744073709551615 := rfl
    have hca : checkedAdd g.segmentLow (g.sieveSize * 30) = g.segmentLow + 30 * g.sieveSize := by
      unfold checkedAdd; split <;> omega
    refine ⟨rfl, h.size_pos, Or.inl ⟨hlt, rfl, ?_, rfl, ?_, ?_⟩⟩
    · exact hca
    · refine ⟨?_, h.size_pos, ?_, hs, ?_, ?_⟩
      · show (checkedAdd g.segmentLow (g.sieveSize * 30)) % 30 = 0
        rw [hca]; have := h.low30; omega
      · show checkedAdd g.segmentLow (g.sieveSize * 30) + 7 ≤ g.stop
        rw [hca]; omega
      · intro hh
        show min (checkedAdd g.segmentHigh (g.sieveSize * 30)) g.stop = checkedAdd g.segmentLow (g.sieveSize * 30) + 30 * g.sieveSize + 6
        have hh' : min (checkedAdd g.segmentHigh (g.sieveSize * 30)) g.stop < g.stop := hh
        rw [hca]
        unfold checkedAdd at hh' ⊢
        split at hh' <;> split <;> omega
      · show min (checkedAdd g.segmentHigh (g.sieveSize * 30)) g.stop ≤ g.stop
        exact Nat.min_le_right _ _
    · show checkedAdd g.segmentLow (g.sieveSize * 30) < g.stop
      rw [hca]; omega
  · rw [if_neg hlt]
    have hr := byteRemainder_range g.stop
    have hm := byteRemainder_mod g.stop (by have := h.low_stop; omega)
    have hl := h.low30
    have hls := h.low_stop
    refine ⟨rfl, Nat.succ_pos _, Or.inr ⟨by omega, rfl, rfl, ?_, ?_⟩⟩
    · show g.stop ≤ g.segmentLow + 30 * ((g.stop - byteRemainder g.stop - g.segmentLow) / 30 + 1) + 6
      omega
    · show g.segmentLow + 30 * ((g.stop - byteRemainder g.stop - g.segmentLow) / 30 + 1) + 1 < g.stop + 30
      omega

end Ps

namespace Ps

/-- consecutive segments: each starts where the previous one ended -/
def Adjacent : List (Nat × Nat) → Prop
  | [] => True
  | [_] => True
  | a :: b :: r => b.1 = a.1 + 30 * a.2 ∧ Adjacent (b :: r)

/-- **segments tile the interval**: every number of [segmentLow + 7, stop] that has a bit in the sieve (its residue mod 30 is not
    2..6; segment starts are ≡ 0 mod 30) lies in one of the segments produced by the loop, and consecutive
    segments are adjacent: each starts where the previous one ended -/
theorem segments_tile : ∀ (fuel : Nat) (g : EratGeom), GInv g → g.stop - g.segmentLow < fuel →
    (∀ n, g.segmentLow + 7 ≤ n → n ≤ g.stop → ¬ (2 ≤ n % 30 ∧ n % 30 ≤ 6) →
      ∃ seg ∈ g.segments fuel, seg.1 + 7 ≤ n ∧ n ≤ seg.1 + 30 * seg.2 + 1) ∧
    (g.segments fuel).head? = some (g.segmentLow, (g.sieveSegment).2.1) ∧
    Adjacent (g.segments fuel) := by
  intro fuel
  induction fuel with
  | zero => intro g _ hf; omega
  | succ f ih =>
    intro g hg hf
    have hnext : g.hasNextSegment = true := by
      unfold EratGeom.hasNextSegment; have := hg.low_stop; simp; omega
    have hstep := sieveSegment_step g hg
    simp only at hstep
    obtain ⟨hlow, hpos, hcase⟩ := hstep
    simp only [EratGeom.segments, hnext, if_true]
    rcases hcase with ⟨hlt, hsz, hlow', hstop', hinv', hlt'⟩ | ⟨hge, hlow', hstop', hcov, _⟩
    · have ih' := ih (g.sieveSegment).2.2 hinv' (by rw [hstop', hlow']; have := hg.size_pos; omega)
      refine ⟨?_, by rw [hlow]; rfl, ?_⟩
      · intro n h1 h2 h3
        by_cases hin : n ≤ g.segmentLow + 30 * g.sieveSize + 1
        · exact ⟨_, List.mem_cons_self, by rw [hlow]; exact h1, by rw [hlow, hsz]; exact hin⟩
        · have hl30 := hg.low30
          have hn7 : (g.sieveSegment).2.2.segmentLow + 7 ≤ n := by rw [hlow']; omega
          obtain ⟨seg, hmem, hs1, hs2⟩ := ih'.1 n hn7 (by rw [hstop']; exact h2) h3
          exact ⟨seg, List.mem_cons_of_mem _ hmem, hs1, hs2⟩
      · cases hrest : EratGeom.segments f (g.sieveSegment).2.2 with
        | nil => trivial
        | cons b rest =>
          have hh := ih'.2.1
          rw [hrest] at hh
          simp only [List.head?_cons, Option.some.injEq] at hh
          refine ⟨?_, by rw [← hrest]; exact ih'.2.2⟩
          rw [hh, hlow, hsz]; exact hlow'
    · -- last segment
      have hnone : EratGeom.segments f (g.sieveSegment).2.2 = [] := by
        cases f with
        | zero => rfl
        | succ f' =>
          simp only [EratGeom.segments]
          have : (g.sieveSegment).2.2.hasNextSegment = false := by
            unfold EratGeom.hasNextSegment; rw [hlow', hstop']; simp
          simp [this]
      rw [hnone]
      refine ⟨?_, by rw [hlow]; rfl, trivial⟩
      intro n h1 h2 h3
      have hl30 := hg.low30
      exact ⟨_, List.mem_cons_self, by rw [hlow]; exact h1, by rw [hlow]; omega⟩

end Ps

namespace Ps

theorem roundUp8_ge (x : Nat) : x ≤ roundUp8 x := by unfold roundUp8 ceilDiv; omega
theorem inBetween_ge (mn x mx : Nat) (h : mn ≤ mx) : mn ≤ inBetween mn x mx := by
  unfold inBetween; split <;> (try split) <;> omega
theorem floorPow2_pos (x : Nat) (h : 0 < x) : 0 < floorPow2 x := by
  unfold floorPow2; rw [if_neg (by omega)]; exact Nat.pow_pos (by decide)

theorem baseSize_ge (cfg : EratCfg) (stop kib : Nat) : 16 * 1024 ≤ EratGeom.baseSize cfg stop kib := by
  unfold EratGeom.baseSize
  exact Nat.le_trans (inBetween_ge _ _ _ (by decide)) (roundUp8_ge _)

theorem sizes_pos (cfg : EratCfg) (stop kib : Nat) : 0 < (EratGeom.sizes cfg stop kib).1 := by
  unfold EratGeom.sizes
  simp only
  have := baseSize_ge cfg stop kib
  generalize EratGeom.baseSize cfg stop kib = X at this ⊢
  split
  · exact floorPow2_pos _ (by omega)
  · omega

/-- Erat::init (start ≥ 7 is its ASSERT; start ≤ stop, start < 2^64-1 is its guard) establishes the loop invariant -/
theorem init_GInv (cfg : EratCfg) (start stop kib : Nat) (h7 : 7 ≤ start) (hss : start ≤ stop) (hst : stop ≤ umax)
    (hsu : start < umax) :
    GInv (EratGeom.init cfg start stop kib) ∧ (EratGeom.init cfg start stop kib).segmentLow + 7 ≤ start ∧
    start ≤ (EratGeom.init cfg start stop kib).segmentLow + 36 ∧ (EratGeom.init cfg start stop kib).stop = stop := by
  unfold EratGeom.init
  have hg : ¬ (start > stop ∨ start ≥ umax) := by omega
  rw [if_neg hg]
  simp only
  have hS := sizes_pos cfg stop kib
  generalize (EratGeom.sizes cfg stop kib).1 = S at hS ⊢
  generalize (EratGeom.sizes cfg stop kib).2.2 = mm
  have hr := byteRemainder_range start
  have hm := byteRemainder_mod start h7
  have hu : umax = 18446744073709551615 := rfl
  refine ⟨⟨hm.1, ?_, by show start - byteRemainder start + 7 ≤ stop; omega, hst, ?_, Nat.min_le_right _ _⟩,
    by show start - byteRemainder start + 7 ≤ start; omega, by show start ≤ start - byteRemainder start + 36; omega, trivial⟩
  · show 0 < (if _ then _ else _)
    split
    · have := roundUp8_ge ((stop - byteRemainder stop - (start - byteRemainder start)) / 30 + 1); omega
    · exact hS
  · intro hlt
    show min (checkedAdd (start - byteRemainder start) (S * 30 + 6)) stop = start - byteRemainder start + 30 * (if _ then _ else _) + 6
    have hlt' : min (checkedAdd (start - byteRemainder start) (S * 30 + 6)) stop < stop := hlt
    have hc : ¬ (min (checkedAdd (start - byteRemainder start) (S * 30 + 6)) stop ≥ stop ∧ Nat.sqrt stop ≤ mm) := by omega
    rw [if_neg hc]
    unfold checkedAdd at hlt' ⊢
    split at hlt' <;> split <;> omega

end Ps
