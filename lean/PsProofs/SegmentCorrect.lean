/-
  PsProofs.SegmentCorrect — composition of the pre-sieve, first-multiple, walk and sieve-principle theorems:
  a number of a segment is prime iff its pre-sieved bit is set and no sieving prime crosses it off.
-/
import PsProofs.Wheel
import PsProofs.PreSieve
namespace Ps.Wheel
open Ps.PreSieve

/-- the numbers a stored sieving prime crosses off: p times the quotients its walk visits -/
def CrossedOff30 (stop p L n : Nat) : Prop :=
  ∃ s q1 j, addSievingPrime 30 8 Gen.wheel30Init stop p L = some s ∧ Denotes 30 L s q1 ∧
    max p ((L + 6) / p + 1) ≤ q1 ∧ p * (walk 30 j s q1).2 = n
def CrossedOff210 (stop p L n : Nat) : Prop :=
  ∃ s q1 j, addSievingPrime 210 48 Gen.wheel210Init stop p L = some s ∧ Denotes 210 L s q1 ∧
    max p ((L + 6) / p + 1) ≤ q1 ∧ p * (walk 210 j s q1).2 = n

theorem offs_coprime : ∀ b, b < 8 → Nat.gcd (PreSieve.offs.getD b 0) 30 = 1 ∧ 7 ≤ PreSieve.offs.getD b 0 := by decide

theorem number_coprime (L o b : Nat) (hL : L % 30 = 0) (hb : b < 8) :
    Nat.gcd (L + 30 * o + PreSieve.offs.getD b 0) 30 = 1 := by
  obtain ⟨A, rfl⟩ : ∃ A, L = 30 * A := ⟨L / 30, by omega⟩
  have : 30 * A + 30 * o + PreSieve.offs.getD b 0 = PreSieve.offs.getD b 0 + 30 * (A + o) := by omega
  rw [this, Nat.gcd_comm, Nat.gcd_add_mul_left_right, Nat.gcd_comm]
  exact (offs_coprime b hb).1

/-- **segment correctness at the level of numbers, general form**: `Lp p` is the segment start at which sieving prime p was
    added (any multiple of 30 not beyond the segment of n) and H ≥ n bounds the sieving primes that are needed (p² ≤ H).  Take any number n = L + 30·o + offs[b] of a segment starting at L (n > 163,
    n ≤ stop < 2^64).  Route every sieving prime p (163 < p, p² ≤ stop, hence p < 2^32) to the 30-wheel
    (EratSmall / EratMedium) or the 210-wheel (EratBig) in any way (`big p`).  Then n is prime iff its
    pre-sieved bit is 1 and no sieving prime crosses it off — where "crosses off" is what the REAL
    addSievingPrime (wrapping arithmetic, regenerated INIT tables) followed by walks over the REAL
    cross-off tables does. -/
theorem segment_number_correct_at (big : Nat → Bool) (Lp : Nat → Nat) (stop H L o b : Nat) (hL : L % 30 = 0) (hb : b < 8)
    (hLp : ∀ p, Lp p % 30 = 0 ∧ Lp p ≤ L)
    (h163 : 163 < L + 30 * o + PreSieve.offs.getD b 0) (hnH : L + 30 * o + PreSieve.offs.getD b 0 ≤ H) (hHs : H ≤ stop)
    (hstop : stop < U64) (hL6 : L + 6 < U64) :
    (L + 30 * o + PreSieve.offs.getD b 0).Prime ↔
      ((preSieveByte allTables L o).testBit b = true ∧
       ∀ p, p.Prime → 163 < p → p * p ≤ H →
         ¬ (if big p then CrossedOff210 stop p (Lp p) (L + 30 * o + PreSieve.offs.getD b 0)
            else CrossedOff30 stop p (Lp p) (L + 30 * o + PreSieve.offs.getD b 0))) := by
  set n := L + 30 * o + PreSieve.offs.getD b 0 with hn
  have hcop := number_coprime L o b hL hb
  have hL7 : L + 6 < n := by have := (offs_coprime b hb).2; omega
  have hU : U64 = 18446744073709551616 := rfl
  -- a sieving prime with p·p ≤ stop < 2^64 is below 2^32 and coprime to 30
  have hp32 : ∀ p, p * p ≤ H → p < 4294967296 := by
    intro p hpp
    by_contra hge
    have : 4294967296 * 4294967296 ≤ p * p := Nat.mul_le_mul (by omega) (by omega)
    omega
  have hpc : ∀ p, p.Prime → 163 < p → Nat.gcd (p % 30) 30 = 1 := by
    intro p hp h
    have h2 : ¬ 2 ∣ p := fun hd => by have := (Nat.prime_dvd_prime_iff_eq (by decide) hp).mp hd; omega
    have h3 : ¬ 3 ∣ p := fun hd => by have := (Nat.prime_dvd_prime_iff_eq (by decide) hp).mp hd; omega
    have h5 : ¬ 5 ∣ p := fun hd => by have := (Nat.prime_dvd_prime_iff_eq (by decide) hp).mp hd; omega
    have hlt : p % 30 < 30 := Nat.mod_lt _ (by decide)
    have hm2 : p % 30 % 2 = p % 2 := by omega
    have hm3 : p % 30 % 3 = p % 3 := by omega
    have hm5 : p % 30 % 5 = p % 5 := by omega
    have hd2 : p % 2 ≠ 0 := fun h0 => h2 (Nat.dvd_of_mod_eq_zero h0)
    have hd3 : p % 3 ≠ 0 := fun h0 => h3 (Nat.dvd_of_mod_eq_zero h0)
    have hd5 : p % 5 ≠ 0 := fun h0 => h5 (Nat.dvd_of_mod_eq_zero h0)
    generalize p % 30 = r at *
    have : ∀ r, r < 30 → r % 2 ≠ 0 → r % 3 ≠ 0 → r % 5 ≠ 0 → Nat.gcd r 30 = 1 := by decide
    exact this r hlt (by omega) (by omega) (by omega)
  rw [sieve_principle (fun p => if big p then 210 else 30) (by intro p; by_cases h : big p <;> simp [h]) n H h163 hnH hcop,
    ← preSieve_bit_iff L o b hL hb]
  constructor
  · rintro ⟨hpre, hcl⟩
    refine ⟨hpre, ?_⟩
    intro p hp h163p hpp hco
    apply hcl p hp h163p hpp
    -- a walk that reaches n exhibits n = p·x with x ≥ p coprime to the modulus
    by_cases hb' : big p
    · simp only [hb', if_true] at hco ⊢
      obtain ⟨s, q1, j, _, hden, hq1, hpn⟩ := hco
      have hw := (walk_exact210 (Lp p) j s q1 hden)
      have hd := hw.1
      have hg := (step_sound210 (Lp p) _ _ hd).2.2.2
      exact ⟨(walk 210 j s q1).2, by have := hw.2.1; omega, hg, hpn.symm⟩
    · simp only [hb', Bool.false_eq_true, if_false] at hco ⊢
      obtain ⟨s, q1, j, _, hden, hq1, hpn⟩ := hco
      have hw := (walk_exact30 (Lp p) j s q1 hden)
      have hd := hw.1
      have hg := (step_sound30 (Lp p) _ _ hd).2.2.2
      exact ⟨(walk 30 j s q1).2, by have := hw.2.1; omega, hg, hpn.symm⟩
  · rintro ⟨hpre, hco⟩
    refine ⟨hpre, ?_⟩
    intro p hp h163p hpp hcl
    apply hco p hp h163p hpp
    have hp0 : 0 < p := hp.pos
    have h32 := hp32 p hpp
    have hc30 := hpc p hp h163p
    by_cases hb' : big p
    · simp only [hb', if_true] at hcl ⊢
      obtain ⟨x, hpx, hgx, hnx⟩ := hcl
      have hq0 := quotient_ge_first p (Lp p) x hp0 hpx (by rw [← hnx]; have := (hLp p).2; omega)
      have e := addSievingPrime_eq_exact 210 48 Gen.wheel210Init init_le_10.2 stop p (Lp p) hp0 h32 (by have := (hLp p).2; omega) hstop
      cases hr : addSievingPrime 210 48 Gen.wheel210Init stop p (Lp p) with
      | none =>
        rw [e] at hr
        have := addSievingPrimeExact_none 210 48 Gen.wheel210Init (by decide) wheel210Init_spec init210_ok stop p (Lp p) hr x hq0 hgx
        omega
      | some s =>
        have hr' := hr; rw [e] at hr'
        obtain ⟨q1, hd, hq1, _, hleast, _⟩ := addSievingPrimeExact_spec 210 48 Gen.wheel210Init (by decide) (by decide)
          cls210_len (by decide) wheel210Init_spec init210_ok bit210_ok stop p (Lp p) hc30 hp0 (hLp p).1 s hr'
        have hq1x : q1 ≤ x := by
          by_contra hlt
          exact hleast x hq0 (by omega) hgx
        obtain ⟨j, hj, _⟩ := walk_reaches210 (Lp p) s q1 x hd hq1x hgx
        exact ⟨s, q1, j, hr, hd, hq1, by rw [hj]; exact hnx.symm⟩
    · simp only [hb', Bool.false_eq_true, if_false] at hcl ⊢
      obtain ⟨x, hpx, hgx, hnx⟩ := hcl
      have hq0 := quotient_ge_first p (Lp p) x hp0 hpx (by rw [← hnx]; have := (hLp p).2; omega)
      have e := addSievingPrime_eq_exact 30 8 Gen.wheel30Init init_le_10.1 stop p (Lp p) hp0 h32 (by have := (hLp p).2; omega) hstop
      cases hr : addSievingPrime 30 8 Gen.wheel30Init stop p (Lp p) with
      | none =>
        rw [e] at hr
        have := addSievingPrimeExact_none 30 8 Gen.wheel30Init (by decide) wheel30Init_spec init30_ok stop p (Lp p) hr x hq0 hgx
        omega
      | some s =>
        have hr' := hr; rw [e] at hr'
        obtain ⟨q1, hd, hq1, _, hleast, _⟩ := addSievingPrimeExact_spec 30 8 Gen.wheel30Init (by decide) (by decide)
          (by decide +kernel) (by decide) wheel30Init_spec init30_ok bit30_ok stop p (Lp p) hc30 hp0 (hLp p).1 s hr'
        have hq1x : q1 ≤ x := by
          by_contra hlt
          exact hleast x hq0 (by omega) hgx
        obtain ⟨j, hj, _⟩ := walk_reaches30 (Lp p) s q1 x hd hq1x hgx
        exact ⟨s, q1, j, hr, hd, hq1, by rw [hj]; exact hnx.symm⟩

/-- the special case in which every sieving prime is added at the segment of n itself and H = stop -/
theorem segment_number_correct (big : Nat → Bool) (stop L o b : Nat) (hL : L % 30 = 0) (hb : b < 8)
    (h163 : 163 < L + 30 * o + PreSieve.offs.getD b 0) (hns : L + 30 * o + PreSieve.offs.getD b 0 ≤ stop)
    (hstop : stop < U64) (hL6 : L + 6 < U64) :
    (L + 30 * o + PreSieve.offs.getD b 0).Prime ↔
      ((preSieveByte allTables L o).testBit b = true ∧
       ∀ p, p.Prime → 163 < p → p * p ≤ stop →
         ¬ (if big p then CrossedOff210 stop p L (L + 30 * o + PreSieve.offs.getD b 0)
            else CrossedOff30 stop p L (L + 30 * o + PreSieve.offs.getD b 0))) :=
  segment_number_correct_at big (fun _ => L) stop stop L o b hL hb (fun _ => ⟨hL, Nat.le_refl _⟩) h163 hns (Nat.le_refl _) hstop hL6

end Ps.Wheel
