/-
  PsProofs.PreSieveT06 — table 6 of PreSieveTables.hpp (regenerated, 7897 bytes) equals the table its
  generator program describes for the primes [53, 149]: kernel-checked, every byte.
-/
import PsModel.PreSieve
import PsModel.Generated.PreSieve06

namespace Ps.PreSieve

theorem table06_spec : Gen.preSieve06 = specNat (Gen.preSievePrimes.getD 6 []) Gen.preSieve06Len 0 ∧
    Gen.preSieve06Len = (Gen.preSievePrimes.getD 6 []).foldl (· * ·) 1 := by
  constructor <;> decide +kernel

end Ps.PreSieve
