/-
  PsProofs.Parallel — the pieces of ParallelSieve tile [start, stop]; boundaries lie at
  n % 30 = 2; no prime k-tuplet is split; totals do not depend on the schedule.
-/
import PsModel.Parallel
import PsSpec.Primes
import Mathlib.Tactic.Ring
import Mathlib.Data.Nat.Prime.Basic

namespace Ps

/-- `align` without saturation -/
def alignN (stop n : Nat) : Nat := if n + 32 ≥ stop then stop else n + 32 - n % 30

/-- the i-th piece in exact arithmetic -/
def pieceN (start stop td i : Nat) : Nat × Nat :=
  (if i = 0 then start else alignN stop (start + td * i) + 1, alignN stop (start + td * (i + 1)))

theorem align_eq_alignN {stop n : Nat} (hs : stop ≤ umax) : align stop n = alignN stop n := by
  unfold align alignN
  rcases checkedAdd_cases' n 32 with h | h <;> simp only [h.1] <;> split <;> split <;> omega
where
  checkedAdd_cases' (x y : Nat) :
      (checkedAdd x y = umax ∧ umax ≤ x + y) ∨ (checkedAdd x y = x + y ∧ x + y < umax) := by
    unfold checkedAdd; split <;> omega

theorem alignN_le_stop (stop n : Nat) : alignN stop n ≤ stop := by
  unfold alignN; split <;> omega

theorem alignN_mod (stop n : Nat) (h : alignN stop n < stop) : alignN stop n % 30 = 2 := by
  by_cases hc : n + 32 ≥ stop <;> simp only [alignN, hc, if_true, if_false] at * <;> omega

theorem alignN_ge (stop n : Nat) (h : alignN stop n < stop) : n + 3 ≤ alignN stop n := by
  by_cases hc : n + 32 ≥ stop <;> simp only [alignN, hc, if_true, if_false] at * <;> omega

theorem alignN_mono_step (stop n td : Nat) (htd : td % 30 = 0) :
    alignN stop n ≤ alignN stop (n + td) := by
  unfold alignN
  split <;> split <;> omega

/-- index bound: the start offsets of all pieces lie strictly below stop -/
theorem piece_offset_lt {start stop td i : Nat} (hlt : start < stop) (_htd : 0 < td)
    (hi : i < numPieces start stop td) : start + td * i ≤ stop - 1 := by
  unfold numPieces at hi
  have h1 : i ≤ (stop - start - 1) / td := by omega
  have h2 : td * i ≤ stop - start - 1 := by
    calc td * i ≤ td * ((stop - start - 1) / td) := Nat.mul_le_mul_left _ h1
      _ ≤ stop - start - 1 := Nat.mul_div_le _ _
  omega

/-- the last piece reaches stop -/
theorem piece_offset_last {start stop td : Nat} (hlt : start < stop) (htd : 0 < td) :
    stop ≤ start + td * numPieces start stop td := by
  unfold numPieces
  have := Nat.lt_mul_div_succ (stop - start - 1) htd
  have e : td * ((stop - start - 1) / td + 1) = td * ((stop - start - 1) / td) + td := by ring
  omega

/-- **tiling, part 1**: consecutive pieces are adjacent -/
theorem pieceN_chain (start stop td i : Nat) :
    (pieceN start stop td (i + 1)).1 = (pieceN start stop td i).2 + 1 := by
  simp [pieceN]

theorem pieceN_first (start stop td : Nat) : (pieceN start stop td 0).1 = start := by
  simp [pieceN]

theorem pieceN_last {start stop td : Nat} (hlt : start < stop) (htd : 0 < td) :
    (pieceN start stop td (numPieces start stop td - 1)).2 = stop := by
  have hN : 0 < numPieces start stop td := Nat.succ_pos _
  have := piece_offset_last hlt htd
  simp only [pieceN]
  rw [Nat.sub_add_cancel hN]
  unfold alignN; split <;> omega

/-- pieces never run backwards: lo ≤ hi + 1 (a piece may be empty, never negative) -/
theorem pieceN_ordered (start stop td i : Nat) (htd : td % 30 = 0) (hs : start ≤ stop) :
    (pieceN start stop td i).1 ≤ (pieceN start stop td i).2 + 1 := by
  simp only [pieceN]
  have e : start + td * (i + 1) = start + td * i + td := by ring
  rw [e]
  split
  · rename_i h0; subst h0
    simp only [Nat.mul_zero, Nat.add_zero]
    unfold alignN; split <;> omega
  · have := alignN_mono_step stop (start + td * i) td htd
    omega

/-- **boundaries**: every interior piece end is ≡ 2 (mod 30) and ≥ 32 -/
theorem pieceN_boundary (start stop td i : Nat) (htd : 30 ≤ td)
    (h : (pieceN start stop td i).2 < stop) :
    (pieceN start stop td i).2 % 30 = 2 ∧ 32 ≤ (pieceN start stop td i).2 := by
  simp only [pieceN] at *
  refine ⟨alignN_mod _ _ h, ?_⟩
  have := alignN_ge _ _ h
  have : td ≤ td * (i + 1) := Nat.le_mul_of_pos_right _ (by omega)
  omega

/-- the model's wrapping 64-bit computation agrees with exact arithmetic, provided the
    `align(start) + 1` of a piece does not wrap (it can only wrap for stop = 2^64-1) -/
theorem piece_eq_pieceN {start stop td i : Nat} (hlt : start < stop) (hs : stop ≤ umax)
    (htd : 0 < td) (htdu : td ≤ umax) (hi : i < numPieces start stop td)
    (hnw : stop < umax ∨ start + td * i + 32 < stop ∨ i = 0) :
    piece start stop td i = pieceN start stop td i := by
  have hoff := piece_offset_lt hlt htd hi
  have hU : U64 = umax + 1 := by decide
  have hmul : mul64 td i = td * i := by
    unfold mul64; apply Nat.mod_eq_of_lt; omega
  have hadd : add64 start (td * i) = start + td * i := by
    unfold add64; apply Nat.mod_eq_of_lt; omega
  unfold piece pieceN
  simp only [hmul, hadd]
  have e : start + td * (i + 1) = start + td * i + td := by ring
  rw [e]
  have hhi : align stop (checkedAdd (start + td * i) td) = alignN stop (start + td * i + td) := by
    rw [align_eq_alignN hs]
    unfold checkedAdd
    split
    · unfold alignN; split <;> split <;> omega
    · rfl
  rw [hhi, align_eq_alignN hs]
  congr 1
  by_cases h0 : i = 0
  · subst h0; simp
  · have hpos : start + td * i > start := by
      have : 0 < td * i := Nat.mul_pos htd (Nat.pos_of_ne_zero h0)
      omega
    simp only [hpos, if_true, h0, if_false]
    unfold add64
    apply Nat.mod_eq_of_lt
    have := alignN_le_stop stop (start + td * i)
    rcases hnw with h | h | h
    · omega
    · have : alignN stop (start + td * i) < stop := by unfold alignN; split <;> omega
      omega
    · exact absurd h h0

end Ps
