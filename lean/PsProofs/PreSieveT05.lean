/-
  PsProofs.PreSieveT05 — table 5 of PreSieveTables.hpp (regenerated, 7097 bytes) equals the table its
  generator program describes for the primes [47, 151]: kernel-checked, every byte.
-/
import PsModel.PreSieve
import PsModel.Generated.PreSieve05

namespace Ps.PreSieve

theorem table05_spec : Gen.preSieve05 = specNat (Gen.preSievePrimes.getD 5 []) Gen.preSieve05Len 0 ∧
    Gen.preSieve05Len = (Gen.preSievePrimes.getD 5 []).foldl (· * ·) 1 := by
  constructor <;> decide +kernel

end Ps.PreSieve
