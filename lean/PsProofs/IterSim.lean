/-
  PsProofs.IterSim — the iterator model refines the abstract cursor.
-/
import PsSpec.Cursor
import PsProofs.Scan

namespace Ps
open Ps.Spec

theorem umax_not_prime : ¬ Nat.Prime umax := by
  intro h
  have := h.eq_one_or_self_of_dvd 3 (by decide)
  simp [umax] at this

theorem checkedAdd_le_umax (x y : Nat) : checkedAdd x y ≤ umax := by
  rcases checkedAdd_cases x y with h | h <;> omega

theorem checkedSub_one (x : Nat) : checkedSub x 1 = x - 1 := by
  rcases checkedSub_cases x 1 with h | h <;> omega

theorem updateNext_stop_le (o : Oracle) (st : Iter) : (updateNext o st).2.1 ≤ umax := by
  unfold updateNext; simp only
  generalize (if st.incl then st.stop else checkedAdd st.stop 1) = s0
  split <;> exact checkedAdd_le_umax _ _

/-- the first number the chunk computed by updateNext starts at, relative to the target -/
theorem updateNext_start (o : Oracle) (st : Iter) (hs : st.stop ≤ umax) :
    (updateNext o st).1 ≤ (if st.incl then st.stop else st.stop + 1) ∧
    (if st.incl then st.stop else st.stop + 1) ≤ (updateNext o st).1 + 1 ∧
    (updateNext o st).1 ≤ umax ∧
      ∀ q, (updateNext o st).1 ≤ q → q < (if st.incl then st.stop else st.stop + 1) → ¬ q.Prime := by
  unfold updateNext
  simp only
  cases hi : st.incl
  · simp only [Bool.false_eq_true, if_false]
    rcases checkedAdd_cases st.stop 1 with h | h
    · refine ⟨by omega, by omega, by omega, ?_⟩
      intro q h1 h2
      have : q = umax := by omega
      rw [this]; exact umax_not_prime
    · refine ⟨by omega, by omega, by omega, ?_⟩
      intro q h1 h2; omega
  · simp only [if_true]
    exact ⟨Nat.le_refl _, by omega, hs, by intro q h1 h2; omega⟩

theorem updateNext_start_le_stop (o : Oracle) (st : Iter) (h : (updateNext o st).2.1 < umax) :
    (updateNext o st).1 ≤ (updateNext o st).2.1 := by
  unfold updateNext at *
  simp only at *
  generalize (if st.incl then st.stop else checkedAdd st.stop 1) = s0 at *
  generalize getNextDist o s0 st.dist = d at *
  generalize o.maxPrimeGap st.hint = gp at *
  rcases checkedAdd_cases st.hint gp with h2 | h2 <;>
  rcases checkedAdd_cases s0 d with h3 | h3 <;>
  split at h <;> split <;> simp_all <;> omega

/-- post-condition of a successful `generate_next_primes` towards target `T` -/
structure FwdPost (st st' : Iter) (T : Nat) : Prop where
  i0 : st'.i = 0
  size_eq : st'.size = st'.buf.length
  ne : st'.buf ≠ []
  consec : Consec st'.buf
  incl : st'.incl = false
  head : st'.buf.getD 0 0 = nextPrime T
  lt : nextPrime T < U64
  hint : st'.hint = st.hint
  stop_le : st'.stop ≤ umax
  start_le : st'.start ≤ umax
  bound : ∀ x ∈ st'.buf, x ≤ umax
  gen : ∃ g, st'.gen = some g ∧ g.stop = st'.stop ∧ g.lo ≤ g.stop + 1 ∧
          nextPrime (st'.buf.getD (st'.size - 1) 0 + 1) = nextPrime g.lo

theorem primesHO_last_seam {a p : Nat} (h : primesHO a p ≠ []) (_hap : a ≤ p) :
    nextPrime ((primesHO a p).getD ((primesHO a p).length - 1) 0 + 1) = nextPrime p := by
  have hlen : 0 < (primesHO a p).length := List.length_pos_iff.2 h
  have hm := mem_primesHO.1 (getD_mem (l := primesHO a p) (j := (primesHO a p).length - 1) (by omega))
  apply nextPrime_eq_nextPrime (by omega)
  intro q h1 h2
  exact primesHO_after_last (a := a) q (by omega) h2 (by omega)

theorem genNextFresh_spec {env : Env} (h : EnvOK env) (k : Nat) (st : Iter)
    (hs : st.stop ≤ umax) :
    match genNextFresh env k st with
    | .error e => e = .overflow ∧ U64 ≤ nextPrime (if st.incl then st.stop else st.stop + 1)
    | .ok st' => FwdPost st st' (if st.incl then st.stop else st.stop + 1) := by
  fun_induction genNextFresh env k st with
  | case1 st u g e hf =>
    have hsp := fillNext_spec h g k
    rw [hf] at hsp
    obtain ⟨he, hstop, hnil⟩ := hsp
    obtain ⟨h1, _, _, h3⟩ := updateNext_start env.o st hs
    refine ⟨he, ?_⟩
    by_contra hlt
    have hT := le_nextPrime (if st.incl then st.stop else st.stop + 1)
    have hp := nextPrime_prime (if st.incl then st.stop else st.stop + 1)
    rw [primesHO_eq_nil_iff] at hnil
    refine hnil _ ?_ ?_ hp
    · exact Nat.le_trans h1 hT
    · have : U64 = umax + 1 := by decide
      show _ < u.2.1 + 1
      have hstop' : umax ≤ u.2.1 := hstop
      omega
  | case2 st u g blk g' hf hb hlt hm ih =>
    have hsp := fillNext_spec h g k
    rw [hf] at hsp
    obtain ⟨_, _, _, _, _, hnil⟩ := hsp
    have hbn : blk = [] := List.isEmpty_iff.1 hb
    obtain ⟨hnil, _⟩ := hnil hbn
    rw [primesHO_eq_nil_iff] at hnil
    obtain ⟨h1, h2, _, h3⟩ := updateNext_start env.o st hs
    have hle := updateNext_start_le_stop env.o st hlt
    have hT : nextPrime (if st.incl then st.stop else st.stop + 1) = nextPrime (u.2.1 + 1) := by
      have hle' : u.1 ≤ u.2.1 := hle
      have h1' : u.1 ≤ (if st.incl then st.stop else st.stop + 1) := h1
      have h2' : (if st.incl then st.stop else st.stop + 1) ≤ u.1 + 1 := h2
      apply nextPrime_eq_nextPrime (by omega)
      intro q hq1 hq2
      exact hnil q (by show u.1 ≤ q; omega) hq2
    have ih' := ih (Nat.le_of_lt hlt)
    simp only [Bool.false_eq_true, if_false] at ih'
    revert ih'
    cases genNextFresh env k
        { i := 0, size := 0, start := u.1, hint := st.hint, buf := [], stop := u.2.1,
          dist := u.2.2, incl := false, gen := none } with
    | error e =>
      intro ih'
      exact ⟨ih'.1, by rw [hT]; exact ih'.2⟩
    | ok st' =>
      intro ih'
      exact { i0 := ih'.i0, size_eq := ih'.size_eq, ne := ih'.ne, consec := ih'.consec,
              incl := ih'.incl, head := by rw [hT]; exact ih'.head, lt := by rw [hT]; exact ih'.lt,
              hint := ih'.hint, stop_le := ih'.stop_le, start_le := ih'.start_le,
              bound := ih'.bound, gen := ih'.gen }
  | case3 st u g blk g' hf hb =>
    have hsp := fillNext_spec h g k
    rw [hf] at hsp
    obtain ⟨hgs, hlo, hmax, hblk, hbound, _⟩ := hsp
    have hbn : blk ≠ [] := by intro hh; rw [hh] at hb; simp at hb
    have hsl : g.stop ≤ umax := updateNext_stop_le env.o st
    obtain ⟨h1, _, h2, h3⟩ := updateNext_start env.o st hs
    have hhead : blk.getD 0 0 = nextPrime (if st.incl then st.stop else st.stop + 1) := by
      rw [hblk] at hbn ⊢
      rw [primesHO_head hbn]
      exact nextPrime_eq_nextPrime h1 h3
    have hlen : 0 < blk.length := List.length_pos_iff.2 hbn
    refine { i0 := rfl, size_eq := rfl, ne := hbn, consec := by rw [hblk]; exact consec_primesHO _ _,
             incl := rfl, head := hhead, lt := ?_, hint := rfl,
             stop_le := updateNext_stop_le env.o st, start_le := h2,
             bound := fun x hx => Nat.le_trans (hbound x hx) hsl, gen := ?_ }
    · rw [← hhead]
      have := hbound _ (getD_mem (l := blk) (j := 0) hlen)
      have : U64 = umax + 1 := by decide
      omega
    · refine ⟨g', rfl, hgs, ?_, ?_⟩
      · have hlo1 : g.lo ≤ g.stop + 1 := by
          by_cases hlt : u.2.1 < umax
          · have := updateNext_start_le_stop env.o st hlt
            show u.1 ≤ u.2.1 + 1
            have h' : u.1 ≤ u.2.1 := this
            omega
          · show u.1 ≤ u.2.1 + 1
            have h2' : u.1 ≤ umax := h2
            omega
        rw [hgs]
        have : max g.lo (g.stop + 1) = g.stop + 1 := Nat.max_eq_right hlo1
        rw [this] at hmax; exact hmax
      show nextPrime (blk.getD (blk.length - 1) 0 + 1) = nextPrime g'.lo
      rw [hblk] at hbn ⊢
      exact primesHO_last_seam hbn hlo

/-- the buffer of a backward chunk [a, b]: sentinel 0 when a ≤ 2, then the primes -/
noncomputable def extPrimes (a b : Nat) : List Nat :=
  (if a ≤ 2 then [0] else []) ++ primesHO a (b + 1)

theorem not_prime_le_one {q : Nat} (h : q ≤ 1) : ¬ q.Prime := by
  intro hq; have := hq.two_le; omega

theorem extPrimes_last {a b : Nat} (hne : extPrimes a b ≠ []) :
    (extPrimes a b).getD ((extPrimes a b).length - 1) 0 = prevPrime b ∧
    nextPrime ((extPrimes a b).getD ((extPrimes a b).length - 1) 0 + 1) = nextPrime (b + 1) := by
  by_cases hP : primesHO a (b + 1) = []
  · -- only the sentinel
    have ha : a ≤ 2 := by
      by_contra ha; apply hne; simp [extPrimes, ha, hP]
    have he : extPrimes a b = [0] := by simp [extPrimes, ha, hP]
    rw [primesHO_eq_nil_iff] at hP
    have hno : ∀ q, q ≤ b → ¬ q.Prime := by
      intro q hq hp
      exact hP q (by have := hp.two_le; omega) (by omega) hp
    rw [he]
    simp only [List.length_singleton, Nat.sub_self, List.getD_cons_zero]
    refine ⟨(prevPrime_eq_zero hno).symm, ?_⟩
    apply nextPrime_eq_nextPrime (by omega)
    intro q h1 h2; exact hno q (by omega)
  · have hlen : 0 < (primesHO a (b + 1)).length := List.length_pos_iff.2 hP
    have hidx : (extPrimes a b).getD ((extPrimes a b).length - 1) 0 =
        (primesHO a (b + 1)).getD ((primesHO a (b + 1)).length - 1) 0 := by
      unfold extPrimes
      by_cases ha : a ≤ 2
      · simp only [ha, if_true, List.singleton_append, List.length_cons]
        have : (primesHO a (b + 1)).length + 1 - 1 = ((primesHO a (b + 1)).length - 1) + 1 := by omega
        rw [this, List.getD_cons_succ]
      · simp [ha]
    rw [hidx]
    have hm := mem_primesHO.1 (getD_mem (l := primesHO a (b + 1))
      (j := (primesHO a (b + 1)).length - 1) (by omega))
    refine ⟨?_, primesHO_last_seam hP (by omega)⟩
    symm
    apply prevPrime_eq_of (by omega) hm.2.2
    intro q h1 h2
    exact primesHO_after_last (a := a) q h1 (by omega) (by omega)

theorem extPrimes_head {a b : Nat} (hne : extPrimes a b ≠ []) :
    prevPrime ((extPrimes a b).getD 0 0 - 1) = prevPrime (a - 1) ∧
    (extPrimes a b).getD 0 0 ≤ b := by
  by_cases ha : a ≤ 2
  · have : (extPrimes a b).getD 0 0 = 0 := by simp [extPrimes, ha]
    rw [this]
    refine ⟨?_, Nat.zero_le _⟩
    rw [prevPrime_eq_zero (n := a - 1) (fun q hq => not_prime_le_one (by omega))]
    exact prevPrime_eq_zero (fun q hq => not_prime_le_one (by omega))
  · have he : extPrimes a b = primesHO a (b + 1) := by simp [extPrimes, ha]
    rw [he] at hne ⊢
    have hlen : 0 < (primesHO a (b + 1)).length := List.length_pos_iff.2 hne
    have hm := mem_primesHO.1 (getD_mem (l := primesHO a (b + 1)) (j := 0) hlen)
    refine ⟨?_, by omega⟩
    rw [primesHO_head hne]
    have := le_nextPrime a
    apply prevPrime_eq_prevPrime (by omega)
    intro q h1 h2
    exact no_prime_lt_nextPrime (n := a) (by omega) (by omega)

theorem extPrimes_consec (a b : Nat) : Consec (extPrimes a b) := by
  unfold extPrimes
  by_cases ha : a ≤ 2
  · simp only [ha, if_true, List.singleton_append]
    apply consec_cons (consec_primesHO _ _)
    intro hne
    rw [primesHO_head hne]
    have h1 : nextPrime a = nextPrime (0 + 1) := by
      symm
      by_cases ha1 : 1 ≤ a
      · apply nextPrime_eq_nextPrime ha1
        intro q h1 h2; exact not_prime_le_one (by omega)
      · have : a = 0 := by omega
        subst this
        symm
        apply nextPrime_eq_nextPrime (by omega)
        intro q h1 h2; exact not_prime_le_one (by omega)
    refine ⟨h1, ?_⟩
    symm
    apply prevPrime_eq_zero
    intro q hq hp
    have := hp.two_le
    exact no_prime_lt_nextPrime (n := a) (by omega) (by have := le_nextPrime a; omega) hp
  · simp only [ha, if_false, List.nil_append]
    exact consec_primesHO _ _

/-- post-condition of `generate_prev_primes` towards target `T` -/
structure BwdPost (st st' : Iter) (T : Nat) : Prop where
  i_eq : st'.i = st'.size
  size_eq : st'.size = st'.buf.length
  ne : st'.buf ≠ []
  consec : Consec st'.buf
  incl : st'.incl = false
  gen : st'.gen = none
  last : st'.buf.getD (st'.size - 1) 0 = prevPrime T
  hint : st'.hint = st.hint
  seamF : nextPrime (st'.buf.getD (st'.size - 1) 0 + 1) = nextPrime (st'.stop + 1)
  seamB : prevPrime (st'.buf.getD 0 0 - 1) = prevPrime (st'.start - 1)
  stop_le : st'.stop ≤ T
  start_le : st'.start ≤ st'.stop
  bound : ∀ x ∈ st'.buf, x ≤ st'.stop

theorem updatePrev_stop (o : Oracle) (st : Iter) :
    (updatePrev o st).2.1 = (if st.incl then st.start else st.start - 1) := by
  unfold updatePrev; simp only; rw [checkedSub_one]

theorem genPrevLoop_spec {env : Env} (h : EnvOK env) (st : Iter) :
    BwdPost st (genPrevLoop env st) (if st.incl then st.start else st.start - 1) := by
  fun_induction genPrevLoop env st with
  | case1 st u blk hb hlt hm ih =>
    simp only [Bool.false_eq_true, if_false] at ih
    have hle : u.1 ≤ u.2.1 := updatePrev_le env.o st
    have hstop : u.2.1 = (if st.incl then st.start else st.start - 1) := updatePrev_stop env.o st
    have hbn : blk = [] := List.isEmpty_iff.1 hb
    have hsp : blk = extPrimes u.1 u.2.1 := fillPrev_spec h u.1 u.2.1 hle
    rw [hbn] at hsp
    have hP : primesHO u.1 (u.2.1 + 1) = [] := by
      unfold extPrimes at hsp
      exact (List.append_eq_nil_iff.1 hsp.symm).2
    rw [primesHO_eq_nil_iff] at hP
    have hT : prevPrime (if st.incl then st.start else st.start - 1) = prevPrime (u.1 - 1) := by
      rw [← hstop]
      apply prevPrime_eq_prevPrime (by omega)
      intro q h1 h2
      exact hP q (by omega) (by omega)
    exact { i_eq := ih.i_eq, size_eq := ih.size_eq, ne := ih.ne, consec := ih.consec,
            incl := ih.incl, gen := ih.gen, last := by rw [hT]; exact ih.last, hint := ih.hint,
            seamF := ih.seamF, seamB := ih.seamB,
            stop_le := by rw [← hstop]; exact Nat.le_trans ih.stop_le (by omega),
            start_le := ih.start_le, bound := ih.bound }
  | case2 st u blk hb =>
    have hle : u.1 ≤ u.2.1 := updatePrev_le env.o st
    have hstop : u.2.1 = (if st.incl then st.start else st.start - 1) := updatePrev_stop env.o st
    have hsp : blk = extPrimes u.1 u.2.1 := fillPrev_spec h u.1 u.2.1 hle
    have hne : extPrimes u.1 u.2.1 ≠ [] := by
      rw [← hsp]; intro hh; rw [hh] at hb; simp at hb
    have hl := extPrimes_last hne
    have hh := extPrimes_head hne
    exact { i_eq := rfl, size_eq := rfl, ne := by rw [hsp]; exact hne,
            consec := by rw [hsp]; exact extPrimes_consec _ _,
            incl := rfl, gen := rfl,
            last := by show blk.getD (blk.length - 1) 0 = _; rw [hsp, ← hstop]; exact hl.1,
            hint := rfl,
            seamF := by show nextPrime (blk.getD (blk.length - 1) 0 + 1) = _; rw [hsp]; exact hl.2,
            seamB := by show prevPrime (blk.getD 0 0 - 1) = _; rw [hsp]; exact hh.1,
            stop_le := by show u.2.1 ≤ _; rw [hstop],
            start_le := hle,
            bound := by
              show ∀ x ∈ blk, x ≤ u.2.1
              rw [hsp]; intro x hx
              unfold extPrimes at hx
              rcases List.mem_append.1 hx with hx | hx
              · split at hx
                · simp at hx; omega
                · cases hx
              · have := mem_primesHO.1 hx; omega }

/-- invariant of an iterator whose buffer is non-empty -/
structure AtInv (st : Iter) : Prop where
  size_eq : st.size = st.buf.length
  i_lt : st.i < st.size
  consec : Consec st.buf
  incl : st.incl = false
  stop_le : st.stop ≤ umax
  start_le : st.start ≤ umax
  bound : ∀ x ∈ st.buf, x ≤ umax
  seamF : match st.gen with
    | some g => g.stop = st.stop ∧ g.lo ≤ g.stop + 1 ∧
        nextPrime (st.buf.getD (st.size - 1) 0 + 1) = nextPrime g.lo
    | none => nextPrime (st.buf.getD (st.size - 1) 0 + 1) = nextPrime (st.stop + 1)
  seamB : st.gen = none → prevPrime (st.buf.getD 0 0 - 1) = prevPrime (st.start - 1)

/-- simulation relation between the iterator model and the abstract cursor -/
inductive R : Iter → Cursor → Prop
  | fresh (st : Iter) : st.size = 0 → st.i = 0 → st.gen = none → st.buf = [] →
      st.start = st.stop → st.stop ≤ umax →
      R st (if st.incl then .fresh st.stop else .at st.stop)
  | atv (st : Iter) : AtInv st → R st (.at (st.buf.getD st.i 0))

theorem R_mk' (s h : Nat) (hs : s ≤ umax) (incl : Bool) :
    R { Iter.mk' s h with incl := incl } (if incl then .fresh s else .at s) :=
  R.fresh { Iter.mk' s h with incl := incl } rfl rfl rfl rfl rfl hs

theorem atInv_of_fwdPost {st st' : Iter} {T : Nat} (p : FwdPost st st' T) : AtInv st' := by
  obtain ⟨g, hg, hgs, hlo, hseam⟩ := p.gen
  have hlen : 0 < st'.buf.length := List.length_pos_iff.2 p.ne
  exact { size_eq := p.size_eq, i_lt := by rw [p.i0, p.size_eq]; exact hlen, consec := p.consec,
          incl := p.incl, stop_le := p.stop_le, start_le := p.start_le, bound := p.bound,
          seamF := by rw [hg]; exact ⟨hgs, hlo, hseam⟩,
          seamB := by intro hn; rw [hg] at hn; cases hn }

theorem U64_eq_succ : U64 = umax + 1 := by decide

/-- `generate_next_primes` from a state without generator, seen from the cursor -/
theorem next_fresh_sim {env : Env} (h : EnvOK env) (k : Nat) (st : Iter) (hs : st.stop ≤ umax)
    (T : Nat) (hT : T = if st.incl then st.stop else st.stop + 1) :
    match genNextFresh env k st with
    | .ok st' => nextPrime T < U64 ∧ st'.buf.getD st'.i 0 = nextPrime T ∧ AtInv st'
    | .error e => e = .overflow ∧ ¬ nextPrime T < U64 := by
  have := genNextFresh_spec h k st hs
  rw [← hT] at this
  revert this
  cases genNextFresh env k st with
  | error e => intro p; exact ⟨p.1, by omega⟩
  | ok st' => intro p; exact ⟨p.lt, by rw [p.i0]; exact p.head, atInv_of_fwdPost p⟩

theorem atInv_of_bwdPost {st st' : Iter} {T : Nat} (p : BwdPost st st' T) (hT : T ≤ umax) :
    AtInv { st' with i := st'.i - 1 } ∧
      ({ st' with i := st'.i - 1 } : Iter).buf.getD (st'.i - 1) 0 = prevPrime T := by
  have hlen : 0 < st'.buf.length := List.length_pos_iff.2 p.ne
  have hsl : st'.stop ≤ umax := Nat.le_trans p.stop_le hT
  refine ⟨{ size_eq := p.size_eq, i_lt := ?_, consec := p.consec, incl := p.incl, stop_le := hsl,
            start_le := Nat.le_trans p.start_le hsl,
            bound := fun x hx => Nat.le_trans (p.bound x hx) hsl,
            seamF := ?_, seamB := fun _ => p.seamB }, ?_⟩
  · show st'.i - 1 < st'.size
    rw [p.i_eq, p.size_eq]; omega
  · show match st'.gen with
      | some g => _
      | none => _
    rw [p.gen]; exact p.seamF
  · show st'.buf.getD (st'.i - 1) 0 = _
    rw [p.i_eq]; exact p.last

theorem consec_get {l : List Nat} (hc : Consec l) {j : Nat} (hj : j + 1 < l.length) :
    l.getD (j + 1) 0 = nextPrime (l.getD j 0 + 1) ∧ l.getD j 0 = prevPrime (l.getD (j + 1) 0 - 1) :=
  hc j hj

/-- One operation: outputs agree and the relation is preserved. -/
theorem step_sim {env : Env} (h : EnvOK env) {st : Iter} {c : Cursor} (hR : R st c)
    (op : Op) (hop : Op.WF op) :
    (st.step env op).1 = (specStep c op).1 ∧ R (st.step env op).2 (specStep c op).2 := by
  cases op with
  | jumpTo s hh => exact ⟨rfl, R_mk' s hh hop true⟩
  | skipTo s hh => exact ⟨rfl, R_mk' s hh hop false⟩
  | clear => exact ⟨rfl, R_mk' 0 umax (Nat.zero_le _) true⟩
  | moveIn => exact ⟨rfl, hR⟩
  | moveOut => exact ⟨rfl, R_mk' 0 umax (Nat.zero_le _) true⟩
  | next k =>
    cases hR with
    | fresh h1 h2 h3 h4 h5 h6 =>
      rcases st with ⟨i, size, start, hint, buf, stop, dist, incl, gen⟩
      simp only at h1 h2 h3 h4 h5 h6
      subst h1 h2 h3 h4 h5
      have hs := next_fresh_sim h k
        (Iter.mk 0 0 start hint [] start dist incl none) h6 _ rfl
      simp only [Iter.step, Iter.next, Iter.generateNext, Nat.zero_add, ge_iff_le, Nat.zero_le,
        if_true]
      cases hr : genNextFresh env k (Iter.mk 0 0 start hint [] start dist incl none) with
      | error e =>
        rw [hr] at hs
        obtain ⟨he, hnlt⟩ := hs
        subst he
        simp only [Iter.resetTo, Iter.snapNext, Nat.lt_irrefl, if_false, Iter.mk']
        have hR' := R_mk' start hint h6 incl
        simp only [Iter.mk'] at hR'
        cases incl <;> simp only [Bool.false_eq_true, if_false, if_true] at hnlt hR' ⊢ <;>
          simp only [specStep, specNext, hnlt, if_false] <;> exact ⟨trivial, hR'⟩
      | ok st' =>
        rw [hr] at hs
        obtain ⟨hlt, hval, hinv⟩ := hs
        simp only
        have hR' := R.atv _ hinv
        rw [hval] at hR' ⊢
        cases incl <;> simp only [Bool.false_eq_true, if_false, if_true] at hlt hR' ⊢ <;>
          simp only [specStep, specNext, hlt, if_true] <;> exact ⟨trivial, hR'⟩
    | atv hinv =>
      rcases st with ⟨i, size, start, hint, buf, stop, dist, incl, gen⟩
      have hincl : incl = false := hinv.incl
      subst hincl
      have hsz : size = buf.length := hinv.size_eq
      have hilt : i < size := hinv.i_lt
      by_cases hi : i + 1 < size
      · -- step inside the buffer
        have hnot : ¬ (i + 1 ≥ size) := by omega
        simp only [Iter.step, Iter.next, hnot, if_false]
        have hc := consec_get hinv.consec (j := i) (by simp only; omega)
        simp only at hc
        have hb : buf.getD (i + 1) 0 ≤ umax := hinv.bound _ (getD_mem (l := buf) (by omega))
        have hlt : nextPrime (buf.getD i 0 + 1) < U64 := by rw [← hc.1, U64_eq_succ]; omega
        simp only [specStep, specNext, hlt, if_true]
        rw [← hc.1]
        refine ⟨rfl, ?_⟩
        have hinv' : AtInv (Iter.mk (i + 1) size start hint buf stop dist false gen) :=
          { size_eq := hinv.size_eq, i_lt := hi,
            consec := hinv.consec, incl := rfl, stop_le := hinv.stop_le,
            start_le := hinv.start_le, bound := hinv.bound, seamF := hinv.seamF,
            seamB := hinv.seamB }
        exact R.atv _ hinv'
      · -- refill forwards
        have hge : i + 1 ≥ size := by omega
        have hi' : i = size - 1 := by omega
        have hv : buf.getD i 0 ≤ umax := hinv.bound _ (getD_mem (l := buf) (by omega))
        have hszpos : size > 0 := by omega
        -- the rolled-back state used on error
        have hRreset : R (Iter.mk 0 0 (buf.getD i 0) hint [] (buf.getD i 0) 0 false none)
            (.at (buf.getD i 0)) := by
          have := R_mk' (buf.getD i 0) hint hv false
          simpa [Iter.mk'] using this
        cases gen with
        | none =>
          have hseam := hinv.seamF
          simp only at hseam
          have hs := next_fresh_sim h k
            (Iter.mk i size start hint buf stop dist false none) hinv.stop_le (stop + 1) rfl
          simp only [Iter.step, Iter.next, hge, if_true, Iter.generateNext]
          cases hr : genNextFresh env k (Iter.mk i size start hint buf stop dist false none) with
          | error e =>
            rw [hr] at hs
            obtain ⟨he, hnlt⟩ := hs
            subst he
            rw [← hseam, ← hi'] at hnlt
            simp only [Iter.resetTo, Iter.snapNext, hszpos, if_true, Iter.mk', ← hi']
            simp only [specStep, specNext, hnlt, if_false]
            exact ⟨trivial, hRreset⟩
          | ok st' =>
            rw [hr] at hs
            obtain ⟨hlt, hval, hinv'⟩ := hs
            rw [← hseam, ← hi'] at hlt hval
            simp only
            have hR' := R.atv _ hinv'
            rw [hval] at hR' ⊢
            simp only [specStep, specNext, hlt, if_true]
            exact ⟨trivial, hR'⟩
        | some g =>
          have hseam := hinv.seamF
          simp only at hseam
          obtain ⟨hgs, hglo, hseam⟩ := hseam
          rw [← hi'] at hseam
          have hsp := fillNext_spec h g k
          simp only [Iter.step, Iter.next, hge, if_true, Iter.generateNext]
          cases hf : g.fillNext env k with
          | error e =>
            rw [hf] at hsp
            obtain ⟨he, hstop, hnil⟩ := hsp
            subst he
            have hnlt : ¬ nextPrime (buf.getD i 0 + 1) < U64 := by
              rw [hseam]
              intro hlt
              rw [primesHO_eq_nil_iff] at hnil
              refine hnil _ (le_nextPrime _) ?_ (nextPrime_prime _)
              rw [U64_eq_succ] at hlt; omega
            simp only [Iter.resetTo, Iter.snapNext, hszpos, if_true, Iter.mk', ← hi']
            simp only [specStep, specNext, hnlt, if_false]
            exact ⟨trivial, hRreset⟩
          | ok r =>
            obtain ⟨blk, g'⟩ := r
            rw [hf] at hsp
            obtain ⟨hgs', hlo, hmax, hblk, hbound, hnil⟩ := hsp
            by_cases hb : blk.isEmpty = true
            · -- chunk exhausted: next chunk
              have hbn : blk = [] := List.isEmpty_iff.1 hb
              obtain ⟨hnil, hlt⟩ := hnil hbn
              rw [primesHO_eq_nil_iff] at hnil
              have hT : nextPrime (buf.getD i 0 + 1) = nextPrime (stop + 1) := by
                rw [hseam, ← hgs]
                apply nextPrime_eq_nextPrime hglo
                intro q h1 h2; exact hnil q h1 h2
              have hs := next_fresh_sim h k
                (Iter.mk 0 0 start hint [] stop dist false none) hinv.stop_le (stop + 1) rfl
              simp only [hb, if_true]
              cases hr : genNextFresh env k (Iter.mk 0 0 start hint [] stop dist false none) with
              | error e =>
                rw [hr] at hs
                obtain ⟨he, hnlt⟩ := hs
                subst he
                rw [← hT] at hnlt
                simp only [Iter.resetTo, Iter.snapNext, hszpos, if_true, Iter.mk', ← hi']
                simp only [specStep, specNext, hnlt, if_false]
                exact ⟨trivial, hRreset⟩
              | ok st' =>
                rw [hr] at hs
                obtain ⟨hlt, hval, hinv'⟩ := hs
                rw [← hT] at hlt hval
                simp only
                have hR' := R.atv _ hinv'
                rw [hval] at hR' ⊢
                simp only [specStep, specNext, hlt, if_true]
                exact ⟨trivial, hR'⟩
            · -- next block of the same chunk
              simp only [hb, Bool.false_eq_true, if_false]
              have hbn : blk ≠ [] := by intro hh; rw [hh] at hb; simp at hb
              have hlen : 0 < blk.length := List.length_pos_iff.2 hbn
              have hhead : blk.getD 0 0 = nextPrime (buf.getD i 0 + 1) := by
                rw [hseam]
                have hbn' := hbn
                rw [hblk] at hbn' ⊢
                exact primesHO_head hbn'
              have hgsl : g.stop ≤ umax := by rw [hgs]; exact hinv.stop_le
              have hlt : nextPrime (buf.getD i 0 + 1) < U64 := by
                rw [← hhead, U64_eq_succ]
                have := hbound _ (getD_mem (l := blk) (j := 0) hlen)
                omega
              have hinv' : AtInv (Iter.mk 0 blk.length start hint blk stop dist false (some g')) :=
                { size_eq := rfl, i_lt := hlen,
                  consec := by show Consec blk; rw [hblk]; exact consec_primesHO _ _,
                  incl := rfl, stop_le := hinv.stop_le, start_le := hinv.start_le,
                  bound := fun x hx => Nat.le_trans (hbound x hx) hgsl,
                  seamF := by
                    refine ⟨by rw [hgs', hgs], ?_, ?_⟩
                    · rw [hgs']
                      have : max g.lo (g.stop + 1) = g.stop + 1 := Nat.max_eq_right hglo
                      rw [this] at hmax; exact hmax
                    · show nextPrime (blk.getD (blk.length - 1) 0 + 1) = nextPrime g'.lo
                      have hbn' := hbn
                      rw [hblk] at hbn' ⊢
                      exact primesHO_last_seam hbn' hlo
                  seamB := by intro hn; cases hn }
              have hR' := R.atv _ hinv'
              simp only at hR'
              rw [hhead] at hR' ⊢
              simp only [specStep, specNext, hlt, if_true]
              exact ⟨trivial, hR'⟩
  | prev =>
    cases hR with
    | fresh h1 h2 h3 h4 h5 h6 =>
      have p := genPrevLoop_spec h st
      have hT : (if st.incl then st.start else st.start - 1) ≤ umax := by
        split <;> omega
      obtain ⟨hinv, hval⟩ := atInv_of_bwdPost p hT
      simp only [Iter.step, Iter.prev, h2, if_true, Iter.generatePrev, h3]
      have hR' := R.atv _ hinv
      rw [hval] at hR'
      simp only at hval
      rw [hval]
      cases hi : st.incl <;> simp only [hi, Bool.false_eq_true, if_false, if_true] at hR' ⊢
      · simp only [specStep, specPrev]; rw [← h5]; exact ⟨rfl, hR'⟩
      · simp only [specStep, specPrev]; rw [← h5]; exact ⟨rfl, hR'⟩
    | atv hinv =>
      rcases st with ⟨i, size, start, hint, buf, stop, dist, incl, gen⟩
      have hincl : incl = false := hinv.incl
      subst hincl
      by_cases hi : i = 0
      · -- refill backwards
        subst hi
        have hlen : 0 < buf.length := by have := hinv.i_lt; have := hinv.size_eq; simp only at *; omega
        have hb0 : buf.getD 0 0 ≤ umax := hinv.bound _ (getD_mem hlen)
        cases gen with
        | none =>
          simp only [Iter.step, Iter.prev, if_true, Iter.generatePrev]
          have p := genPrevLoop_spec h
            { i := 0, size := size, start := start, hint := hint, buf := buf, stop := stop,
              dist := dist, incl := false, gen := none }
          simp only [Bool.false_eq_true, if_false] at p
          obtain ⟨hinv', hval⟩ := atInv_of_bwdPost p (by have := hinv.start_le; simp only at this; omega)
          have hR' := R.atv _ hinv'
          rw [hval] at hR'
          simp only at hval
          rw [hval]
          simp only [specStep, specPrev]
          have := hinv.seamB rfl
          simp only at this
          rw [this]
          exact ⟨rfl, hR'⟩
        | some g =>
          simp only [Iter.step, Iter.prev, if_true, Iter.generatePrev]
          have p := genPrevLoop_spec h
            { i := 0, size := size, start := buf.getD 0 0, hint := hint, buf := buf, stop := stop,
              dist := dist, incl := false, gen := none }
          simp only [Bool.false_eq_true, if_false] at p
          obtain ⟨hinv', hval⟩ := atInv_of_bwdPost p (by omega)
          have hR' := R.atv _ hinv'
          rw [hval] at hR'
          simp only at hval
          rw [hval]
          simp only [specStep, specPrev]
          exact ⟨trivial, hR'⟩
      · -- step inside the buffer
        simp only [Iter.step, Iter.prev, hi, if_false]
        have hi1 : i - 1 + 1 = i := by omega
        have hj : (i - 1) + 1 < buf.length := by
          have := hinv.i_lt; have := hinv.size_eq; simp only at *; omega
        have hc := consec_get hinv.consec hj
        simp only at hc
        rw [hi1] at hc
        simp only [specStep, specPrev]
        rw [← hc.2]
        refine ⟨rfl, ?_⟩
        have hinv' : AtInv (Iter.mk (i - 1) size start hint buf stop dist false gen) :=
          { size_eq := hinv.size_eq, i_lt := by have := hinv.i_lt; simp only at *; omega,
            consec := hinv.consec, incl := rfl, stop_le := hinv.stop_le,
            start_le := hinv.start_le, bound := hinv.bound, seamF := hinv.seamF,
            seamB := hinv.seamB }
        exact R.atv _ hinv'

/-- `generate_next_primes` from a state with a non-empty buffer: the new block starts with the
    prime following the last prime of the old buffer (or the call fails because that prime does
    not fit in 64 bits) -/
theorem generateNext_at {env : Env} (h : EnvOK env) (k : Nat) (st : Iter) (hinv : AtInv st) :
    match st.generateNext env k with
    | .error e => e = .overflow ∧ ¬ nextPrime (st.buf.getD (st.size - 1) 0 + 1) < U64
    | .ok st' => nextPrime (st.buf.getD (st.size - 1) 0 + 1) < U64 ∧ st'.i = 0 ∧
        st'.buf.getD 0 0 = nextPrime (st.buf.getD (st.size - 1) 0 + 1) ∧ AtInv st' ∧ st'.hint = st.hint := by
  rcases st with ⟨i, size, start, hint, buf, stop, dist, incl, gen⟩
  have hincl : incl = false := hinv.incl
  subst hincl
  cases gen with
  | none =>
    have hseam := hinv.seamF
    simp only at hseam
    have hs := genNextFresh_spec h k (Iter.mk i size start hint buf stop dist false none) hinv.stop_le
    simp only [Iter.generateNext]
    simp only [Bool.false_eq_true, if_false] at hs
    cases hr : genNextFresh env k (Iter.mk i size start hint buf stop dist false none) with
    | error e =>
      rw [hr] at hs
      simp only at hs ⊢
      rw [hseam]
      exact ⟨hs.1, by omega⟩
    | ok st' =>
      rw [hr] at hs
      simp only at hs ⊢
      rw [hseam]
      exact ⟨hs.lt, hs.i0, hs.head, atInv_of_fwdPost hs, hs.hint⟩
  | some g =>
    have hseam := hinv.seamF
    simp only at hseam
    obtain ⟨hgs, hglo, hseam⟩ := hseam
    have hsp := fillNext_spec h g k
    simp only [Iter.generateNext]
    cases hf : g.fillNext env k with
    | error e =>
      rw [hf] at hsp
      obtain ⟨he, hstop, hnil⟩ := hsp
      simp only
      refine ⟨he, ?_⟩
      rw [hseam]
      intro hlt
      rw [primesHO_eq_nil_iff] at hnil
      refine hnil _ (le_nextPrime _) ?_ (nextPrime_prime _)
      rw [U64_eq_succ] at hlt; omega
    | ok r =>
      obtain ⟨blk, g'⟩ := r
      rw [hf] at hsp
      obtain ⟨hgs', hlo, hmax, hblk, hbound, hnil⟩ := hsp
      simp only
      by_cases hb : blk.isEmpty = true
      · have hbn : blk = [] := List.isEmpty_iff.1 hb
        obtain ⟨hnil, hlt⟩ := hnil hbn
        rw [primesHO_eq_nil_iff] at hnil
        have hT : nextPrime (buf.getD (size - 1) 0 + 1) = nextPrime (stop + 1) := by
          rw [hseam, ← hgs]
          apply nextPrime_eq_nextPrime hglo
          intro q h1 h2; exact hnil q h1 h2
        have hs := genNextFresh_spec h k (Iter.mk 0 0 start hint [] stop dist false none) hinv.stop_le
        simp only [Bool.false_eq_true, if_false] at hs
        simp only [hb, if_true]
        cases hr : genNextFresh env k (Iter.mk 0 0 start hint [] stop dist false none) with
        | error e =>
          rw [hr] at hs
          simp only at hs ⊢
          rw [hT]
          exact ⟨hs.1, by omega⟩
        | ok st' =>
          rw [hr] at hs
          simp only at hs ⊢
          rw [hT]
          exact ⟨hs.lt, hs.i0, hs.head, atInv_of_fwdPost hs, hs.hint⟩
      · simp only [hb, Bool.false_eq_true, if_false]
        have hbn : blk ≠ [] := by intro hh; rw [hh] at hb; simp at hb
        have hlen : 0 < blk.length := List.length_pos_iff.2 hbn
        have hhead : blk.getD 0 0 = nextPrime (buf.getD (size - 1) 0 + 1) := by
          rw [hseam]
          have hbn' := hbn
          rw [hblk] at hbn' ⊢
          exact primesHO_head hbn'
        have hgsl : g.stop ≤ umax := by rw [hgs]; exact hinv.stop_le
        have hlt : nextPrime (buf.getD (size - 1) 0 + 1) < U64 := by
          rw [← hhead, U64_eq_succ]
          have := hbound _ (getD_mem (l := blk) (j := 0) hlen)
          omega
        have hinv' : AtInv (Iter.mk 0 blk.length start hint blk stop dist false (some g')) :=
          { size_eq := rfl, i_lt := hlen,
            consec := by show Consec blk; rw [hblk]; exact consec_primesHO _ _,
            incl := rfl, stop_le := hinv.stop_le, start_le := hinv.start_le,
            bound := fun x hx => Nat.le_trans (hbound x hx) hgsl,
            seamF := by
              refine ⟨by rw [hgs', hgs], ?_, ?_⟩
              · rw [hgs']
                have : max g.lo (g.stop + 1) = g.stop + 1 := Nat.max_eq_right hglo
                rw [this] at hmax; exact hmax
              · show nextPrime (blk.getD (blk.length - 1) 0 + 1) = nextPrime g'.lo
                have hbn' := hbn
                rw [hblk] at hbn' ⊢
                exact primesHO_last_seam hbn' hlo
            seamB := by intro hn; cases hn }
        exact ⟨hlt, trivial, hhead, hinv', trivial⟩

end Ps
