/-
  PsProofs.IterFault — allocation failures inside next_prime / prev_prime leave the iterator a
  consistent cursor: the failing call raises, the cursor stays where it was.
-/
import PsProofs.IterRun
namespace Ps
open Ps.Spec

theorem R_reset_next {st : Iter} {c : Cursor} (hR : R st c) (hi : st.i + 1 ≥ st.size) :
    R (st.resetTo st.snapNext) c := by
  cases hR with
  | fresh h1 h2 h3 h4 h5 h6 =>
    have := R_mk' st.start st.hint (by omega) st.incl
    simp only [Iter.resetTo, Iter.snapNext, h1, Nat.lt_irrefl, if_false]
    rw [← h5]
    exact this
  | atv hinv =>
    have hsz := hinv.size_eq
    have hilt := hinv.i_lt
    have hi' : st.i = st.size - 1 := by omega
    have hv : st.buf.getD st.i 0 ≤ umax := hinv.bound _ (getD_mem (l := st.buf) (by omega))
    have hpos : st.size > 0 := by omega
    have := R_mk' (st.buf.getD st.i 0) st.hint hv false
    simp only [Iter.resetTo, Iter.snapNext, hpos, if_true, ← hi']
    simpa using this

theorem R_reset_prev {st : Iter} {c : Cursor} (hR : R st c) (hi : st.i = 0) :
    R (st.resetTo st.snapPrev) c := by
  cases hR with
  | fresh h1 h2 h3 h4 h5 h6 =>
    have := R_mk' st.start st.hint (by omega) st.incl
    simp only [Iter.resetTo, Iter.snapPrev, h1, Nat.lt_irrefl, if_false]
    rw [← h5]
    exact this
  | atv hinv =>
    have hsz := hinv.size_eq
    have hilt := hinv.i_lt
    have hv : st.buf.getD 0 0 ≤ umax := hinv.bound _ (getD_mem (l := st.buf) (by omega))
    have hpos : st.size > 0 := by omega
    have := R_mk' (st.buf.getD 0 0) st.hint hv false
    simp only [Iter.resetTo, Iter.snapPrev, hpos, if_true]
    rw [hi]
    simpa using this

/-- operations with an optional allocation failure -/
inductive FOp where
  | plain (op : Op)
  | nextFault (k : Nat)
  | prevFault

def Iter.stepF (env : Env) (st : Iter) : FOp → Out × Iter
  | .plain op => st.step env op
  | .nextFault k => match st.nextFault env k with
    | (.ok v, st') => (.val v, st')
    | (.error e, st') => (.err e, st')
  | .prevFault => match st.prevFault env with
    | (.ok v, st') => (.val v, st')
    | (.error e, st') => (.err e, st')

/-- the operation a faulting call stands for -/
def FOp.base : FOp → Op
  | .plain op => op
  | .nextFault k => .next k
  | .prevFault => .prev

/-- one step under faults: either the call behaves exactly like the cursor, or it raises
    std::bad_alloc and the cursor has not moved -/
theorem stepF_sim {env : Env} (h : EnvOK env) {st : Iter} {c : Cursor} (hR : R st c) (op : FOp)
    (hop : Op.WF op.base) :
    ((st.stepF env op).1 = (specStep c op.base).1 ∧ R (st.stepF env op).2 (specStep c op.base).2) ∨
    ((st.stepF env op).1 = .err .badAlloc ∧ R (st.stepF env op).2 c) := by
  cases op with
  | plain op => exact Or.inl (step_sim h hR op hop)
  | nextFault k =>
    by_cases hi : st.i + 1 ≥ st.size
    · right
      simp only [Iter.stepF, Iter.nextFault, hi, if_true]
      exact ⟨trivial, R_reset_next hR hi⟩
    · left
      have := step_sim h hR (.next k) hop
      simp only [Iter.stepF, Iter.nextFault, hi, if_false, FOp.base]
      simp only [Iter.step] at this
      exact this
  | prevFault =>
    by_cases hi : st.i = 0
    · right
      simp only [Iter.stepF, Iter.prevFault, hi, if_true]
      exact ⟨trivial, R_reset_prev hR hi⟩
    · left
      have := step_sim h hR .prev hop
      simp only [Iter.stepF, Iter.prevFault, hi, if_false, FOp.base]
      simp only [Iter.step] at this
      exact this

/-- outputs a cursor may produce for a history with faults -/
inductive FaultRun : Cursor → List FOp → List Out → Prop
  | nil (c) : FaultRun c [] []
  | ok (c op ops outs) : FaultRun (specStep c op.base).2 ops outs →
      FaultRun c (op :: ops) ((specStep c op.base).1 :: outs)
  | fail (c op ops outs) : FaultRun c ops outs → FaultRun c (op :: ops) (.err .badAlloc :: outs)

def Iter.runF (env : Env) : Iter → List FOp → List Out
  | _, [] => []
  | st, op :: ops => let r := st.stepF env op; r.1 :: Iter.runF env r.2 ops

theorem runF_sim {env : Env} (h : EnvOK env) (ops : List FOp) :
    ∀ (st : Iter) (c : Cursor), R st c → (∀ op ∈ ops, Op.WF op.base) → FaultRun c ops (Iter.runF env st ops) := by
  induction ops with
  | nil => intro st c _ _; exact FaultRun.nil c
  | cons op ops ih =>
    intro st c hR hwf
    have hop := hwf op (List.mem_cons_self ..)
    have hrest : ∀ o ∈ ops, Op.WF o.base := fun o ho => hwf o (List.mem_cons_of_mem _ ho)
    rcases stepF_sim h hR op hop with ⟨h1, h2⟩ | ⟨h1, h2⟩
    · simp only [Iter.runF]
      rw [h1]
      exact FaultRun.ok c op ops _ (ih _ _ h2 hrest)
    · simp only [Iter.runF]
      rw [h1]
      exact FaultRun.fail c op ops _ (ih _ _ h2 hrest)

end Ps
