/-
  PsProofs.PreSieveT00 — table 0 of PreSieveTables.hpp (regenerated, 5957 bytes) equals the table its
  generator program describes for the primes [7, 23, 37]: kernel-checked, every byte.
-/
import PsModel.PreSieve
import PsModel.Generated.PreSieve00

namespace Ps.PreSieve

theorem table00_spec : Gen.preSieve00 = specNat (Gen.preSievePrimes.getD 0 []) Gen.preSieve00Len 0 ∧
    Gen.preSieve00Len = (Gen.preSievePrimes.getD 0 []).foldl (· * ·) 1 := by
  constructor <;> decide +kernel

end Ps.PreSieve
