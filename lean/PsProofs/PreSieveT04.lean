/-
  PsProofs.PreSieveT04 — table 4 of PreSieveTables.hpp (regenerated, 6751 bytes) equals the table its
  generator program describes for the primes [43, 157]: kernel-checked, every byte.
-/
import PsModel.PreSieve
import PsModel.Generated.PreSieve04

namespace Ps.PreSieve

theorem table04_spec : Gen.preSieve04 = specNat (Gen.preSievePrimes.getD 4 []) Gen.preSieve04Len 0 ∧
    Gen.preSieve04Len = (Gen.preSievePrimes.getD 4 []).foldl (· * ·) 1 := by
  constructor <;> decide +kernel

end Ps.PreSieve
