/-
  PsProofs.PreSieveT07 — table 7 of PreSieveTables.hpp (regenerated, 8201 bytes) equals the table its
  generator program describes for the primes [59, 139]: kernel-checked, every byte.
-/
import PsModel.PreSieve
import PsModel.Generated.PreSieve07

namespace Ps.PreSieve

theorem table07_spec : Gen.preSieve07 = specNat (Gen.preSievePrimes.getD 7 []) Gen.preSieve07Len 0 ∧
    Gen.preSieve07Len = (Gen.preSievePrimes.getD 7 []).foldl (· * ·) 1 := by
  constructor <;> decide +kernel

end Ps.PreSieve
