/-
  PsProofs.IterRun — lifting the one-step simulation to histories, and the
  forward / backward enumeration sequences.
-/
import PsProofs.IterSim

namespace Ps
open Ps.Spec

theorem run_sim {env : Env} (h : EnvOK env) (ops : List Op) :
    ∀ (st : Iter) (c : Cursor), R st c → (∀ op ∈ ops, Op.WF op) →
      Iter.run env st ops = specRun c ops := by
  induction ops with
  | nil => intro st c _ _; rfl
  | cons op ops ih =>
    intro st c hR hwf
    have hs := step_sim h hR op (hwf op (List.mem_cons_self))
    simp only [Iter.run, specRun]
    rw [hs.1, ih _ _ hs.2 (fun o ho => hwf o (List.mem_cons_of_mem _ ho))]

/-- the j-th prime ≥ s (0-based) -/
noncomputable def primeSeq (s : Nat) : Nat → Nat
  | 0 => nextPrime s
  | j + 1 => nextPrime (primeSeq s j + 1)

/-- the j-th element ≤ t of 0, 2, 3, 5, …, counted downwards -/
noncomputable def prevSeq (t : Nat) : Nat → Nat
  | 0 => prevPrime t
  | j + 1 => prevPrime (prevSeq t j - 1)

theorem primeSeq_prime (s j : Nat) : (primeSeq s j).Prime := by
  cases j <;> exact nextPrime_prime _

theorem primeSeq_ge (s j : Nat) : s ≤ primeSeq s j := by
  induction j with
  | zero => exact le_nextPrime s
  | succ j ih => have := le_nextPrime (primeSeq s j + 1); simp only [primeSeq]; omega

theorem primeSeq_lt_succ (s j : Nat) : primeSeq s j < primeSeq s (j + 1) := by
  have := le_nextPrime (primeSeq s j + 1); simp only [primeSeq]; omega

theorem primeSeq_strictMono (s : Nat) {i j : Nat} (h : i < j) : primeSeq s i < primeSeq s j := by
  induction j with
  | zero => omega
  | succ j ih =>
    have := primeSeq_lt_succ s j
    by_cases hij : i = j
    · subst hij; exact this
    · have := ih (by omega); omega

/-- no prime ≥ s is skipped by `primeSeq s` -/
theorem primeSeq_complete (s p : Nat) (hp : p.Prime) (hs : s ≤ p) : ∃ j, primeSeq s j = p := by
  by_contra hne
  have hall : ∀ j, primeSeq s j < p := by
    intro j
    induction j with
    | zero =>
      have h1 := nextPrime_min hs hp
      have h2 : primeSeq s 0 ≠ p := fun e => hne ⟨0, e⟩
      simp only [primeSeq] at h2 ⊢; omega
    | succ j ih =>
      have h1 := nextPrime_min (n := primeSeq s j + 1) (by omega) hp
      have h2 : primeSeq s (j + 1) ≠ p := fun e => hne ⟨j + 1, e⟩
      simp only [primeSeq] at h2 ⊢; omega
  have hgrow : ∀ j, j ≤ primeSeq s j := by
    intro j
    induction j with
    | zero => exact Nat.zero_le _
    | succ j ih => have := primeSeq_lt_succ s j; omega
  have := hall p; have := hgrow p; omega

theorem prevSeq_zero_or_prime (t j : Nat) : prevSeq t j = 0 ∨ (prevSeq t j).Prime := by
  cases j <;> exact prevPrime_zero_or_prime _

theorem prevSeq_le (t j : Nat) : prevSeq t j ≤ t := by
  induction j with
  | zero => exact prevPrime_le t
  | succ j ih => have := prevPrime_le (prevSeq t j - 1); simp only [prevSeq]; omega

theorem prevSeq_succ_lt (t j : Nat) (h : prevSeq t j ≠ 0) : prevSeq t (j + 1) < prevSeq t j := by
  have := prevPrime_le (prevSeq t j - 1); simp only [prevSeq]; omega

/-- once 0 has been returned it is returned forever -/
theorem prevSeq_zero_sticky (t j : Nat) (h : prevSeq t j = 0) : prevSeq t (j + 1) = 0 := by
  simp only [prevSeq, h]
  exact prevPrime_eq_zero (fun q hq => not_prime_le_one (by omega))

/-- no prime ≤ t is skipped by `prevSeq t` -/
theorem prevSeq_complete (t p : Nat) (hp : p.Prime) (hs : p ≤ t) : ∃ j, prevSeq t j = p := by
  by_contra hne
  have hall : ∀ j, p < prevSeq t j := by
    intro j
    induction j with
    | zero =>
      have h2 : prevSeq t 0 ≠ p := fun e => hne ⟨0, e⟩
      have h1 : p ≤ prevPrime t := by
        by_contra hlt
        exact prevPrime_greatest (Nat.lt_of_not_le hlt) hs hp
      simp only [prevSeq] at h2 ⊢; omega
    | succ j ih =>
      have h2 : prevSeq t (j + 1) ≠ p := fun e => hne ⟨j + 1, e⟩
      have h1 : p ≤ prevPrime (prevSeq t j - 1) := by
        by_contra hlt
        exact prevPrime_greatest (Nat.lt_of_not_le hlt) (by omega) hp
      simp only [prevSeq] at h2 ⊢; omega
  have hdec : ∀ j, prevSeq t j + j ≤ t := by
    intro j
    induction j with
    | zero => have := prevSeq_le t 0; omega
    | succ j ih =>
      have := prevSeq_succ_lt t j (by have := hall j; omega); omega
  have := hall (t + 1); have := hdec (t + 1); omega

/-- the number a cursor's next `next_prime` starts looking at -/
def Spec.Cursor.fwdTarget : Cursor → Nat
  | .fresh t => t
  | .at v => v + 1

/-- the number a cursor's next `prev_prime` starts looking at -/
def Spec.Cursor.bwdTarget : Cursor → Nat
  | .fresh t => t
  | .at v => v - 1

theorem specNext_eq (c : Cursor) :
    specNext c = if nextPrime c.fwdTarget < U64
      then (.val (nextPrime c.fwdTarget), .at (nextPrime c.fwdTarget))
      else (.err .overflow, c) := by
  cases c <;> rfl

theorem specPrev_eq (c : Cursor) :
    specPrev c = (.val (prevPrime c.bwdTarget), .at (prevPrime c.bwdTarget)) := by
  cases c <;> rfl

noncomputable def fwdOut (s j : Nat) : Out :=
  if primeSeq s j < U64 then Out.val (primeSeq s j) else Out.err .overflow

theorem specRun_next_aux (s : Nat) (ks : List Nat) :
    ∀ (j0 : Nat) (c : Cursor),
      (nextPrime c.fwdTarget = primeSeq s j0 ∨
        (U64 ≤ nextPrime c.fwdTarget ∧ U64 ≤ primeSeq s j0)) →
      specRun c (ks.map Op.next) = (List.range' j0 ks.length).map (fwdOut s) := by
  induction ks with
  | nil => intro j0 c _; rfl
  | cons k ks ih =>
    intro j0 c hc
    simp only [List.map_cons, specRun, specStep, List.length_cons, List.range'_succ]
    rw [specNext_eq]
    by_cases hlt : nextPrime c.fwdTarget < U64
    · simp only [hlt, if_true]
      rcases hc with hc | hc
      · rw [ih (j0 + 1) (.at (nextPrime c.fwdTarget)) (Or.inl (by show nextPrime (nextPrime c.fwdTarget + 1) = primeSeq s (j0 + 1); rw [hc]; rfl))]
        simp only [fwdOut, ← hc, hlt, if_true]
      · omega
    · simp only [hlt, if_false]
      have hge : U64 ≤ primeSeq s j0 := by rcases hc with hc | hc <;> omega
      rw [ih (j0 + 1) c (Or.inr ⟨by omega, by have := primeSeq_lt_succ s j0; omega⟩)]
      have : ¬ primeSeq s j0 < U64 := by omega
      simp only [fwdOut, this, if_false]

/-- outputs of consecutive next_prime calls on the abstract cursor positioned at s -/
theorem specRun_next (s : Nat) (ks : List Nat) :
    specRun (.fresh s) (ks.map Op.next) = (List.range ks.length).map (fwdOut s) := by
  rw [List.range_eq_range']
  exact specRun_next_aux s ks 0 (.fresh s) (Or.inl rfl)

theorem specRun_prev_aux (t : Nat) (n : Nat) :
    ∀ (j0 : Nat) (c : Cursor), prevPrime c.bwdTarget = prevSeq t j0 →
      specRun c (List.replicate n Op.prev) = (List.range' j0 n).map (fun j => Out.val (prevSeq t j)) := by
  induction n with
  | zero => intro j0 c _; rfl
  | succ n ih =>
    intro j0 c hc
    simp only [List.replicate_succ, specRun, specStep, List.range'_succ, List.map_cons]
    rw [specPrev_eq]
    simp only
    rw [ih (j0 + 1) (.at (prevPrime c.bwdTarget)) (by show prevPrime (prevPrime c.bwdTarget - 1) = prevSeq t (j0 + 1); rw [hc]; rfl), hc]

/-- outputs of consecutive prev_prime calls on the abstract cursor positioned at t -/
theorem specRun_prev (t n : Nat) :
    specRun (.fresh t) (List.replicate n Op.prev) =
      (List.range n).map (fun j => Out.val (prevSeq t j)) := by
  rw [List.range_eq_range']
  exact specRun_prev_aux t n 0 (.fresh t) rfl

end Ps
