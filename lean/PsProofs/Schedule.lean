/-
  PsProofs.Schedule — one sieving prime across segments: the loop shape shared by EratSmall::crossOff, EratMedium::crossOff
  and EratBig::crossOff for a single stored sieving prime,
      while (multipleIndex < sieveSize) { sieve[multipleIndex] &= mask; multipleIndex += …; wheelIndex = next; }
      multipleIndex -= sieveSize;            // state kept for the next segment
  performs, segment after segment, exactly the walk of PsProofs.Wheel: in a segment of S bytes starting at L it clears the
  walk positions below L + 30·S and nothing else, and the state it stores denotes the first position beyond, relative to
  the next segment's start L + 30·S.
-/
import PsProofs.Wheel
namespace Ps.Wheel

/-- quotient gap and bit of the current row -/
def gapOf (M : Nat) (s : SP) : Nat := (specRow M (s.w / (cls M).length) (s.w % (cls M).length)).2.1
def bitOf (M : Nat) (s : SP) : Nat := (specRow M (s.w / (cls M).length) (s.w % (cls M).length)).1

/-- crossOff of ONE sieving prime over ONE segment of S bytes; returns the stored state and the (byte, bit) cleared, in order -/
def crossSeg (M S : Nat) : Nat → SP → List (Nat × Nat) → SP × List (Nat × Nat)
  | 0, s, acc => ({ s with idx := s.idx - S }, acc)
  | fuel + 1, s, acc =>
    if s.idx < S then crossSeg M S fuel (specStep M s) (acc ++ [(s.idx, bitOf M s)])
    else ({ s with idx := s.idx - S }, acc)

theorem walk_succ (M n : Nat) (s : SP) (q : Nat) :
    walk M (n + 1) s q = walk M n (specStep M s) (q + gapOf M s) := rfl

theorem denotes_shift (M L S : Nat) (s : SP) (q : Nat) (h : Denotes M L s q) (hS : S ≤ s.idx) :
    Denotes M (L + 30 * S) { s with idx := s.idx - S } q := by
  obtain ⟨a, b, c⟩ := h
  refine ⟨a, b, ?_⟩
  show (30 * s.sp + primeRes.getD (s.w / (cls M).length) 0) * q =
    L + 30 * S + 30 * (s.idx - S) + offs.getD (specRow M (s.w / (cls M).length) (s.w % (cls M).length)).1 0
  omega

theorem specStep_idx (M : Nat) (s : SP) :
    (specStep M s).idx = s.idx + s.sp * gapOf M s + (specRow M (s.w / (cls M).length) (s.w % (cls M).length)).2.2.1 ∧
    (specStep M s).sp = s.sp := ⟨rfl, rfl⟩

/-- **one segment**: with a step function that is sound for the wheel (`hstep`, instantiated below for 30 and 210) -/
theorem crossSeg_spec (M L S : Nat)
    (hstep : ∀ s q, Denotes M L s q → Denotes M L (specStep M s) (q + gapOf M s) ∧ 0 < gapOf M s) :
    ∀ (fuel : Nat) (s : SP) (q : Nat) (acc : List (Nat × Nat)), Denotes M L s q → 0 < s.sp → S ≤ fuel + s.idx →
      ∃ n, (crossSeg M S fuel s acc).1 = { (walk M n s q).1 with idx := (walk M n s q).1.idx - S } ∧
        S ≤ (walk M n s q).1.idx ∧
        Denotes M (L + 30 * S) (crossSeg M S fuel s acc).1 (walk M n s q).2 ∧
        (crossSeg M S fuel s acc).2 = acc ++ (List.range n).map (fun j => ((walk M j s q).1.idx, bitOf M (walk M j s q).1)) ∧
        ∀ j, j < n → (walk M j s q).1.idx < S := by
  intro fuel
  induction fuel with
  | zero =>
    intro s q acc h _ hf
    refine ⟨0, rfl, by simpa [walk] using hf, ?_, by simp [crossSeg], by intro j hj; omega⟩
    exact denotes_shift M L S s q h (by omega)
  | succ f ih =>
    intro s q acc h hsp hf
    unfold crossSeg
    by_cases hlt : s.idx < S
    · rw [if_pos hlt]
      obtain ⟨hd, hg⟩ := hstep s q h
      obtain ⟨hi1, hi2⟩ := specStep_idx M s
      have hinc : s.idx + 1 ≤ (specStep M s).idx := by
        rw [hi1]
        have : 1 ≤ s.sp * gapOf M s := Nat.mul_pos hsp hg
        omega
      obtain ⟨n, h1, h2, h3, h4, h5⟩ := ih (specStep M s) (q + gapOf M s) (acc ++ [(s.idx, bitOf M s)]) hd (by rw [hi2]; exact hsp) (by omega)
      refine ⟨n + 1, ?_, ?_, ?_, ?_, ?_⟩
      · rw [walk_succ]; exact h1
      · rw [walk_succ]; exact h2
      · rw [walk_succ]; exact h3
      · rw [h4, List.range_succ_eq_map, List.map_cons, List.map_map, List.append_assoc]
        rfl
      · intro j hj
        cases j with
        | zero => exact hlt
        | succ j => rw [walk_succ]; exact h5 j (by omega)
    · rw [if_neg hlt]
      refine ⟨0, rfl, by simpa [walk] using Nat.le_of_not_lt hlt, ?_, by simp, by intro j hj; omega⟩
      exact denotes_shift M L S s q h (by omega)

theorem walk_idx_mono (M : Nat) : ∀ (n : Nat) (s : SP) (q : Nat), s.idx ≤ (walk M n s q).1.idx := by
  intro n
  induction n with
  | zero => intro s q; exact Nat.le_refl _
  | succ n ih =>
    intro s q
    rw [walk_succ]
    have := ih (specStep M s) (q + gapOf M s)
    have h2 := (specStep_idx M s).1
    omega

theorem walk_q_mono (M : Nat) : ∀ (n : Nat) (s : SP) (q : Nat), q ≤ (walk M n s q).2 := by
  intro n
  induction n with
  | zero => intro s q; exact Nat.le_refl _
  | succ n ih =>
    intro s q
    rw [walk_succ]
    have := ih (specStep M s) (q + gapOf M s)
    omega

theorem walk_sp (M : Nat) : ∀ (n : Nat) (s : SP) (q : Nat), (walk M n s q).1.sp = s.sp := by
  intro n
  induction n with
  | zero => intro s q; rfl
  | succ n ih => intro s q; rw [walk_succ, ih]; rfl

/-- the loop over consecutive segments of sizes `Ss` (bytes): per segment the (byte, bit) cleared, and the final stored state -/
def crossSegs (M : Nat) : List Nat → SP → List (List (Nat × Nat)) × SP
  | [], s => ([], s)
  | S :: rest, s =>
    let r := crossSeg M S (S + 1) s []
    let rr := crossSegs M rest r.1
    (r.2 :: rr.1, rr.2)

/-- **every segment starts from a state that denotes a multiple**: the invariant `Denotes` established by addSievingPrime is
    carried from segment to segment by the loop — for every list of segment sizes, after all of them the stored state
    denotes a multiple of the same sieving prime relative to the start of the next segment, with a quotient not below the
    first one (nothing is crossed off twice, the position never falls behind the segment grid) -/
theorem crossSegs_inv (M : Nat)
    (hstep : ∀ L s q, Denotes M L s q → Denotes M L (specStep M s) (q + gapOf M s) ∧ 0 < gapOf M s) :
    ∀ (Ss : List Nat) (L : Nat) (s : SP) (q : Nat), Denotes M L s q → 0 < s.sp →
      ∃ q', q ≤ q' ∧ Denotes M (L + 30 * Ss.sum) (crossSegs M Ss s).2 q' ∧ 0 < (crossSegs M Ss s).2.sp := by
  intro Ss
  induction Ss with
  | nil => intro L s q h hsp; exact ⟨q, Nat.le_refl _, by simpa [crossSegs] using h, hsp⟩
  | cons S rest ih =>
    intro L s q h hsp
    obtain ⟨n, h1, _, h3, _, _⟩ := crossSeg_spec M L S (hstep L) (S + 1) s q [] h hsp (by omega)
    have hsp' : 0 < (crossSeg M S (S + 1) s []).1.sp := by
      rw [h1]; show 0 < (walk M n s q).1.sp; rw [walk_sp]; exact hsp
    obtain ⟨q', hq, hd, hs⟩ := ih (L + 30 * S) _ _ h3 hsp'
    refine ⟨q', Nat.le_trans (walk_q_mono M n s q) hq, ?_, hs⟩
    have e : L + 30 * (S :: rest).sum = L + 30 * S + 30 * rest.sum := by simp [List.sum_cons]; omega
    rw [e]; exact hd

/-- instances for the two wheels (tables regenerated from the source are the specification rows: step30_medium_eq,
    step30_small_eq, step210_eq) -/
theorem hstep30 : ∀ L s q, Denotes 30 L s q → Denotes 30 L (specStep 30 s) (q + gapOf 30 s) ∧ 0 < gapOf 30 s := by
  intro L s q h
  have e8 : (cls 30).length = 8 := by decide +kernel
  have := step_sound30 L s q h
  unfold gapOf; rw [e8]
  exact ⟨this.1, this.2.2.1⟩

theorem hstep210 : ∀ L s q, Denotes 210 L s q → Denotes 210 L (specStep 210 s) (q + gapOf 210 s) ∧ 0 < gapOf 210 s := by
  intro L s q h
  have := step_sound210 L s q h
  unfold gapOf; rw [cls210_len]
  exact ⟨this.1, this.2.2.1⟩

theorem walk_add (M : Nat) : ∀ (a b : Nat) (s : SP) (q : Nat),
    walk M (a + b) s q = walk M b (walk M a s q).1 (walk M a s q).2 := by
  intro a
  induction a with
  | zero => intro b s q; simp [walk]
  | succ a ih =>
    intro b s q
    rw [show a + 1 + b = (a + b) + 1 by omega, walk_succ, walk_succ, ih]

/-- the prime class (wheelIndex / SIZE) is the same after a step -/
theorem specStep_group (M : Nat) (hpos : 0 < (cls M).length) (s : SP) :
    (specStep M s).w / (cls M).length = s.w / (cls M).length := by
  show (s.w / (cls M).length * (cls M).length + (s.w % (cls M).length + 1) % (cls M).length) / (cls M).length = _
  rw [Nat.add_comm, Nat.add_mul_div_right _ _ hpos, Nat.div_eq_of_lt (Nat.mod_lt _ hpos)]
  omega

theorem walk_group (M : Nat) (hpos : 0 < (cls M).length) : ∀ (n : Nat) (s : SP) (q : Nat),
    (walk M n s q).1.w / (cls M).length = s.w / (cls M).length := by
  intro n
  induction n with
  | zero => intro s q; rfl
  | succ n ih => intro s q; rw [walk_succ, ih, specStep_group M hpos]

/-- the sieving prime a state stands for: 30·(p / 30) + (p mod 30) -/
def primeOf (M : Nat) (s : SP) : Nat := 30 * s.sp + primeRes.getD (s.w / (cls M).length) 0

theorem walk_prime (M : Nat) (hpos : 0 < (cls M).length) (n : Nat) (s : SP) (q : Nat) :
    primeOf M (walk M n s q).1 = primeOf M s := by
  unfold primeOf; rw [walk_sp, walk_group M hpos]

theorem bit30_lt : ∀ r, r < 8 → ∀ k, k < 8 → (specRow 30 r k).1 < 8 := by decide +kernel
theorem bit210_lt : ∀ r, r < 8 → ∀ k, k < 48 → (specRow 210 r k).1 < 8 := by decide +kernel
theorem offs_ge7 : ∀ b, b < 8 → 7 ≤ offs.getD b 0 := by decide

/-- **a segment clears every multiple that lies in it** (byte-level): from a state that denotes p·q relative to L, every
    multiple p·x with x ≥ q coprime to the wheel whose byte lies in the segment of S bytes (p·x ≤ L + 30·S + 6) is cleared in
    THIS segment, at its own byte (< S) and bit.  (That nothing else is cleared is C01_crossoff_one_segment: the list is
    exactly the first n walk positions, and every walk position is such a multiple: C01_crossoff_walk_exact.) -/
theorem crossSeg_clears (M L S : Nat) (hpos : 0 < (cls M).length)
    (hstep : ∀ s q, Denotes M L s q → Denotes M L (specStep M s) (q + gapOf M s) ∧ 0 < gapOf M s)
    (hreach : ∀ s q x, Denotes M L s q → q ≤ x → Nat.gcd x M = 1 → ∃ j, (walk M j s q).2 = x ∧ Denotes M L (walk M j s q).1 x)
    (hbit : ∀ r, r < 8 → ∀ k, k < (cls M).length → (specRow M r k).1 < 8)
    (s : SP) (q : Nat) (h : Denotes M L s q) (hsp : 0 < s.sp)
    (x : Nat) (hx : q ≤ x) (hg : Nat.gcd x M = 1) (hin : primeOf M s * x ≤ L + 30 * S + 6) :
    ∃ e ∈ (crossSeg M S (S + 1) s []).2, e.1 < S ∧ e.2 < 8 ∧ primeOf M s * x = L + 30 * e.1 + offs.getD e.2 0 := by
  obtain ⟨n, _, h2, _, h4, _⟩ := crossSeg_spec M L S hstep (S + 1) s q [] h hsp (by omega)
  obtain ⟨j, hj, hd⟩ := hreach s q x h hx hg
  have hpos' := hd.pos
  have hb : bitOf M (walk M j s q).1 < 8 := hbit _ hd.r_lt _ (Nat.mod_lt _ hpos)
  have hp : (30 * (walk M j s q).1.sp + primeRes.getD ((walk M j s q).1.w / (cls M).length) 0) = primeOf M s := walk_prime M hpos j s q
  rw [hp] at hpos'
  have ho := offs_ge7 _ hb
  have hidx : (walk M j s q).1.idx < S := by
    unfold bitOf at ho
    omega
  have hjn : j < n := by
    by_contra hge
    have : (walk M n s q).1.idx ≤ (walk M j s q).1.idx := by
      have e : j = n + (j - n) := by omega
      rw [e, walk_add]
      exact walk_idx_mono M (j - n) _ _
    omega
  refine ⟨((walk M j s q).1.idx, bitOf M (walk M j s q).1), ?_, hidx, hb, hpos'⟩
  rw [h4, List.nil_append]
  exact List.mem_map.mpr ⟨j, List.mem_range.mpr hjn, rfl⟩

theorem walk_add' (M : Nat) (a b : Nat) (s : SP) (q : Nat) :
    walk M (a + b) s q = walk M b (walk M a s q).1 (walk M a s q).2 := walk_add M a b s q

end Ps.Wheel
