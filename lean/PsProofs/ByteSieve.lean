/-
  PsProofs.ByteSieve — what the bytes of the ideal sieve decode to.

  Finite facts about the decoding tables (`bitValues`, the k-tuplet `bitmasks`, popcount) are
  proved by `decide +kernel` over ALL 256 byte values; a semantic lemma says what a bit of the
  ideal byte means; the rest is list algebra.  Results: per byte, the numbers / constellations
  decoded are exactly the primes / constellations of [s, e] among the 30 numbers the byte covers.
-/
import PsSpec.Tuplets
import PsModel.CountPrint
import PsProofs.ParallelCount
import PsProofs.Scan
set_option linter.unnecessarySeqFocus false
namespace Ps
open Ps.Spec

/-- does the sieve byte have the bit for offset x set? -/
def inByte (byte x : Nat) : Bool := bitOffsets.zipIdx.any (fun ok => ok.1 == x && byte.testBit ok.2)

set_option maxRecDepth 100000 in
theorem byteNumbers_fin : ∀ byte < 256, byteNumbers byte 0 = (List.range' 7 30).filter (inByte byte) := by
  decide +kernel

set_option maxRecDepth 100000 in
theorem popcount8_fin : ∀ byte < 256, popcount8 byte = (byteNumbers byte 0).length := by
  decide +kernel

set_option maxRecDepth 100000 in
theorem byteTuplets_fin : ∀ kind < 6, 1 ≤ kind → ∀ byte < 256,
    byteTuplets (Gen.bitmasks.getD kind []) byte 0 =
      (List.range' 7 30).flatMap (fun r =>
        ((patterns kind).filter (fun ds => ds.all (fun d => inByte byte (r + d)))).map
          (fun ds => ds.map (r + ·))) := by
  decide +kernel

theorem bitOffsets_eq : bitOffsets = [7, 11, 13, 17, 19, 23, 29, 31] := by decide

theorem testBit_bitsToNat (l : List Bool) (k : Nat) : (bitsToNat l).testBit k = l.getD k false := by
  induction l generalizing k with
  | nil => simp [bitsToNat]
  | cons b bs ih =>
    cases k with
    | zero =>
      simp only [bitsToNat, Nat.testBit_zero, List.getD_cons_zero]
      cases b <;> simp
    | succ k =>
      rw [Nat.testBit_succ]
      have : (bitsToNat (b :: bs)) / 2 = bitsToNat bs := by
        simp only [bitsToNat]; cases b <;> simp <;> omega
      rw [this, ih]; simp

theorem bitsToNat_lt (l : List Bool) : bitsToNat l < 2 ^ l.length := by
  induction l with
  | nil => simp [bitsToNat]
  | cons b bs ih =>
    simp only [bitsToNat, List.length_cons, Nat.pow_succ]
    cases b <;> simp <;> omega

theorem idealByte_lt (isP : Nat → Bool) (s e base m : Nat) : idealByte isP s e base m < 256 := by
  have := bitsToNat_lt (idealBits isP s e base m)
  simpa [idealByte, idealBits, bitOffsets_eq] using this

/-- semantic content of a bit of the ideal byte -/
theorem inByte_idealByte (isP : Nat → Bool) (s e base m x : Nat) :
    inByte (idealByte isP s e base m) x = true ↔
      x ∈ bitOffsets ∧ s ≤ base + 30 * m + x ∧ base + 30 * m + x ≤ e ∧ isP (base + 30 * m + x) = true := by
  unfold inByte idealByte idealBits
  simp only [testBit_bitsToNat, bitOffsets_eq]
  simp only [List.zipIdx_cons, List.zipIdx_nil, List.any_cons, List.any_nil, List.map_cons, List.map_nil,
    List.getD_cons_zero, List.getD_cons_succ, Bool.or_false, Bool.or_eq_true, Bool.and_eq_true,
    beq_iff_eq, decide_eq_true_eq, List.mem_cons, List.not_mem_nil, or_false, Nat.zero_add]
  constructor
  · rintro (⟨rfl, h⟩ | ⟨rfl, h⟩ | ⟨rfl, h⟩ | ⟨rfl, h⟩ | ⟨rfl, h⟩ | ⟨rfl, h⟩ | ⟨rfl, h⟩ | ⟨rfl, h⟩) <;>
      simp_all
  · rintro ⟨(rfl | rfl | rfl | rfl | rfl | rfl | rfl | rfl), h1, h2, h3⟩ <;> simp_all

theorem byteNumbers_shift (byte B : Nat) : byteNumbers byte B = (byteNumbers byte 0).map (B + ·) := by
  simp [byteNumbers, List.map_map, Function.comp_def]

/-- a residue in [7, 37) that is coprime to 30 is one of the eight bit offsets -/
theorem coprime_mem_offsets : ∀ r < 37, 7 ≤ r → Nat.gcd (r % 30) 30 = 1 → r ∈ bitOffsets := by decide

theorem prime_residue {B r : Nat} (hB : B % 30 = 0) (h7 : 7 ≤ r) (hr : r < 37) (hp : (B + r).Prime) :
    r ∈ bitOffsets := by
  apply coprime_mem_offsets r hr h7
  have := prime_ge7_gcd30 hp (by omega)
  have e : (B + r) % 30 = r % 30 := by omega
  rwa [e] at this

open Classical in
/-- the numbers decoded from byte m of the ideal sieve are exactly the primes of [s, e] among the
    30 numbers the byte is responsible for -/
theorem byteNumbers_ideal {isP : Nat → Bool} (hP : ∀ n, isP n = true ↔ n.Prime) (s e base m : Nat)
    (hB : base % 30 = 0) :
    byteNumbers (idealByte isP s e base m) (base + 30 * m) =
      (List.range' (base + 30 * m + 7) 30).filter (fun n => decide (s ≤ n ∧ n ≤ e ∧ n.Prime)) := by
  rw [byteNumbers_shift, byteNumbers_fin _ (idealByte_lt ..)]
  have hr : List.range' (base + 30 * m + 7) 30 = (List.range' 7 30).map (base + 30 * m + ·) := by
    rw [List.map_add_range']
  rw [hr, List.filter_map]
  congr 1
  apply List.filter_congr
  intro r hr
  have hr' := List.mem_range'_1.1 hr
  simp only [Function.comp_def]
  rw [Bool.eq_iff_iff, inByte_idealByte, hP, decide_eq_true_eq]
  constructor
  · rintro ⟨_, h1, h2, h3⟩; exact ⟨h1, h2, h3⟩
  · rintro ⟨h1, h2, h3⟩
    exact ⟨prime_residue (by omega) hr'.1 (by omega) h3, h1, h2, h3⟩

theorem byteTuplets_shift (row : List Nat) (byte B : Nat) :
    byteTuplets row byte B = (byteTuplets row byte 0).map (fun t => t.map (B + ·)) := by
  unfold byteTuplets
  rw [List.map_map]
  apply List.map_congr_left
  intro b _
  simp only [Function.comp_def]
  rw [byteNumbers_shift]

theorem patterns_sub : ∀ kind, ∀ ds ∈ patterns kind, ds ∈ allPatterns := by
  intro kind ds h
  match kind with
  | 0 => simp [patterns] at h
  | 1 => simp [patterns] at h; subst h; decide
  | 2 => simp [patterns] at h; rcases h with rfl | rfl <;> decide
  | 3 => simp [patterns] at h; subst h; decide
  | 4 => simp [patterns] at h; rcases h with rfl | rfl <;> decide
  | 5 => simp [patterns] at h; subst h; decide
  | n + 6 => simp [patterns] at h

theorem span_mem : ∀ ds ∈ allPatterns, span ds ∈ ds := by decide
theorem le_span : ∀ ds ∈ allPatterns, ∀ d ∈ ds, d ≤ span ds := by decide

open Classical in
/-- the constellations decoded from byte m of the ideal sieve -/
theorem byteTuplets_ideal {isP : Nat → Bool} (hP : ∀ n, isP n = true ↔ n.Prime) (s e base m kind : Nat)
    (hB : base % 30 = 0) (hk1 : 1 ≤ kind) (hk6 : kind < 6) :
    byteTuplets (Gen.bitmasks.getD kind []) (idealByte isP s e base m) (base + 30 * m) =
      (List.range' (base + 30 * m + 7) 30).flatMap (fun p =>
        ((patterns kind).filter (fun ds => decide (s ≤ p ∧ p + span ds ≤ e ∧ tupletAt ds p))).map
          (fun ds => ds.map (p + ·))) := by
  rw [byteTuplets_shift, byteTuplets_fin kind hk6 hk1 _ (idealByte_lt ..)]
  have hr : List.range' (base + 30 * m + 7) 30 = (List.range' 7 30).map (base + 30 * m + ·) := by
    rw [List.map_add_range']
  rw [hr, List.flatMap_map, List.map_flatMap]
  apply List.flatMap_congr
  intro r hr
  have hr' := List.mem_range'_1.1 hr
  rw [List.map_map]
  have hmap : ∀ ds : List Nat, ((fun t : List Nat => t.map (base + 30 * m + ·)) ∘ fun ds => ds.map (r + ·)) ds
      = ds.map (base + 30 * m + r + ·) := by
    intro ds; simp [List.map_map, Function.comp_def, Nat.add_assoc]
  rw [List.map_congr_left (fun ds _ => hmap ds)]
  congr 1
  apply List.filter_congr
  intro ds hds
  have hall := patterns_sub kind ds hds
  rw [Bool.eq_iff_iff, List.all_eq_true, decide_eq_true_eq]
  simp only [inByte_idealByte, hP]
  constructor
  · intro h
    have h0 := h 0 (zero_mem_patterns ds hall)
    have hs := h (span ds) (span_mem ds hall)
    refine ⟨by omega, by omega, ?_⟩
    intro d hd
    have := (h d hd).2.2.2
    rwa [show base + 30 * m + (r + d) = base + 30 * m + r + d by omega] at this
  · rintro ⟨h1, h2, h3⟩ d hd
    have hpd := h3 d hd
    -- every member is coprime to 30, so the whole constellation lies inside this byte
    have hco : ∀ d ∈ ds, Nat.gcd ((r % 30 + d) % 30) 30 = 1 := by
      intro d hd
      have := prime_ge7_gcd30 (h3 d hd) (by omega)
      have e : (base + 30 * m + r + d) % 30 = (r % 30 + d) % 30 := by omega
      rwa [e] at this
    have hw := residue_window ds hall (r % 30) (Nat.mod_lt _ (by decide)) hco
    have hw' : r + span ds ≤ 31 := by omega
    have hdle := le_span ds hall d hd
    have hmem : r + d ∈ bitOffsets := by
      apply coprime_mem_offsets (r + d) (by omega) (by omega)
      have := hco d hd
      have e : (r % 30 + d) % 30 = (r + d) % 30 := by omega
      rwa [e] at this
    refine ⟨hmem, by omega, by omega, ?_⟩
    rwa [show base + 30 * m + (r + d) = base + 30 * m + r + d by omega]

theorem flatten_blocks_flatMap {α : Type} (G : Nat → List α) (a N : Nat) :
    ((List.range N).map (fun m => (List.range' (a + 30 * m) 30).flatMap G)).flatten =
      (List.range' a (30 * N)).flatMap G := by
  induction N with
  | zero => simp
  | succ N ih =>
    rw [List.range_succ, List.map_append, List.flatten_append, ih]
    have : 30 * (N + 1) = 30 * N + 30 := by omega
    rw [this, ← List.range'_append_1, List.flatMap_append]
    simp

theorem filter_eq_flatMap {α : Type} (p : α → Bool) (l : List α) :
    l.filter p = l.flatMap (fun x => if p x then [x] else []) := by
  induction l with
  | nil => rfl
  | cons x l ih => simp only [List.filter_cons, List.flatMap_cons, ih]; split <;> simp

theorem flatten_blocks_filter (p : Nat → Bool) (a N : Nat) :
    ((List.range N).map (fun m => (List.range' (a + 30 * m) 30).filter p)).flatten =
      (List.range' a (30 * N)).filter p := by
  simp only [filter_eq_flatMap]
  exact flatten_blocks_flatMap _ a N

/-- a flatMap over [a, a+n) whose function vanishes outside [s, e] is a flatMap over [s, e] -/
theorem flatMap_restrict {α : Type} (G : Nat → List α) {a n s e : Nat} (has : a ≤ s) (hse : s ≤ e + 1)
    (hen : e < a + n) (hG : ∀ x, (x < s ∨ e < x) → G x = []) :
    (List.range' a n).flatMap G = (List.range' s (e + 1 - s)).flatMap G := by
  obtain ⟨k1, rfl⟩ : ∃ k, s = a + k := ⟨s - a, by omega⟩
  obtain ⟨k2, hk2⟩ : ∃ k, e + 1 = a + k1 + k := ⟨e + 1 - (a + k1), by omega⟩
  obtain ⟨k3, rfl⟩ : ∃ k, n = k1 + k2 + k := ⟨n - (k1 + k2), by omega⟩
  have e2 : e + 1 - (a + k1) = k2 := by omega
  rw [e2, ← List.range'_append_1, ← List.range'_append_1, List.flatMap_append, List.flatMap_append]
  have h1 : (List.range' a k1).flatMap G = [] := by
    rw [List.flatMap_eq_nil_iff]; intro x hx
    have := List.mem_range'_1.1 hx
    exact hG x (Or.inl (by omega))
  have h3 : (List.range' (a + (k1 + k2)) k3).flatMap G = [] := by
    rw [List.flatMap_eq_nil_iff]; intro x hx
    have := List.mem_range'_1.1 hx
    exact hG x (Or.inr (by omega))
  rw [h1, h3]; simp

theorem byteRemainder_bounds (n : Nat) : 7 ≤ byteRemainder n ∧ byteRemainder n ≤ 36 := by
  unfold byteRemainder; omega

theorem byteRemainder_mod {n : Nat} (h : 7 ≤ n) : (n - byteRemainder n) % 30 = 0 ∧ byteRemainder n ≤ n := by
  unfold byteRemainder; omega

/-- geometry of the byte grid of a run over [s, e] with 7 ≤ s ≤ e -/
theorem grid_facts {start stop : Nat} (h : max start 7 ≤ stop) :
    gridBase start % 30 = 0 ∧ gridBase start + 7 ≤ max start 7 ∧
    stop < gridBase start + 7 + 30 * gridBytes start stop := by
  have h7 : 7 ≤ max start 7 := Nat.le_max_right _ _
  unfold gridBase gridBytes gridBase byteRemainder
  generalize max start 7 = s at *
  omega

end Ps
