/-
  PsProofs.PreSieveT01 — table 1 of PreSieveTables.hpp (regenerated, 6479 bytes) equals the table its
  generator program describes for the primes [11, 19, 31]: kernel-checked, every byte.
-/
import PsModel.PreSieve
import PsModel.Generated.PreSieve01

namespace Ps.PreSieve

theorem table01_spec : Gen.preSieve01 = specNat (Gen.preSievePrimes.getD 1 []) Gen.preSieve01Len 0 ∧
    Gen.preSieve01Len = (Gen.preSievePrimes.getD 1 []).foldl (· * ·) 1 := by
  constructor <;> decide +kernel

end Ps.PreSieve
