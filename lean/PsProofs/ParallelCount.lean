/-
  PsProofs.ParallelCount — summing per-piece counts gives the count of the whole
  interval, for primes and for every prime constellation; schedule independence.
-/
import PsProofs.Parallel
import PsSpec.Tuplets
import Mathlib.Algebra.BigOperators.Group.Finset.Basic
import Mathlib.Algebra.BigOperators.Fin

namespace Ps
open Ps.Spec

/-- members of a constellation that are coprime to 30 sit inside one byte window 30w+7 .. 30w+31 -/
theorem residue_window :
    ∀ ds ∈ allPatterns, ∀ r < 30, (∀ d ∈ ds, Nat.gcd ((r + d) % 30) 30 = 1) →
      (r + 23) % 30 + 7 + span ds ≤ 31 := by
  decide

theorem span_le_16 : ∀ ds ∈ allPatterns, span ds ≤ 16 := by decide

theorem zero_mem_patterns : ∀ ds ∈ allPatterns, 0 ∈ ds := by decide

theorem prime_ge7_gcd30 {p : Nat} (hp : p.Prime) (h7 : 7 ≤ p) : Nat.gcd (p % 30) 30 = 1 := by
  have h2 : Nat.Coprime p 2 := (Nat.coprime_primes hp Nat.prime_two).2 (by omega)
  have h3 : Nat.Coprime p 3 := (Nat.coprime_primes hp Nat.prime_three).2 (by omega)
  have h5 : Nat.Coprime p 5 := (Nat.coprime_primes hp Nat.prime_five).2 (by omega)
  have h30 : Nat.Coprime p 30 := by
    have : (30 : Nat) = 2 * (3 * 5) := by norm_num
    rw [this]
    exact Nat.Coprime.mul_right h2 (Nat.Coprime.mul_right h3 h5)
  have : Nat.gcd 30 p = 1 := by rw [Nat.gcd_comm]; exact h30
  rw [Nat.gcd_rec] at this
  exact this

/-- **no split**: a constellation that starts at or below a boundary b ≡ 2 (mod 30), b ≥ 32,
    ends at or below b -/
theorem no_split {ds : List Nat} (hds : ds ∈ allPatterns) {p b : Nat} (hb : b % 30 = 2)
    (hb32 : 32 ≤ b) (ht : tupletAt ds p) (hpb : p ≤ b) : p + span ds ≤ b := by
  have hs := span_le_16 ds hds
  by_cases h7 : p < 7
  · omega
  · have hres := residue_window ds hds (p % 30) (Nat.mod_lt _ (by norm_num)) (by
      intro d hd
      have hp := ht d hd
      have := prime_ge7_gcd30 hp (by omega)
      rw [Nat.add_mod] at this
      simpa using this)
    omega

theorem tupletCount_split {ds : List Nat} (hds : ds ∈ allPatterns) {lo b hi : Nat}
    (h1 : lo ≤ b + 1) (h2 : b ≤ hi) (hb : b % 30 = 2) (hb32 : 32 ≤ b) :
    tupletCount ds lo b + tupletCount ds (b + 1) hi = tupletCount ds lo hi := by
  unfold tupletCount
  rw [← countIn_split _ h1 h2]
  congr 1
  apply countIn_congr
  intro x _ hx
  constructor
  · rintro ⟨h, ht⟩; exact ⟨by omega, ht⟩
  · rintro ⟨_, ht⟩; exact ⟨no_split hds hb hb32 ht hx, ht⟩

/-- summing an interval function over the first k pieces -/
def sumPieces (f : Nat → Nat → Nat) (start stop td : Nat) : Nat → Nat
  | 0 => 0
  | k + 1 => sumPieces f start stop td k + f (pieceN start stop td k).1 (pieceN start stop td k).2

/-- generic tiling: if `f` is additive at every piece boundary, the per-piece values add up to
    the value on [start, last piece end] -/
theorem sumPieces_eq (f : Nat → Nat → Nat) (start stop td : Nat) (hs : start ≤ stop)
    (htd30 : td % 30 = 0) (htd : 30 ≤ td)
    (hsplit : ∀ b h', (b = stop ∨ (b % 30 = 2 ∧ 32 ≤ b)) → start ≤ b + 1 → b ≤ h' → h' ≤ stop →
      f start b + f (b + 1) h' = f start h')
    (k : Nat) : sumPieces f start stop td (k + 1) = f start (pieceN start stop td k).2 := by
  induction k with
  | zero => simp [sumPieces, pieceN_first]
  | succ k ih =>
    rw [sumPieces, ih, pieceN_chain]
    have hord := pieceN_ordered start stop td (k + 1) htd30 hs
    rw [pieceN_chain] at hord
    have hle : (pieceN start stop td k).2 ≤ stop := alignN_le_stop _ _
    have hle' : (pieceN start stop td (k + 1)).2 ≤ stop := alignN_le_stop _ _
    apply hsplit _ _ _ _ (by omega) hle'
    · by_cases hb : (pieceN start stop td k).2 < stop
      · exact Or.inr (pieceN_boundary start stop td k htd hb)
      · exact Or.inl (by omega)
    · have h0 := pieceN_ordered start stop td k htd30 hs
      have : start ≤ (pieceN start stop td k).1 := by
        simp only [pieceN]; split
        · omega
        · have : start ≤ start + td * k := Nat.le_add_right _ _
          have h2 : alignN stop (start + td * k) ≥ start := by
            unfold alignN; split <;> omega
          omega
      omega

/-- **C09 tiling, primes** -/
theorem sumPieces_primeCount {start stop td : Nat} (hlt : start < stop) (htd30 : td % 30 = 0)
    (htd : 30 ≤ td) :
    sumPieces primeCount start stop td (numPieces start stop td) = primeCount start stop := by
  have hN : numPieces start stop td = (numPieces start stop td - 1) + 1 :=
    (Nat.sub_add_cancel (Nat.succ_pos _)).symm
  rw [hN, sumPieces_eq primeCount start stop td (Nat.le_of_lt hlt) htd30 htd
    (fun b h' _ h1 h2 _ => countIn_split _ h1 h2), pieceN_last hlt (by omega)]

/-- **C09 tiling + no split, constellations** -/
theorem sumPieces_tupletCount {ds : List Nat} (hds : ds ∈ allPatterns) {start stop td : Nat}
    (hlt : start < stop) (htd30 : td % 30 = 0) (htd : 30 ≤ td) :
    sumPieces (tupletCount ds) start stop td (numPieces start stop td) = tupletCount ds start stop := by
  have hN : numPieces start stop td = (numPieces start stop td - 1) + 1 :=
    (Nat.sub_add_cancel (Nat.succ_pos _)).symm
  rw [hN, sumPieces_eq (tupletCount ds) start stop td (Nat.le_of_lt hlt) htd30 htd ?_, pieceN_last hlt (by omega)]
  intro b h' hb h1 h2 h3
  rcases hb with hb | ⟨hb, hb32⟩
  · subst hb
    have : h' = b := by omega
    subst this
    have : tupletCount ds (h' + 1) h' = 0 := countIn_empty _ (by omega)
    omega
  · exact tupletCount_split hds h1 h2 hb hb32

/-- **schedule independence**: whatever worker ends up with which piece index (any function
    `owner` from indices to workers — every outcome of the fetch_add races), the sum of the workers'
    local totals is the sum over all pieces. -/
theorem schedule_independent (N T : Nat) (g : Nat → Nat) (owner : Nat → Fin T) :
    (∑ w : Fin T, ∑ i ∈ (Finset.range N).filter (fun i => owner i = w), g i) =
      ∑ i ∈ Finset.range N, g i := by
  rw [Finset.sum_fiberwise]

theorem sumPieces_eq_sum (f : Nat → Nat → Nat) (start stop td k : Nat) :
    sumPieces f start stop td k =
      ∑ i ∈ Finset.range k, f (pieceN start stop td i).1 (pieceN start stop td i).2 := by
  induction k with
  | zero => rfl
  | succ k ih => rw [sumPieces, ih, Finset.sum_range_succ]

end Ps
