/-
  PsProofs.PreSieveT12 — table 12 of PreSieveTables.hpp (regenerated, 8611 bytes) equals the table its
  generator program describes for the primes [79, 109]: kernel-checked, every byte.
-/
import PsModel.PreSieve
import PsModel.Generated.PreSieve12

namespace Ps.PreSieve

theorem table12_spec : Gen.preSieve12 = specNat (Gen.preSievePrimes.getD 12 []) Gen.preSieve12Len 0 ∧
    Gen.preSieve12Len = (Gen.preSievePrimes.getD 12 []).foldl (· * ·) 1 := by
  constructor <;> decide +kernel

end Ps.PreSieve
