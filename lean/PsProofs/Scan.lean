/-
  PsProofs.Scan — what the ideal generator of PsModel.Iterator hands out.
-/
import PsModel.Iterator
import PsProofs.PrimeLists

namespace Ps
open Ps.Spec

theorem scan_spec (isP : Nat → Bool) (fuel pos k : Nat) (acc : List Nat) :
    ∃ n, n ≤ fuel ∧
      scan isP fuel pos k acc = (acc.reverse ++ (List.range' pos n).filter isP, pos + n) ∧
      (n = fuel ∨ ((List.range' pos n).filter isP).length = k) := by
  induction fuel generalizing pos k acc with
  | zero => exact ⟨0, Nat.le_refl 0, by simp [scan], Or.inl rfl⟩
  | succ fuel ih =>
    cases k with
    | zero => exact ⟨0, Nat.zero_le _, by simp [scan], Or.inr (by simp)⟩
    | succ k =>
      by_cases hp : isP pos = true
      · obtain ⟨n, hn, he, hk⟩ := ih (pos + 1) k (pos :: acc)
        refine ⟨n + 1, by omega, ?_, ?_⟩
        · simp only [scan, hp, if_true, he, List.range'_succ, List.filter_cons, List.reverse_cons,
            List.append_assoc, List.singleton_append]
          simp [Nat.add_assoc, Nat.add_comm 1 n]
        · rcases hk with hk | hk
          · exact Or.inl (by omega)
          · right; simp [List.range'_succ, hp, hk]
      · obtain ⟨n, hn, he, hk⟩ := ih (pos + 1) (k + 1) acc
        refine ⟨n + 1, by omega, ?_, ?_⟩
        · simp only [scan, hp, he, List.range'_succ, List.filter_cons]
          simp [Nat.add_assoc, Nat.add_comm 1 n]
        · rcases hk with hk | hk
          · exact Or.inl (by omega)
          · right; simp [List.range'_succ, hp, hk]

/-- the primality test of the environment decides `Nat.Prime` -/
def EnvOK (env : Env) : Prop := ∀ n, env.isPrime n = true ↔ n.Prime

theorem filter_isPrime_eq {env : Env} (h : EnvOK env) (pos n : Nat) :
    (List.range' pos n).filter env.isPrime = primesHO pos (pos + n) := by
  unfold primesHO
  rw [Nat.add_sub_cancel_left]
  apply List.filter_congr
  intro x _
  by_cases hx : x.Prime
  · simp [hx, (h x).2 hx]
  · have : env.isPrime x = false := by
      cases hb : env.isPrime x
      · rfl
      · exact absurd ((h x).1 hb) hx
    simp [hx, this]

/-- What `IGen.fillNext` returns. -/
theorem fillNext_spec {env : Env} (h : EnvOK env) (g : IGen) (k : Nat) :
    match g.fillNext env k with
    | .error e => e = .overflow ∧ umax ≤ g.stop ∧ primesHO g.lo (g.stop + 1) = []
    | .ok (blk, g') =>
        g'.stop = g.stop ∧ g.lo ≤ g'.lo ∧ g'.lo ≤ max g.lo (g.stop + 1) ∧
        blk = primesHO g.lo g'.lo ∧ (∀ x ∈ blk, x ≤ g.stop) ∧
        (blk = [] → primesHO g.lo (g.stop + 1) = [] ∧ g.stop < umax) := by
  unfold IGen.fillNext
  obtain ⟨n, hn, he, hk⟩ := scan_spec env.isPrime (g.stop + 1 - g.lo) g.lo (max k 1) []
  simp only [he, List.reverse_nil, List.nil_append, filter_isPrime_eq h]
  have hnil : primesHO g.lo (g.lo + n) = [] → primesHO g.lo (g.stop + 1) = [] := by
    intro hnil
    rcases hk with hk | hk
    · by_cases hlo : g.lo ≤ g.stop + 1
      · have : g.lo + n = g.stop + 1 := by omega
        rw [← this]; exact hnil
      · exact primesHO_nil_of_le (by omega)
    · rw [filter_isPrime_eq h, hnil] at hk
      simp at hk; omega
  by_cases hc : ((primesHO g.lo (g.lo + n)).isEmpty && decide (g.stop ≥ umax)) = true
  · simp only [hc, if_true]
    simp only [Bool.and_eq_true, List.isEmpty_iff, decide_eq_true_eq] at hc
    exact ⟨trivial, hc.2, hnil hc.1⟩
  · simp only [hc]
    refine ⟨rfl, by simp, by simp; omega, by simp, ?_, ?_⟩
    · intro x hx
      have := mem_primesHO.1 hx
      omega
    · intro hn'
      refine ⟨hnil hn', ?_⟩
      simp only [hn', List.isEmpty_nil, Bool.true_and, decide_eq_true_eq] at hc
      omega

theorem scan_all (isP : Nat → Bool) (fuel pos k : Nat) (acc : List Nat) (hk : fuel ≤ k) :
    scan isP fuel pos k acc = (acc.reverse ++ (List.range' pos fuel).filter isP, pos + fuel) := by
  obtain ⟨n, hn, he, hor⟩ := scan_spec isP fuel pos k acc
  rcases hor with rfl | hlen
  · exact he
  · have h1 : ((List.range' pos n).filter isP).length ≤ n := by
      have := List.length_filter_le isP (List.range' pos n)
      simpa using this
    have : n = fuel := by omega
    rw [this] at he; exact he

/-- What `fillPrev` returns. -/
theorem fillPrev_spec {env : Env} (h : EnvOK env) (a b : Nat) (hab : a ≤ b) :
    fillPrev env a b = (if a ≤ 2 then [0] else []) ++ primesHO a (b + 1) := by
  unfold fillPrev
  rw [scan_all _ _ _ _ _ (Nat.le_refl _)]
  simp only [List.reverse_nil, List.nil_append, filter_isPrime_eq h]
  have : a + (b + 1 - a) = b + 1 := by omega
  rw [this]

end Ps
